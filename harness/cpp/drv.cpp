// drv.cpp — script driver around the real CZ-NIC/c-dns classes (built from /repo's working tree).
// Reads a line-oriented script on stdin, executes each command against the implementation and prints
// one result line per command, in the same format the OCaml driver around the extracted Coq model prints.
// Command groups live in drv_*.inc files; this file has the dispatcher and the shared helpers.
#include <cstdio>
#include <cstdlib>
#include <cstring>
#include <cstdint>
#include <string>
#include <vector>
#include <map>
#include <memory>
#include <sstream>
#include <iostream>
#include <fstream>
#include <functional>
#include <algorithm>
#include <unistd.h>
#include <sys/mman.h>
#include <sys/stat.h>
#include <sys/wait.h>
#include <sys/resource.h>
#include <fcntl.h>
#include <signal.h>
#include <errno.h>

#include "cdns.h"

using namespace CDNS;

// ---------- helpers ----------
static std::string hex(const std::string& s) {
    static const char* d = "0123456789abcdef";
    std::string r; r.reserve(s.size() * 2);
    for (unsigned char c : s) { r.push_back(d[c >> 4]); r.push_back(d[c & 15]); }
    return r;
}
static std::string unhex(const std::string& h) {
    std::string r; if (h == "-") return r;
    r.reserve(h.size() / 2);
    auto v = [](char c) -> int { return c <= '9' ? c - '0' : (c | 32) - 'a' + 10; };
    for (size_t i = 0; i + 1 < h.size(); i += 2) r.push_back(static_cast<char>(v(h[i]) * 16 + v(h[i + 1])));
    return r;
}
static std::string hexo(const std::string& s) { return s.empty() ? "-" : hex(s); }
static std::vector<std::string> split(const std::string& line, char sep = ' ') {
    std::vector<std::string> t; std::string cur;
    for (char c : line) { if (c == sep) { if (!cur.empty() || sep != ' ') t.push_back(cur); cur.clear(); } else cur.push_back(c); }
    if (!cur.empty() || (sep != ' ' && !line.empty())) t.push_back(cur);
    return t;
}
static uint64_t u64(const std::string& s) { return strtoull(s.c_str(), nullptr, 10); }
static int64_t i64(const std::string& s) { return strtoll(s.c_str(), nullptr, 10); }

static int new_memfd() {
    int fd = memfd_create("drv", 0);
    if (fd < 0) { perror("memfd_create"); exit(3); }
    return fd;
}
static std::string read_fd_all(int fd) {
    std::string r; char b[65536];
    lseek(fd, 0, SEEK_SET);
    ssize_t n;
    while ((n = read(fd, b, sizeof b)) > 0) r.append(b, n);
    return r;
}
static std::string read_file_all(const std::string& p, bool& ok) {
    std::ifstream f(p, std::ios::binary); ok = f.good(); if (!ok) return "";
    std::stringstream ss; ss << f.rdbuf(); return ss.str();
}

// exception class -> the outcome classes of the model (Base.err)
static const char* classify(const std::exception& e) {
    if (dynamic_cast<const CdnsDecoderEnd*>(&e)) return "End";
    if (dynamic_cast<const CdnsDecoderException*>(&e)) return "Dec";
    if (dynamic_cast<const CborOutputException*>(&e)) return "Out";
    if (dynamic_cast<const CdnsEncoderException*>(&e)) return "Out";
    if (dynamic_cast<const std::length_error*>(&e)) return "Length";
    if (dynamic_cast<const std::bad_alloc*>(&e)) return "Alloc";
    if (dynamic_cast<const std::runtime_error*>(&e)) return "Run";
    return "Other";
}

typedef std::vector<std::string> Toks;
#define OUT(...) do { printf(__VA_ARGS__); putchar('\n'); } while (0)

#include "drv_enc.inc"
#include "drv_time.inc"
#include "drv_dec.inc"
#include "drv_val.inc"
#include "drv_exp.inc"
#include "drv_blk.inc"
#include "drv_more.inc"

int main(int argc, char** argv) {
    std::ios::sync_with_stdio(true);
    signal(SIGPIPE, SIG_IGN);
    std::string line;
    while (std::getline(std::cin, line)) {
        if (line.empty() || line[0] == '#') continue;
        Toks t = split(line);
        if (t.empty()) continue;
        const std::string& c = t[0];
        try {
            if (c == "CASE") { reset_all(); OUT("CASE %s", t.size() > 1 ? t[1].c_str() : ""); }
            else if (c == "M") OUT("mark %s", t.size() > 1 ? t[1].c_str() : "");
            else if (c == "E") cmd_enc(t);
            else if (c == "T") cmd_time(t);
            else if (c == "D") cmd_dec(t);
            else if (c == "S") cmd_struct(t);
            else if (c == "X") cmd_exp(t);
            else if (c == "F") cmd_file(t);
            else if (c == "B") cmd_blk(t);
            else if (c == "G") cmd_render(t);
            else if (!cmd_more(t)) OUT("? unknown command %s", c.c_str());
        }
        catch (std::exception& e) { OUT("throw %s", classify(e)); }
        fflush(stdout);
    }
    reset_all();
    return 0;
}
