// drvw.cpp — writer-stack driver (C14, C15, C16): the real BaseCborOutputWriter implementations / CdnsExporter on named and
// descriptor outputs inside a private scratch directory, with the output system calls interposed (fopen64/fopen, write, writev,
// fclose, close, rename) so that (a) the sequence of operations on the file system is recorded, (b) a byte budget per output can
// make the operating system short-write and then reject data (ENOSPC), (c) the process can be made to die before its k-th
// output operation.  Built WITHOUT sanitizers (they interpose the same functions).
//   W new name|fd none|gzip|xz <id> [budget]     W write <hex>     W writerep <hexbyte> <count>     W rot <id> [budget]     W end
//   X new name|fd none|gzip|xz <id> <maxitems>   X qr <name-bytes> <n>   X wb   X rot <id> <export> [budget]   X counts   X end     (exporter level)
//   CRASHAT <k>      FAILONCE <k>      SHORTONCE <k> <n>      TRACE      FILES
#define _GNU_SOURCE 1
#include <dlfcn.h>
#include <sys/uio.h>
#include <cstdio>
#include <cstdlib>
#include <cstring>
#include <string>
#include <vector>
#include <map>
#include <memory>
#include <iostream>
#include <sstream>
#include <algorithm>
#include <unistd.h>
#include <fcntl.h>
#include <errno.h>
#include <dirent.h>
#include <sys/stat.h>
#include "cdns.h"
using namespace CDNS;

static std::string g_dir;
static std::map<int, std::string> g_fdpath;           // tracked descriptors -> path relative to the scratch dir
static std::map<std::string, long long> g_budget;     // remaining bytes the "disk" accepts per path (absent: unlimited)
static std::vector<std::string> g_trace;
static long g_ops = 0, g_crash_at = -1;
static long g_writes = 0, g_fail_once = -1;     // FAILONCE k: the k-th data write is rejected once with ENOSPC
static long g_fail_from = -1;                   // FAILFROM k: every data write from the k-th on is rejected with ENOSPC (persistent failure)
static long g_short_once = -1, g_short_n = 0;   // SHORTONCE k n: the k-th data write accepts only n bytes (a short count), once; later writes work
static bool g_in_hook = false;

static std::string rel(const char* p) {
    std::string s(p ? p : "");
    if (s.compare(0, g_dir.size(), g_dir) == 0) { s = s.substr(g_dir.size()); if (!s.empty() && s[0] == '/') s = s.substr(1); return s; }
    return "";
}
static void op_point() { g_ops++; if (g_crash_at > 0 && g_ops == g_crash_at) _exit(77); }
static void ev(const std::string& e) { g_trace.push_back(e); }

typedef FILE* (*fopen_t)(const char*, const char*);
typedef int (*fclose_t)(FILE*);
typedef ssize_t (*write_t)(int, const void*, size_t);
typedef ssize_t (*writev_t)(int, const struct iovec*, int);
typedef int (*close_t)(int);
typedef int (*rename_t)(const char*, const char*);
template<class T> static T real(const char* n) { return reinterpret_cast<T>(dlsym(RTLD_NEXT, n)); }

static FILE* do_fopen(const char* name, const char* path, const char* mode) {
    static fopen_t r64 = real<fopen_t>("fopen64"); static fopen_t r = real<fopen_t>("fopen");
    std::string rp = rel(path);
    bool w = mode && (strchr(mode, 'w') || strchr(mode, 'a'));
    if (!rp.empty() && w && !g_in_hook) { op_point(); ev("open " + rp); }
    FILE* f = (strcmp(name, "fopen64") == 0 ? r64 : r)(path, mode);
    if (f && !rp.empty() && w && !g_in_hook) g_fdpath[fileno(f)] = rp;
    return f;
}
extern "C" FILE* fopen64(const char* path, const char* mode) { return do_fopen("fopen64", path, mode); }
extern "C" FILE* fopen(const char* path, const char* mode) { return do_fopen("fopen", path, mode); }
extern "C" int fclose(FILE* f) {
    static fclose_t r = real<fclose_t>("fclose");
    int fd = f ? fileno(f) : -1;
    auto it = g_fdpath.find(fd);
    if (it != g_fdpath.end() && !g_in_hook) { std::string p = it->second; int rc = r(f); /* may flush through write() */ op_point(); ev("close " + p); g_fdpath.erase(fd); return rc; }
    return r(f);
}
static ssize_t budgeted(int fd, size_t len, size_t& allowed) {
    allowed = len;
    auto it = g_fdpath.find(fd);
    if (it == g_fdpath.end()) return 1;
    auto b = g_budget.find(it->second);
    if (b == g_budget.end()) return 1;
    if ((long long)len <= b->second) { b->second -= len; return 1; }
    if (b->second > 0) { allowed = b->second; b->second = 0; return 1; }
    errno = ENOSPC; return -1;
}
extern "C" ssize_t write(int fd, const void* buf, size_t len) {
    static write_t r = real<write_t>("write");
    auto it = g_fdpath.find(fd);
    if (it == g_fdpath.end() || g_in_hook) return r(fd, buf, len);
    op_point();
    if (++g_writes == g_fail_once) { ev("write " + it->second + " 0/" + std::to_string(len) + " ENOSPC-once"); errno = ENOSPC; return -1; }
    if (g_fail_from > 0 && g_writes >= g_fail_from) { ev("write " + it->second + " 0/" + std::to_string(len) + " ENOSPC-from"); errno = ENOSPC; return -1; }
    size_t allowed; if (budgeted(fd, len, allowed) < 0) { ev("write " + it->second + " 0/" + std::to_string(len) + " ENOSPC"); return -1; }
    if (g_writes == g_short_once && (size_t)g_short_n < allowed) allowed = g_short_n;
    ssize_t n = r(fd, buf, allowed);
    ev("write " + it->second + " " + std::to_string(n) + "/" + std::to_string(len));
    return n;
}
extern "C" ssize_t writev(int fd, const struct iovec* iov, int cnt) {
    static write_t r = real<write_t>("write");
    auto it = g_fdpath.find(fd);
    std::string all;
    for (int i = 0; i < cnt; i++) all.append(static_cast<const char*>(iov[i].iov_base), iov[i].iov_len);
    if (it == g_fdpath.end() || g_in_hook) return r(fd, all.data(), all.size());
    op_point();
    if (++g_writes == g_fail_once) { ev("write " + it->second + " 0/" + std::to_string(all.size()) + " ENOSPC-once"); errno = ENOSPC; return -1; }
    if (g_fail_from > 0 && g_writes >= g_fail_from) { ev("write " + it->second + " 0/" + std::to_string(all.size()) + " ENOSPC-from"); errno = ENOSPC; return -1; }
    size_t allowed; if (budgeted(fd, all.size(), allowed) < 0) { ev("write " + it->second + " 0/" + std::to_string(all.size()) + " ENOSPC"); return -1; }
    if (g_writes == g_short_once && (size_t)g_short_n < allowed) allowed = g_short_n;
    ssize_t n = r(fd, all.data(), allowed);
    ev("write " + it->second + " " + std::to_string(n) + "/" + std::to_string(all.size()));
    return n;
}
extern "C" int close(int fd) {
    static close_t r = real<close_t>("close");
    auto it = g_fdpath.find(fd);
    if (it != g_fdpath.end() && !g_in_hook) { op_point(); ev("close " + it->second); g_fdpath.erase(it); }
    return r(fd);
}
extern "C" int rename(const char* a, const char* b) {
    static rename_t r = real<rename_t>("rename");
    std::string ra = rel(a), rb = rel(b);
    if (!ra.empty() && !g_in_hook) { op_point(); ev("rename " + ra + " " + rb); }
    return r(a, b);
}

// ---------------------------------------------------------------------------------------------------------------------
static std::string unhex(const std::string& h) {
    std::string r; if (h == "-") return r;
    auto v = [](char c) -> int { return c <= '9' ? c - '0' : (c | 32) - 'a' + 10; };
    for (size_t i = 0; i + 1 < h.size(); i += 2) r.push_back(static_cast<char>(v(h[i]) * 16 + v(h[i + 1])));
    return r;
}
static std::vector<std::string> split(const std::string& line) {
    std::vector<std::string> t; std::istringstream ss(line); std::string w; while (ss >> w) t.push_back(w); return t;
}
static const char* classify(const std::exception& e) {
    if (dynamic_cast<const CborOutputException*>(&e)) return "Out";
    if (dynamic_cast<const CdnsEncoderException*>(&e)) return "Out";
    return "Other";
}
#define OUT(...) do { printf(__VA_ARGS__); putchar('\n'); fflush(stdout); } while (0)

static std::unique_ptr<BaseCborOutputWriter> g_w;
static std::unique_ptr<CdnsExporter> g_x;
static bool g_named = true;
static std::string g_ext;
static int open_fd_target(const std::string& id, const std::string& budget) {
    std::string rp = "fd" + id;
    g_in_hook = true;
    int fd = ::open((g_dir + "/" + rp).c_str(), O_WRONLY | O_CREAT | O_TRUNC, 0644);
    g_in_hook = false;
    g_fdpath[fd] = rp;
    if (!budget.empty()) g_budget[rp] = atoll(budget.c_str());
    return fd;
}
static CborOutputCompression comp_of(const std::string& c) { return c == "gzip" ? CborOutputCompression::GZIP : c == "xz" ? CborOutputCompression::XZ : CborOutputCompression::NO_COMPRESSION; }
static GenericQueryResponse mk_qr(const std::string& name, uint64_t n) {
    GenericQueryResponse g; g.ts = Timestamp(1600000000 + n, 0); g.query_name = name; g.client_port = static_cast<uint16_t>(n); g.client_ip = std::string("\x0a\x00\x00\x01", 4); return g;
}

int main() {
    const char* d = getenv("DRV_SCRATCH"); if (!d) { fprintf(stderr, "DRV_SCRATCH not set\n"); return 3; }
    g_dir = d;
    std::string line;
    while (std::getline(std::cin, line)) {
        std::vector<std::string> t = split(line);
        if (t.empty()) continue;
        try {
            if (t[0] == "CASE") { OUT("CASE %s", t.size() > 1 ? t[1].c_str() : ""); }
            else if (t[0] == "CRASHAT") { g_crash_at = atol(t[1].c_str()); OUT("ok"); }
            else if (t[0] == "FAILONCE") { g_fail_once = atol(t[1].c_str()); OUT("ok"); }
            else if (t[0] == "FAILFROM") { g_fail_from = atol(t[1].c_str()); OUT("ok"); }
            else if (t[0] == "SHORTONCE") { g_short_once = atol(t[1].c_str()); g_short_n = atol(t[2].c_str()); OUT("ok"); }
            else if (t[0] == "PRE") {            // a file that exists before: PRE <relpath> <hex>
                g_in_hook = true; { FILE* f = fopen((g_dir + "/" + t[1]).c_str(), "wb"); std::string s = unhex(t[2]); fwrite(s.data(), 1, s.size(), f); fclose(f); } g_in_hook = false; OUT("ok");
            }
            else if (t[0] == "W" && t[1] == "new") {
                g_named = t[2] == "name"; std::string c = t[3]; g_ext = c == "gzip" ? ".gz" : c == "xz" ? ".xz" : "";
                std::string budget = t.size() > 5 ? t[5] : "";
                if (g_named) {
                    std::string nm = g_dir + "/out" + t[4];
                    if (!budget.empty()) g_budget["out" + t[4] + g_ext + ".part"] = atoll(budget.c_str());
                    if (c == "gzip") g_w.reset(new GzipCborOutputWriter(nm)); else if (c == "xz") g_w.reset(new XzCborOutputWriter(nm)); else g_w.reset(new CborOutputWriter(nm));
                } else {
                    int fd = open_fd_target(t[4], budget);
                    if (c == "gzip") g_w.reset(new GzipCborOutputWriter(fd)); else if (c == "xz") g_w.reset(new XzCborOutputWriter(fd)); else g_w.reset(new CborOutputWriter(fd));
                }
                OUT("ok");
            }
            else if (t[0] == "W" && (t[1] == "write" || t[1] == "writerep")) {
                std::string s = t[1] == "write" ? unhex(t[2]) : std::string(static_cast<size_t>(atoll(t[3].c_str())), static_cast<char>(strtoul(t[2].c_str(), nullptr, 16)));
                g_w->write(s.data(), s.size()); OUT("ok");
            }
            else if (t[0] == "W" && t[1] == "writepat") {      // W writepat <cnt|mix> <seed> <n>: n bytes of 32-bit little-endian words, word i = i + seed | i * 0x9E3779B1 + seed
                uint32_t seed = static_cast<uint32_t>(strtoul(t[3].c_str(), nullptr, 10)); size_t n = static_cast<size_t>(atoll(t[4].c_str()));
                std::string s((n + 3) / 4 * 4, '\0');
                for (size_t i = 0; i * 4 < s.size(); i++) {
                    uint32_t w = t[2] == "cnt" ? static_cast<uint32_t>(i) + seed : static_cast<uint32_t>(i) * 0x9E3779B1u + seed;
                    s[4 * i] = static_cast<char>(w & 0xff); s[4 * i + 1] = static_cast<char>((w >> 8) & 0xff); s[4 * i + 2] = static_cast<char>((w >> 16) & 0xff); s[4 * i + 3] = static_cast<char>(w >> 24);
                }
                s.resize(n);
                g_w->write(s.data(), s.size()); OUT("ok");
            }
            else if (t[0] == "W" && t[1] == "rot") {
                std::string budget = t.size() > 3 ? t[3] : "";
                if (g_named) { if (!budget.empty()) g_budget["out" + t[2] + g_ext + ".part"] = atoll(budget.c_str()); g_w->rotate_output(std::string(g_dir + "/out" + t[2])); }
                else { int fd = open_fd_target(t[2], budget); g_w->rotate_output(fd); }
                OUT("ok");
            }
            else if (t[0] == "W" && t[1] == "end") { g_w.reset(); OUT("ok"); }
            else if (t[0] == "X" && t[1] == "new") {
                g_named = t[2] == "name"; std::string c = t[3]; g_ext = c == "gzip" ? ".gz" : c == "xz" ? ".xz" : "";
                FilePreamble fp; fp.m_block_parameters[0].storage_parameters.max_block_items = strtoull(t[5].c_str(), nullptr, 10);
                std::string budget = t.size() > 6 ? t[6] : "";
                if (g_named) { if (!budget.empty()) g_budget["out" + t[4] + g_ext + ".part"] = atoll(budget.c_str()); g_x.reset(new CdnsExporter(fp, std::string(g_dir + "/out" + t[4]), comp_of(c))); }
                else { int fd = open_fd_target(t[4], budget); g_x.reset(new CdnsExporter(fp, fd, comp_of(c))); }
                OUT("ok");
            }
            else if (t[0] == "X" && t[1] == "qr") { std::size_t r = g_x->buffer_qr(mk_qr(unhex(t[2]), strtoull(t[3].c_str(), nullptr, 10))); OUT("r %zu", r); }
            else if (t[0] == "X" && t[1] == "aec") {     // X aec <address hex> <type> <count>
                GenericAddressEventCount a; a.ip_address = unhex(t[2]); a.ae_type = static_cast<AddressEventTypeValues>(atoi(t[3].c_str())); a.ae_count = strtoull(t[4].c_str(), nullptr, 10);
                std::size_t r = g_x->buffer_aec(a); OUT("r %zu", r);
            }
            else if (t[0] == "X" && t[1] == "mm") {      // X mm <payload hex> <n>
                uint64_t n = strtoull(t[3].c_str(), nullptr, 10);
                GenericMalformedMessage m; m.ts = Timestamp(1600000000 + n, 0); m.client_ip = std::string("\x0a\x00\x00\x02", 4); m.client_port = static_cast<uint16_t>(n); m.mm_payload = unhex(t[2]);
                std::size_t r = g_x->buffer_mm(m); OUT("r %zu", r);
            }
            else if (t[0] == "X" && t[1] == "wb") { std::size_t r = g_x->write_block(); OUT("r %zu", r); }
            else if (t[0] == "X" && t[1] == "rot") {
                std::string budget = t.size() > 4 ? t[4] : ""; std::size_t r;
                if (g_named) { if (!budget.empty()) g_budget["out" + t[2] + g_ext + ".part"] = atoll(budget.c_str()); r = g_x->rotate_output(std::string(g_dir + "/out" + t[2]), t[3] != "0"); }
                else { int fd = open_fd_target(t[2], budget); r = g_x->rotate_output(fd, t[3] != "0"); }
                OUT("r %zu", r);
            }
            else if (t[0] == "X" && t[1] == "counts") OUT("c %zu %zu", g_x->get_block_item_count(), g_x->get_blocks_written_count());
            else if (t[0] == "X" && t[1] == "end") { g_x.reset(); OUT("ok"); }
            else if (t[0] == "PREAMBLE") {      // the serialised default FilePreamble with the given max_block_items (what 'X new' uses)
                FilePreamble fp; fp.m_block_parameters[0].storage_parameters.max_block_items = strtoull(t[1].c_str(), nullptr, 10);
                g_in_hook = true;
                std::string path = g_dir + "/.preamble";
                { int fd = ::open(path.c_str(), O_CREAT | O_TRUNC | O_WRONLY, 0600); CdnsEncoder e(fd, CborOutputCompression::NO_COMPRESSION); fp.write(e); }
                std::string all; { FILE* f = ::fopen(path.c_str(), "rb"); char b[4096]; size_t n; while (f && (n = fread(b, 1, sizeof b, f)) > 0) all.append(b, n); if (f) ::fclose(f); }
                ::unlink(path.c_str());
                g_in_hook = false;
                static const char* hx = "0123456789abcdef"; std::string h; for (unsigned char c : all) { h += hx[c >> 4]; h += hx[c & 15]; }
                OUT("pre %s", h.c_str());
            }
            else if (t[0] == "TRACE") { for (auto& e : g_trace) OUT("ev %s", e.c_str()); OUT("endtrace"); }
            else OUT("? unknown command");
        }
        catch (std::exception& e) { OUT("throw %s", classify(e)); }
    }
    // objects that the script did not destroy are abandoned, not destroyed (the process simply ends)
    fflush(stdout);
    _exit(0);
}
