(* further command groups, added as the model grows *)
let reset () = ()
let cmd_more (_c : string) (_t : string list) : bool = false
