open Model
open Util
(* ---------- ENC group ---------- *)
let g_enc : enc option ref = ref None
let cmd_enc (t : string list) =
  match t with
  | ["new"] -> g_enc := Some enc_init; out "ok"
  | ["end"] ->
    (match !g_enc with None -> out "? no encoder" | Some e ->
      let e' = flush e in
      out ("out " ^ hex_of_bytes (stream e')); g_enc := None)
  | o :: args ->
    (match !g_enc with None -> out "? no encoder" | Some e ->
      let a () = List.hd args in
      let op = match o with
        | "arr" -> Some (OArr (n_of_dec (a ()))) | "iarr" -> Some OIndefArr
        | "map" -> Some (OMap (n_of_dec (a ()))) | "imap" -> Some OIndefMap
        | "bytes" | "bytesp" -> Some (OBytes (bytes_of_hex (a ()))) | "text" | "textp" -> Some (OText (bytes_of_hex (a ())))
        | "break" -> Some OBreak | "bool" -> Some (OBool (a () <> "0"))
        | "u8" -> Some (OU8 (n_of_dec (a ()))) | "u16" -> Some (OU16 (n_of_dec (a ())))
        | "u32" -> Some (OU32 (n_of_dec (a ()))) | "u64" -> Some (OU64 (n_of_dec (a ())))
        | "i8" -> Some (OI8 (z_of_dec (a ()))) | "i16" -> Some (OI16 (z_of_dec (a ())))
        | "i32" -> Some (OI32 (z_of_dec (a ()))) | "i64" -> Some (OI64 (z_of_dec (a ())))
        | _ -> None in
      match op with None -> out ("? unknown enc op " ^ o) | Some op ->
        let (e', r) = estep e op in g_enc := Some e'; out ("r " ^ dec_of_n r))
  | [] -> out "? empty"

