(* util.ml — helpers of the script driver around the OCaml extraction of the Coq model (coq/extracted/model.ml).
   Executes the same line-oriented scripts as harness/cpp/drv.cpp and prints results in the same format. *)
open Model

(* ---------- conversions between OCaml values and the extracted N / Z / nat ---------- *)
let rec pos_of_int i = if i = 1 then XH else if i land 1 = 0 then XO (pos_of_int (i lsr 1)) else XI (pos_of_int (i lsr 1))
let n_of_int i = if i = 0 then N0 else Npos (pos_of_int i)
let rec int_of_pos = function XH -> 1 | XO p -> 2 * int_of_pos p | XI p -> 2 * int_of_pos p + 1
let int_of_n = function N0 -> 0 | Npos p -> int_of_pos p
let rec nat_of_int i = let rec go acc i = if i = 0 then acc else go (S acc) (i - 1) in go O i
let int_of_nat n = let rec go acc = function O -> acc | S m -> go (acc + 1) m in go 0 n
let n10 = n_of_int 10
let n_of_dec (s : string) : n =
  let acc = ref N0 in
  String.iter (fun c -> if c >= '0' && c <= '9' then acc := N.add (N.mul !acc n10) (n_of_int (Char.code c - 48))) s;
  !acc
let dec_of_n (v : n) : string =
  if v = N0 then "0" else begin
    let b = Buffer.create 24 in
    let rec go v acc = if v = N0 then acc else
      let (q, r) = N.div_eucl v n10 in go q (Char.chr (48 + int_of_n r) :: acc) in
    List.iter (Buffer.add_char b) (go v []); Buffer.contents b end
let z_of_dec (s : string) : z =
  if String.length s > 0 && s.[0] = '-' then Z.opp (Z.of_N (n_of_dec (String.sub s 1 (String.length s - 1))))
  else Z.of_N (n_of_dec s)
let dec_of_z (v : z) : string =
  match v with Z0 -> "0" | Zpos p -> dec_of_n (Npos p) | Zneg p -> "-" ^ dec_of_n (Npos p)
let byte_tab = Array.init 256 n_of_int
let hexv c = if c <= '9' then Char.code c - 48 else (Char.code c lor 32) - 97 + 10
let bytes_of_hex (h : string) : n list =
  if h = "-" then [] else begin
    let l = String.length h / 2 in
    let r = ref [] in
    for i = l - 1 downto 0 do r := byte_tab.(hexv h.[2*i] * 16 + hexv h.[2*i+1]) :: !r done; !r end
let hex_of_bytes (bs : n list) : string =
  match bs with [] -> "-" | _ ->
  let b = Buffer.create 64 in
  List.iter (fun x -> Buffer.add_string b (Printf.sprintf "%02x" (int_of_n x land 255))) bs; Buffer.contents b
let split_ws (s : string) : string list = List.filter (fun x -> x <> "") (String.split_on_char ' ' s)
let out s = print_string s; print_char '\n'

