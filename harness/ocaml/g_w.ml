open Model
open Util
(* W group — writer stack (see harness/cppw/drvw.cpp).  The model side accumulates the calls and evaluates the extracted
   definitions of coq/Writer.v: named_trace / fd_trace (events), czip (compression wrappers, with an opaque codec: the
   lengths of compressed writes are printed as ?), fd_calls / named_calls (outcomes and stored bytes under byte budgets). *)
type st = { named : bool; comp : string; id0 : n; budget0 : n option; mutable calls : (string * n list * n * n option) list; mutable ended : bool }
let g_w : st option ref = ref None
let reset_w () = g_w := None
let huge = n_of_dec "1000000000000000"
let ext c = match c with "gzip" -> ".gz" | "xz" -> ".xz" | _ -> ""

let wops (s : st) : wop list =
  List.map (fun (k, bs, id, _) -> if k = "w" then WWrite bs else WRotate id) (List.rev s.calls)
let wcalls (s : st) : wcall list =
  List.map (fun (k, bs, _, b) -> if k = "w" then CWrite bs else CRotate (match b with Some b -> b | None -> huge)) (List.rev s.calls)

let path_str (s : st) = function
  | Part n -> "out" ^ dec_of_n n ^ ext s.comp ^ ".part"
  | Final n -> "out" ^ dec_of_n n ^ ext s.comp
  | Fd n -> "fd" ^ dec_of_n n

let last_outcome (s : st) : string =
  let b0 = match s.budget0 with Some b -> b | None -> huge in
  let ocs = if s.named then (let ((_, _), o) = named_calls { n_out = fout_new b0; n_bad = false } (wcalls s) in o)
            else (let ((_, _), o) = fd_calls (fout_new b0) (wcalls s) in o) in
  match List.rev ocs with Threw :: _ -> "throw Out" | _ -> "ok"

let cmd_w (t : string list) =
  match t with
  | "new" :: kind :: comp :: id :: rest ->
    g_w := Some { named = (kind = "name"); comp; id0 = n_of_dec id; budget0 = (match rest with b :: _ -> Some (n_of_dec b) | [] -> None); calls = []; ended = false };
    out "ok"
  | _ ->
  match !g_w with None -> out "? no writer" | Some s ->
  match t with
  | ["write"; h] -> s.calls <- ("w", bytes_of_hex h, N0, None) :: s.calls; out (last_outcome s)
  | ["writerep"; b; cnt] ->
    let f = byte_tab.(int_of_string ("0x" ^ b)) in
    s.calls <- ("w", List.init (int_of_string cnt) (fun _ -> f), N0, None) :: s.calls; out (last_outcome s)
  | ["writepat"; kind; seed; cnt] ->      (* cnt bytes of little-endian 32-bit words: word i = i + seed (cnt) or i * 0x9E3779B1 + seed (mix) *)
    let seed = int_of_string seed and n = int_of_string cnt in
    let word i = (if kind = "cnt" then i + seed else i * 0x9E3779B1 + seed) land 0xffffffff in
    s.calls <- ("w", List.init n (fun j -> byte_tab.((word (j / 4) lsr (8 * (j mod 4))) land 0xff)), N0, None) :: s.calls; out (last_outcome s)
  | "rot" :: id :: rest -> s.calls <- ("r", [], n_of_dec id, (match rest with b :: _ -> Some (n_of_dec b) | [] -> None)) :: s.calls; out "ok"
  | ["end"] -> s.ended <- true; out "ok"
  | _ -> out "? bad writer command"

(* XW group — the EXPORTER on top of the writer stack (drvw's 'X' commands): the model runs the exporter (coq/Exporter.v), derives the calls
   its encoder makes on the output writer from the flushed chunks (coq/ExporterIO.v: run_wops / destroy_wops) and feeds them to the same
   writer models as the W group; TRACE then prints the events the whole stack must produce.
     XW new name|fd none|gzip|xz <id> <FilePreamble value>   XW qr <name hex> <n>   XW wb   XW rot <id> <export>   XW end *)
type xst = { xnamed : bool; xcomp : string; xid0 : n; x0 : exporter; mutable xcur : exporter; mutable xops : xop list; mutable xids : n list; mutable xended : bool;
             mutable fx : fx option;                 (* descriptor output under a fault plan (coq/ExporterFaults.v): every call goes through fstep *)
             mutable fids : n list }                 (* ids of the outputs, the open one last *)
let g_xw : xst option ref = ref None
(* the fault plan named by FAILONCE k / SHORTONCE k n / FAILFROM k (the k-th write(2) of the scenario) *)
let g_plan : os ref = ref { os_plan = []; os_rest = None }
let rec nones k = if k <= 0 then [] else None :: nones (k - 1)
let set_plan (t : string list) =
  (match t with
   | ["FAILONCE"; k] -> g_plan := { os_plan = nones (int_of_string k - 1) @ [Some N0]; os_rest = None }
   | ["SHORTONCE"; k; n] -> g_plan := { os_plan = nones (int_of_string k - 1) @ [Some (n_of_dec n)]; os_rest = None }
   | ["FAILFROM"; k] -> g_plan := { os_plan = nones (int_of_string k - 1); os_rest = Some N0 }
   | _ -> ());
  out "ok"
let mk_gqr (name : n list) (k : n) : val0 option list =
  let base = n_of_dec "1600000000" in
  List.init 39 (fun i -> match i with
    | 0 -> Some (VL [VN (N.add base k); VN N0])
    | 1 -> Some (VS (bytes_of_hex "0a000001"))
    | 2 -> Some (VN (snd (N.div_eucl k (n_of_dec "65536"))))
    | 23 -> Some (VS name)
    | _ -> None)
let mk_gaec (ip : n list) (ty : n) (cnt : n) : val0 option list = [Some (VN ty); None; None; Some (VS ip); Some (VN cnt)]
let mk_gmm (payload : n list) (k : n) : val0 option list =
  [Some (VL [VN (N.add (n_of_dec "1600000000") k); VN N0]); Some (VS (bytes_of_hex "0a000002")); Some (VN (snd (N.div_eucl k (n_of_dec "65536")))); None; None; None; Some (VS payload)]
let cmd_xw (t : string list) =
  match t with
  | "new" :: kind :: comp :: id :: rest ->
    let (pre, _) = G_val.parse_v rest in
    let x = x_new pre in
    g_w := None;
    let faulty = kind = "fd" && comp = "none" && ((!g_plan).os_plan <> [] || (!g_plan).os_rest <> None) in
    g_xw := Some { xnamed = (kind = "name"); xcomp = comp; xid0 = n_of_dec id; x0 = x; xcur = x; xops = []; xids = []; xended = false;
                   fx = (if faulty then Some (fx_new pre !g_plan) else None); fids = [n_of_dec id] };
    out "ok"
  | _ ->
  match !g_xw with None -> out "? no exporter" | Some s ->
  match s.fx with
  | Some f0 ->
    (* under a fault plan: results per call, 'throw Out' for an exception *)
    let fstp o = let ((f1, oc), r) = fstep f0 o in s.fx <- Some f1; s.xcur <- f1.f_x;
                 (match oc with Done -> out ("r " ^ dec_of_n r) | Threw -> out "throw Out"); oc in
    (match t with
     | ["qr"; h; k] -> ignore (fstp (XQr (mk_gqr (bytes_of_hex h) (n_of_dec k), None)))
     | ["aec"; h; ty; c] -> ignore (fstp (XAec (mk_gaec (bytes_of_hex h) (n_of_dec ty) (n_of_dec c), None)))
     | ["mm"; h; k] -> ignore (fstp (XMm (mk_gmm (bytes_of_hex h) (n_of_dec k), None)))
     | ["wb"] -> ignore (fstp XWb)
     | "rot" :: id :: e :: _ -> (match fstp (XRot (e <> "0")) with Done -> s.fids <- s.fids @ [n_of_dec id] | Threw -> ())
     | ["counts"] -> out (Printf.sprintf "c %s %s" (dec_of_n (item_count s.xcur.x_blk)) (dec_of_n s.xcur.x_written))
     | ["end"] -> s.xended <- true; out "ok"
     | ["files"] ->
       (* what every descriptor holds: the closed outputs oldest first, then the open one (after destruction when ended) *)
       let f = (match s.fx with Some f -> f | None -> f0) in
       let closed = List.rev_map fst f.f_closed in
       let last = if s.xended then fdestroy f else f.f_cur in
       List.iteri (fun i (o : dout) -> out (Printf.sprintf "file fd%s %s" (dec_of_n (List.nth s.fids i)) (hex_of_bytes o.d_stored))) (closed @ [last])
     | _ -> out "? bad exporter command")
  | None ->
  let step o = let (x', r) = xstep s.xcur o in s.xcur <- x'; s.xops <- s.xops @ [o]; r in
  match t with
  | ["qr"; h; k] -> let r = step (XQr (mk_gqr (bytes_of_hex h) (n_of_dec k), None)) in out ("r " ^ dec_of_n r)
  | ["aec"; h; ty; c] -> let r = step (XAec (mk_gaec (bytes_of_hex h) (n_of_dec ty) (n_of_dec c), None)) in out ("r " ^ dec_of_n r)
  | ["mm"; h; k] -> let r = step (XMm (mk_gmm (bytes_of_hex h) (n_of_dec k), None)) in out ("r " ^ dec_of_n r)
  | ["wb"] -> let r = step XWb in out ("r " ^ dec_of_n r)
  | "rot" :: id :: e :: _ -> s.xids <- s.xids @ [n_of_dec id]; let r = step (XRot (e <> "0")) in out ("r " ^ dec_of_n r)
  | ["counts"] -> out (Printf.sprintf "c %s %s" (dec_of_n (item_count s.xcur.x_blk)) (dec_of_n s.xcur.x_written))
  | ["end"] -> s.xended <- true; out "ok"
  | _ -> out "? bad exporter command"

let print_events named comp id0 ops ended =
    let s = { named; comp; id0; budget0 = None; calls = []; ended } in
    let ops = if comp = "none" then ops else czip () (fun () _ -> ((), [byte_tab.(63)])) (fun () -> [byte_tab.(63)]) () ops ended in
    let evs = if named then named_trace id0 ops ended else fd_trace id0 ops ended in
    List.iter (fun e -> match e with
      | EOpen p -> out ("ev open " ^ path_str s p)
      | EWrite (p, bs) -> let l = if comp = "none" then string_of_int (List.length bs) else "?" in out ("ev write " ^ path_str s p ^ " " ^ l ^ "/" ^ l)
      | EClose p -> out ("ev close " ^ path_str s p)
      | ERename n -> out ("ev rename " ^ path_str s (Part n) ^ " " ^ path_str s (Final n))) evs;
    out "endtrace"

let trace () =
  match !g_xw with
  | Some s ->
    let ops = run_wops s.x0 s.xops s.xids @ (if s.xended then destroy_wops s.xcur else []) in
    print_events s.xnamed s.xcomp s.xid0 ops s.xended
  | None ->
  match !g_w with None -> out "endtrace" | Some s ->
    let ops = wops s in
    let ops = if s.comp = "none" then ops else czip () (fun () _ -> ((), [byte_tab.(63)])) (fun () -> [byte_tab.(63)]) () ops s.ended in
    let evs = if s.named then named_trace s.id0 ops s.ended else fd_trace s.id0 ops s.ended in
    List.iter (fun e -> match e with
      | EOpen p -> out ("ev open " ^ path_str s p)
      | EWrite (p, bs) -> let l = if s.comp = "none" then string_of_int (List.length bs) else "?" in out ("ev write " ^ path_str s p ^ " " ^ l ^ "/" ^ l)
      | EClose p -> out ("ev close " ^ path_str s p)
      | ERename n -> out ("ev rename " ^ path_str s (Part n) ^ " " ^ path_str s (Final n))) evs;
    out "endtrace"

let reset () = reset_w (); g_xw := None; g_plan := { os_plan = []; os_rest = None }
