open Model
open Util
(* W group — writer stack (see harness/cppw/drvw.cpp).  The model side accumulates the calls and evaluates the extracted
   definitions of coq/Writer.v: named_trace / fd_trace (events), czip (compression wrappers, with an opaque codec: the
   lengths of compressed writes are printed as ?), fd_calls / named_calls (outcomes and stored bytes under byte budgets). *)
type st = { named : bool; comp : string; id0 : n; budget0 : n option; mutable calls : (string * n list * n * n option) list; mutable ended : bool }
let g_w : st option ref = ref None
let reset () = g_w := None
let huge = n_of_dec "1000000000000000"
let ext c = match c with "gzip" -> ".gz" | "xz" -> ".xz" | _ -> ""

let wops (s : st) : wop list =
  List.map (fun (k, bs, id, _) -> if k = "w" then WWrite bs else WRotate id) (List.rev s.calls)
let wcalls (s : st) : wcall list =
  List.map (fun (k, bs, _, b) -> if k = "w" then CWrite bs else CRotate (match b with Some b -> b | None -> huge)) (List.rev s.calls)

let path_str (s : st) = function
  | Part n -> "out" ^ dec_of_n n ^ ext s.comp ^ ".part"
  | Final n -> "out" ^ dec_of_n n ^ ext s.comp
  | Fd n -> "fd" ^ dec_of_n n

let last_outcome (s : st) : string =
  let b0 = match s.budget0 with Some b -> b | None -> huge in
  let ocs = if s.named then (let ((_, _), o) = named_calls { n_out = fout_new b0; n_bad = false } (wcalls s) in o)
            else (let ((_, _), o) = fd_calls (fout_new b0) (wcalls s) in o) in
  match List.rev ocs with Threw :: _ -> "throw Out" | _ -> "ok"

let cmd_w (t : string list) =
  match t with
  | "new" :: kind :: comp :: id :: rest ->
    g_w := Some { named = (kind = "name"); comp; id0 = n_of_dec id; budget0 = (match rest with b :: _ -> Some (n_of_dec b) | [] -> None); calls = []; ended = false };
    out "ok"
  | _ ->
  match !g_w with None -> out "? no writer" | Some s ->
  match t with
  | ["write"; h] -> s.calls <- ("w", bytes_of_hex h, N0, None) :: s.calls; out (last_outcome s)
  | ["writerep"; b; cnt] ->
    let f = byte_tab.(int_of_string ("0x" ^ b)) in
    s.calls <- ("w", List.init (int_of_string cnt) (fun _ -> f), N0, None) :: s.calls; out (last_outcome s)
  | "rot" :: id :: rest -> s.calls <- ("r", [], n_of_dec id, (match rest with b :: _ -> Some (n_of_dec b) | [] -> None)) :: s.calls; out "ok"
  | ["end"] -> s.ended <- true; out "ok"
  | _ -> out "? bad writer command"

let trace () =
  match !g_w with None -> out "endtrace" | Some s ->
    let ops = wops s in
    let ops = if s.comp = "none" then ops else czip () (fun () _ -> ((), [byte_tab.(63)])) (fun () -> [byte_tab.(63)]) () ops s.ended in
    let evs = if s.named then named_trace s.id0 ops s.ended else fd_trace s.id0 ops s.ended in
    List.iter (fun e -> match e with
      | EOpen p -> out ("ev open " ^ path_str s p)
      | EWrite (p, bs) -> let l = if s.comp = "none" then string_of_int (List.length bs) else "?" in out ("ev write " ^ path_str s p ^ " " ^ l ^ "/" ^ l)
      | EClose p -> out ("ev close " ^ path_str s p)
      | ERename n -> out ("ev rename " ^ path_str s (Part n) ^ " " ^ path_str s (Final n))) evs;
    out "endtrace"
