open Model
open Util
(* generic values:  N<dec> Z<dec> T F X<hex>|X- L[ v* ] R[ (v|_)* ]  — see harness/cpp/drv_val.inc *)
exception Bad of string
let rec parse_ov (t : string list) : val0 option * string list =
  match t with
  | "_" :: r -> (None, r)
  | _ -> let (v, r) = parse_v t in (Some v, r)
and parse_v (t : string list) : val0 * string list =
  match t with
  | "T" :: r -> (VB true, r)
  | "F" :: r -> (VB false, r)
  | "L[" :: r ->
    let rec go acc r = match r with
      | "]" :: r' -> (VL (List.rev acc), r')
      | _ -> let (v, r') = parse_v r in go (v :: acc) r' in
    go [] r
  | "R[" :: r ->
    let rec go acc r = match r with
      | "]" :: r' -> (VR (List.rev acc), r')
      | _ -> let (v, r') = parse_ov r in go (v :: acc) r' in
    go [] r
  | w :: r when String.length w > 0 && w.[0] = 'N' -> (VN (n_of_dec (String.sub w 1 (String.length w - 1))), r)
  | w :: r when String.length w > 0 && w.[0] = 'Z' -> (VZ (z_of_dec (String.sub w 1 (String.length w - 1))), r)
  | w :: r when String.length w > 0 && w.[0] = 'X' -> (VS (bytes_of_hex (String.sub w 1 (String.length w - 1))), r)
  | w :: _ -> raise (Bad w)
  | [] -> raise (Bad "<end>")

let rec show_v (b : Buffer.t) (v : val0) : unit =
  match v with
  | VN n -> Buffer.add_string b ("N" ^ dec_of_n n)
  | VZ z -> Buffer.add_string b ("Z" ^ dec_of_z z)
  | VB x -> Buffer.add_string b (if x then "T" else "F")
  | VS s -> Buffer.add_string b ("X" ^ hex_of_bytes s)
  | VL xs -> Buffer.add_string b "L["; List.iter (fun x -> Buffer.add_char b ' '; show_v b x) xs; Buffer.add_string b " ]"
  | VR fs -> Buffer.add_string b "R[";
    List.iter (fun x -> Buffer.add_char b ' '; (match x with None -> Buffer.add_char b '_' | Some v -> show_v b v)) fs;
    Buffer.add_string b " ]"
let string_of_val v = let b = Buffer.create 256 in show_v b v; Buffer.contents b

let struct_ty = function
  | "StorageHints" -> Some storageHints | "StorageParameters" -> Some storageParameters
  | "CollectionParameters" -> Some collectionParameters | "BlockParameters" -> Some blockParameters
  | "FilePreamble" -> Some filePreamble | "ClassType" -> Some classType
  | "QueryResponseSignature" -> Some queryResponseSignature | "Question" -> Some question | "RR" -> Some rR
  | "MalformedMessageData" -> Some malformedMessageData | "ResponseProcessingData" -> Some responseProcessingData
  | "QueryResponseExtended" -> Some queryResponseExtended | "BlockPreamble" -> Some blockPreamble
  | "BlockStatistics" -> Some blockStatistics | "QueryResponse" -> Some queryResponse
  | "AddressEventCount" -> Some addressEventCount | "MalformedMessage" -> Some malformedMessage
  | "Timestamp" -> Some TTime | "IndexListItem" -> Some TIdx
  | "BlockTables" -> Some blockTables | "Block" -> Some block
  | _ -> None

let all_structs = ["StorageHints"; "StorageParameters"; "CollectionParameters"; "BlockParameters"; "FilePreamble"; "ClassType";
  "QueryResponseSignature"; "Question"; "RR"; "MalformedMessageData"; "ResponseProcessingData"; "QueryResponseExtended";
  "BlockPreamble"; "BlockStatistics"; "QueryResponse"; "AddressEventCount"; "MalformedMessage"; "Timestamp"; "IndexListItem";
  "BlockTables"; "Block"]
let rec show_ty (b : Buffer.t) (t : ty) : unit =
  let add = Buffer.add_string b in
  match t with
  | TU bits -> add ("U" ^ dec_of_n bits) | TI -> add "I" | TBool -> add "B" | TText -> add "T" | TBytes -> add "Y"
  | TTime -> add "TIME" | TIdx -> add "IDX"
  | TArr e -> add "A( "; show_ty b e; add " )"
  | TMap (sk, _, fs) ->
    add (if sk then "Ms(" else "Mu(");
    let rec go = function
      | FNil -> ()
      | FCons (k, p, t, r) ->
        add (" " ^ dec_of_z k ^ " " ^ (match p with Mand -> "mand" | MandNE -> "mandne" | Always -> "always" | Opt -> "opt" | NonEmpty -> "nonempty") ^ " ");
        show_ty b t; go r in
    go fs; add " )"

let cmd_struct (t : string list) =
  match t with
  | ["schema"] ->
    List.iter (fun nm -> match struct_ty nm with None -> () | Some ty ->
      let b = Buffer.create 256 in show_ty b ty; out ("ty " ^ nm ^ " " ^ Buffer.contents b)) all_structs
  | "w" :: nm :: rest ->
    (match struct_ty nm with None -> out "? bad struct command" | Some ty ->
      let (v, _) = parse_v rest in
      let (bytes, r) = write_struct ty v in
      out ("r " ^ dec_of_n r); out ("out " ^ hex_of_bytes bytes))
  | "wr" :: nm :: rest ->
    (match struct_ty nm with None -> out "? bad struct command" | Some ty ->
      let (v, _) = parse_v rest in
      let (data, r) = write_struct ty v in
      out ("r " ^ dec_of_n r); out ("out " ^ hex_of_bytes data);
      let g = nat_of_int (List.length data + 2) in
      let (r, s') = run_phys G_dec.bsz (read_val g ty) (phys_init data) in
      (match r with Inl v -> out ("val " ^ string_of_val v) | Inr e -> out ("throw " ^ G_dec.err_name e));
      out ("rest " ^ G_dec.summarize (logical s')))
  | ("r" | "rr") as o :: nm :: rest ->
    (* rr <first> <second>: the real driver reads both encodings into one object; the result is that of the second alone *)
    let rest = (match o, rest with "rr", _ :: r -> r | _ -> rest) in
    (match struct_ty nm with None -> out "? bad struct command" | Some ty ->
      let data = match rest with h :: _ -> bytes_of_hex h | [] -> [] in
      let g = nat_of_int (List.length data + 2) in
      let (r, s') = run_phys G_dec.bsz (read_val g ty) (phys_init data) in
      (match r with Inl v -> out ("val " ^ string_of_val v) | Inr e -> out ("throw " ^ G_dec.err_name e));
      out ("rest " ^ G_dec.summarize (logical s')))
  | _ -> out "? bad struct command"
