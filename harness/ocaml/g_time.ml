open Model
open Util
(* T group — see harness/cpp/drv_time.inc for the command syntax *)
let mk s t = { secs = z_of_dec s; ticks = z_of_dec t }
let ts_str (x : ts) = dec_of_z x.secs ^ ":" ^ dec_of_z x.ticks
let cmp_ts (a : ts) (b : ts) =
  let c = Z.compare a.secs b.secs in
  let i = function Eq -> 0 | Lt -> -1 | Gt -> 1 in
  if i c <> 0 then i c else i (Z.compare a.ticks b.ticks)
let cmd_time (t : string list) =
  match t with
  | ["off"; s; k; rs; rk; tps] ->
    (match get_time_offset (mk s k) (mk rs rk) (z_of_dec tps) with
     | TOk v -> out ("v " ^ dec_of_z v) | TThrow -> out "throw Run" | TUB -> out "UB")
  | ["add"; s; k; off; tps] ->
    (match add_time_offset (mk s k) (z_of_dec off) (z_of_dec tps) with
     | TOk x -> out ("ts " ^ dec_of_z x.secs ^ " " ^ dec_of_z x.ticks)
     | TThrow -> out ("throw Run ts " ^ s ^ " " ^ k) | TUB -> out "UB")
  | ["lt"; a; b; c; d] -> out ("b " ^ (if ts_lt (mk a b) (mk c d) then "1" else "0"))
  | ["le"; a; b; c; d] -> out ("b " ^ (if ts_le (mk a b) (mk c d) then "1" else "0"))
  | "bt" :: tps :: hint :: evs ->
    let tps = z_of_dec tps in
    let store_hint = hint <> "0" in
    let b = List.fold_left (fun b ev ->
      match String.split_on_char ',' ev with
      | [kind; tm; extra] ->
        let tso = if tm = "-" then None else (match String.split_on_char ':' tm with [s; k] -> Some (mk s k) | _ -> None) in
        let store = (kind = "m") || store_hint in
        bt_add b { ev_ts = tso; ev_store_time = store; ev_filled = (extra = "1") }
      | _ -> b) bt_init evs in
    let st = List.sort cmp_ts b.stored in
    let offs = List.map (fun x -> match get_time_offset x b.earliest tps with TOk v -> dec_of_z v | TThrow -> "throw" | TUB -> "UB") st in
    out (Printf.sprintf "bt %s %s %d%s |%s" (dec_of_z b.earliest.secs) (dec_of_z b.earliest.ticks) (int_of_nat b.nitems)
           (String.concat "" (List.map (fun x -> " " ^ ts_str x) st)) (String.concat "" (List.map (fun x -> " " ^ x) offs)))
  | _ -> out "? bad time command"
