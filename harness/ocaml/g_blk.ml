open Model
open Util
open G_val
(* B group — blocks by name; see harness/cpp/drv_blk.inc.  In the model a block is a value: copies share nothing. *)
let g_blk = G_exp.g_blk
let reset () = Hashtbl.reset g_blk
let fields = function VR l -> l | _ -> []

let dump_generic (b : blk) =
  let tbs = tbs_of_tables b.b_tb in
  let bad = ref false in
  let each pre f l = List.iter (fun it -> if not !bad then match f tbs it with Some v -> out (pre ^ string_of_val v) | None -> bad := true) l in
  each "qr " gen_qr b.b_qrs;
  if not !bad then begin
    let lines = List.map (fun kc -> match gen_aec tbs kc with Some v -> Some (string_of_val v) | None -> None) b.b_aecs in
    if List.mem None lines then bad := true
    else List.iter (fun l -> out ("aec " ^ l)) (List.sort compare (List.filter_map (fun x -> x) lines)) end;
  if not !bad then each "mm " gen_mm b.b_mms;
  if !bad then out "throw Run" else out "endblk"

let cmd_blk (t : string list) =
  match t with
  | (("new" | "rnew")) :: n :: rest -> let (v, _) = parse_v rest in Hashtbl.replace g_blk n (blk_new (bp_of_val v) N0); out "ok"
  | [("copy" | "move" | "assign" | "massign") as o; n; sn] ->
    (match Hashtbl.find_opt g_blk sn with
     | None -> out "? no such block"
     | Some s ->
       if (o = "assign" || o = "massign") && not (Hashtbl.mem g_blk n) then out "? no such block"
       else begin Hashtbl.replace g_blk n s; out "ok" end)
  | ["fromfile"; n; k; j] ->
    (match List.nth_opt !G_exp.g_outputs (int_of_string k) with
     | None -> out "? no such output"
     | Some data ->
       let g = nat_of_int (List.length data + 2) in
       let st = ref (phys_init data) in
       let step : 'a. 'a prog -> ('a, err) sum = fun p -> let (r, s') = run_phys G_dec.bsz p !st in st := s'; r in
       (match step (reader_open g) with
        | Inr e -> out ("throw " ^ G_dec.err_name e)
        | Inl rs0 ->
          let rec loop x rs =
            match step (reader_next g rs) with
            | Inr e -> out ("throw " ^ G_dec.err_name e)
            | Inl (None, _) -> out "eof"
            | Inl (Some b, rs') -> if x = int_of_string j then begin Hashtbl.replace g_blk n (blk_of_rb b); out "ok" end else loop (x + 1) rs' in
          loop 0 rs0))
  | o :: n :: rest ->
    (match Hashtbl.find_opt g_blk n with
     | None -> out "? no such block"
     | Some b ->
       match o with
       | "qr" | "aec" | "mm" ->
         let (sv, r1) = parse_ov rest in
         let (rv, _) = parse_v r1 in
         let f = match o with "qr" -> add_qr | "aec" -> add_aec | _ -> add_mm in
         let (b', full) = f (fields rv) sv b in
         Hashtbl.replace g_blk n b'; out (if full then "b 1" else "b 0")
       | "nr" | "ip" | "ct" | "mmd" ->
         let v = (match o with "nr" | "ip" -> VS (bytes_of_hex (List.hd rest)) | _ -> fst (parse_v rest)) in
         let ti = (match o with "nr" -> T_nr | "ip" -> T_ip | "ct" -> T_ct | _ -> T_mmd) in
         let (tb', ix) = add_to b.b_tb ti v in
         Hashtbl.replace g_blk n { b with b_tb = tb' }; out ("r " ^ dec_of_n ix)
       | "sig" | "qrr" | "rr" | "qlist" | "rrlist" ->
         let (v, _) = parse_v rest in
         let ti = (match o with "sig" -> T_sig | "qrr" -> T_qrr | "rr" -> T_rr | "qlist" -> T_qlist | _ -> T_rrlist) in
         let (tb', ix) = add_to b.b_tb ti v in
         Hashtbl.replace g_blk n { b with b_tb = tb' }; out ("r " ^ dec_of_n ix)
       | "qritem" | "mmitem" | "aecitem" ->
         let (sv, r1) = parse_ov rest in
         let (iv, _) = parse_v r1 in
         let f = match o with "qritem" -> add_qr_item | "mmitem" -> add_mm_item | _ -> add_aec_item in
         let (b', full) = f (fields iv) sv b in
         Hashtbl.replace g_blk n b'; out (if full then "b 1" else "b 0")
       | "destroy" -> Hashtbl.remove g_blk n; out "ok"
       | "clear" -> Hashtbl.replace g_blk n (blk_clear b); out "ok"
       | "dump" ->
         let (bytes, _) = write_struct block (blk_val b) in
         out ("out " ^ hex_of_bytes bytes);
         out (Printf.sprintf "c %s %d %d %d" (dec_of_n (item_count b)) (List.length b.b_qrs) (List.length b.b_aecs) (List.length b.b_mms))
       | "gen" | "gen0" -> dump_generic b
       | _ -> out ("? unknown block op " ^ o))
  | _ -> out "? bad block command"
