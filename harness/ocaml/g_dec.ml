open Model
open Util
(* D group — see harness/cpp/drv_dec.inc for the command syntax.  The model side runs the decoder programs
   on the physical window model (run_phys with CdnsDecoder::BUFFER_SIZE). *)
let g_dec : phys option ref = ref None
let g_fuel : nat ref = ref O
let bsz = dEC_BUFFER_SIZE

let summarize (bs : n list) : string =
  let l = List.length bs in
  if l <= 64 then hex_of_bytes bs else begin
    let a = Array.of_list (List.map int_of_n bs) in
    let h = ref 0xcbf29ce484222325L in
    Array.iter (fun c -> h := Int64.mul (Int64.logxor !h (Int64.of_int c)) 0x100000001b3L) a;
    let hx lo n = String.concat "" (List.init n (fun i -> Printf.sprintf "%02x" a.(lo + i))) in
    Printf.sprintf "L%d:%s..%s#%016Lx" l (hx 0 16) (hx (l - 16) 16) !h end

let err_name = function EEnd -> "End" | EDec -> "Dec" | ERun -> "Run" | EOut -> "Out" | EFuel -> "FUEL"

let step (p : 'a prog) (show : 'a -> string) =
  match !g_dec with None -> out "? no decoder" | Some s ->
    let (r, s') = run_phys bsz p s in
    g_dec := Some s';
    (match r with Inl a -> out (show a) | Inr e -> out ("throw " ^ err_name e))

let dec_open kind data =
  let data = if kind = "un" || kind = "nx" || kind = "dir" then [] else data in
  g_dec := Some (phys_init data);
  g_fuel := nat_of_int (List.length data + 2);
  out "ok"

let cmd_dec (t : string list) =
  match t with
  | "new" :: kind :: rest -> dec_open kind (match rest with h :: _ -> bytes_of_hex h | [] -> [])
  | ["newrep"; kind; pre; fill; cnt; suf] ->
    let f = byte_tab.(int_of_string ("0x" ^ fill)) in
    let rec rep k acc = if k = 0 then acc else rep (k - 1) (f :: acc) in
    dec_open kind (List.rev_append (List.rev (bytes_of_hex pre)) (rep (int_of_string cnt) (bytes_of_hex suf)))
  | ["u"] -> step read_unsigned (fun v -> "v " ^ dec_of_n v)
  | ["n"] -> step read_negative (fun z -> "z " ^ dec_of_z z)
  | ["i"] -> step read_integer (fun z -> "z " ^ dec_of_z z)
  | ["b"] -> step read_bool (fun b -> if b then "b 1" else "b 0")
  | ["bs"] -> step (read_bytestring !g_fuel) (fun s -> "s " ^ summarize s)
  | ["ts"] -> step (read_textstring !g_fuel) (fun s -> "s " ^ summarize s)
  | ["as"] -> step read_array_start (fun (n, i) -> "st " ^ dec_of_n n ^ (if i then " 1" else " 0"))
  | ["ms"] -> step read_map_start (fun (n, i) -> "st " ^ dec_of_n n ^ (if i then " 1" else " 0"))
  | ["br"] -> step read_break (fun () -> "ok")
  | ["sk"] -> step (skip_item !g_fuel) (fun () -> "ok")
  | ["pk"] -> step peek_type (fun m -> "pk " ^ (match m with None -> "255" | Some m -> dec_of_n (mcode m)))
  | ["rest"] -> (match !g_dec with None -> out "? no decoder" | Some s -> out ("rest " ^ summarize (logical s)))
  | _ -> out "? bad dec command"
