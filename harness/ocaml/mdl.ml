(* mdl.ml — script driver around the OCaml extraction of the Coq model (coq/extracted/model.ml).
   Executes the same line-oriented scripts as harness/cpp/drv.cpp and prints results in the same format. *)
open Util
let reset_all () = G_enc.g_enc := None; G_dec.g_dec := None; G_exp.reset (); G_blk.reset (); G_w.reset (); More.reset ()

let () =
  (try while true do
    let line = input_line stdin in
    if line <> "" && line.[0] <> '#' then begin
      match split_ws line with
      | [] -> ()
      | "CASE" :: rest -> reset_all (); out ("CASE " ^ String.concat " " rest)
      | "M" :: rest -> out ("mark " ^ String.concat " " rest)
      | "E" :: t -> G_enc.cmd_enc t
      | "T" :: t -> G_time.cmd_time t
      | "D" :: t -> G_dec.cmd_dec t
      | "S" :: t -> G_val.cmd_struct t
      | "X" :: t -> G_exp.cmd_exp t
      | "F" :: t -> G_exp.cmd_file t
      | "B" :: t -> G_blk.cmd_blk t
      | "W" :: t -> G_w.cmd_w t
      | "XW" :: t -> G_w.cmd_xw t
      | ["TRACE"] -> G_w.trace ()
      | "MERGE" :: t -> G_tools.cmd_merge t
      | "ICOUNT" :: t -> G_tools.cmd_icount t
      | "CRASHAT" :: _ -> out "ok"
      | ("FAILONCE" | "SHORTONCE" | "FAILFROM") :: _ as t -> G_w.set_plan t
      | "PRE" :: _ -> out "ok"
      | c :: t -> if not (More.cmd_more c t) then out ("? unknown command " ^ c)
    end
  done with End_of_file -> ());
  flush stdout
