open Model
open Util
open G_val
(* X group (exporter) and F group (file reader) — see harness/cpp/drv_exp.inc *)
(* blocks by name (B group, g_blk.ml); here because 'X wbx' writes one through the exporter *)
let g_blk : (string, blk) Hashtbl.t = Hashtbl.create 16
let g_x : exporter option ref = ref None
let g_outputs : n list list ref = ref []      (* closed outputs, in closing order *)
(* the history since 'X new', for 'X thm': the hypotheses and the right-hand sides of the end-to-end theorems, evaluated *)
let g_pre : val0 option ref = ref None
let g_hops : xop list ref = ref []            (* newest first *)
let reset () = g_x := None; g_outputs := []; g_pre := None; g_hops := []
let push o = g_hops := o :: !g_hops

let fields = function VR l -> l | _ -> []
let close_output (bytes : n list) = g_outputs := !g_outputs @ [bytes]; out ("out " ^ hex_of_bytes bytes)

let cmd_exp (t : string list) =
  match t with
  | "new" :: rest -> let (v, _) = parse_v rest in g_x := Some (x_new v); g_outputs := []; g_pre := Some v; g_hops := []; out "ok"
  | ["addout"; h] -> g_outputs := !g_outputs @ [if h = "-" then [] else bytes_of_hex h]; out "ok"
  | _ ->
  match !g_x with None -> out "? no exporter" | Some x ->
  match t with
  | (("qr" | "aec" | "mm") as o) :: rest ->
    let (sv, r1) = parse_ov rest in
    let (rv, _) = parse_v r1 in
    let f = match o with "qr" -> buffer_qr | "aec" -> buffer_aec | _ -> buffer_mm in
    let (x', r) = f (fields rv) sv x in
    push (match o with "qr" -> XQr (fields rv, sv) | "aec" -> XAec (fields rv, sv) | _ -> XMm (fields rv, sv));
    g_x := Some x'; out ("r " ^ dec_of_n r)
  | ["wb"] -> let (x', r) = write_block x in push XWb; g_x := Some x'; out ("r " ^ dec_of_n r)
  | ["wbx"; n] ->
    (match Hashtbl.find_opt g_blk n with
     | None -> out "? no such block"
     | Some b -> let (x', r) = write_block_ext x b in g_x := Some x'; out ("r " ^ dec_of_n r))
  | ["rot"; e] ->
    let (x', r) = rotate (e <> "0") x in
    push (XRot (e <> "0"));
    out ("r " ^ dec_of_n r);
    (match x'.x_closed with o :: _ -> close_output o | [] -> ());
    g_x := Some x'
  | "addbp" :: rest -> let (v, _) = parse_v rest in let (x', r) = add_block_parameters v x in push (XAddBp v); g_x := Some x'; out ("r " ^ dec_of_n r)
  | ["setbp"; i] -> let (x', b) = set_active (n_of_dec i) x in push (XSetBp (n_of_dec i)); g_x := Some x'; out (if b then "b 1" else "b 0")
  | ["counts"] ->
    let b = x.x_blk in
    out (Printf.sprintf "c %s %d %d %d %s %s" (dec_of_n (item_count b)) (List.length b.b_qrs) (List.length b.b_aecs) (List.length b.b_mms)
           (dec_of_n x.x_written) (dec_of_n x.x_active))
  | ["thm"] ->
    (match !g_pre with None -> out "? no history" | Some pre ->
      let ops = List.rev !g_hops in
      let x0 = x_new pre in
      let xf = xrun x0 ops in
      let bi b = if b then 1 else 0 in
      out "thm";
      out (Printf.sprintf "#hyp pre=%d adm=%d typed=%d" (bi (has_tyb filePreamble pre)) (bi (admb x0 N0 ops)) (bi (typed_xb xf)));
      let rec take n l = if n <= 0 then [] else match l with [] -> [] | y :: r -> y :: take (n - 1) r in
      let in_files l buffered = take (List.length l - List.length buffered) l in
      List.iter (fun v -> out ("#lqr " ^ string_of_val v)) (in_files (log_qr x0 ops) xf.x_blk.b_qrs);
      List.iter (fun v -> out ("#lmm " ^ string_of_val v)) (in_files (log_mm x0 ops) xf.x_blk.b_mms);
      (* address events: for every decoded key submitted, the total the theorem puts into the files = log_aec - what is still buffered *)
      let accepted = log_aec_keys x0 ops in
      let keys = List.fold_left (fun acc k -> if List.exists (fun k' -> okey_eqb k' k) acc then acc else acc @ [k]) [] accepted in
      let buffered = List.map (gen_aec (tbs_of_tables xf.x_blk.b_tb)) xf.x_blk.b_aecs in
      List.iter (fun k ->
        let n = N.sub (count_key k accepted) (dec_total k buffered) in
        if n <> N0 then out ("#laec " ^ string_of_val (VR (k @ [Some (VN n)])))) keys)
  | ["end"] -> close_output (destroy x); g_x := None
  | _ -> out "? unknown exporter op"

let show_ov = function None -> "_" | Some v -> string_of_val v

let dump_file (data : n list) =
  let g = nat_of_int (List.length data + 2) in
  let st = ref (phys_init data) in
  let step : 'a. 'a prog -> ('a, err) sum = fun p -> let (r, s') = run_phys G_dec.bsz p !st in st := s'; r in
  let fail e = out ("throw " ^ G_dec.err_name e) in
  match step (reader_open g) with
  | Inr e -> fail e
  | Inl rs0 ->
    out ("pre " ^ string_of_val rs0.rs_pre);
    let rec loop rs =
      match step (reader_next g rs) with
      | Inr e -> fail e
      | Inl (None, _) -> out "eof"
      | Inl (Some b, rs') ->
        out ("blk " ^ string_of_val b.r_earliest ^ " " ^ show_ov b.r_bpi ^ " " ^ show_ov b.r_stats);
        let tbs = b.r_tables in
        let bad = ref false in
        let each pre f l = List.iter (fun it -> if not !bad then match f tbs it with Some v -> out (pre ^ string_of_val v) | None -> bad := true) l in
        each "qr " gen_qr b.r_qrs;
        if not !bad then begin
          let lines = List.map (fun kc -> match gen_aec tbs kc with Some v -> Some (string_of_val v) | None -> None) b.r_aecs in
          if List.mem None lines then bad := true
          else List.iter (fun l -> out ("aec " ^ l)) (List.sort compare (List.filter_map (fun x -> x) lines)) end;
        if not !bad then each "mm " gen_mm b.r_mms;
        if !bad then fail ERun else begin out "endblk"; loop rs' end in
    loop rs0

let rec take n l = if n <= 0 then [] else match l with [] -> [] | x :: r -> x :: take (n - 1) r
let cmd_file (t : string list) =
  match t with
  | "read" :: rest -> dump_file (match rest with h :: _ -> bytes_of_hex h | [] -> [])
  | ["out"; k] -> (match List.nth_opt !g_outputs (int_of_string k) with Some o -> dump_file o | None -> out "? no such output")
  | ["cut"; k; n] -> (match List.nth_opt !g_outputs (int_of_string k) with Some o -> dump_file (take (int_of_string n) o) | None -> out "? no such output")
  | _ -> out "? unknown file op"
