open Model
open Util
(* tools: MERGE <name>:<hex|!> ...  and  ICOUNT <hex>   (models of cdns-merge and cdns-itemcount, coq/Merge.v) *)
let read_input (data : n list) : (val0 * rblock list * bool) option =
  (* Some (preamble, blocks read, ended cleanly) or None when the header cannot be read *)
  let g = nat_of_int (List.length data + 2) in
  let st = ref (phys_init data) in
  let step : 'a. 'a prog -> ('a, err) sum = fun p -> let (r, s') = run_phys G_dec.bsz p !st in st := s'; r in
  match step (reader_open g) with
  | Inr _ -> None
  | Inl rs0 ->
    let rec loop rs acc =
      match step (reader_next g rs) with
      | Inr _ -> (List.rev acc, false)
      | Inl (None, _) -> (List.rev acc, true)
      | Inl (Some b, rs') -> loop rs' (b :: acc) in
    let (bs, clean) = loop rs0 [] in
    Some (rs0.rs_pre, bs, clean)

let cmd_merge (args : string list) =
  let ins = List.map (fun a ->
    match String.index_opt a ':' with
    | None -> MBad N0
    | Some i ->
      let name = n_of_dec (String.sub a 0 i) in
      let h = String.sub a (i + 1) (String.length a - i - 1) in
      if h = "!" then MBad name else
      match read_input (bytes_of_hex h) with
      | None -> MBad name
      | Some (pre, bs, _) -> MFile (name, pre, bs)) args in
  out ("out " ^ hex_of_bytes (merge_bytes ins));
  (* the hypotheses of C18_merged_file, evaluated on these inputs *)
  out ("#mergeok " ^ (if merge_okb ins then "1" else "0"))

let cmd_icount (args : string list) =
  let data = match args with h :: _ -> bytes_of_hex h | [] -> [] in
  match read_input data with
  | None -> out "tot -"
  | Some (_, bs, clean) ->
    List.iter (fun ((q, a), m) -> out (Printf.sprintf "blk %s %s %s" (dec_of_n q) (dec_of_n a) (dec_of_n m))) (itemcount_blocks bs);
    if clean then (let ((q, a), m) = itemcount_total bs in out (Printf.sprintf "tot %s %s %s" (dec_of_n q) (dec_of_n a) (dec_of_n m)))
    else out "tot -"
