// drvt.cpp — C20 workload: N threads, each with its own exporter, encoder, writers (plain / gzip / xz), reader, blocks and text
// renderers on its own outputs, run concurrently (under ThreadSanitizer) and compared with the same work done sequentially.
// In every second round all exporters are constructed from ONE FilePreamble object (read-only for the constructor) and each
// thread adds its own block-parameter sets to its own exporters.
//   usage: drvt <threads> <rounds>      prints "ok <threads> <rounds>" or "mismatch thread <i> round <r>"
#include <cstdio>
#include <cstdlib>
#include <cstdint>
#include <string>
#include <vector>
#include <thread>
#include <sstream>
#include <unistd.h>
#include <sys/mman.h>
#include "cdns.h"
using namespace CDNS;

static std::string read_fd_all(int fd) {
    std::string r; char b[65536]; lseek(fd, 0, SEEK_SET); ssize_t n;
    while ((n = read(fd, b, sizeof b)) > 0) r.append(b, n);
    return r;
}
static uint64_t fnv(uint64_t h, const std::string& s) { for (unsigned char c : s) { h ^= c; h *= 1099511628211ULL; } return h; }

// one preamble object that every exporter of every thread is constructed from in the 'shared' rounds: the constructor only reads
// it, each exporter keeps its own copy, so adding parameter sets to one exporter must not be visible to any other
static FilePreamble g_shared_preamble;

static uint64_t work(int i, int round, bool shared) {
    uint64_t h = 14695981039346656037ULL;
    CborOutputCompression comp = (i % 3 == 0) ? CborOutputCompression::NO_COMPRESSION : (i % 3 == 1) ? CborOutputCompression::GZIP : CborOutputCompression::XZ;
    FilePreamble local;
    local.m_block_parameters[0].storage_parameters.max_block_items = 7 + i;
    FilePreamble& fp = shared ? g_shared_preamble : local;
    int fd1 = memfd_create("t", 0), fd2 = memfd_create("t", 0), fdp = memfd_create("t", 0);
    int k1 = dup(fd1), k2 = dup(fd2), kp = dup(fdp);
    {
        CdnsExporter x(fp, fd1, comp);
        CdnsExporter plain(fp, fdp, CborOutputCompression::NO_COMPRESSION);
        if (shared) {
            // this thread's own parameter set, added to ITS exporters only, and activated
            BlockParameters bp; bp.storage_parameters.max_block_items = 7 + i; bp.storage_parameters.ticks_per_second = 1000 + i;
            for (int r = 0; r <= i % 3; r++) { h = fnv(h, std::to_string(x.add_block_parameters(bp))); plain.add_block_parameters(bp); }
            h = fnv(h, std::to_string(x.set_active_block_parameters(1))); plain.set_active_block_parameters(1);
            x.write_block(); plain.write_block();
        }
        for (int q = 0; q < 120; q++) {
            GenericQueryResponse g;
            g.ts = Timestamp(1600000000 + q, (i * 7 + q) % 1000);
            g.client_ip = std::string("\x0a\x00", 2) + static_cast<char>(i) + static_cast<char>(q % 5);
            g.client_port = static_cast<uint16_t>(1000 + q); g.transaction_id = static_cast<uint16_t>(q * 31 + i);
            g.query_name = std::string("\x03www\x07", 5) + std::string(7, static_cast<char>('a' + (q + i) % 26)) + std::string("\x03com\x00", 5);
            g.query_classtype = ClassType(); g.query_classtype->type = static_cast<uint16_t>(1 + q % 3); g.query_classtype->class_ = 1;
            g.response_delay = q - 50; g.query_size = 40 + q;
            // every member a renderer prints differs from thread to thread (a value cached or shared between instances shows up as another thread's data)
            g.server_ip = (i % 2) ? std::string("\xc0\x00\x02", 3) + static_cast<char>(10 + i) : std::string("\x20\x01\x0d\xb8\x00\x00\x00\x00\x00\x00\x00\x00\x00\x00\x00", 15) + static_cast<char>(10 + i);
            g.server_port = static_cast<uint16_t>(53 + i); g.client_hoplimit = static_cast<uint8_t>(60 + i); g.response_size = 100 + 3 * i + q;
            g.query_opcode = static_cast<uint8_t>(i % 6); g.query_rcode = static_cast<uint16_t>(i); g.response_rcode = static_cast<uint16_t>(i + 1);
            g.query_qdcount = static_cast<uint16_t>(1 + i); g.query_udp_size = static_cast<uint16_t>(512 + i); g.query_edns_version = static_cast<uint8_t>(i % 2);
            g.bailiwick = std::string("\x02", 1) + std::string(2, static_cast<char>('a' + i % 26)) + std::string("\x00", 1); g.asn = "AS" + std::to_string(64500 + i); g.country_code = std::string(2, static_cast<char>('A' + i % 26));
            g.round_trip_time = 1000 + i;
            if (q % 4 == 0) { GenericResourceRecord rr; rr.name = *g.query_name; rr.classtype = *g.query_classtype; rr.ttl = 300; rr.rdata = std::string("\x7f\x00\x00\x01", 4); g.response_answers = std::vector<GenericResourceRecord>{rr}; }
            h = fnv(h, std::to_string(x.buffer_qr(g))); plain.buffer_qr(g);
            h = fnv(h, g.string());
            if (q % 10 == 3) { GenericAddressEventCount a; a.ae_type = static_cast<AddressEventTypeValues>(q % 3); a.ip_address = *g.client_ip; h = fnv(h, std::to_string(x.buffer_aec(a))); plain.buffer_aec(a); h = fnv(h, a.string()); }
            if (q % 15 == 7) { GenericMalformedMessage m; m.ts = g.ts; m.client_ip = g.client_ip; m.mm_payload = std::string(20 + i, 'x'); h = fnv(h, std::to_string(x.buffer_mm(m))); plain.buffer_mm(m); h = fnv(h, m.string()); }
            if (q == 60) h = fnv(h, std::to_string(x.rotate_output(fd2, q % 2 == 0)));
        }
        h = fnv(h, std::to_string(x.write_block())); plain.write_block();
    }
    h = fnv(h, read_fd_all(k1)); h = fnv(h, read_fd_all(k2));
    // read the uncompressed copy back: preamble, blocks, generic records, renderers
    std::string file = read_fd_all(kp);
    std::istringstream in(file, std::ios::binary);
    CdnsReader rd(in);
    h = fnv(h, rd.m_file_preamble.string());
    bool eof = false;
    while (true) {
        CdnsBlockRead b = rd.read_block(eof);
        if (eof) break;
        bool end = false;
        while (true) { GenericQueryResponse g = b.read_generic_qr(end); if (end) break; h = fnv(h, g.string()); }
        while (true) { GenericMalformedMessage g = b.read_generic_mm(end); if (end) break; h = fnv(h, g.string()); }
        uint64_t acc = 0;
        while (true) { GenericAddressEventCount g = b.read_generic_aec(end); if (end) break; acc += fnv(1469598103934665603ULL, g.string()); }   // order-free
        h = fnv(h, std::to_string(acc));
    }
    close(k1); close(k2); close(kp);
    // a rotation that FAILS (the application could not open the next output: descriptor -1) is reported by exception; whatever the exporter
    // does from then on - further records, the final block, its destruction - must stay within what is its own: the other threads keep
    // opening and closing descriptors of theirs all the while, and the process-wide descriptor table is state they all share
    if (i % 2 == 0) {
        int fdr = memfd_create("t", 0); int kr = dup(fdr);
        {
            CdnsExporter xr(local, fdr, CborOutputCompression::NO_COMPRESSION);
            GenericQueryResponse g; g.client_ip = std::string("\x0a\x01\x01", 3) + static_cast<char>(i); g.query_size = 17 + i;
            for (int q = 0; q < 20; q++) { g.client_port = static_cast<uint16_t>(2000 + q); h = fnv(h, std::to_string(xr.buffer_qr(g))); }
            h = fnv(h, std::to_string(xr.write_block()));
            try { xr.rotate_output(-1, true); h = fnv(h, "rotated"); } catch (std::exception&) { h = fnv(h, "rotation failed"); }
            for (int q = 0; q < 40; q++) {
                std::this_thread::yield();
                g.client_port = static_cast<uint16_t>(3000 + q);
                try { h = fnv(h, std::to_string(xr.buffer_qr(g))); } catch (std::exception&) { h = fnv(h, "record failed"); }
            }
            try { h = fnv(h, std::to_string(xr.write_block())); } catch (std::exception&) { h = fnv(h, "block failed"); }
        }
        h = fnv(h, read_fd_all(kr)); close(kr);
    }
    return h + static_cast<uint64_t>(round) * 0;
}

int main(int argc, char** argv) {
    int n = argc > 1 ? atoi(argv[1]) : 4, rounds = argc > 2 ? atoi(argv[2]) : 3;
    std::vector<uint64_t> ref(n);
    std::vector<uint64_t> refs(n);
    for (int i = 0; i < n; i++) { ref[i] = work(i, 0, false); refs[i] = work(i, 0, true); }
    for (int r = 0; r < rounds; r++) {
        std::vector<uint64_t> got(n);
        std::vector<std::thread> th;
        bool shared = r % 2 == 1;
        // every thread does its work three times over, so that the threads are at different points of it (opening their outputs, in
        // the middle of exporting, destroying exporters) at any one time
        for (int i = 0; i < n; i++) th.emplace_back([&got, &ref, &refs, i, r, shared] {
            uint64_t want = shared ? refs[i] : ref[i], res = want;
            for (int rep = 0; rep < 3; rep++) { uint64_t w = work(i, r, shared); if (w != want) res = w; for (int y = 0; y < i; y++) std::this_thread::yield(); }
            got[i] = res; });
        for (auto& t : th) t.join();
        for (int i = 0; i < n; i++) if (got[i] != (shared ? refs[i] : ref[i])) { printf("mismatch thread %d round %d%s\n", i, r, shared ? " (exporters constructed from one shared FilePreamble object)" : ""); return 1; }
    }
    printf("ok %d %d\n", n, rounds);
    return 0;
}
