# C10 — reported byte counts equal the bytes actually produced.
import common, schema, histgen, p_hist, p_C09
THEOREMS = ["C10_encoder_call", "C10_encoder_run", "C10_struct_write", "C10_write_block_partial", "C10_empty_output",
            "C10_call_by_call", "C10_history", "C10_nonvacuous"]
EXTRA_PROPERTY_FILES = ("Properties_encoder", "Properties_exporter")   # obligations over the regenerated Gen_encoder.v (translator/encoder.py): the write operations translated from the source
def run(ctx):
    sch = schema.load(ctx["mdl"]); rng, tier = ctx["rng"], ctx["tier"]
    # (a) every structure: returned count == bytes written (the S wr cases of C09 for all structures)
    scases = []
    names = ["FilePreamble", "BlockParameters", "StorageParameters", "CollectionParameters", "QueryResponseSignature", "RR", "MalformedMessageData",
             "BlockStatistics", "QueryResponse", "AddressEventCount", "MalformedMessage", "ClassType", "Question", "ResponseProcessingData",
             "QueryResponseExtended", "BlockPreamble", "IndexListItem", "Timestamp"]
    for i in range(360 if tier == "quick" else 20000):
        nm = names[i % len(names)]; t = sch[nm]
        v = schema.gen_val(t, rng, small=(i % 5 != 0))
        canon = schema.enc(t, v)
        scases.append({"id": "s%d" % i, "script": ["S w %s %s" % (nm, schema.show(t, v))], "expect": ["r %d" % len(canon), "out " + (canon.hex() or "-")],
                       "what": "%s::write returns the number of bytes it appended" % nm, "meta": {"kind": "struct/" + nm}})
    d1, f1 = common.run_expect(ctx, scases, batch=60)
    # (b) outputs: sums of the values returned by buffer / write_block / rotate calls vs output sizes
    cases = [p_hist.mk_case(sch, "h%d" % i, histgen.gen_history(sch, rng, nops=rng.choice([5, 15, 40])), "history") for i in range(150 if tier == "quick" else 5000)]
    diffs, cases = p_hist.run_histories(ctx, cases, batch=10)
    res = p_hist.finish(ctx, "C10", cases, diffs,
        "(a) random values of 18 structures written through a fresh encoder: returned count and bytes vs an independent encoder; (b) random "
        "exporter histories: per output, the sum of the values returned by the buffer_*, write_block and rotate_output calls while it was open "
        "must equal its size (+1 when closed by destruction); empty outputs sum to 0", related=())
    ctx["report"].cov["evaluations"] += len(scases)
    ctx["report"].cov["distinct_nontrivial"] += len(set(c["script"][0] for c in scases))
    res["diffs"] = d1 + res["diffs"]; res["fails"] = f1 + res["fails"]
    return res
