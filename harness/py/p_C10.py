# C10 — reported byte counts equal the bytes actually produced.
import common, schema, histgen, p_hist, p_C09
THEOREMS = ["C10_encoder_call", "C10_encoder_run", "C10_struct_write", "C10_write_block_partial", "C10_empty_output",
            "C10_call_by_call", "C10_history", "C10_nonvacuous"]
EXTRA_PROPERTY_FILES = ("Properties_encoder", "Properties_exporter")   # obligations over the regenerated Gen_encoder.v (translator/encoder.py): the write operations translated from the source
def run(ctx):
    sch = schema.load(ctx["mdl"]); rng, tier = ctx["rng"], ctx["tier"]
    # (a) every structure: returned count == bytes written (the S wr cases of C09 for all structures)
    scases = []
    names = ["FilePreamble", "BlockParameters", "StorageParameters", "CollectionParameters", "QueryResponseSignature", "RR", "MalformedMessageData",
             "BlockStatistics", "QueryResponse", "AddressEventCount", "MalformedMessage", "ClassType", "Question", "ResponseProcessingData",
             "QueryResponseExtended", "BlockPreamble", "IndexListItem", "Timestamp"]
    for i in range(360 if tier == "quick" else 20000):
        nm = names[i % len(names)]; t = sch[nm]
        v = schema.gen_val(t, rng, small=(i % 5 != 0))
        canon = schema.enc(t, v)
        scases.append({"id": "s%d" % i, "script": ["S w %s %s" % (nm, schema.show(t, v))], "expect": ["r %d" % len(canon), "out " + (canon.hex() or "-")],
                       "what": "%s::write returns the number of bytes it appended" % nm, "meta": {"kind": "struct/" + nm}})
    d1, f1 = common.run_expect(ctx, scases, batch=60)
    # (b) outputs: sums of the values returned by buffer / write_block / rotate calls vs output sizes
    cases = [p_hist.mk_case(sch, "h%d" % i, histgen.gen_history(sch, rng, nops=rng.choice([5, 15, 40])), "history") for i in range(150 if tier == "quick" else 5000)]
    diffs, cases = p_hist.run_histories(ctx, cases, batch=10)
    res = p_hist.finish(ctx, "C10", cases, diffs,
        "(a) random values of 18 structures written through a fresh encoder: returned count and bytes vs an independent encoder; (b) random "
        "exporter histories: per output, the sum of the values returned by the buffer_*, write_block and rotate_output calls while it was open "
        "must equal its size (+1 when closed by destruction); empty outputs sum to 0; (c) the same sums for gzip / xz outputs (named and descriptor, "
        "hundreds of malformed messages with random payloads per output, rotations) against the size of their independent decompression", related=())
    # (c) compressed outputs, named and descriptor: the counts are of UNCOMPRESSED bytes, so per output the values returned while it was open
    #     must sum to the size of what an independent gzip / xz decompression of it yields (+1 when closed by destruction) - with contents
    #     that do not compress (tens of KB of random payloads per output), so that the compressor hands back more than one scratch buffer's
    #     worth at a time and a writer that does not feed it everything shows
    import p_C14
    from concurrent.futures import ThreadPoolExecutor
    plain = common.build_impl("plain")
    zc = []
    for i in range(8 if tier == "quick" else 120):
        comp, kind = ("gzip", "xz")[i % 2], ("fd", "name")[(i // 2) % 2]
        ls, sums, cur = ["CASE z", "X new %s %s 1 %d" % (kind, comp, rng.choice([7, 24, 10000]))], [], 1
        plan = []
        for seg in range(rng.choice([1, 2, 3])):
            for q in range(rng.choice([120, 300])):
                ls.append("X mm %s %d" % (bytes(rng.getrandbits(8) for _ in range(rng.choice([150, 250]))).hex(), q)); plan.append(cur)
            if rng.random() < 0.6: ls.append("X wb"); plan.append(cur)
            if seg < 2 and rng.random() < 0.7: ls.append("X rot %d %d" % (cur + 1, rng.choice([0, 1]))); plan.append(cur); cur += 1
        ls.append("X end")
        zc.append({"id": "z%d" % i, "script": ls, "plan": plan, "comp": comp, "kind": kind, "last": cur, "meta": {"kind": "compressed-output/%s/%s" % (kind, comp)}})
    def one(c):
        il, files, rc = common.run_w(plain["drvw"], c["script"], timeout=600)
        return c, il, files, rc
    with ThreadPoolExecutor(max_workers=common.NPROC) as ex:
        for c, il, files, rc in ex.map(one, zc):
            res_lines = il[2:2 + len(c["plan"])]           # after CASE, X new: one result per planned call
            why = None
            if rc != 0 or len(res_lines) != len(c["plan"]) or any(not l.startswith("r ") for l in res_lines): why = "the exporter failed on a compressed output: %r" % il[-3:]
            else:
                sums = {}
                for o, l in zip(c["plan"], res_lines): sums[o] = sums.get(o, 0) + int(l[2:])
                ext = ".gz" if c["comp"] == "gzip" else ".xz"
                for o in range(1, c["last"] + 1):
                    fn = ("out%d%s" % (o, ext)) if c["kind"] == "name" else "fd%d" % o
                    data = files.get(fn, b"")
                    try: size = len(p_C14.decompress_strict(c["comp"], data)) if data else 0
                    except Exception as e: why = "output %s is not one complete %s stream: %s" % (fn, c["comp"], e); break
                    want = sums.get(o, 0) + (1 if (o == c["last"] and sums.get(o, 0) > 0) else 0)
                    if size != want: why = "output %d (%s, %s): the calls made while it was open returned %d bytes in all%s, its decompressed content has %d bytes" % (o, c["kind"], c["comp"], sums.get(o, 0), " (+1 for the break written at destruction)" if o == c["last"] and sums.get(o, 0) > 0 else "", size); break
            c["oracle"] = [("C10", why)] if why else []
            if why: res["fails"].append((c["id"], c, why, il[-6:]))
    ctx["report"].cov["distribution"] = dict(ctx["report"].cov.get("distribution", {}), **{"compressed-output": len(zc)})
    ctx["report"].cov["evaluations"] += len(zc)
    ctx["report"].cov["evaluations"] += len(scases)
    ctx["report"].cov["distinct_nontrivial"] += len(set(c["script"][0] for c in scases))
    res["diffs"] = d1 + res["diffs"]; res["fails"] = f1 + res["fails"]
    return res
