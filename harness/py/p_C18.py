# C18 — cdns-merge preserves every block and record; cdns-itemcount counts are true.
import os, subprocess, tempfile, shutil
import common, schema, histgen, refcbor
from concurrent.futures import ThreadPoolExecutor
THEOREMS = ["C18_merge_blocks", "C18_block_content", "C18_params_preserved", "C18_rejected_contribute_nothing",
            "C18_version_mismatch_not_registered", "C18_itemcount", "C18_merged_file", "C18_merged_file_hypotheses_decidable", "C18_merged_file_nonvacuous", "C18_nonvacuous"]
TOOLS = True

EXTRA_PROPERTY_FILES = ("Properties_tools",)   # main() of cdns-merge / cdns-itemcount and the file reader's functions as they are now (translator/tools.py) against what the models were written after
def make_files(ctx, sch, rng, n):
    """valid C-DNS files produced by the real exporter (through the driver), with their histories"""
    cases = []
    for i in range(n):
        h = histgen.gen_history(sch, rng, nops=rng.choice([4, 10, 25]), rotations=False, maxi=rng.choice([1, 2, 3, 10000]))
        h["pre"][0], h["pre"][1], h["pre"][2] = 1, 0, None          # common version; some files get another one below
        if i % 5 == 4: h["pre"][1] = 7
        if i % 7 == 6: h["pre"][2] = 3
        cases.append(("f%d" % i, histgen.to_script(sch, h, read_back=False), h))
    impl, _, _ = common.run_both([(c[0], c[1]) for c in cases], ctx["impl"]["drv"], ctx["mdl"], batch=10, impl_only=True)
    files = []
    for cid, script, h in cases:
        outs = [l for l in impl[cid] if l.startswith("out ")]
        data = bytes.fromhex(outs[-1][4:]) if outs and outs[-1][4:] != "-" else b""
        if not data: continue
        if len(files) % 3 == 1:
            # a block that uses the file's first parameter set may leave the block-parameters index out of its preamble (RFC 8618: optional,
            # default 0): the exporter never does, other writers do
            try: data = strip_default_index(data)
            except Exception: pass
        if len(files) % 4 == 2:
            # EMPTY blocks (a block preamble, perhaps statistics, and no item): the exporter never writes one, other writers do; the property
            # speaks of "every non-empty block", so inputs may hold empty ones - in front of, between and after the others
            try: data = insert_empty_blocks(data, rng)
            except Exception: pass
        files.append({"data": data, "h": h})
    return files

def insert_empty_blocks(data, rng):
    t = refcbor.parse_all(data)
    top = list(t[1]); ba = top[2]
    u = lambda v: ("u", v, 0)
    def empty():
        pre = [(u(0), ("a", [u(rng.choice([0, 5, 1600000000])), u(0)], False, 0))]
        if rng.random() < 0.5: pre.append((u(1), u(0)))
        ents = [(u(0), ("m", pre, False, 0))]
        if rng.random() < 0.4: ents.append((u(1), ("m", [(u(0), u(rng.choice([0, 3])))], False, 0)))      # statistics only
        return ("m", ents, False, 0)
    blocks = list(ba[1])
    where = rng.choice(["first", "first", "middle", "last", "all"])
    if where in ("first", "all"): blocks.insert(0, empty())
    if where in ("middle", "all") and len(blocks) > 1: blocks.insert(rng.randrange(1, len(blocks)), empty())
    if where in ("last", "all"): blocks.append(empty())
    top[2] = ("a", blocks, ba[2], ba[3] if len(ba) > 3 else 0)
    return refcbor.encode(("a", top, t[2], t[3]))

def strip_default_index(data):
    t = refcbor.parse_all(data)
    top = list(t[1]); ba = top[2]
    blocks = []
    for b in ba[1]:
        ents = []
        for k, v in b[1]:
            if k[0] == "u" and k[1] == 0 and v[0] == "m":
                v = ("m", [(kk, vv) for kk, vv in v[1] if not (kk[0] == "u" and kk[1] == 1 and vv[0] == "u" and vv[1] == 0)], v[2], v[3])
            ents.append((k, v))
        blocks.append(("m", ents, b[2], b[3]))
    top[2] = ("a", blocks, ba[2], ba[3])
    return refcbor.encode(("a", top, t[2], t[3]))

def prefix_blocks(sch, data):
    """independent reading of a possibly damaged file: (preamble, [blocks readable before the first error]) or None"""
    try:
        t, i = refcbor.parse_item(data[:1] + b"", 0) if False else (None, 0)
        if len(data) < 1 or data[0] not in (0x83, 0x9f): return None
        i = 1
        tid, i = refcbor.parse_item(data, i)
        if tid[0] != "t" or tid[1].upper() != b"C-DNS": return None
        pt, i = refcbor.parse_item(data, i)
        pre = schema.interp(sch["FilePreamble"], pt)
        if i >= len(data): return None
        ib = data[i]; mt, ai = ib >> 5, ib & 31
        if mt != 4: return None
        hd, i2 = refcbor.parse_item(data[i:i + 9] + b"", 0) if False else (None, None)
    except (refcbor.Malformed, schema.Nonconforming, IndexError):
        return None
    # blocks array head
    try:
        if ai == 31: i += 1; count = None
        else:
            w = 0 if ai < 24 else 1 << (ai - 24)
            count = ai if ai < 24 else int.from_bytes(data[i + 1:i + 1 + w], "big"); i += 1 + w
    except Exception: return None
    blocks = []
    while True:
        if count is not None and len(blocks) == count: break
        if i >= len(data): break
        if count is None and data[i] == 0xff: break
        try:
            bt, j = refcbor.parse_item(data, i)
            whole = histgen.read_output(sch, _wrap(pre, sch, [data[i:j]]))
        except (refcbor.Malformed, schema.Nonconforming, Exception):
            break
        blocks.append(whole["blocks"][0]); i = j
    return pre, blocks
def _wrap(pre, sch, block_bytes):
    return b"\x83\x65C-DNS" + schema.enc(sch["FilePreamble"], pre) + b"\x9f" + b"".join(block_bytes) + b"\xff"

def blk_sig(b, params):
    return (b["qrs"], b["aec"], b["mms"], b["stats"], b["earliest"], params)

def run(ctx):
    rep, tier, rng = ctx["report"], ctx["tier"], ctx["rng"]
    sch = schema.load(ctx["mdl"])
    files = make_files(ctx, sch, rng, 30 if tier == "quick" else 300)
    merge_bin, icount_bin, mdl = ctx["impl"]["cdns_merge"], ctx["impl"]["cdns_itemcount"], ctx["mdl"]
    root = tempfile.mkdtemp(prefix="tools.", dir=common.scratch_root())
    tuples = []
    for i in range(40 if tier == "quick" else 1500):
        k = rng.choice([1, 2, 3, 4])
        ins = []
        for j in range(k):
            r = rng.random()
            f = rng.choice(files)
            if r < 0.62: ins.append(("ok", f["data"]))
            elif r < 0.72: ins.append(("cut", f["data"][:rng.randrange(1, len(f["data"]))]))
            elif r < 0.80: ins.append(("garbage", bytes(rng.getrandbits(8) for _ in range(rng.choice([0, 1, 50])))))
            elif r < 0.88: ins.append(("missing", None))
            else: ins.append(("dup", None))
        # 'dup' repeats the previous argument (same path)
        args = []
        for j, (kind, data) in enumerate(ins):
            if kind == "dup" and args: args.append(args[-1])
            elif kind == "dup": args.append((j, "ok", rng.choice(files)["data"]))
            else: args.append((j, kind, data))
        tuples.append(args)
    diffs, fails, cases = [], [], []
    prem = {"tuples": 0, "merged_file_hypotheses_hold": 0}
    def one(ix):
        args = tuples[ix]
        d = tempfile.mkdtemp(prefix="m.", dir=root)
        paths = []
        for (j, kind, data) in args:
            p = os.path.join(d, "in%d.cdns" % j)
            if data is not None and not os.path.exists(p):
                with open(p, "wb") as f: f.write(data)
            paths.append(p)
        outp = os.path.join(d, "merged.cdns")
        env = dict(os.environ); env.update(common.SAN_ENV)
        pr = subprocess.run([merge_bin, "-o", outp] + paths, stdout=subprocess.PIPE, stderr=subprocess.PIPE, env=env, timeout=300)
        merged = open(outp, "rb").read() if os.path.exists(outp) else None
        margs = " ".join("%d:%s" % (j, (data.hex() or "-") if data is not None else "!") for (j, kind, data) in args)
        ml = common.run_model_lines(mdl, ["MERGE " + margs])
        # itemcount on the merged file: totals and per block
        ic = {}
        if merged:
            for flags in ([], ["-b"]):
                q = subprocess.run([icount_bin] + flags + [outp], stdout=subprocess.PIPE, stderr=subprocess.PIPE, env=env, timeout=300)
                ic[tuple(flags)] = (q.returncode, q.stdout.decode(errors="replace"), q.stderr.decode(errors="replace")[-300:])
        icm = common.run_model_lines(mdl, ["ICOUNT " + (merged.hex() if merged else "-")])
        shutil.rmtree(d, ignore_errors=True)
        return ix, pr.returncode, pr.stderr.decode(errors="replace")[-400:], merged, ml, ic, icm
    with ThreadPoolExecutor(max_workers=common.NPROC) as ex:
        for ix, rc, err, merged, ml, ic, icm in ex.map(one, range(len(tuples))):
            args = tuples[ix]
            cid = "m%d" % ix
            case = {"id": cid, "script": ["cdns-merge -o merged " + " ".join("in%d[%s,%s bytes]" % (j, kind, len(data) if data is not None else "-") for (j, kind, data) in args)],
                    "inputs": [(data.hex() if data is not None else None) for (j, kind, data) in args], "names": [j for (j, kind, data) in args],
                    "meta": {"kind": "+".join(kind for (j, kind, data) in args)}}
            cases.append(case)
            prem["tuples"] += 1
            if "#mergeok 1" in ml: prem["merged_file_hypotheses_hold"] += 1
            why = None
            if rc != 0 or "Sanitizer" in err or "runtime error" in err: why = "cdns-merge exit status %d: %s" % (rc, err[-200:])
            elif merged is None: why = "cdns-merge produced no output file"
            else:
                # expected: blocks of accepted inputs in order
                first, exp, seen_paths = None, [], {}
                parsed = {}
                for (j, kind, data) in args:
                    if j not in parsed: parsed[j] = prefix_blocks(sch, data) if data is not None else None
                for (j, kind, data) in args:
                    p = parsed[j]
                    if p is None: continue
                    if first is None: first = p[0][:3]
                    if p[0][:3] != first: continue
                    for b in p[1]:
                        if len(b["qrs"]) + len(b["aec"]) + len(b["mms"]) == 0: continue
                        exp.append(blk_sig(b, p[0][3][b["bpi"]]))
                try:
                    got = histgen.read_output(sch, merged) if merged else {"pre": None, "blocks": []}
                    gsig = [blk_sig(b, got["pre"][3][b["bpi"]]) for b in got["blocks"]]
                    if gsig != exp:
                        why = "merged file holds %d blocks, expected %d (first difference at block %d)" % (len(gsig), len(exp), next((n for n in range(min(len(gsig), len(exp))) if gsig[n] != exp[n]), min(len(gsig), len(exp))))
                    elif got["pre"] is not None and first is not None and got["pre"][:3] != first: why = "merged file has version %r, first readable input has %r" % (got["pre"][:3], first)
                except (refcbor.Malformed, schema.Nonconforming) as e:
                    why = "merged file is not a valid C-DNS file: %s" % e
                # itemcount against the independent parse
                if why is None and merged:
                    tq, ta, tm = sum(len(b["qrs"]) for b in got["blocks"]), sum(len(b["aec"]) for b in got["blocks"]), sum(len(b["mms"]) for b in got["blocks"])
                    if ic[()][1].split() != [str(tq), str(ta), str(tm)]: why = "cdns-itemcount totals %r, independent parse counts %r" % (ic[()][1].split(), [tq, ta, tm])
                    per = [str(x) for b in got["blocks"] for x in (len(b["qrs"]), len(b["aec"]), len(b["mms"]))]
                    if why is None and ic[("-b",)][1].split() != per: why = "cdns-itemcount -b prints %r, independent parse counts %r" % (ic[("-b",)][1].split()[:9], per[:9])
            if why: fails.append((cid, case, why, [err[-200:]]))
            mo = ml[0][4:] if ml and ml[0].startswith("out ") else "?"
            a = refcbor.canon_file_dump(merged) if merged else "-"
            b = refcbor.canon_file_dump(bytes.fromhex(mo)) if mo not in ("-", "?") else mo
            if a != b: diffs.append((cid, case, "merged output differs from the model's (%d vs %d bytes)" % (len(merged or b""), len(mo) // 2)))
            if merged:
                mt = [l for l in icm if l.startswith("tot ")]; mb = [l[4:] for l in icm if l.startswith("blk ")]
                if (mt and mt[0][4:].split() != ic[()][1].split() and mt[0] != "tot -") or " ".join(mb).split() != ic[("-b",)][1].split():
                    diffs.append((cid, case, "cdns-itemcount output differs from the model's: %r / %r vs %r" % (ic[()][1].split(), ic[("-b",)][1].split()[:6], icm[:3])))
    shutil.rmtree(root, ignore_errors=True)
    rep.cov["merged_file_theorem_premises"] = prem
    common.summarize_cov(rep, cases,
        "tuples of 1-4 arguments for the real cdns-merge binary (ASan/UBSan build) drawn from exporter-produced files with 1-3 parameter sets and "
        "differing tick rates (a quarter of them with EMPTY blocks - preamble, perhaps statistics, no item - inserted in front of, between or after the others, as other writers may produce them): intact files, files cut at a random byte, garbage, missing paths, the same path twice, files of another "
        "major.minor.private version. The merged file is parsed independently and must hold exactly the non-empty blocks of the accepted inputs "
        "in argument order with equal records, statistics, times and parameter sets; compared with the model's output; the real cdns-itemcount "
        "(totals and -b) is compared with the independent parse and with the model", diffs, fails)
    return {"diffs": diffs, "fails": fails, "to_script": lambda c: c["script"] + ["inputs(hex): " + ", ".join((x[:60] + "..") if x else "missing" for x in c["inputs"])]}


def replay(ctx, rp):
    """re-create the input files of a stored case, run the real cdns-merge and cdns-itemcount on them and the model of the merge"""
    if not rp.get("inputs"):
        print("replay file holds no inputs: %s" % str(rp.get("broken") or rp.get("what"))[:1000]); return 1
    d = tempfile.mkdtemp(prefix="replay.", dir=common.scratch_root())
    paths = []
    for j, hx in zip(rp.get("names") or range(len(rp["inputs"])), rp["inputs"]):
        p = os.path.join(d, "in%d.cdns" % j)
        if hx is not None and not os.path.exists(p):
            with open(p, "wb") as f: f.write(bytes.fromhex(hx))
        paths.append(p)
    outp = os.path.join(d, "merged.cdns")
    env = dict(os.environ); env.update(common.SAN_ENV)
    pr = subprocess.run([ctx["impl"]["cdns_merge"], "-o", outp] + paths, stdout=subprocess.PIPE, stderr=subprocess.PIPE, env=env, timeout=300)
    print("== cdns-merge -o merged.cdns %s: exit status %d %s" % (" ".join(os.path.basename(p) for p in paths), pr.returncode, pr.stderr.decode(errors="replace")[-600:]))
    merged = open(outp, "rb").read() if os.path.exists(outp) else None
    print("== merged file: %s" % (merged.hex()[:2000] if merged is not None else "none"))
    bad = pr.returncode != 0
    if merged:
        for flags in ([], ["-b"], ["-p"], ["-b", "-p"]):
            q = subprocess.run([ctx["impl"]["cdns_itemcount"]] + flags + [outp], stdout=subprocess.PIPE, stderr=subprocess.PIPE, env=env, timeout=300)
            print("== cdns-itemcount %s: exit status %d\n%s" % (" ".join(flags), q.returncode, q.stdout.decode(errors="replace")[:1500]))
    margs = " ".join("%d:%s" % (j, (hx or "-") if hx is not None else "!") for j, hx in zip(rp.get("names") or range(len(rp["inputs"])), rp["inputs"]))
    for l in common.run_model_lines(ctx["mdl"], ["MERGE " + margs])[:40]: print("   model: " + l[:300])
    if merged:
        for l in common.run_model_lines(ctx["mdl"], ["ICOUNT " + merged.hex()])[:40]: print("   model itemcount: " + l[:300])
    if rp.get("expected"): print("== expected: %s" % str(rp["expected"])[:1000])
    shutil.rmtree(d, ignore_errors=True)
    return 1 if bad else 0
