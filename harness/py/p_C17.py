# C17 — timestamp offsets exact, invertible, refused before the epoch; earliest time <= every stored time.
import common
THEOREMS = ["C17_offset_exact", "C17_add_inverse", "C17_compare_lt", "C17_compare_le", "C17_refuse", "C17_rate0",
            "C17_no_ub", "C17_block", "C17_block_offsets", "C17_blocks_of_histories", "C17_block_offsets_roundtrip", "C17_nonvacuous"]
M63, M64 = 2 ** 63, 2 ** 64
I64MIN, I64MAX = -M63, M63 - 1

def inst(s, t, tps): return s * tps + t
def in_pre(s, t, tps): return 1 <= tps <= 10 ** 9 and inst(s, t, tps) < M63

def oracle_line(cmd, out):
    """cmd: tuple; out: the implementation's single result line. Returns None or a failure description."""
    k = cmd[0]
    if out.startswith("CRASH"):
        crash = True
    else:
        crash = False
    if k == "off":
        _, s, t, rs, rt, tps = cmd
        if tps == 0:
            return None if out == "throw Run" else "get_time_offset at rate 0 did not throw: %s" % out
        if not (in_pre(s, t, tps) and in_pre(rs, rt, tps)): return None
        exp = "v %d" % (inst(s, t, tps) - inst(rs, rt, tps))
        return None if out == exp else "offset is not the exact tick difference: got %r expected %r" % (out, exp)
    if k == "add":
        _, s, t, off, tps = cmd
        unchanged = "throw Run ts %d %d" % (s, t)
        if tps == 0:
            return None if out == unchanged else "add_time_offset at rate 0: expected refusal leaving the timestamp unchanged, got %r" % out
        if not in_pre(s, t, tps): return None
        n = inst(s, t, tps) + off
        if n < 0:
            return None if out == unchanged else "offset moving before the epoch was not refused with the timestamp unchanged: got %r" % out
        if n < M63:
            exp = "ts %d %d" % (n // tps, n % tps)
            return None if out == exp else "add_time_offset result wrong: got %r expected %r" % (out, exp)
        return None
    if k in ("lt", "le"):
        _, a, b, c, d, tps = cmd
        if not (b < tps and d < tps): return None
        ia, ib = inst(a, b, tps), inst(c, d, tps)
        exp = "b %d" % (1 if (ia < ib if k == "lt" else ia <= ib) else 0)
        return None if out == exp else "comparison disagrees with the order of instants: got %r expected %r" % (out, exp)
    if k == "bt":
        _, tps, hint, evs = cmd
        if crash or not out.startswith("bt "): return "block time bookkeeping failed: %r" % out
        left, right = out[3:].split("|")
        f = left.split()
        es, et, n = int(f[0]), int(f[1]), int(f[2])
        stored = [tuple(int(x) for x in p.split(":")) for p in f[3:]]
        offs = [int(x) for x in right.split()]
        e = inst(es, et, tps)
        for (s, t), o in zip(stored, offs):
            if inst(s, t, tps) < e: return "earliest time %d:%d is later than stored record time %d:%d" % (es, et, s, t)
            if o < 0 or e + o != inst(s, t, tps): return "stored offset %d does not recover record time %d:%d from earliest %d:%d" % (o, s, t, es, et)
        exp_stored = sorted((ts for (kind, ts, extra) in evs if ts is not None and (kind == "m" or hint)))
        if stored != exp_stored: return "stored times %r differ from the submitted timed records %r" % (stored, exp_stored)
        return None
    return None

def fmt(cmd):
    k = cmd[0]
    if k == "bt":
        _, tps, hint, evs = cmd
        return "T bt %d %d %s" % (tps, 1 if hint else 0, " ".join("%s,%s,%d" % (kd, "-" if ts is None else "%d:%d" % ts, 1 if ex else 0) for kd, ts, ex in evs))
    if k in ("lt", "le"): return "T %s %d %d %d %d" % (k, cmd[1], cmd[2], cmd[3], cmd[4])
    return "T " + " ".join(str(x) for x in cmd)

def gen_cmds(tier, rng):
    cmds = []
    # exhaustive small grid
    G = range(0, 5)
    for tps in (1, 2, 3, 4):
        for s in G:
            for t in G:
                for rs in G:
                    for rt in G:
                        cmds.append(("off", s, t, rs, rt, tps))
                        if t < tps and rt < tps:
                            cmds.append(("lt", s, t, rs, rt, tps)); cmds.append(("le", s, t, rs, rt, tps))
                for off in list(range(-25, 26)) + [I64MIN, I64MAX]:
                    cmds.append(("add", s, t, off, tps))
    # boundaries
    rates = [1, 2, 1000, 10 ** 6, 10 ** 9, 999999937]
    for tps in rates:
        smax = (M63 - 1) // tps
        ss = sorted(set([0, 1, 2 ** 31 - 1, 2 ** 31, 2 ** 32 - 1, 2 ** 32, 2147483647, 4294967295, 9223372036, smax - 1, smax]))
        ss = [s for s in ss if s <= smax]
        tks = sorted(set([0, 1, tps - 1, tps // 2]))
        pts = [(s, t) for s in ss for t in tks if inst(s, t, tps) < M63]
        for (s, t) in pts:
            i = inst(s, t, tps)
            for off in sorted(set([I64MIN, I64MIN + 1, -1, 0, 1, I64MAX, -i, -i - 1, -i + 1, M63 - 1 - i, max(I64MIN, min(I64MAX, M63 - i))])):
                if I64MIN <= off <= I64MAX: cmds.append(("add", s, t, off, tps))
            for (rs, rt) in rng.sample(pts, min(4, len(pts))):
                cmds.append(("off", s, t, rs, rt, tps)); cmds.append(("lt", s, t, rs, rt, tps)); cmds.append(("le", s, t, rs, rt, tps))
    for s, t in ((0, 0), (10, 5), (2 ** 40, 3)):
        for off in (I64MIN, -1, 0, 1, I64MAX): cmds.append(("add", s, t, off, 0))
        cmds.append(("off", s, t, 1, 1, 0))
    # random in range
    n = 1500 if tier == "quick" else 300000
    for _ in range(n):
        tps = rng.choice(rates + [rng.randrange(1, 10 ** 9 + 1)])
        def pt():
            i = rng.randrange(0, 2 ** rng.randrange(1, 64)); return (i // tps, i % tps)
        (s, t), (rs, rt) = pt(), pt()
        r = rng.random()
        if r < 0.3: cmds.append(("off", s, t, rs, rt, tps))
        elif r < 0.8:
            i = inst(s, t, tps)
            off = rng.choice([inst(rs, rt, tps) - i, -rng.randrange(0, 2 ** rng.randrange(1, 64)), rng.randrange(0, 2 ** rng.randrange(1, 63)), -i, -i - 1])
            off = max(I64MIN, min(I64MAX, off)); cmds.append(("add", s, t, off, tps))
        else: cmds.append((rng.choice(["lt", "le"]), s, t, rs, rt, tps))
    # outside the property's preconditions: correspondence only (non-normalised, huge, rate beyond 10^9)
    for _ in range(300 if tier == "quick" else 20000):
        tps = rng.choice([rng.randrange(0, 2 ** 64), rng.randrange(1, 2 ** 33)])
        s, t, rs, rt = (rng.randrange(0, 2 ** rng.randrange(1, 65)) for _ in range(4))
        if rng.random() < 0.5: cmds.append(("add", s, t, rng.randrange(I64MIN, I64MAX + 1), tps))
        else: cmds.append((rng.choice(["lt", "le"]), s, t, rs, rt, max(1, tps)))
    # block histories: arrival orders of timed and untimed records
    for _ in range(400 if tier == "quick" else 20000):
        tps = rng.choice([1, 1000, 10 ** 6, 10 ** 9])
        base = rng.choice([0, 1, 1600000000, (M63 - 1) // tps - 100])
        evs = []
        for _ in range(rng.randrange(1, 9)):
            ts = None if rng.random() < 0.3 else (base + rng.randrange(0, 4), rng.randrange(0, min(tps, 4)) if rng.random() < 0.7 else rng.randrange(0, tps))
            evs.append((rng.choice("qqm"), ts, rng.random() < 0.5))
        cmds.append(("bt", tps, rng.random() < 0.7, evs))
    return cmds

def to_script(case): return common.case_script(case) if isinstance(case, dict) else [fmt(c) for c in case]

EXTRA_PROPERTY_FILES = ("Properties_timestamp", "Properties_builder")   # obligations over the regenerated Gen_timestamp.v (translator/timestamp.py): the four Timestamp functions translated from the source
def run(ctx):
    rep, tier, rng = ctx["report"], ctx["tier"], ctx["rng"]
    cmds = gen_cmds(tier, rng)
    # one command per case so that a sanitizer abort is attributed exactly
    B = 1
    cases = [("t%d" % i, [c]) for i, c in enumerate(cmds)]
    scripts = [(cid, to_script(case)) for cid, case in cases]
    impl, model, crashes = common.run_both(scripts, ctx["impl"]["drv"], ctx["mdl"], batch=800)
    diffs, fails, kinds = [], [], {}
    distinct = set()
    for cid, case in cases:
        c = case[0]; kinds[c[0]] = kinds.get(c[0], 0) + 1; distinct.add(fmt(c))
        il, ml = impl.get(cid, ["<missing>"]), model.get(cid, ["<missing>"])
        why = oracle_line(c, il[0] if il else "<none>")
        if why: fails.append((cid, case, why, il))
        if il != ml: diffs.append((cid, case, "impl %r vs model %r" % (il[:1], ml[:1])))
    # whole files at other tick rates than the default: records with times buffered into an exporter whose parameter set 0 (and a second set,
    # switched to) has 1, 2, 1000, 1000001 or 10^9 ticks per second, written, read back with CdnsReader - every record time must come back
    # exactly (the reader has to pick the tick rate of the block's parameter set, whichever way the block refers to it)
    import schema, histgen, p_hist
    sch = schema.load(ctx["mdl"])
    hc = []
    for i in range(16 if tier == "quick" else 600):
        tps, tps2 = rng.choice([1, 2, 1000, 1000001, 10 ** 9]), rng.choice([1, 1000, 10 ** 6, 10 ** 9])
        full = (histgen.ALL_QR_BITS, histgen.ALL_SIG_BITS, 3, 3)
        pre = [1, 0, None, [histgen.gen_bp(sch, rng, masks=full, tps=tps, maxi=rng.choice([2, 10000])), histgen.gen_bp(sch, rng, masks=full, tps=tps2, maxi=10000)]]
        base = rng.choice([0, 5, 1600000000])
        rec = lambda t: ("qr", None, histgen.gen_gqr(rng, t, base, full=True)) if rng.random() < 0.7 else ("mm", None, histgen.gen_gmm(rng, t, base, full=True))
        ops = [rec(tps) for _ in range(rng.choice([2, 3, 6]))] + [("wb",)]
        if i % 2: ops += [("setbp", 1), ("wb",)] + [rec(tps2) for _ in range(rng.choice([2, 4]))] + [("wb",)]
        hc.append(p_hist.mk_case(sch, "h%d" % i, {"pre": pre, "ops": ops}, "file-round-trip/%d-ticks-per-second" % tps))
    hd, hc = p_hist.run_histories(ctx, hc, batch=8)
    diffs += hd
    for c in hc:
        kinds[c["meta"]["kind"]] = kinds.get(c["meta"]["kind"], 0) + 1
        if c["oracle"]: fails.append((c["id"], c, "a file written at this tick rate does not read back as buffered: %s" % c["oracle"][0][1], c.get("impl_tail", [])))
    cases = cases + hc
    rep.cov["evaluations"] = len(cases)
    rep.cov["distinct_nontrivial"] = len(distinct) + len(hc)
    rep.cov["rule"] = ("exhaustive grid (rate<=4, secs/ticks<=4, offsets -25..25 and INT64_MIN/MAX); boundary instants (0, 1, 2^31, 2^32, 2^63/rate) x boundary "
                       "offsets (INT64_MIN, -instant-1, -instant, 2^63-1-instant, INT64_MAX) x rates {1,2,10^3,10^6,10^9,prime}; random in-range; a separate "
                       "out-of-precondition stream (correspondence only); block histories with timed/untimed/unstored records in random arrival order; whole files "
                       "written by the exporter at 1, 2, 1000, 1000001 and 10^9 ticks per second (parameter set 0 and a second set switched to) and read back with CdnsReader. "
                       "distinct = distinct commands; all are compared exactly (value, exception class, state after a refusal)")
    rep.cov["distribution"] = kinds
    rep.cov["samples"] = [fmt(cmds[0]), fmt(cmds[len(cmds) // 2]), fmt(cmds[-1])]
    rep.cov["correspondence_differences"] = len(diffs)
    rep.cov["oracle_failures"] = len(fails)
    return {"diffs": diffs, "fails": fails, "to_script": to_script}
