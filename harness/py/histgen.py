# histgen.py — exporter histories: generators (aimed at the flush rule, the hint guards, table de-duplication and the
# time bookkeeping), the script form shared by both executors, and an INDEPENDENT oracle: a specification-level
# simulation of what must be in every output (records after hint filtering, in order, block boundaries, statistics,
# byte counts) checked against an independent RFC 8949 / RFC 8618 parse of the real outputs.
import schema, refcbor, cborgen, random
def random_for_pool(k): return random.Random(1000 + k)

U = lambda b: ("U", b)
def M(*fs): return ("M", False, [(i, p, t) for i, (p, t) in enumerate(fs)])
CLASSTYPE = M(("mand", U(16)), ("mand", U(16)))
GRR = M(("mand", ("Y",)), ("mand", CLASSTYPE), ("opt", U(32)), ("opt", ("Y",)))
SEC = ("A", GRR)
O = lambda t: ("opt", t)
GQR = M(O(("TIME",)), O(("Y",)), O(U(16)), O(U(16)), O(("Y",)), O(U(16)), O(U(8)), O(U(8)), O(U(8)), O(U(8)), O(U(16)), O(U(16)),
        O(CLASSTYPE), O(U(16)), O(U(16)), O(U(16)), O(U(16)), O(U(8)), O(U(16)), O(("Y",)), O(U(16)), O(U(8)), O(("I",)), O(("Y",)),
        O(U(64)), O(U(64)), O(("Y",)), O(U(8)), O(SEC), O(SEC), O(SEC), O(SEC), O(SEC), O(SEC), O(SEC), O(SEC), O(("T",)), O(("T",)), O(("I",)))
GAEC = M(("mand", U(8)), O(U(8)), O(U(8)), ("mand", ("Y",)), ("mand", U(64)))
GMM = M(O(("TIME",)), O(("Y",)), O(U(16)), O(("Y",)), O(U(16)), O(U(8)), O(("Y",)))
STATS = M(*[O(U(32))] * 6)

IPS = [bytes([10, 0, 0, k]) for k in range(1, 5)] + [bytes(range(16))]
NAMES = [b"\x07example\x03com\x00", b"\x03www\x07example\x03com\x00", b"\x00", b"\x02cz\x00", b"a" * 70]
RDATA = [b"\x7f\x00\x00\x01", b"", b"\xc0\x0c", b"x" * 300]
CTS = [[1, 1], [28, 1], [255, 255], [65535, 0]]
ALL_QR_BITS, ALL_SIG_BITS = 2 ** 18 - 1, 2 ** 17 - 1

def gen_time(rng, tps, base):
    s = base + rng.choice([0, 0, 1, 2, 3, 100])
    return [s, rng.choice([0, 1, tps - 1, rng.randrange(tps)]) % tps]      # (normalised: ticks < ticks per second, also at 1 tick per second)

def gen_rr(rng):
    return [rng.choice(NAMES), rng.choice(CTS), rng.choice([None, 0, 3600, 2 ** 32 - 1]), rng.choice([None] + RDATA)]
def gen_section(rng):
    r = rng.random()
    if r < 0.45: return None
    if r < 0.55: return []
    return [gen_rr(rng) for _ in range(rng.choice([1, 1, 2, 3]))]

_QR_POOL = {}
def gen_gqr(rng, tps, base, full=False):
    if not full and rng.random() < 0.3:
        # a few fixed records submitted again and again (only the time and the transaction id vary): every table de-duplicates
        k = rng.randrange(3)
        if k not in _QR_POOL: _QR_POOL[k] = gen_gqr(random_for_pool(k), tps, 0, full=(k == 0))
        v = [x for x in _QR_POOL[k]]
        v[0] = gen_time(rng, tps, base) if rng.random() < 0.8 else None
        v[3] = rng.randrange(65536)
        return v
    v = schema.gen_val(GQR, rng, small=True, empty_bias=0.0 if full else 0.1)
    def pool(i, choices, p=0.75):
        if v[i] is not None and rng.random() < p: v[i] = rng.choice(choices)
    if full:
        for i in range(len(v)):
            if v[i] is None: v[i] = schema.gen_val(GQR[2][i][2], rng, small=True)
    v[0] = gen_time(rng, tps, base) if (full or rng.random() < 0.85) else None
    pool(1, IPS); pool(4, IPS); pool(12, CTS); pool(19, RDATA); pool(23, NAMES); pool(26, NAMES)
    for i in range(28, 36):
        v[i] = gen_section(rng)
        if full and not v[i]: v[i] = [gen_rr(rng)]
    if rng.random() < 0.7:
        for i in (22, 38):
            if v[i] is not None: v[i] = rng.choice([0, 1, -1, 1000, -(2 ** 63), 2 ** 63 - 1])
    return v
def gen_gaec(rng):
    return [rng.choice([0, 1, 5]), rng.choice([None, 3]), rng.choice([None, 0, 2]), rng.choice(IPS[:3]), rng.choice([0, 7])]
MM_POOL = [[None, IPS[0], 53, IPS[1], 53, 2, b"hello"], [None, None, None, None, None, None, b"hello"], [None, IPS[2], 1, None, 853, None, None],
           [None, None, None, IPS[1], None, 0, b""]]
def gen_gmm(rng, tps, base, full=False):
    if not full and rng.random() < 0.45:
        v = list(rng.choice(MM_POOL)); v[0] = gen_time(rng, tps, base) if rng.random() < 0.7 else None
        return v
    v = schema.gen_val(GMM, rng, small=True, empty_bias=0.0 if full else 0.15)
    v[0] = gen_time(rng, tps, base) if (full or rng.random() < 0.8) else None
    for i in (1, 3):
        if v[i] is not None and rng.random() < 0.8: v[i] = rng.choice(IPS)
    if v[6] is not None and rng.random() < 0.6: v[6] = rng.choice([b"hello", b"", b"\x00\x01", b"p" * 40])
    return v
def gen_stats(rng):
    r = rng.random()
    if r < 0.6: return None
    if r < 0.7: return [None] * 6
    return schema.gen_val(STATS, rng)

def gen_bp(sch, rng, masks=None, tps=None, maxi=None):
    bp = schema.gen_val(sch["BlockParameters"], rng, small=True)
    sp = bp[0]
    sp[0] = tps if tps is not None else rng.choice([1, 1000, 10 ** 6, 10 ** 9, rng.randrange(1, 10 ** 9)])
    sp[1] = maxi if maxi is not None else rng.choice([0, 1, 2, 3, 3, 7, 10000])
    if masks is None:
        r = rng.random()
        if r < 0.4: masks = (ALL_QR_BITS, ALL_SIG_BITS, 3, 3)
        elif r < 0.7: masks = (rng.getrandbits(18), rng.getrandbits(17), rng.getrandbits(2), rng.getrandbits(2))
        else: masks = (ALL_QR_BITS & ~(1 << rng.randrange(18)), ALL_SIG_BITS & ~(1 << rng.randrange(17)), rng.choice([0, 1, 2, 3]), rng.choice([1, 2, 3]))
    sp[2] = list(masks)
    return bp
def gen_preamble(sch, rng, nsets=None, **kw):
    n = nsets or rng.choice([1, 1, 2, 3])
    return [rng.choice([1, 0, 255]), rng.choice([0, 5]), rng.choice([None, 1, 7]), [gen_bp(sch, rng, **kw) for _ in range(n)]]

# ---------------------------------------------------------------------------------------------- histories
def gen_history(sch, rng, nops=None, rotations=True, **kw):
    pre = gen_preamble(sch, rng, **kw)
    ops = []
    base = rng.choice([0, 1, 1600000000])
    nops = nops or rng.choice([3, 8, 20, 40])
    sp = Spec(pre)                   # simulated alongside, only to respect the documented precondition of
    tps = 1000                       # add_block_parameters (a new set is usable in the current output only if no block was written to it yet)
    for _ in range(nops):
        r = rng.random()
        if r < 0.45: o = ("qr", gen_stats(rng), gen_gqr(rng, tps, base))
        elif r < 0.62: o = ("aec", gen_stats(rng), gen_gaec(rng))
        elif r < 0.77: o = ("mm", gen_stats(rng), gen_gmm(rng, tps, base))
        elif r < 0.83: o = ("wb",)
        elif r < 0.90 and rotations: o = ("rot", rng.random() < 0.5)
        elif r < 0.94: o = ("addbp", gen_bp(sch, rng))
        elif r < 0.98:
            usable = len(sp.cur_out["params"]) if sp.cur_out["blocks"] else len(sp.params)
            o = ("setbp", rng.randrange(0, usable) if rng.random() < 0.85 else len(sp.params) + rng.randrange(0, 2))
        else: o = ("counts",)
        ops.append(o); sp.apply(o)
    # ticks must be below every tick rate in use so that all times are normalised
    mintps = min(bp[0][0] for bp in pre[3] + [o[1] for o in ops if o[0] == "addbp"])
    for o in ops:
        if o[0] in ("qr", "mm") and o[2][0] is not None:
            o[2][0][1] = o[2][0][1] % mintps
    return {"pre": pre, "ops": ops}

def to_script(sch, h, read_back=True):
    s = ["X new " + schema.show(sch["FilePreamble"], h["pre"])]
    nout = 0
    for o in h["ops"]:
        k = o[0]
        if k == "qr": s.append("X qr %s %s" % (schema.show(STATS, o[1]), schema.show(GQR, o[2])))
        elif k == "aec": s.append("X aec %s %s" % (schema.show(STATS, o[1]), schema.show(GAEC, o[2])))
        elif k == "mm": s.append("X mm %s %s" % (schema.show(STATS, o[1]), schema.show(GMM, o[2])))
        elif k == "wb": s.append("X wb")
        elif k == "rot": s.append("X rot %d" % (1 if o[1] else 0)); nout += 1
        elif k == "addbp": s.append("X addbp " + schema.show(sch["BlockParameters"], o[1]))
        elif k == "setbp": s.append("X setbp %d" % o[1])
        elif k == "counts": s.append("X counts")
    s.append("X counts"); s.append("X end"); nout += 1
    if read_back:
        for k in range(nout): s.append("F out %d" % k)
    return s

# ---------------------------------------------------------------------------------------------- specification-level simulation
def hints_of(bp): return bp[0][2]
def store_rr_list(sec, rrh, question):
    if not sec: return None
    out = []
    for name, ct, ttl, rdata in sec:
        if question: out.append([name, ct, None, None])
        else: out.append([name, ct, ttl if rrh & 1 else None, rdata if rrh & 2 else None])
    return out
def store_qr(g, bp):
    """the record an RFC 8618 reader must find for generic record g under block parameters bp (None: nothing stored)"""
    hq, hs, hr, ho = hints_of(bp)
    r = [None] * 39
    qbit = {0: 0, 1: 1, 2: 2, 3: 3, 21: 5, 22: 6, 23: 7, 24: 8, 25: 9}
    for i, b in qbit.items():
        if hq >> b & 1: r[i] = g[i]
    if hq >> 4 & 1:
        sbit = {4: 0, 5: 1, 6: 2, 7: 3, 8: 4, 9: 5, 10: 6, 11: 7, 12: 8, 13: 9, 14: 10, 15: 11, 16: 12, 17: 13, 18: 14, 19: 15, 20: 16}
        for i, b in sbit.items():
            if hs >> b & 1: r[i] = g[i]
    if hq >> 10 & 1: r[26], r[27] = g[26], g[27]
    sec = {28: (11, True), 29: (12, False), 30: (13, False), 31: (14, False), 32: (11, True), 33: (15, False), 34: (16, False), 35: (17, False)}
    for i, (b, q) in sec.items():
        if hq >> b & 1: r[i] = store_rr_list(g[i], hr, q)
    r[36], r[37], r[38] = g[36], g[37], g[38]
    return r if any(x is not None for x in r) else None
def store_mm(g, bp):
    return list(g) if any(x is not None for x in g) else None

class Spec:
    """abstract exporter: done blocks per output, the block being filled, the active / armed parameter index"""
    def __init__(self, pre):
        self.params = list(pre[3]); self.versions = pre[:3]
        self.outputs = []          # closed outputs: {"blocks": [...], "params": snapshot or None, "retsum": n, "closed_by": ...}
        self.cur_out = {"blocks": [], "params": None, "retsum": 0}
        self.active = 0
        self.new_block(0)
    def new_block(self, idx):
        self.blk = {"bpi": idx, "bp": self.params[idx], "qrs": [], "aec": {}, "aec_order": [], "mms": [], "stats": None, "times": []}
    def items(self): return len(self.blk["qrs"]) + len(self.blk["aec"]) + len(self.blk["mms"])
    def full(self):
        m = self.blk["bp"][0][1]
        return len(self.blk["qrs"]) >= m or len(self.blk["aec"]) >= m or len(self.blk["mms"]) >= m
    def write_block(self):
        wrote = False
        if self.items() > 0:
            if not self.cur_out["blocks"]: self.cur_out["params"] = list(self.params)
            self.cur_out["blocks"].append(self.blk); wrote = True
        self.new_block(self.active)
        return wrote
    def buffer(self, kind, stats, g):
        bp = self.blk["bp"]; ho = hints_of(bp)[3]
        if kind == "aec":
            if not ho >> 1 & 1: return False
            key = (g[0], g[1], g[2], g[3])
            if key not in self.blk["aec"]: self.blk["aec"][key] = 0; self.blk["aec_order"].append(key)
            self.blk["aec"][key] += 1
        elif kind == "mm":
            if not ho & 1: return False
            if g[0] is not None: self.blk["times"].append((tuple(g[0]), True))
            st = store_mm(g, bp)
            if st is not None: self.blk["mms"].append(st)
        else:
            if g[0] is not None: self.blk["times"].append((tuple(g[0]), bool(hints_of(bp)[0] & 1)))
            st = store_qr(g, bp)
            if st is not None: self.blk["qrs"].append(st)
        if stats is not None: self.blk["stats"] = stats
        return self.write_block() if self.full() else False
    def close_output(self, how):
        self.cur_out["closed_by"] = how
        self.outputs.append(self.cur_out)
        self.cur_out = {"blocks": [], "params": None, "retsum": 0}

def _apply(sp, o):
    k = o[0]
    if k in ("qr", "aec", "mm"): return ("wrote", sp.buffer(k, o[1], o[2]))
    if k == "wb": return ("wrote", sp.write_block())
    if k == "rot":
        w = sp.write_block() if o[1] else False
        f = ("rot", w, bool(sp.cur_out["blocks"]))
        sp.close_output("rotate"); return f
    if k == "addbp": sp.params.append(o[1]); return ("idx", len(sp.params) - 1)
    if k == "setbp":
        ok = o[1] < len(sp.params)
        if ok: sp.active = o[1]
        return ("bool", ok)
    if k == "counts": return ("counts", sp.items(), len(sp.blk["qrs"]), len(sp.blk["aec"]), len(sp.blk["mms"]), len(sp.cur_out["blocks"]), sp.active)
Spec.apply = _apply

def simulate(h):
    """returns (spec, expected per-op facts: wrote-a-block flags, counters)"""
    sp = Spec(h["pre"]); facts = []
    for o in h["ops"]: facts.append(sp.apply(o))
    facts.append(("counts", sp.items(), len(sp.blk["qrs"]), len(sp.blk["aec"]), len(sp.blk["mms"]), len(sp.cur_out["blocks"]), sp.active))
    sp.close_output("destroy")
    return sp, facts

# ---------------------------------------------------------------------------------------------- independent reading of an output
def norm_time(secs, ticks, tps):
    t = secs * tps + ticks
    return [t // tps, t % tps]
def read_output(sch, data):
    """independent RFC 8618 reading: returns {"pre": value, "blocks": [ {bpi, earliest, stats, qrs (generic), aec {key: count}, mms, tables} ]}
    raises refcbor.Malformed / schema.Nonconforming with a description when the output is not a valid document"""
    tree = refcbor.parse_all(data)
    if tree[0] != "a" or tree[2] or len(tree[1]) != 3: raise schema.Nonconforming("file is not a definite array of 3")
    tid, pre_t, blocks_t = tree[1]
    if tid[0] != "t" or tid[1] != b"C-DNS": raise schema.Nonconforming("file type id is not the text string C-DNS")
    pre = schema.interp(sch["FilePreamble"], pre_t, strict=True)
    if blocks_t[0] != "a": raise schema.Nonconforming("blocks member is not an array")
    res = {"pre": pre, "blocks": []}
    for bt in blocks_t[1]:
        b = schema.interp(sch["Block"], bt, strict=True)
        (earliest, bpi), stats, tbs, qrs, aecs, mms = b[0], b[1], b[2] or [[] for _ in range(9)], b[3], b[4], b[5]
        if bpi is None: bpi = 0
        if bpi >= len(pre[3]): raise schema.Nonconforming("block refers to parameter set %d of %d" % (bpi, len(pre[3])))
        tps = pre[3][bpi][0][0]
        names = ["ip_address", "classtype", "name_rdata", "qr_sig", "qlist", "qrr", "rrlist", "rr", "malformed_message_data"]
        used = [set() for _ in range(9)]
        def get(ti, ix):
            if ix is None: return None
            if ix >= len(tbs[ti]): raise schema.Nonconforming("index %d into table %s of size %d" % (ix, names[ti], len(tbs[ti])))
            used[ti].add(ix); return tbs[ti][ix]
        def rrl(ix, question):
            if ix is None: return None
            out = []
            for e in get(6 if not question else 4, ix):
                if question:
                    q = get(5, e); out.append([get(2, q[0]), get(1, q[1]), None, None])
                else:
                    r = get(7, e); out.append([get(2, r[0]), get(1, r[1]), r[2], get(2, r[3])])
            return out
        def abs_time(off):
            if off is None: return None
            return norm_time(earliest[0], earliest[1] + off, tps)
        gq = []
        for it in qrs:
            g = [None] * 39
            g[0] = abs_time(it[0]); g[1] = get(0, it[1]); g[2], g[3] = it[2], it[3]
            sig = get(3, it[4])
            if sig is not None:
                g[4] = get(0, sig[0]); g[5:12] = sig[1:8]; g[12] = get(1, sig[8]); g[13:19] = sig[9:15]; g[19] = get(2, sig[15]); g[20] = sig[16]
            g[21], g[22], g[23], g[24], g[25] = it[5], it[6], get(2, it[7]), it[8], it[9]
            if it[10] is not None: g[26], g[27] = get(2, it[10][0]), it[10][1]
            if it[11] is not None: g[28], g[29], g[30], g[31] = rrl(it[11][0], True), rrl(it[11][1], False), rrl(it[11][2], False), rrl(it[11][3], False)
            if it[12] is not None: g[32], g[33], g[34], g[35] = rrl(it[12][0], True), rrl(it[12][1], False), rrl(it[12][2], False), rrl(it[12][3], False)
            g[36], g[37], g[38] = it[13], it[14], it[15]
            gq.append(g)
        ga = {}
        for a in aecs:
            key = (a[0], a[1], a[3], get(0, a[2]))
            if key in ga: raise schema.Nonconforming("address event key stored twice in one block")
            ga[key] = a[4]
        gm = []
        for it in mms:
            g = [abs_time(it[0]), get(0, it[1]), it[2], None, None, None, None]
            md = get(8, it[3])
            if md is not None: g[3], g[4], g[5], g[6] = get(0, md[0]), md[1], md[2], md[3]
            gm.append(g)
        # indices inside table entries that no item refers to must still be in range
        def inrange(ti, ix, owner):
            if ix is not None and ix >= len(tbs[ti]): raise schema.Nonconforming("%s entry holds index %d into table %s of size %d" % (owner, ix, names[ti], len(tbs[ti])))
        for e in tbs[3]: inrange(0, e[0], "qr_sig"); inrange(1, e[8], "qr_sig"); inrange(2, e[15], "qr_sig")
        for e in tbs[5]: inrange(2, e[0], "qrr"); inrange(1, e[1], "qrr")
        for e in tbs[7]: inrange(2, e[0], "rr"); inrange(1, e[1], "rr"); inrange(2, e[3], "rr")
        for e in tbs[8]: inrange(0, e[0], "malformed_message_data")
        for l in tbs[4]:
            for ix in l: inrange(5, ix, "qlist")
        for l in tbs[6]:
            for ix in l: inrange(7, ix, "rrlist")
        res["blocks"].append({"bpi": bpi, "earliest": earliest, "stats": stats, "qrs": gq, "aec": ga, "mms": gm, "tables": tbs,
                              "used": used, "raw_offsets": [it[0] for it in qrs] + [it[0] for it in mms], "tps": tps, "names": names})
    return res

def check_history(sch, h, lines):
    """the oracle: lines = result lines of to_script(h, read_back=False or True) from the implementation.
    Returns a list of (property id, description)."""
    fails = []
    sp, facts = simulate(h)
    # split the result lines: one per op (+ 'out' after rot), final counts, end out
    i = 1                                   # lines[0] = ok of X new
    rets, outs, cur_ret = [], [], 0
    fi = 0
    def bad(pid, msg): fails.append((pid, msg))
    if not lines or lines[0] != "ok": return [("C01", "exporter could not be created: %r" % (lines[:1],))]
    try:
        for o in h["ops"]:
            k = o[0]; ln = lines[i]; i += 1; f = facts[fi]; fi += 1
            if k in ("qr", "aec", "mm", "wb"):
                if not ln.startswith("r "): return fails + [("C12", "call %s failed: %s" % (k, ln))]
                r = int(ln[2:]); cur_ret += r
                if (r != 0) != f[1]:
                    bad("C12", "%s call returned %d but the flush rule says a block %s written" % (k, r, "is" if f[1] else "is not"))
            elif k == "rot":
                if not ln.startswith("r "): return fails + [("C13", "rotate_output failed: %s" % ln)]
                cur_ret += int(ln[2:])
                ol = lines[i]; i += 1
                outs.append((b"" if ol[4:] == "-" else bytes.fromhex(ol[4:]), cur_ret, "rotate")); cur_ret = 0
            elif k == "addbp":
                if ln != "r %d" % f[1]: bad("C13", "add_block_parameters returned %s, expected index %d" % (ln, f[1]))
            elif k == "setbp":
                if ln != "b %d" % (1 if f[1] else 0): bad("C12", "set_active_block_parameters returned %s" % ln)
            elif k == "counts":
                exp = "c %d %d %d %d %d %d" % f[1:]
                if ln != exp: bad("C12", "counters %r differ from the expected %r" % (ln, exp))
        f = facts[fi]; exp = "c %d %d %d %d %d %d" % f[1:]
        if lines[i] != exp: bad("C12", "final counters %r differ from the expected %r" % (lines[i], exp))
        i += 1
        ol = lines[i]; i += 1
        if not ol.startswith("out "): return fails + [("C02", "destruction failed: %s" % ol)]
        outs.append((b"" if ol[4:] == "-" else bytes.fromhex(ol[4:]), cur_ret, "destroy"))
    except IndexError:
        return fails + [("C01", "driver output ended early")]
    # every output against the specification
    for k, ((data, retsum, how), eo) in enumerate(zip(outs, sp.outputs)):
        if not eo["blocks"]:
            if data: bad("C02", "output %d received %d bytes although no block was written to it" % (k, len(data)))
            if retsum != 0: bad("C10", "output %d: byte counts sum to %d for an empty output" % (k, retsum))
            continue
        if len(data) != retsum + (1 if how == "destroy" else 0):
            bad("C10", "output %d: returned byte counts sum to %d, the output has %d bytes (%s)" % (k, retsum, len(data), how))
        try:
            doc = read_output(sch, data)
        except (refcbor.Malformed, schema.Nonconforming) as e:
            bad("C02", "output %d is not one well-formed schema-valid C-DNS document: %s" % (k, e)); continue
        exp_pre = sp.versions + [eo["params"]]
        if doc["pre"] != exp_pre:
            pid = "C13" if doc["pre"][3] != exp_pre[3] and doc["pre"][:3] == exp_pre[:3] and len(doc["pre"][3]) != len(exp_pre[3]) else "C09"
            bad(pid, "output %d: preamble differs from the exporter's (parameter sets %d vs %d)" % (k, len(doc["pre"][3]), len(exp_pre[3])))
        if len(doc["blocks"]) != len(eo["blocks"]):
            bad("C12", "output %d holds %d blocks, expected %d" % (k, len(doc["blocks"]), len(eo["blocks"]))); continue
        for j, (rb, eb) in enumerate(zip(doc["blocks"], eo["blocks"])):
            where = "output %d block %d" % (k, j)
            if rb["bpi"] != eb["bpi"]: bad("C13", "%s refers to parameter set %d, was built under %d" % (where, rb["bpi"], eb["bpi"]))
            if doc["pre"][3][rb["bpi"]] != eb["bp"]: bad("C04", "%s: the parameter set stated in the preamble differs from the one applied" % where)
            m = max(1, eb["bp"][0][1])
            if len(rb["qrs"]) > m or len(rb["aec"]) > m or len(rb["mms"]) > m: bad("C12", "%s exceeds max_block_items %d" % (where, m))
            if rb["qrs"] != eb["qrs"]:
                d = next((n for n in range(min(len(rb["qrs"]), len(eb["qrs"]))) if rb["qrs"][n] != eb["qrs"][n]), None)
                if d is None: bad("C12", "%s: %d query/response records, expected %d" % (where, len(rb["qrs"]), len(eb["qrs"])))
                else:
                    fld = [n for n in range(39) if rb["qrs"][d][n] != eb["qrs"][d][n]]
                    extra = [n for n in fld if eb["qrs"][d][n] is None]
                    bad("C04" if extra else "C01", "%s: record %d differs in generic members %s (got %r, expected %r)" % (where, d, fld, [rb["qrs"][d][n] for n in fld][:3], [eb["qrs"][d][n] for n in fld][:3]))
            try: other = eb["bp"][0][2][3]
            except Exception: other = 3
            # (an item of a kind the hints in force exclude is a matter of C04, any other difference one of C01)
            if rb["mms"] != eb["mms"]: bad("C04" if (rb["mms"] and not other & 1) else "C01", "%s: malformed messages differ%s: %r vs %r" % (where, " (the other-data hints in force, %d, exclude malformed messages)" % other if (rb["mms"] and not other & 1) else "", rb["mms"][:2], eb["mms"][:2]))
            if rb["aec"] != eb["aec"]: bad("C04" if (rb["aec"] and not other & 2) else "C01", "%s: address event counts differ%s: %r vs %r" % (where, " (the other-data hints in force, %d, exclude address events)" % other if (rb["aec"] and not other & 2) else "", rb["aec"], eb["aec"]))
            if rb["stats"] != eb["stats"]: bad("C01", "%s: statistics %r, expected the most recently supplied %r" % (where, rb["stats"], eb["stats"]))
            # C17: earliest <= every stored time; offsets non-negative (unsigned in the file) and exact
            stored = [t for t, st in eb["times"] if st]
            if stored:
                e = tuple(rb["earliest"])
                if any(tuple(t) < e for t in stored): bad("C17", "%s: earliest time %r is later than a record time" % (where, e))
            # C11: no two equal entries in a table; C04: every entry reachable
            for ti, tb in enumerate(rb["tables"]):
                for a in range(len(tb)):
                    for b2 in range(a + 1, len(tb)):
                        if tb[a] == tb[b2]: bad("C11", "%s: table %s holds two equal entries (%d and %d): %r" % (where, rb["names"][ti], a, b2, tb[a]))
            # reachability (entries referenced only by other entries are marked while resolving)
            tbs = rb["tables"]; used = rb["used"]
            for ti in range(9):
                for ix in range(len(tbs[ti])):
                    if ix not in used[ti]: bad("C04", "%s: entry %d of table %s is not referenced by any stored item" % (where, ix, rb["names"][ti]))
    return fails


def check_reader_dump(sch, h, lines):
    """the library's own reader on every closed output (the 'F out k' part of the script): records equal to the submitted
    ones after hint filtering, in order; AEC totals; statistics; clean eof"""
    fails = []
    sp, facts = simulate(h)
    # locate the F dumps: they follow the final 'out' line of 'X end'
    try:
        start = max(i for i, l in enumerate(lines) if l.startswith("out ")) + 1
    except ValueError:
        return fails
    chunks, cur = [], None
    for l in lines[start:]:
        if cur is None and l.startswith("throw "):
            chunks.append([l])
        elif cur is None and l.startswith("pre "):
            cur = [l]; chunks.append(cur)
        elif cur is not None:
            cur.append(l)
            if l == "eof" or l.startswith("throw "): cur = None
    for k, eo in enumerate(sp.outputs):
        if k >= len(chunks): break
        ch = chunks[k]
        if not eo["blocks"]:
            if ch[0] != "throw End": fails.append(("C05", "reading empty output %d gives %r instead of an end-of-input error" % (k, ch[0])))
            continue
        exp = ["pre " + schema.show(sch["FilePreamble"], sp.versions + [eo["params"]])]
        for eb in eo["blocks"]:
            exp.append(None)      # blk line: earliest checked through the independent reader
            for q in eb["qrs"]: exp.append("qr " + schema.show(GQR, q))
            aecs = sorted("aec " + schema.show(GAEC, [key[0], key[1], key[2], key[3], cnt]) for key, cnt in eb["aec"].items())
            exp += aecs
            for m in eb["mms"]: exp.append("mm " + schema.show(GMM, m))
            exp.append("endblk")
        exp.append("eof")
        if len(ch) != len(exp):
            fails.append(("C01", "library reader on output %d returned %d lines, expected %d (first: %r)" % (k, len(ch), len(exp), ch[:2]))); continue
        for a, b in zip(ch, exp):
            if b is not None and a != b:
                fails.append(("C01", "library reader on output %d: got %r expected %r" % (k, a[:160], b[:160]))); break
    return fails

def canon_lines(lines):
    """canonicalise driver output before diffing: AEC arrays of outputs sorted (unordered_map order is unspecified)"""
    out = []
    for l in lines:
        if l.startswith("out ") and len(l) > 40:
            out.append("out " + refcbor.canon_file_dump(bytes.fromhex(l[4:])))
        else: out.append(l)
    return out
