# C03 — reading untrusted bytes is memory-safe, bounded and fails only by exception (partial).
import os, subprocess, tempfile, shutil
import common, schema, histgen, refcbor, cborgen
from concurrent.futures import ThreadPoolExecutor
THEOREMS = ["C03_window", "C03_alloc_bounded", "C03_alloc_bounded_skip", "C03_alloc_bounded_strings", "C03_time_arith", "C03_index_checked",
            "C03_params_index_checked", "C03_dname", "C03_fuel_partial", "C03_repeated_keys_as_the_code", "C03_nonvacuous"]
EXTRA_PROPERTY_FILES = ("Properties_format", "Properties_cursor", "Properties_decoder", "Properties_timestamp")   # obligations over the regenerated Gen_*.v (translator/*.py)
TOOLS = True
OPS = ["D pk", "D u", "D n", "D i", "D b", "D bs", "D ts", "D as", "D ms", "D br", "D sk"]

def loosen(lines):
    """file-level reads of malformed input: the class of the exception is not compared, and nothing after it"""
    out = []
    for l in lines:
        if l.startswith("throw "): out.append("throw"); break
        out.append(l)
    return out

def valid_files(ctx, sch, rng, n):
    cases = [("f%d" % i, histgen.to_script(sch, histgen.gen_history(sch, rng, nops=rng.choice([3, 8, 20]), rotations=False), read_back=False)) for i in range(n)]
    impl, _, _ = common.run_both(cases, ctx["impl"]["drv"], ctx["mdl"], batch=10, impl_only=True)
    files = []
    for cid, _ in cases:
        outs = [l for l in impl[cid] if l.startswith("out ") and l[4:] != "-"]
        if outs: files.append(bytes.fromhex(outs[-1][4:]))
    return files

DEEP = set()      # mutants nested deeper than 2000: implementation only (the model's nested binds are quadratic in the depth)
def mutants(files, rng, n):
    res = []
    bombs = [bytes.fromhex("5b0000001000000000") + b"ab", bytes.fromhex("5bffffffffffffffff"), bytes.fromhex("7b0000000100000000"), bytes.fromhex("9b0000000100000000"),
             bytes.fromhex("bbffffffffffffffff"), bytes.fromhex("5f5b00000010000000004142ff")]
    for i in range(n):
        f = rng.choice(files); r = rng.random()
        if r < 0.35:
            try: m = refcbor.encode(refcbor.mutate_tree(refcbor.parse_all(f), rng))
            except Exception: m = f[: len(f) // 2]
        elif r < 0.55:
            b = bytearray(f)
            for _ in range(rng.choice([1, 1, 2, 5])): b[rng.randrange(len(b))] = rng.getrandbits(8)
            m = bytes(b)
        elif r < 0.65: m = f[:rng.randrange(len(f))]
        elif r < 0.75:
            pos = rng.randrange(len(f)); m = f[:pos] + rng.choice(bombs) + f[pos + rng.choice([0, 1, 9]):]
        elif r < 0.80:
            pos = rng.randrange(len(f)); d = rng.choice([2000, 60000]); m = f[:pos] + cborgen.nest(d, rng.choice(["arr1", "iarr", "tag", "map1"])) + f[pos:]
            if d > 2000: DEEP.add(m)
        elif r < 0.85: m = bytes(rng.getrandbits(8) for _ in range(rng.choice([0, 1, 10, 200])))
        elif r < 0.93:
            try: m = refcbor.encode(refcbor.repeat_key(refcbor.parse_all(f), rng))
            except Exception: m = f
        else: m = f
        res.append(m)
    return res

def run(ctx):
    rep, tier, rng = ctx["report"], ctx["tier"], ctx["rng"]
    sch = schema.load(ctx["mdl"])
    files = valid_files(ctx, sch, rng, 12 if tier == "quick" else 60)
    muts = mutants(files, rng, 400 if tier == "quick" else 20000)
    cases, exact, loose = [], [], []
    # (a) decoder operations on arbitrary / mutated bytes: compared exactly (value, exception class, remainder)
    for i in range(400 if tier == "quick" else 20000):
        r = rng.random()
        data = bytes(rng.getrandbits(8) for _ in range(rng.choice([0, 1, 2, 9, 40]))) if r < 0.4 else cborgen.gen_item(rng, 3)["b"][:rng.choice([1, 5, 1000])] if r < 0.7 else rng.choice(muts)[:300]
        ops = [rng.choice(OPS) for _ in range(rng.choice([1, 3, 8]))]
        exact.append({"id": "d%d" % i, "script": ["D new %s %s" % (rng.choice(["ss", "fs"]), data.hex() or "-")] + ops + ["D rest"], "expect": None, "meta": {"kind": "decoder-ops"}})
    # (a') EVERY initial byte x every decoder operation (exhaustive: 256 x 11), followed by a few bytes so that arguments and short payloads
    #      are there: all additional-information values of all major types meet every read operation
    tails = [bytes([0, 1, 2, 3, 4, 5, 6, 7, 8, 9]), bytes([0xff] * 10), bytes([0x01, 0x41, 0x61, 0x00, 0xff, 0x81, 0x00, 0xa1, 0x00, 0x00])]
    for b0 in range(256):
        for k, op in enumerate(OPS):
            data = bytes([b0]) + tails[(b0 + k) % 3]
            exact.append({"id": "i%d_%d" % (b0, k), "script": ["D new %s %s" % ("ss" if (b0 + k) % 2 else "fs", data.hex()), op, "D rest"], "expect": None,
                          "meta": {"kind": "decoder-ops/every-initial-byte"}})
    # (b) the file reader + generic accessors on mutated files: outcome compared up to the exception class
    deep = []
    for i, m in enumerate(muts):
        (deep if m in DEEP else loose).append({"id": "m%d" % i, "script": ["F read " + (m.hex() or "-")], "expect": None,
                                                "meta": {"kind": "reader/mutant-deep" if m in DEEP else "reader/mutant"}})
    # (g) input-controlled nesting AT THE PLACES WHERE THE READER SKIPS: a member with an unknown key whose value is nested 60000 deep (arrays,
    #     indefinite arrays, tags, maps), added to the file preamble's map and to the first block's map of valid files (impl only, 1 MiB stack)
    for fi, f in enumerate(files[:4]):
        try:
            t = refcbor.parse_all(f)
            hdr = 7 + len(refcbor.encode(t[1][1]))                 # 83 65 'C-DNS' <preamble> | 9f <blocks>
            if not (f[7] & 0xe0 == 0xa0 and (f[7] & 31) < 22 and f[hdr] == 0x9f and f[hdr + 1] & 0xe0 == 0xa0 and (f[hdr + 1] & 31) < 22): continue
        except Exception: continue
        for kind in ("arr1", "iarr", "tag", "map1"):
            deepv = b"\x18\x63" + cborgen.nest(60000, kind)           # key 99, then the nested value
            for where, pos in (("preamble", 7), ("block", hdr + 1)):
                m = f[:pos] + bytes([f[pos] + 1]) + deepv + f[pos + 1:]
                deep.append({"id": "n%d%s%s" % (fi, kind, where), "script": ["F read " + m.hex()], "expect": None, "meta": {"kind": "reader/unknown-member-nested-deep"}})
    # (h) every kind of stored table index set to exactly the length of its table (the smallest out-of-range value): the reader must refuse it
    for fi, f in enumerate(files[:(3 if tier == "quick" else 30)]):
        try: ms = refcbor.index_boundary_mutants(refcbor.parse_all(f))
        except Exception: ms = []
        for kind, m in ms:
            loose.append({"id": "ix%d%s" % (fi, kind), "script": ["F read " + m.hex()], "expect": None, "meta": {"kind": "reader/index-at-table-length"}})
    # (e) inputs longer than the decoder window (65535 bytes): truncated inside a long string, length fields inflated beyond the input
    big = []
    for k in range(3 if tier == "quick" else 20):
        h = histgen.gen_history(sch, rng, nops=6, rotations=False, maxi=10000)
        for o in h["ops"]:
            if o[0] == "mm": o[2][6] = bytes([65 + k]) * rng.choice([70000, 140000])
            if o[0] == "qr" and o[2][23] is not None: o[2][23] = bytes([97 + k]) * 66000
        h["pre"][3] = [histgen.gen_bp(sch, rng, masks=(histgen.ALL_QR_BITS, histgen.ALL_SIG_BITS, 3, 3), tps=1000, maxi=10000)]
        h["ops"] = [o for o in h["ops"] if o[0] in ("qr", "aec", "mm")]
        h["ops"].append(("mm", None, [[5, 1], None, None, None, None, None, bytes([48 + k]) * 70000]))
        h["ops"].append(("wb",))
        big.append(("b%d" % k, histgen.to_script(sch, h, read_back=False)))
    bimpl, _, _ = common.run_both(big, ctx["impl"]["drv"], ctx["mdl"], batch=1, impl_only=True)
    n = 0
    for cid, _ in big:
        outs = [l for l in bimpl[cid] if l.startswith("out ") and l[4:] != "-"]
        if not outs: continue
        data = bytes.fromhex(outs[-1][4:])
        W = 65535
        variants = [data[:W + d] for d in (1, 100, 5000) if W + d < len(data)] + [data[:2 * W + 7]]
        # inflate the declared length of every long definite string (head 5a/7a + 4 bytes) and cut the input
        for marker in (b"\x5a\x00\x01", b"\x7a\x00\x01"):
            pos = data.find(marker)
            if pos >= 0:
                variants.append(data[:pos] + marker[:1] + b"\x7f\xff\xff\xff" + data[pos + 5: pos + 5 + W + 300])
                variants.append(data[:pos] + bytes([marker[0] + 1]) + b"\x00\x00\x00\x10\x00\x00\x00\x00" + data[pos + 5: pos + 5 + W + 300])
        for v in variants:
            # (compared exactly: running out of input inside a long string must be reported as end of input, nothing else)
            exact.append({"id": "L%d" % n, "script": ["F read " + v.hex()], "expect": None, "meta": {"kind": "reader/multi-window"}})
            exact.append({"id": "E%d" % n, "script": ["D new %s %s" % (rng.choice(["ss", "fs"]), v.hex()), "D as", "D ts", "D sk", "D as", "D sk", "D sk", "D u", "D rest"],
                          "expect": None, "meta": {"kind": "decoder-ops/multi-window"}})
            n += 1
    # (f) single structures whose map repeats one key (invalid CBOR): what each of the 19 readers makes of it - the last occurrence wins, vectors
    #     cleared first - is compared exactly with the model (whole Blocks with repeated keys are among the file mutants above)
    import p_C08
    for i in range(150 if tier == "quick" else 5000):
        nm = p_C08.NAMES[i % len(p_C08.NAMES)]; t = sch[nm]
        v = schema.gen_val(t, rng, small=True)
        try: r = refcbor.encode(refcbor.repeat_key(refcbor.parse_all(schema.enc(t, v, rng)), rng))
        except Exception: continue
        exact.append({"id": "k%d" % i, "script": ["S r %s %s" % (nm, r.hex())], "expect": None, "meta": {"kind": "struct-repeated-key"}})
        # ... and the same structure with one member missing: the reader must insist on exactly the mandatory members (model: Mand / MandNE)
        try: r2 = refcbor.encode(refcbor.drop_member(refcbor.parse_all(schema.enc(t, v)), rng))
        except Exception: continue
        exact.append({"id": "j%d" % i, "script": ["S r %s %s" % (nm, r2.hex())], "expect": None, "meta": {"kind": "struct-member-missing"}})
    # (i) ONE CdnsBlockRead object used twice: it holds the first block of a valid file and k of its records have been taken; then the same
    #     object read()s other bytes as a block - valid blocks of other files, their mutants, truncations - and everything it
    #     then holds is taken out and rendered. Nothing of the first use may be touched (sanitizers), and after a read that succeeds the
    #     object must hand out exactly what a fresh object does (which (b) compares with the model).
    reuse = []
    blocks = []
    for f in files:
        try: t = refcbor.parse_all(f)
        except Exception: continue
        blocks += [refcbor.encode(b) for b in t[1][2][1]]
    with_blocks = [f for f in files if refcbor.parse_all(f)[1][2][1]]
    for i in range((120 if tier == "quick" else 4000) if blocks else 0):
        f = rng.choice(with_blocks); b = rng.choice(blocks); r = rng.random(); how = "read"
        if r < 0.3: pass
        elif r < 0.55:
            try: b = refcbor.encode(refcbor.mutate_tree(refcbor.parse_all(b), rng, p=0.1))
            except Exception: b = b[: len(b) // 2]
        elif r < 0.75: b = b[:rng.randrange(len(b))]
        else: b = rng.choice([b"\xa1\x00\x00", b"\xa0", b"\xbf\xff", b"", b"\x00", b"\xa1\x00\xa0", b"\xa1\x04\x81\x00", b"\xa1\x02\xa0"])
        reuse.append({"id": "ru%d" % i, "script": ["F reuse %s %d %s %s" % (f.hex(), rng.choice([0, 1, 1, 2, 50]), how, b.hex() or "-")], "expect": ["reuse ok", None],
                      "what": "a CdnsBlockRead object used a second time", "meta": {"kind": "reader/object-reused-" + how}})
    # (j) boundary integers in every numeric field, ONE FIELD AT A TIME: valid files in which exactly one unsigned integer value - a time
    #     offset, a count, a port, a table index, a tick rate ... - is replaced by 2^63-1, 2^63, 2^63+1, 2^64-1, 2^32, 2^31 (the rest of the
    #     file intact, so that the reader gets as far as USING the value: time arithmetic, index resolution, reservations)
    bvals = [2 ** 63 - 1, 2 ** 63, 2 ** 63 + 1, 2 ** 64 - 1, 2 ** 32, 2 ** 31]
    for fi, f in enumerate(files[:(2 if tier == "quick" else 12)]):
        try: t = refcbor.parse_all(f)
        except Exception: continue
        for pth, v, m in refcbor.single_int_mutants(t, bvals, rng, limit=(250 if tier == "quick" else 3000)):
            loose.append({"id": "bi%d_%s_%d" % (fi, "-".join(map(str, pth)), v), "script": ["F read " + m.hex()], "expect": None, "meta": {"kind": "reader/one-integer-at-a-boundary"}})
    # (c) renderers on arbitrary strings (implementation only: no sanitizer report, no crash)
    rend = []
    names = [b"\x14" + b"a" * 19, b"\x01", b"\x03www", b"\x03www\x00", b"\xff", b"\x00", b"", b"\x01a\x3f" + b"b" * 10, b"\x05ab"]
    for i in range(150 if tier == "quick" else 5000):
        s = rng.choice(names) if rng.random() < 0.4 else bytes(rng.getrandbits(8) for _ in range(rng.choice([0, 1, 2, 3, 4, 5, 15, 16, 17, 40])))
        rend.append({"id": "g%d" % i, "script": ["G %s %s" % (rng.choice(["rr", "ip", "mm"]), s.hex() or "-")], "expect": None, "meta": {"kind": "renderer"}})
    env = {"DRV_STACK_KB": "1024"}
    d1, f1 = common.run_expect(ctx, exact, batch=50, impl_env=env)
    d2, f2 = common.run_expect(ctx, loose, batch=25, impl_env=env, canon=loosen)
    d3, f3 = common.run_expect(ctx, rend, batch=50, impl_env=env, impl_only=True)
    d4, f4 = common.run_expect(ctx, deep, batch=10, impl_env=env, impl_only=True)
    d5, f5 = common.run_expect(ctx, reuse, batch=10, impl_env=env, impl_only=True)
    diffs, fails = d1 + d2, f1 + f2 + f3 + f4 + f5
    # (d) the five command-line tools on mutated files: normal exit, a diagnostic at most, no sanitizer report, bounded time
    tools = ["cdns_blocks", "cdns_items", "cdns_preamble", "cdns_itemcount", "cdns_merge"]
    root = tempfile.mkdtemp(prefix="c03.", dir=common.scratch_root())
    tcases = []
    for i, m in enumerate(muts[: (60 if tier == "quick" else 2000)]):
        p = os.path.join(root, "m%d.cdns" % i)
        with open(p, "wb") as f: f.write(m)
        tcases.append((i, p, tools[i % len(tools)]))
    def one(tc):
        i, p, tool = tc
        args = [ctx["impl"][tool]] + (["-o", p + ".out", p] if tool == "cdns_merge" else [p])
        envv = dict(os.environ); envv.update(common.SAN_ENV)
        try:
            q = subprocess.run(args, stdout=subprocess.PIPE, stderr=subprocess.PIPE, env=envv, timeout=120)
            return tc, q.returncode, q.stderr.decode(errors="replace")
        except subprocess.TimeoutExpired:
            return tc, -9, "timeout"
    with ThreadPoolExecutor(max_workers=common.NPROC) as ex:
        for (i, p, tool), rc, err in ex.map(one, tcases):
            c = {"id": "t%d" % i, "script": ["%s <mutant %d, %d bytes: %s..>" % (tool, i, len(muts[i]), muts[i][:40].hex())], "meta": {"kind": "tool/" + tool}, "expect": None}
            loose.append(c)
            if rc != 0 or "Sanitizer" in err or "runtime error:" in err:
                fails.append((c["id"], c, "%s on a malformed file: exit status %d %s" % (tool, rc, " ".join(err.split())[-300:]), []))
    shutil.rmtree(root, ignore_errors=True)
    cases = exact + loose + rend + deep + reuse
    common.summarize_cov(rep, cases,
        "(a) sequences of decoder operations on random bytes, truncated well-formed items and file mutants, and every decoder operation on every initial byte "
        "(256 x 11, exhaustive) (compared exactly with the model: "
        "values, exception class, remaining input); (b) CdnsReader + read_generic_* on mutants of exporter-produced files - structure-aware "
        "(integers -> boundary values incl. out-of-range indices and 2^64-1 counts, members dropped / duplicated, definite <-> indefinite, wrong "
        "types, tags), byte flips, truncation, allocation bombs (length 2^36, 2^64-1), nesting depth 2000 / 60000 - under ASan+UBSan with a 1 MiB "
        "stack and a 256 MiB allocation cap, outcome compared with the model up to the exception class; (c) renderers on arbitrary names / "
        "addresses; (d) the five tools on mutants: exit 0, no sanitizer report; (e) inputs longer than the decoder window cut inside long strings / with "
        "inflated lengths; (f) maps that repeat one key - whole files (8% of the mutants) and each of the 19 structures - what the reader makes of them "
        "(the block's item vectors and tables append, everything else: last occurrence) and structures with one member missing (exactly the mandatory "
        "members are insisted on), compared exactly with the model; (g) members with unknown keys "
        "whose value is nested 60000 deep (arrays, indefinite arrays, tags, maps) in the preamble map and the first block map; (h) each kind of stored "
        "table index (27 kinds) set to exactly the length of the table it points into; (i) one CdnsBlockRead object used twice - a valid block read "
        "and partly consumed, then read() of valid / mutated / truncated block bytes on the same object, then all accessors and renderers: "
        "no access to what the first use left behind, and after a successful read exactly the records a fresh object hands out; (j) valid files with exactly ONE unsigned "
        "integer value replaced by 2^63-1, 2^63, 2^63+1, 2^64-1, 2^32 or 2^31 (every numeric field in turn, the rest intact, so that the reader uses the value)", diffs, fails)
    return {"diffs": diffs, "fails": fails, "to_script": lambda c: common.case_script(c)}
