# C16 — output failures are reported, never swallowed, and rotation recovers from them.
import common, p_C14, p_xw, refcbor
from concurrent.futures import ThreadPoolExecutor
THEOREMS = ["C16_detect_fd", "C16_detect_fd_same_call", "C16_recover_transient", "C16_named_refuted", "C16_recover_persistent_refuted",
            "C16_exporter_reported", "C16_exporter_retains", "C16_exporter_retains_rotation", "C16_exporter_recovers", "C16_exporter_persistent_refuted", "C16_healthy_is_fault_free", "C16_healthy_outputs",
            "C16_exporter_nonvacuous", "C16_nonvacuous"]
VARIANT = "plain"

EXTRA_PROPERTY_FILES = ("Properties_writers",)   # the bodies of the output writers' functions as they are now (translator/writers.py) against what the model was written after
def match_known(case, why, known):
    key = case.get("finding_key")
    for k in known:
        if key and k.get("key") == key: return k
    return None

def writer_cases(tier, rng):
    cases = []
    sizes = [1, 100, 2048, 5000]
    n = 60 if tier == "quick" else 1500
    for i in range(n):
        kind = "fd" if i % 2 == 0 else "name"
        comp = "none" if i % 3 != 2 else rng.choice(["gzip", "xz"])
        calls, ls = [], []
        b0 = rng.choice([0, 1, 50, 2048, 4096, 100000])
        ls = ["CASE w", "W new %s %s 1 %d" % (kind, comp, b0)]
        nid, intended, budgets = 1, {1: 0}, {1: b0}
        seg = [("new", 1)]
        for _ in range(rng.choice([2, 4, 7])):
            if rng.random() < 0.7:
                sz = rng.choice(sizes); data = bytes(rng.getrandbits(8) for _ in range(sz))
                ls.append("W write " + data.hex()); intended[nid] += sz; seg.append(("w", nid, data))
            else:
                nid += 1; b = rng.choice([0, 10, 3000, 10 ** 6]); ls.append("W rot %d %d" % (nid, b)); intended[nid] = 0; budgets[nid] = b; seg.append(("rot", nid))
        nid += 1; ls.append("W rot %d 1000000" % nid); seg.append(("rot", nid))      # every earlier output is closed by a rotation
        cases.append({"id": "w%d" % i, "script": ls, "kind": kind, "comp": comp, "seg": seg, "budgets": budgets, "meta": {"kind": "writer/%s/%s" % (kind, comp)}})
    # recovery at writer level: an output that fails (while it is written or only while it is closed: compressed outputs emit most of their
    # bytes at the end), a rotation onto a destination that accepts everything, and THEN further writes and a closing rotation - the new
    # output must take them (no exception) and be complete, whatever state the failure left the old one in
    for j in range(18 if tier == "quick" else 400):
        kind = "fd" if j % 3 != 2 else "name"
        comp = ["gzip", "xz", "none"][j % 3] if j % 2 == 0 else rng.choice(["gzip", "xz"])
        b0 = rng.choice([0, 1, 10, 30, 200, 3000])
        ls = ["CASE w", "W new %s %s 1 %d" % (kind, comp, b0)]
        seg, budgets = [("new", 1)], {1: b0, 2: 10 ** 6, 3: 10 ** 6}
        for _ in range(rng.choice([1, 2, 3])):
            data = bytes(rng.getrandbits(8) for _ in range(rng.choice([1, 100, 5000]))); ls.append("W write " + data.hex()); seg.append(("w", 1, data))
        ls.append("W rot 2 1000000"); seg.append(("rot", 2))
        for _ in range(rng.choice([1, 2, 4])):
            data = bytes(rng.getrandbits(8) for _ in range(rng.choice([1, 100, 5000]))); ls.append("W write " + data.hex()); seg.append(("w", 2, data))
        ls.append("W rot 3 1000000"); seg.append(("rot", 3))
        cases.append({"id": "wr%d" % j, "script": ls, "kind": kind, "comp": comp, "seg": seg, "budgets": budgets, "meta": {"kind": "writer-recovery/%s/%s" % (kind, comp)}})
    return cases

def check_writer_case(c, il, files):
    """property oracle on the implementation: an output closed by a rotation with bytes lost and no exception up to and
    including that rotation"""
    ext = {"none": "", "gzip": ".gz", "xz": ".xz"}[c["comp"]]
    res = il[1:]                      # results of the commands after CASE
    # walk the calls, collect per output: data intended, whether any call threw while it was open (closing rotation included)
    cur, data, threw, closed = 1, {1: b""}, {1: False}, []
    k = 1                             # res[0] is 'W new'
    if res and res[0].startswith("throw"): return None, None
    for s in c["seg"][1:]:
        r = res[k] if k < len(res) else "<missing>"; k += 1
        if s[0] == "w":
            data[cur] += s[2]
            if r.startswith("throw"):
                threw[cur] = True
                # recovery: a destination that accepts everything (budget never reached) must take the writes that follow the rotation onto it,
                # whatever happened to the outputs before it
                if c["budgets"].get(cur, 0) >= 10 ** 6 and len(data[cur]) < 400000:
                    return ("write() to output %d (%s, %s) threw although the destination accepts everything (budget %d bytes, %d written so far): "
                            "a failure of an EARLIER output is carried over the rotation" % (cur, c["kind"], c["comp"], c["budgets"][cur], len(data[cur]))), None
        else:
            # a rotation that throws has not rotated: the output stays open (and has now seen an exception), the destination is not used
            if r.startswith("throw"): threw[cur] = True; continue
            closed.append(cur); cur = s[1]; data.setdefault(cur, b""); threw.setdefault(cur, False)
    for o in closed:
        fn = ("out%d%s" % (o, ext)) if c["kind"] == "name" else "fd%d" % o
        got = files.get(fn)
        if got is None: got = files.get(fn + ".part", b"")
        try: plain = got if c["comp"] == "none" else p_C14.decompress_strict(c["comp"], got)
        except Exception: plain = None
        lost = plain != data[o]
        if lost and not threw[o]:
            key = None
            if c["kind"] == "name": key = "named-output-silent-loss"
            elif c["comp"] != "none":
                # known only when the disk filled up during the finishing writes of close(): replay up to the closing rotation
                idx = [j for j, x in enumerate(c["seg"]) if x[0] == "rot" and c["seg"][j - 1:j] and True]
                cut = None; cur2 = 1
                for j, x in enumerate(c["seg"][1:], 1):
                    if x[0] == "rot" and not (j < len(res) and res[j].startswith("throw")):
                        if cur2 == o: cut = j; break
                        cur2 = x[1]
                # (the calls before the closing rotation are replayed with a trace: did any write(2) to this output fail or come back short
                #  while a write() call was in progress?  then that call should have thrown - not the known finding)
                before, bfiles, _ = common.run_w(c["_drvw"], c["script"][:1 + cut] + ["TRACE"]) if cut else ([], {}, 0)
                full_before = False
                for l in before:
                    t = l.split()
                    if l.startswith("ev write fd%d " % o) and len(t) >= 4:
                        a, _, b2 = t[3].partition("/")
                        if a != b2: full_before = True
                key = None if full_before else "compressed-close-swallows-failure"
            return ("output %d (%s, %s, budget %d bytes) lost data (%d of %d bytes usable) but no call up to the rotate_output that closed it threw"
                    % (o, c["kind"], c["comp"], c["budgets"].get(o, -1), len(plain) if plain is not None else -1, len(data[o]))), key
    return None, None

def exporter_cases(tier, rng):
    """exporter on a descriptor output: a single rejected write (transient) and a full disk (persistent)"""
    cases = []
    for i in range(12 if tier == "quick" else 200):
        persistent = i % 2 == 1
        k = rng.choice([1, 2, 3])
        name = (bytes([65 + i % 20]) * 1500).hex()
        ls = ["CASE x"]
        if not persistent: ls.append("FAILONCE %d" % k)
        ls.append("X new fd none 1 2" + (" %d" % rng.choice([100, 2048, 5000]) if persistent else ""))
        for q in range(6): ls.append("X qr %s %d" % (name, q))
        ls += ["X counts", "X rot 2 0", "X counts", "X wb", "X counts", "X end"]
        cases.append({"id": "x%d" % i, "script": ls, "persistent": persistent, "meta": {"kind": "exporter/" + ("persistent" if persistent else "transient")}})
    # after a reported (transient) failure the exporter must keep working: later outputs that are written in small pieces and
    # closed by a rotation must be complete
    for i in range(6 if tier == "quick" else 100):
        small = (b"n%d" % i).hex()
        n2, n3 = rng.choice([1, 2, 5]), rng.choice([1, 3])
        ls = ["CASE x", "FAILONCE 1", "X new fd none 1 10000"]
        ls += ["X qr %s %d" % (small, q) for q in range(3)] + ["X wb", "X rot 2 0", "X rot 2 0"]
        ls += ["X qr %s %d" % (small, 10 + q) for q in range(n2)] + ["X wb", "X rot 3 0"]
        ls += ["X qr %s %d" % (small, 20 + q) for q in range(n3)] + ["X wb", "X end"]
        cases.append({"id": "y%d" % i, "script": ls, "persistent": False, "small": (n2, n3), "meta": {"kind": "exporter/after-recovery"}})
    # a write that is cut short ONCE (the operating system accepts only part of the buffer) and then works again: the loss must be
    # reported (Writer<int>::write throws when ret != size); a writer that silently carries on leaves a corrupted output of the right length
    for i in range(9 if tier == "quick" else 150):
        k = 1 + i % 6
        name = (bytes([97 + i % 20]) * 1500).hex()
        ls = ["CASE x", "SHORTONCE %d %d" % (k, rng.choice([1, 100, 1024, 2047])), "X new fd none 1 10000"]
        ls += ["X qr %s %d" % (name, q) for q in range(6)] + ["X wb", "X counts", "X rot 2 0", "X counts", "X rot 3 0", "X wb", "X end"]
        cases.append({"id": "s%d" % i, "script": ls, "persistent": False, "short": True, "meta": {"kind": "exporter/short-write-once"}})
    return cases

def count_qrs(data):
    t = refcbor.parse_all(data)
    return sum(len(v[1]) for b in t[1][2][1] for kk, v in b[1] if kk[1] == 3)

def check_exporter_case(c, il, files):
    if c.get("short"):
        res = il[2:]                      # after CASE, SHORTONCE: 0 new, 1-6 qr, 7 wb, 8 counts, 9 rot 2, 10 counts, 11 rot 3, 12 wb, 13 end
        if len(res) < 14: return "driver output incomplete: %r" % res[-3:], None
        first = next((j for j in (1, 2, 3, 4, 5, 6, 7, 9) if res[j].startswith("throw")), None)
        if first is None:
            # nothing was reported up to and including the rotate_output that closed fd1: it must have lost nothing
            try: got = count_qrs(files.get("fd1", b""))
            except Exception as e:
                return ("a write to fd1 was cut short (the operating system accepted only part of the buffer) and no call up to the rotate_output that closed fd1 threw; "
                        "the closed output (%d bytes) is not a complete document: %s" % (len(files.get("fd1", b"")), e)), None
            if got != 6: return "a write to fd1 was cut short, nothing was reported, and the closed output holds %d of 6 records" % got, None
            return None, None
        nxt = 9 if first < 9 else 11      # the next rotate_output after the report goes to a healthy destination and must succeed
        if res[nxt].startswith("throw"): return "after a single short write had been reported, the next rotate_output to a healthy destination throws: %s" % res[nxt], None
        if res[12].startswith("throw"): return "after the recovery, write_block() throws: %s" % res[12], None
        retained = int(res[8 if first < 9 else 10].split()[1]) if res[8 if first < 9 else 10].startswith("c ") else 0
        got = 0
        for fn in ("fd2", "fd3"):
            d = files.get(fn, b"")
            if not d: continue
            try: got += count_qrs(d)
            except Exception as e: return "output %s, written after the failure had been reported, is not a complete document (%d bytes): %s" % (fn, len(d), e), None
        if got < retained: return "the outputs written after the recovery hold %d records, %d were retained at the time of the exception" % (got, retained), None
        return None, None
    if "small" in c:
        res = il[2:]          # after CASE, FAILONCE
        if not any(r.startswith("throw") for r in res[:7]): return "the rejected write was not reported by any call", None
        for fn, want in (("fd2", c["small"][0]), ("fd3", c["small"][1])):
            try: got = count_qrs(files.get(fn, b""))
            except Exception as e: return "output %s, written after the failure had been reported and closed normally, is not a complete document (%d bytes): %s" % (fn, len(files.get(fn, b"")), e), None
            if got != want: return "output %s holds %d records, %d were written to it" % (fn, got, want), None
        return None, None
    res = il[1:]
    if not c["persistent"]: res = res[1:]
    calls = res[1:7]
    threw = [j for j, r in enumerate(calls) if r.startswith("throw")]
    lost = False
    fd1 = files.get("fd1", b"")
    try:
        t = refcbor.parse_all(fd1 + b"\xff") if fd1 else None      # the first output was closed by rotation (break written) or is broken
    except Exception: t = None
    if not threw:
        return ("no buffer call threw although a write to the output was rejected", None) if False else (None, None)
    counts_after = res[7]; rot = res[8]; counts2 = res[9]; wb = res[10]
    if rot.startswith("throw"):
        if c["persistent"]: return "after the failure, rotate_output to a healthy destination throws again (the encoder first flushes into the failed output)", "persistent-failure-no-recovery"
        return "after a single rejected write, rotate_output to a healthy destination throws", None
    # records of the failed block must still be buffered and end up in the new output
    items = int(counts_after.split()[1]) if counts_after.startswith("c ") else -1
    if items <= 0: return "after the exception the records of the failed block are no longer buffered (%s)" % counts_after, None
    fd2 = files.get("fd2", b"")
    try: t2 = refcbor.parse_all(fd2)
    except Exception as e: return "the output written after the recovery is not a well-formed document: %s" % e, None
    nq = sum(len(v[1]) for b in t2[1][2][1] for kk, v in b[1] if kk[1] == 3)
    if nq < items: return "the recovered output holds %d records, %d were retained" % (nq, items), None
    return None, None

def run(ctx):
    rep, tier, rng = ctx["report"], ctx["tier"], ctx["rng"]
    drvw, mdl = ctx["impl"]["drvw"], ctx["mdl"]
    wc, xc = writer_cases(tier, rng), exporter_cases(tier, rng)
    diffs, fails = [], []
    def one(c):
        c["_drvw"] = drvw
        il, files, rc = common.run_w(drvw, c["script"])
        ml = common.run_model_lines(mdl, c["script"]) if c["id"].startswith("w") and c.get("comp") == "none" else None
        return c, il, files, rc, ml
    with ThreadPoolExecutor(max_workers=common.NPROC) as ex:
        for c, il, files, rc, ml in ex.map(one, wc + xc):
            if rc != 0: fails.append((c["id"], c, "the driver died (exit status %d)" % rc, il[-5:])); continue
            why, key = (check_writer_case if c["id"].startswith("w") else check_exporter_case)(c, il, files)
            if why:
                c2 = dict(c); c2["finding_key"] = key
                fails.append((c["id"], c2, why, il[-8:]))
            if ml is not None and il != ml:
                k = next((j for j in range(min(len(il), len(ml))) if il[j] != ml[j]), min(len(il), len(ml)))
                diffs.append((c["id"], c, "outcome %d (%s): impl %r vs model %r" % (k, c["script"][k][:40] if k < len(c["script"]) else "?", il[k] if k < len(il) else None, ml[k] if k < len(ml) else None)))
    cases = wc + xc
    # (c) the model of the exporter under faults (theorems C16_exporter_*) against the real stack: every fault point of every scenario
    fcases, fdiffs, fstats = p_xw.fault_section(ctx, rng, 12 if tier == "quick" else 150)
    cases += fcases; diffs += fdiffs
    rep.cov.update(fstats)
    common.summarize_cov(rep, cases,
        "(a) writer level: named / descriptor outputs, plain / gzip / xz, a byte budget per output after which the interposed write/writev is "
        "short and then fails with ENOSPC, random writes and rotations; outcome of every call compared with the model (plain outputs) and the "
        "property evaluated on the files: an output closed with bytes lost must have seen an exception no later than its closing rotate_output. "
        "(b) exporter level on a descriptor: one rejected write (transient) or a full disk (persistent) while six 1500-byte records are buffered; "
        "after the exception the records must still be buffered and a rotate_output to a healthy descriptor + write_block must yield a valid file "
        "containing them. (c) exporter histories (block sizes 1..50, names up to 250 bytes) with the k-th write(2) rejected once / cut short once / "
        "rejected from then on, for EVERY k, then a recovery attempt and destruction: outcome of every call, counters and the final content of every "
        "descriptor against the model of the exporter under faults (coq/ExporterFaults.v). Known findings are matched by their call-site key", diffs, fails)
    return {"diffs": diffs, "fails": fails, "to_script": lambda c: common.case_script(c)}
