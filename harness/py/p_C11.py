# C11 — block tables de-duplicate, keep indices stable and stay referentially closed.
import common, schema, histgen, p_hist
THEOREMS = ["C11_equality", "C11_add_get", "C11_idempotent", "C11_nodup", "C11_injective", "C11_stable", "C11_index_in_range",
            "C11_build_qr", "C11_build_mm", "C11_reference_survives", "C11_history", "C11_clear", "C11_nonvacuous"]
EXTRA_PROPERTY_FILES = ("Properties_hash", "Properties_tables")   # obligations over the regenerated Gen_hash.v (translator/hashes.py)
def gen_cases(sch, tier, rng):
    cases = []
    for i in range(200 if tier == "quick" else 6000):
        # few distinct values, many repetitions, large blocks (growth / rehash), flushes in between
        h = histgen.gen_history(sch, rng, nops=rng.choice([20, 60, 150]), rotations=(i % 5 == 0), maxi=rng.choice([3, 50, 10000]))
        cases.append(p_hist.mk_case(sch, "h%d" % i, h, "repetitions"))
    return cases
def run(ctx):
    sch = schema.load(ctx["mdl"])
    cases = gen_cases(sch, ctx["tier"], ctx["rng"])
    diffs, cases = p_hist.run_histories(ctx, cases, batch=6)
    return p_hist.finish(ctx, "C11", cases, diffs,
        "histories of 20-150 records drawn from small pools (4 addresses, 5 names, 4 class/types, 4 fixed malformed-message bodies, 3 fixed "
        "query/response records re-submitted with only time and id changed) so that every table sees repeated and distinct values, with blocks "
        "of up to 10000 items and flushes in between. Independent parse of every block: no two equal entries in any of the nine tables, every "
        "stored index in range and denoting the submitted value (records compare equal), tables of the next block start empty", related=("C04", "C01"))
