# schema.py — Python view of the structure descriptors (read from the model driver's `S schema` dump, so there is one
# source: coq/Schema.v), value generators aimed at the proofs' case splits, the textual value syntax of the drivers, and an
# independent RFC 8949/8618 encoder / interpreter over refcbor trees (shares no code with the Coq model or the C++).
import subprocess, refcbor, cborgen

def parse_schema(text):
    tys = {}
    for line in text.split("\n"):
        if not line.startswith("ty "): continue
        _, name, rest = line.split(" ", 2)
        toks = rest.split()
        t, i = _parse_ty(toks, 0)
        tys[name] = t
    return tys
def _parse_ty(toks, i):
    w = toks[i]
    if w[0] == "U" and w[1:].isdigit(): return ("U", int(w[1:])), i + 1
    if w in ("I", "B", "T", "Y", "TIME", "IDX"): return (w,), i + 1
    if w == "A(":
        e, i = _parse_ty(toks, i + 1); assert toks[i] == ")"; return ("A", e), i + 1
    if w in ("Ms(", "Mu("):
        fs, i = [], i + 1
        while toks[i] != ")":
            k, p = int(toks[i]), toks[i + 1]
            t, i = _parse_ty(toks, i + 2)
            fs.append((k, p, t))
        return ("M", w == "Ms(", fs), i + 1
    raise ValueError(w)

_SCHEMA = None
def load(mdl):
    global _SCHEMA
    if _SCHEMA is None:
        out = subprocess.run([mdl], input="S schema\n", stdout=subprocess.PIPE, universal_newlines=True).stdout
        _SCHEMA = parse_schema(out)
    return _SCHEMA

def bounds(bits):
    return [v for v in (0, 1, 23, 24, 255, 256, 65535, 65536, 2 ** 32 - 1, 2 ** 32, 2 ** 63, 2 ** 64 - 1) if v < 2 ** bits] + [2 ** bits - 1]

def gen_val(t, rng, depth=0, small=False, empty_bias=0.15):
    k = t[0]
    if k == "U":
        return rng.choice(bounds(t[1])) if rng.random() < 0.5 else rng.randrange(2 ** rng.randrange(1, t[1] + 1))
    if k == "I":
        v = rng.choice([0, 1, 23, 24, 255, 256, 2 ** 31, 2 ** 63 - 1]) if rng.random() < 0.5 else rng.randrange(2 ** rng.randrange(1, 64))
        return v if rng.random() < 0.5 else -1 - v
    if k == "B": return rng.random() < 0.5
    if k in ("T", "Y"):
        n = rng.choice([0, 1, 5, 23, 24, 40]) if small or rng.random() < 0.9 else rng.choice([255, 256, 300, 3000])
        if k == "T": return bytes(rng.choice(b"abcdefghijklmnopqrstuvwxyz.-_0123456789 ") for _ in range(n))
        return cborgen.rand_bytes(rng, n)
    if k == "TIME": return [rng.choice([0, 1, 1600000000, 2 ** 32, 2 ** 40]), rng.choice([0, 1, 999999, 2 ** 32 + 5])]
    if k == "IDX": return [gen_val(("U", 32), rng) for _ in range(rng.choice([0, 1, 2, 3, 30]))]
    if k == "A":
        n = rng.choice([0, 1, 1, 2, 3]) if depth > 1 or small else rng.choice([0, 1, 2, 3, 5, 24, 30])
        return [gen_val(t[1], rng, depth + 1, small) for _ in range(n)]
    if k == "M":
        rec = []
        mode = rng.random()
        for (key, p, ft) in t[2]:
            if p in ("mand", "always"): rec.append(gen_val(ft, rng, depth + 1, small))
            elif p == "mandne":
                v = gen_val(ft, rng, depth + 1, small)
                while not v: v = gen_val(ft, rng, depth + 1, small)
                rec.append(v)
            elif p == "opt":
                absent = mode < empty_bias or (mode < 0.85 and rng.random() < 0.5) 
                rec.append(None if absent else gen_val(ft, rng, depth + 1, small))
            else:  # nonempty vector: empty == absent
                rec.append([] if (mode < empty_bias or rng.random() < 0.4) else gen_val(ft, rng, depth + 1, small))
        return rec
    raise ValueError(k)

def show(t, v):
    k = t[0]
    if v is None: return "_"
    if k == "U": return "N%d" % v
    if k == "I": return "Z%d" % v
    if k == "B": return "T" if v else "F"
    if k in ("T", "Y"): return "X" + (v.hex() or "-")
    if k == "TIME": return "L[ N%d N%d ]" % (v[0], v[1])
    if k == "IDX": return "L[ " + "".join("N%d " % x for x in v) + "]"
    if k == "A": return "L[ " + "".join(show(t[1], x) + " " for x in v) + "]"
    if k == "M": return "R[ " + "".join(show(ft, x) + " " for (key, p, ft), x in zip(t[2], v)) + "]"
    raise ValueError(k)

def is_present(p, v):
    if v is None: return False
    if p == "nonempty" and v == []: return False
    return True

# ---------------------------------------------------------------- independent encoder (canonical or randomised re-encoding)
def _w(rng, v):
    return None if rng is None else rng.choice(cborgen.widths_for(v))
def enc(t, v, rng=None, unknown=False):
    """encoding of value v under type t.  rng=None: the preferred serialisation, definite lengths, declaration order.
    With rng: an equivalent re-encoding (random head widths, indefinite containers, chunked strings, permuted members,
    and - when unknown - extra members with unknown keys carrying arbitrary well-formed items)."""
    k = t[0]
    if k == "U": return cborgen.head(0, v, _w(rng, v))
    if k == "I": return cborgen.head(1, -1 - v, _w(rng, -1 - v)) if v < 0 else cborgen.head(0, v, _w(rng, v))
    if k == "B": return b"\xf5" if v else b"\xf4"
    if k in ("T", "Y"):
        major = 3 if k == "T" else 2
        if rng is not None and rng.random() < 0.3:
            out, i = bytes([(major << 5) | 31]), 0
            while i < len(v):
                n = rng.randrange(0, len(v) - i + 1); out += cborgen.head(major, n, _w(rng, n)) + v[i:i + n]; i += n
            if rng.random() < 0.3: out += cborgen.head(major, 0, _w(rng, 0))
            return out + b"\xff"
        return cborgen.head(major, len(v), _w(rng, len(v))) + v
    if k in ("TIME", "IDX", "A"):
        et = ("U", 64) if k == "TIME" else ("U", 32) if k == "IDX" else t[1]
        body = b"".join(enc(et, x, rng, unknown) for x in v)
        if rng is not None and rng.random() < 0.35: return b"\x9f" + body + b"\xff"
        return cborgen.head(4, len(v), _w(rng, len(v))) + body
    if k == "M":
        entries = []
        for (key, p, ft), x in zip(t[2], v):
            if is_present(p, x): entries.append(enc(("I",), key, rng) + enc(ft, x, rng, unknown))
        if rng is not None:
            if unknown:
                known = set(key for key, _, _ in t[2])
                for _ in range(rng.choice([0, 0, 1, 2])):
                    uk = rng.choice([100, 1000, -100, 2 ** 31, -2 ** 40, 2 ** 63 - 1, -2 ** 63, rng.randrange(20, 10 ** 6),
                                     # keys that alias a defined key once cut to 8, 16 or 32 bits
                                     rng.choice(sorted(known)) + rng.choice([256, -256, 65536, -65536, 2 ** 32, -2 ** 32, 2 ** 40])])
                    if uk in known: continue
                    entries.append(enc(("I",), uk, rng) + cborgen.gen_item(rng, rng.choice([0, 1, 2, 3]))["b"])
            rng.shuffle(entries)
        body = b"".join(entries)
        if rng is not None and rng.random() < 0.35: return b"\xbf" + body + b"\xff"
        return cborgen.head(5, len(entries), _w(rng, len(entries))) + body
    raise ValueError(k)

# ---------------------------------------------------------------- independent interpreter of a refcbor tree under a type
class Nonconforming(Exception):
    pass
def interp(t, tree, strict=False):
    """RFC 8618 reading of a parsed CBOR tree under type t -> python value (same shape as gen_val).  Unknown map keys are
    ignored; strict=True additionally insists on what a *writer* must produce: definite lengths, shortest heads."""
    k = t[0]; n = tree[0]
    def need(c, why):
        if not c: raise Nonconforming(why + " at %r" % (tree[:2],))
    if strict and n in ("u", "n"): need(tree[2] == len(cborgen.head(0, tree[1])) - 1, "non-preferred integer head")
    if k == "U":
        need(n == "u", "expected unsigned integer"); need(tree[1] < 2 ** t[1], "value exceeds %d bits" % t[1]); return tree[1]
    if k == "I":
        need(n in ("u", "n"), "expected integer"); return refcbor.ival(tree)
    if k == "B":
        need(n == "s" and tree[1] in (20, 21), "expected boolean"); return tree[1] == 21
    if k in ("T", "Y"):
        need(n == ("t" if k == "T" else "b"), "expected %s string" % ("text" if k == "T" else "byte"))
        if strict: need(tree[2] is None, "indefinite-length string from the writer")
        return tree[1]
    if k in ("TIME", "IDX", "A"):
        need(n == "a", "expected array")
        if strict: need(not tree[2], "indefinite-length array from the writer")
        if k == "TIME": need(len(tree[1]) == 2, "timestamp needs 2 members")
        et = ("U", 64) if k == "TIME" else ("U", 32) if k == "IDX" else t[1]
        return [interp(et, x, strict) for x in tree[1]]
    if k == "M":
        need(n == "m", "expected map")
        if strict: need(not tree[2], "indefinite-length map from the writer")
        rec = [([] if p == "nonempty" else None) for (_, p, _) in t[2]]
        idx = {key: i for i, (key, _, _) in enumerate(t[2])}
        seen = set()
        for kt, vt in tree[1]:
            need(kt[0] in ("u", "n"), "map key is not an integer")
            key = refcbor.ival(kt)
            need(key not in seen, "duplicate map key %d" % key); seen.add(key)
            if key in idx:
                i = idx[key]; rec[i] = interp(t[2][i][2], vt, strict)
            elif strict: need(False, "unknown key %d from the writer" % key)
        for i, (key, p, ft) in enumerate(t[2]):
            if p in ("mand", "mandne", "always"): need(rec[i] is not None, "mandatory member %d missing" % key)
            if p == "mandne": need(len(rec[i]) > 0, "member %d must not be empty" % key)
            if strict and p == "nonempty" and key in seen: need(len(rec[i]) > 0, "empty array written for member %d" % key)
        return rec
    raise ValueError(k)
