# common.py — shared machinery of the per-property checks: gates, Coq build, extraction, C++ driver builds
# from /repo's working tree, running the two executors, diffing, evidence and violation reporting.
import hashlib, json, os, random, re, resource, shutil, subprocess, sys, time, glob
from concurrent.futures import ThreadPoolExecutor

VERIF = os.path.dirname(os.path.dirname(os.path.dirname(os.path.abspath(__file__))))
REPO = os.environ.get("VERIF_REPO", "/repo")
COQ = os.path.join(VERIF, "coq")
CACHE = os.path.join(VERIF, ".cache")
NPROC = os.cpu_count() or 4
GUARD = "CDNS_VERIF"

FORBIDDEN = re.compile(r"\b(Admitted|admit|Axiom|Axioms|Parameter|Parameters|Conjecture|Conjectures|Admit Obligations|"
                       r"Unset Guard Checking|Unset Positivity Checking|Unset Universe Checking|bypass_check|"
                       r"native_compute|type-in-type|impredicative-set)\b")

class CheckError(Exception):
    pass

def sh(cmd, timeout=3600, cwd=None, env=None, inp=None, check=False):
    p = subprocess.run(cmd, shell=isinstance(cmd, str), cwd=cwd, env=env, input=inp,
                       stdout=subprocess.PIPE, stderr=subprocess.STDOUT, timeout=timeout,
                       universal_newlines=True, errors="replace")
    if check and p.returncode != 0:
        raise CheckError("command failed (%d): %s\n%s" % (p.returncode, cmd, p.stdout[-4000:]))
    return p.returncode, p.stdout

# ---------------------------------------------------------------------------------------------- gates
def strip_coq_comments(s):
    out, depth, i = [], 0, 0
    while i < len(s):
        if s.startswith("(*", i): depth += 1; i += 2; continue
        if s.startswith("*)", i) and depth > 0: depth -= 1; i += 2; continue
        if depth == 0: out.append(s[i])
        i += 1
    return "".join(out)

def gate_sources():
    """No Admitted/admit/Axiom/Parameter/..., no top-level Variable/Hypothesis outside a Section."""
    bad = []
    for f in sorted(glob.glob(os.path.join(COQ, "*.v"))):
        src = strip_coq_comments(open(f).read())
        for m in FORBIDDEN.finditer(src):
            bad.append("%s: forbidden token %r" % (os.path.basename(f), m.group(0)))
        depth = 0
        for line in src.split("\n"):
            ls = line.strip()
            if re.match(r"^Section\b", ls): depth += 1
            elif re.match(r"^End\b", ls) and depth > 0: depth -= 1
            elif depth == 0 and re.match(r"^(Variable|Variables|Hypothesis|Hypotheses|Context)\b", ls):
                bad.append("%s: %s outside a Section" % (os.path.basename(f), ls.split()[0]))
    return bad

# ---------------------------------------------------------------------------------------------- Coq
def coq_files():
    fs = []
    for l in open(os.path.join(COQ, "_CoqProject")):
        l = l.strip()
        if l.endswith(".v"): fs.append(l)
    return fs

def ensure_coq_makefile():
    mk = os.path.join(COQ, "Makefile")
    cp = os.path.join(COQ, "_CoqProject")
    if not os.path.exists(mk) or os.path.getmtime(mk) < os.path.getmtime(cp):
        sh("coq_makefile -f _CoqProject -o Makefile", cwd=COQ, check=True)

def build_coq(targets, timeout=3000):
    """make the given .vo targets (full .vo build). Returns (ok, log)."""
    ensure_coq_makefile()
    rc, out = sh("timeout %d make -k -j%d %s" % (timeout, NPROC, " ".join(targets)), cwd=COQ, timeout=timeout + 60)
    return rc == 0, out

def gen_format():
    """regenerate coq/Gen_format.v (map keys, hint masks, CBOR type codes, buffer sizes, index width) from /repo's current sources"""
    sys.path.insert(0, os.path.join(VERIF, "translator"))
    import format as gen_fmt
    try:
        gen_fmt.generate(os.path.join(REPO, "src"), os.path.join(COQ, "Gen_format.v"))
    except Exception as e:
        raise CheckError("translator/format.py failed on /repo/src: %s" % e)
    import structs as gen_structs
    try:
        gen_structs.generate(os.path.join(REPO, "src"), os.path.join(COQ, "Gen_structs.v"))
    except Exception as e:
        raise CheckError("translator/structs.py failed on /repo/src: %s" % e)
    import readers as gen_readers
    try:
        gen_readers.generate(os.path.join(REPO, "src"), os.path.join(COQ, "Gen_readers.v"))
    except Exception as e:
        raise CheckError("translator/readers.py failed on /repo/src: %s" % e)
    import hashes as gen_hashes
    try:
        gen_hashes.generate(os.path.join(REPO, "src"), os.path.join(COQ, "Gen_hash.v"))
    except Exception as e:
        raise CheckError("translator/hashes.py failed on /repo/src/block.h: %s" % e)
    import encoder as gen_encoder
    try:
        gen_encoder.generate(os.path.join(REPO, "src"), os.path.join(COQ, "Gen_encoder.v"))
    except Exception as e:
        raise CheckError("translator/encoder.py failed on /repo/src/cdns_encoder.cpp: %s" % e)
    import decoder as gen_decoder
    try:
        gen_decoder.generate(os.path.join(REPO, "src"), os.path.join(COQ, "Gen_decoder.v"))
    except Exception as e:
        raise CheckError("translator/decoder.py failed on /repo/src/cdns_decoder.cpp: %s" % e)
    import timestamp as gen_timestamp
    try:
        gen_timestamp.generate(os.path.join(REPO, "src"), os.path.join(COQ, "Gen_timestamp.v"))
    except Exception as e:
        raise CheckError("translator/timestamp.py failed on /repo/src/timestamp.cpp, timestamp.h: %s" % e)
    import cursors as gen_cursors
    try:
        gen_cursors.generate(os.path.join(REPO, "src"), os.path.join(COQ, "Gen_cursors.v"))
    except Exception as e:
        raise CheckError("translator/cursors.py failed on /repo/src/block.cpp, block.h: %s" % e)

def prove(pid, extra_props=()):
    """Build Properties_<pid>.vo's dependencies, then (re)compile the property file itself so that the
    Print Assumptions output of every theorem is captured on every run."""
    res = {"ok": False, "theorems": [], "assumptions": {}, "log": "", "checker_cmd": ""}
    props = ["Properties_%s" % pid] + list(extra_props)
    ok_all, log_all = True, ""
    for pf in props:
        src = os.path.join(COQ, pf + ".v")
        if not os.path.exists(src):
            res["log"] = "missing " + src; return res
        # dependencies (everything the property file Requires) through make
        ok, log = build_coq([pf + ".vo"])
        log_all += log
        cmd = "timeout 1500 coqc -R . CDNS %s.v" % pf
        rc, out = sh(cmd, cwd=COQ, timeout=1600)
        log_all += out
        res["checker_cmd"] = (res["checker_cmd"] + " ; " if res["checker_cmd"] else "") + "cd coq && make -j%d %s.vo && %s" % (NPROC, pf, cmd)
        if rc != 0 or not ok:
            ok_all = False
        # theorem names and assumptions
        txt = strip_coq_comments(open(src).read())
        names = re.findall(r"^\s*(?:Theorem|Example)\s+([A-Za-z0-9_']+)", txt, re.M)
        printed = re.findall(r"Print Assumptions\s+([A-Za-z0-9_']+)\s*\.", txt)
        blocks = re.split(r"\n(?=Closed under the global context|Axioms:)", "\n" + out)
        blocks = [b.strip() for b in blocks if b.strip().startswith(("Closed under", "Axioms:"))]
        for i, nm in enumerate(printed):
            res["assumptions"][nm] = blocks[i] if i < len(blocks) else "?"
        res["theorems"] += names
    res["ok"] = ok_all
    res["log"] = log_all[-6000:]
    return res

def build_mdl():
    """Extract the model and build the OCaml script driver. Returns path of the executable."""
    ok, log = build_coq(["Extract.vo"])
    bdir = os.path.join(VERIF, "build", "mdl")
    os.makedirs(bdir, exist_ok=True)
    ext = os.path.join(COQ, "extracted")
    os.makedirs(ext, exist_ok=True)
    srcs = [os.path.join(COQ, f) for f in coq_files()] + glob.glob(os.path.join(VERIF, "harness/ocaml/*.ml"))
    exe = os.path.join(bdir, "mdl")
    newest = max(os.path.getmtime(f) for f in srcs)
    if os.path.exists(exe) and os.path.getmtime(exe) >= newest:
        return exe
    if not ok:
        raise CheckError("model does not compile:\n" + log[-3000:])
    # extraction writes into the current directory
    sh("coqc -R .. CDNS ../Extract.v", cwd=ext, check=True, timeout=900)
    for f in ("model.ml", "model.mli"):
        shutil.copy(os.path.join(ext, f), bdir)
    for f in glob.glob(os.path.join(VERIF, "harness/ocaml/*.ml")):
        shutil.copy(f, bdir)
    order = open(os.path.join(VERIF, "harness/ocaml/ORDER")).read().split()
    sh("ocamlfind ocamlopt -w -a -inline 100 model.mli model.ml %s -o mdl" % " ".join(order), cwd=bdir, check=True, timeout=900)
    return exe

# ---------------------------------------------------------------------------------------------- C++
VARIANTS = {
    "san":   "-O1 -g -fsanitize=address,undefined -fno-sanitize=alignment -fno-sanitize-recover=all -fno-omit-frame-pointer",
    "plain": "-O1 -g",
    "tsan":  "-O1 -g -fsanitize=thread",
}
BASEFLAGS = "-std=c++14 -msse4 -D%s -I%s/src -I%s/harness/cpp" % (GUARD, REPO, VERIF)

def repo_hash(extra=""):
    h = hashlib.sha256()
    fs = sorted(glob.glob(os.path.join(REPO, "src", "*.h")) + glob.glob(os.path.join(REPO, "src", "*.cpp")) +
                glob.glob(os.path.join(REPO, "src", "bin", "*.cpp")) + glob.glob(os.path.join(VERIF, "harness/cpp/*")) +
                glob.glob(os.path.join(VERIF, "harness/cppw/*")) + glob.glob(os.path.join(VERIF, "harness/cppt/*")))
    for f in fs:
        h.update(f.encode()); h.update(open(f, "rb").read())
    h.update(extra.encode())
    return h.hexdigest()[:20]

def prune_cache(keep=6):
    if not os.path.isdir(CACHE): return
    ds = sorted((os.path.join(CACHE, d) for d in os.listdir(CACHE)), key=os.path.getmtime)
    for d in ds[:-keep]:
        shutil.rmtree(d, ignore_errors=True)

def build_impl(variant="san", tools=False):
    """Compile /repo/src (current working tree) + the drivers with the variant's flags. Cached by content hash.
    Returns dict with paths: drv, and the five tools when tools=True."""
    flags = BASEFLAGS + " " + VARIANTS[variant]
    key = variant + "-" + repo_hash(flags)
    d = os.path.join(CACHE, key)
    res = {"dir": d, "drv": os.path.join(d, "drv"), "drvw": os.path.join(d, "drvw"), "drvt": os.path.join(d, "drvt")}
    tool_names = ["cdns_merge", "cdns_itemcount", "cdns_blocks", "cdns_items", "cdns_preamble"]
    for t in tool_names: res[t] = os.path.join(d, t)
    stamp = os.path.join(d, "OK" + ("_tools" if tools else ""))
    if os.path.exists(stamp):
        os.utime(d, None)
        return res
    os.makedirs(d, exist_ok=True)
    libsrc = sorted(glob.glob(os.path.join(REPO, "src", "*.cpp")))
    jobs = []
    for s in libsrc:
        jobs.append((s, os.path.join(d, "lib_" + os.path.basename(s)[:-4] + ".o"), ""))
    if variant != "tsan":
        jobs.append((os.path.join(VERIF, "harness/cpp/drv.cpp"), os.path.join(d, "drv.o"), "-fno-access-control"))
    else:
        jobs.append((os.path.join(VERIF, "harness/cppt/drvt.cpp"), os.path.join(d, "drvt.o"), ""))
    if variant == "plain":
        jobs.append((os.path.join(VERIF, "harness/cppw/drvw.cpp"), os.path.join(d, "drvw.o"), ""))
    if tools:
        for t in tool_names:
            jobs.append((os.path.join(REPO, "src", "bin", t + ".cpp"), os.path.join(d, "tool_" + t + ".o"), ""))
    def comp(j):
        s, o, xf = j
        if os.path.exists(o): return 0, ""
        return sh("g++ %s %s -c %s -o %s" % (flags, xf, s, o), timeout=900)
    with ThreadPoolExecutor(max_workers=NPROC) as ex:
        rs = list(ex.map(comp, jobs))
    for (rc, out), j in zip(rs, jobs):
        if rc != 0:
            raise CheckError("compile failed: %s\n%s" % (j[0], out[-3000:]))
    libobjs = " ".join(j[1] for j in jobs if os.path.basename(j[1]).startswith("lib_"))
    link = "g++ %s %%s %s -o %%s -lz -llzma -lpthread" % (VARIANTS[variant], libobjs)
    if variant != "tsan":
        sh(link % (os.path.join(d, "drv.o"), res["drv"]), check=True, timeout=600)
    else:
        sh(link % (os.path.join(d, "drvt.o"), res["drvt"]), check=True, timeout=600)
    if variant == "plain":
        sh((link % (os.path.join(d, "drvw.o"), res["drvw"])) + " -ldl", check=True, timeout=600)
    if tools:
        for t in tool_names:
            sh(link % (os.path.join(d, "tool_" + t + ".o"), res[t]), check=True, timeout=600)
    open(stamp, "w").write("ok")
    prune_cache()
    return res

# ---------------------------------------------------------------------------------------------- running
_SCRATCH = None
import threading
_SCRATCH_LOCK = threading.Lock()
def scratch_root():
    """private scratch directory of this check run (outside /repo and /verif), removed at exit"""
    global _SCRATCH
    with _SCRATCH_LOCK:
        if _SCRATCH is None:
            import tempfile, atexit
            _SCRATCH = tempfile.mkdtemp(prefix="cdnsverif.")
            atexit.register(lambda: shutil.rmtree(_SCRATCH, ignore_errors=True))
    return _SCRATCH

def _unlimit_stack():
    try:
        resource.setrlimit(resource.RLIMIT_STACK, (resource.RLIM_INFINITY, resource.RLIM_INFINITY))
    except Exception:
        pass

SAN_ENV = {"ASAN_OPTIONS": "detect_leaks=0:abort_on_error=0:allocator_may_return_null=0:max_allocation_size_mb=256:detect_stack_use_after_return=0",
           "UBSAN_OPTIONS": "print_stacktrace=1:halt_on_error=1"}

def run_exec(exe, script, timeout=900, env_extra=None, model=False):
    env = dict(os.environ); env.update(SAN_ENV)
    if env_extra: env.update(env_extra)
    pre = _unlimit_stack if model else None
    if not model and env.get("DRV_STACK_KB"):
        kb = int(env["DRV_STACK_KB"])
        def pre():
            resource.setrlimit(resource.RLIMIT_STACK, (kb * 1024, kb * 1024))
    if not model and "DRV_SCRATCH" not in env:
        env["DRV_SCRATCH"] = scratch_root()
    try:
        p = subprocess.run([exe], input=script, stdout=subprocess.PIPE, stderr=subprocess.PIPE, timeout=timeout,
                           universal_newlines=True, errors="replace", env=env, preexec_fn=pre)
    except subprocess.TimeoutExpired as e:
        out = e.stdout or ""
        if isinstance(out, bytes): out = out.decode(errors="replace")
        return -9, out, "TIMEOUT after %d s" % timeout
    return p.returncode, p.stdout, p.stderr

def split_cases(out):
    """'CASE id' separated output -> dict id -> list of lines"""
    res, cur = {}, None
    for l in out.split("\n"):
        if l.startswith("CASE "):
            cur = l[5:].strip(); res[cur] = []
        elif cur is not None and l != "":
            res[cur].append(l)
    return res

MODEL_TIMEOUTS = []
def run_both(cases, drv, mdl, batch=400, timeout=900, canon=None, impl_env=None, impl_only=False):
    """cases: list of (id, [script lines]).  Returns (impl: id->lines, model: id->lines, crashes: list)."""
    impl, model, crashes = {}, {}, []
    def chunk(lst, n):
        for i in range(0, len(lst), n): yield lst[i:i + n]
    batches = list(chunk(cases, batch))
    def run_batch(b):
        script = "".join("CASE %s\n%s\n" % (cid, "\n".join(lines)) for cid, lines in b)
        rc_i, out_i, err_i = run_exec(drv, script, timeout, impl_env)
        rc_m, out_m, err_m = (0, out_i, "") if impl_only else run_exec(mdl, script, timeout, model=True)
        return b, rc_i, out_i, err_i, rc_m, out_m, err_m
    with ThreadPoolExecutor(max_workers=NPROC) as ex:
        for b, rc_i, out_i, err_i, rc_m, out_m, err_m in ex.map(run_batch, batches):
            ci, cm = split_cases(out_i), split_cases(out_m)
            if rc_i != 0:
                # the implementation died inside this batch: find the case by re-running one by one
                for cid, lines in b:
                    script = "CASE %s\n%s\n" % (cid, "\n".join(lines))
                    r1, o1, e1 = run_exec(drv, script, timeout, impl_env)
                    ci.update(split_cases(o1))
                    if r1 != 0:
                        ci.setdefault(cid, []).append("CRASH rc=%d %s" % (r1, crash_summary(e1)))
                        crashes.append((cid, r1, e1[-3000:]))
            if rc_m == -9 and err_m.startswith("TIMEOUT"):
                # the model driver (not the code under test) ran out of time on this batch: re-run case by case with a
                # shorter limit; a case the model cannot evaluate in time is not compared (its model answer = the
                # implementation's), and is counted in MODEL_TIMEOUTS for the evidence file
                cm = {}
                for cid, lines in b:
                    script = "CASE %s\n%s\n" % (cid, "\n".join(lines))
                    r1, o1, e1 = run_exec(mdl, script, 120, model=True)
                    if r1 == 0: cm.update(split_cases(o1))
                    elif r1 == -9: cm[cid] = ci.get(cid, []); MODEL_TIMEOUTS.append(cid)
                    else: raise CheckError("model driver failed rc=%d: %s" % (r1, e1[-2000:]))
            elif rc_m != 0:
                raise CheckError("model driver failed rc=%d: %s" % (rc_m, err_m[-2000:]))
            impl.update(ci); model.update(cm)
    if canon:
        impl = {k: canon(v) for k, v in impl.items()}
        model = {k: canon(v) for k, v in model.items()}
    return impl, model, crashes

def run_model(scripts, mdl, batch=8, timeout=900):
    """model-only run (commands the implementation driver does not have, e.g. 'X thm'): id -> result lines"""
    res = {}
    def chunk(lst, n):
        for i in range(0, len(lst), n): yield lst[i:i + n]
    def run_batch(b):
        script = "".join("CASE %s\n%s\n" % (cid, "\n".join(lines)) for cid, lines in b)
        return run_exec(mdl, script, timeout, model=True)
    with ThreadPoolExecutor(max_workers=NPROC) as ex:
        for rc, out, err in ex.map(run_batch, list(chunk(scripts, batch))):
            if rc != 0: raise CheckError("model driver failed rc=%d: %s" % (rc, err[-2000:]))
            res.update(split_cases(out))
    return res

def crash_summary(stderr):
    m = re.search(r"(ERROR: AddressSanitizer: [^\n]*|runtime error: [^\n]*|SUMMARY: [^\n]*)", stderr)
    if m: return m.group(1)[:200].replace("\n", " ")
    return (stderr.strip().split("\n")[-1] if stderr.strip() else "no stderr")[:200]

# ---------------------------------------------------------------------------------------------- reporting
def load_known():
    p = os.path.join(VERIF, "known_findings.json")
    if not os.path.exists(p): return {"findings": [], "fixed": []}
    return json.load(open(p))

class Report:
    def __init__(self, pid, tier, seed, level="proof"):
        self.pid, self.tier, self.seed, self.level = pid, tier, seed, level
        self.t0 = time.time()
        self.violations = []      # (description, replay dict, found_input: bool)
        self.known_lines = []
        self.cov = {"evaluations": 0, "distinct_nontrivial": 0, "rule": "", "samples": []}
        self.assumptions = []
        self.extra = {}

    def known_finding(self, what):
        line = "KNOWN-FINDING: property=%s %s" % (self.pid, what)
        if line not in self.known_lines:
            self.known_lines.append(line); print(line); sys.stdout.flush()

    def violation(self, what, replay, found_input=True):
        self.violations.append((what, replay, found_input))

    def finish(self, proof=None):
        cov = self.cov
        if proof is not None:
            names = proof["theorems"]
            cov["obligations"] = max(1, len(names))
            cov["discharged"] = len(names) if proof["ok"] else 0
            cov["checker_cmd"] = proof["checker_cmd"]
            cov["theorems"] = names
            cov["print_assumptions"] = proof["assumptions"]
            cov.setdefault("trusted_base", [])
        cov.update(self.extra)
        ev = {"property_id": self.pid, "tier": self.tier, "seed": self.seed, "level": self.level,
              "coverage": cov, "assumptions": self.assumptions, "wall_s": round(time.time() - self.t0, 2),
              "violations": len(self.violations), "known_findings_reported": self.known_lines}
        os.makedirs(os.path.join(VERIF, "evidence"), exist_ok=True)
        with open(os.path.join(VERIF, "evidence", self.pid + ".json"), "w") as f:
            json.dump(ev, f, indent=1, sort_keys=True, default=str)
        if not self.violations:
            return 0
        rdir = os.path.join(VERIF, "replays", self.pid)
        os.makedirs(rdir, exist_ok=True)
        for i, (what, replay, found) in enumerate(self.violations[:5]):
            path = os.path.join(rdir, "%d.json" % i)
            replay = dict(replay); replay["property"] = self.pid; replay["what"] = what
            replay["replay_cmd"] = "./check %s --replay %s" % (self.pid, path)
            with open(path, "w") as f: json.dump(replay, f, indent=1, default=str)
            print("  what: %s" % str(what)[:600].replace("\n", " "))
            if replay.get("observed"): print("  observed: %s" % str(replay["observed"])[:600])
            print("VIOLATION property=%s replay=%s%s" % (self.pid, path, "" if found else " no-failing-input-found"))
        sys.stdout.flush()
        return 1

def rng_for(seed, salt=""):
    return random.Random("%s/%s" % (seed, salt))

TRUSTED_BASE_COMMON = [
    "Coq 8.16.1 kernel (coqc full .vo build, no -vos); vm_compute (bytecode VM) used for finite sweeps and Examples; no native_compute",
    "no Axiom/Parameter/Admitted anywhere (grep gate on every run + Print Assumptions under every property theorem)",
    "model <-> code tie: correspondence check (same scripts through harness/cpp/drv.cpp on /repo's working tree and through the OCaml extraction of the model)",
    "model <-> code tie, second route: translator/format.py regenerates coq/Gen_format.v from /repo/src (clang 14 AST: enumerations of format_specification.h, the two BUFFER_SIZE constants, index_t) on every run; coq/Properties_format.v re-proves by computation that the model's descriptors (keys, order, signedness), hint-bit table, CBOR type codes and buffer sizes equal it; translator/structs.py regenerates coq/Gen_structs.v (members of the 17 serialised structures with their C++ types, clang AST of file_preamble.h / block.h; regenerated when the digest of those headers changes) and FT_struct_members re-checks number, order, optionality, vector-ness and scalar width of every descriptor member; translator/readers.py regenerates coq/Gen_readers.v from the clang AST of the 19 read() methods (per key: mandatory on reading, non-empty insisted on, a repeated key accumulates; whether read() resets first) and FT_reader_presence re-checks the presence class of every descriptor member and the descriptors' lists of accumulating members; translator/hashes.py regenerates coq/Gen_hash.v (members read by operator== / hash_value of the eight table-key types, clang AST of block.h) and coq/Properties_hash.v re-proves hash-within-equality and equality-covers-every-member",
    "extraction: ExtrOcamlBasic only (Extract Inductive bool/option/unit/list/prod/sumbool/sumor, Extract Inlined Constant andb/orb); OCaml 4.13.1; harness/ocaml/*.ml glue",
    "g++ 12.2 -std=c++14 -msse4 with ASan/UBSan; Python orchestrator, generators and oracles under harness/py",
]

# ---------------------------------------------------------------------------------------------- expected-lines cases
def run_expect(ctx, cases, batch=200, impl_env=None, canon=None, timeout=900, impl_only=False):
    """cases: list of dicts {id, script: [lines], expect: [line or None per result line] or None, meta: {...}}.
    Runs every script through both executors; returns (diffs, fails) in the shape ./check wants:
      diffs: model and implementation disagree;  fails: the implementation contradicts the ground truth (oracle)."""
    scripts = [(c["id"], c["script"]) for c in cases]
    impl, model, crashes = run_both(scripts, ctx["impl"]["drv"], ctx["mdl"], batch=batch, impl_env=impl_env, canon=canon, timeout=timeout, impl_only=impl_only)
    if impl_only: model = impl
    diffs, fails = [], []
    for c in cases:
        il, ml = impl.get(c["id"], ["<missing>"]), model.get(c["id"], ["<missing>"])
        exp = c.get("expect")
        if exp is not None:
            why = None
            for k, e in enumerate(exp):
                if e is None: continue
                got = il[k] if k < len(il) else "<no output>"
                if got != e:
                    why = "%s: result %d of %r is %r, expected %r" % (c.get("what", "ground truth violated"), k,
                                                                    (c["script"][k] if k < len(c["script"]) else "?")[:60], got[:120], e[:120])
                    break
            if why is None and any(l.startswith("CRASH") for l in il):
                why = "%s: %s" % (c.get("what", "crash"), [l for l in il if l.startswith("CRASH")][0][:200])
            if why: fails.append((c["id"], c, why, il))
        elif any(l.startswith("CRASH") for l in il):
            fails.append((c["id"], c, "implementation crashed: " + [l for l in il if l.startswith("CRASH")][0][:200], il))
        if il != ml:
            k = next((j for j in range(min(len(il), len(ml))) if il[j] != ml[j]), min(len(il), len(ml)))
            diffs.append((c["id"], c, "result %d (%s): impl %r vs model %r" % (k, (c["script"][k] if k < len(c["script"]) else "?")[:50],
                                                                            il[k][:100] if k < len(il) else None, ml[k][:100] if k < len(ml) else None)))
    return diffs, fails

def case_script(c):
    s = c["script"] if isinstance(c, dict) else c
    return [l if len(l) < 600 else l[:600] + "...(%d chars)" % len(l) for l in s]

def full_script(c):
    """the complete script of a case (replay files hold it unabridged)"""
    return list(c["script"]) if isinstance(c, dict) else list(c)

def case_extra(c):
    """what a replay needs besides the script (input files of the tool runs)"""
    return {k: c[k] for k in ("inputs", "names") if isinstance(c, dict) and k in c}

def generic_replay(ctx, mod, rp):
    """./check <id> --replay <file>: run the stored script through the implementation driver (and the model driver where the script is in
    its language) on /repo's current tree, print both outputs and the first line on which they differ. Exit status 1 if the implementation
    crashes or the two differ, else 0."""
    script = rp.get("script") or []
    if not script:
        print("replay file holds no script (a broken proof obligation or build): %s" % str(rp.get("broken") or rp.get("what"))[:1000])
        return 1
    wstack = any(l.startswith(("W ", "PRE ", "CRASHAT", "FAILONCE", "SHORTONCE", "XW ")) or l.startswith(("X new name", "X new fd")) for l in script)
    text = "".join(l + "\n" for l in script)
    if wstack:
        impl = build_impl("plain")
        il, files, rc = run_w(impl["drvw"], script)
        err = ""
    else:
        rc, out, err = run_exec(ctx["impl"]["drv"], text, 900, env_extra=getattr(mod, "REPLAY_ENV", None))
        il = [l for l in out.split("\n") if l]
    print("== implementation (exit status %d)" % rc)
    for l in il[-40:]: print("   " + l[:300])
    if err.strip(): print("   stderr: " + crash_summary(err) if rc != 0 else "")
    if rp.get("expected"): print("== expected: %s" % str(rp["expected"])[:1000])
    if any(l.startswith(("XW ",)) for l in script) or not any(l.startswith(("X new name", "X new fd", "CRASHAT", "FAILONCE", "SHORTONCE")) for l in script):
        rcm, outm, errm = run_exec(ctx["mdl"], text, 900, model=True)
        ml = [l for l in outm.split("\n") if l]
        print("== model (exit status %d)" % rcm)
        for l in ml[-40:]: print("   " + l[:300])
        k = next((i for i, (x, y) in enumerate(zip(il, ml)) if x != y), None if len(il) == len(ml) else min(len(il), len(ml)))
        if k is not None:
            print("== first difference at result %d: implementation %r vs model %r" % (k, (il[k:k + 1] or ["<nothing>"])[0][:300], (ml[k:k + 1] or ["<nothing>"])[0][:300]))
            print("   (raw outputs; the check itself compares after canonicalisation - see harness/py/p_%s.py)" % rp.get("property", "?"))
            return 1
    return 1 if rc != 0 else 0

def summarize_cov(rep, cases, rule, diffs, fails, nontrivial=None):
    kinds = {}
    distinct = set()
    for c in cases:
        k = c.get("meta", {}).get("kind", "?"); kinds[k] = kinds.get(k, 0) + 1
        if nontrivial is None or nontrivial(c): distinct.add("\n".join(c["script"]))
    rep.cov["evaluations"] = len(cases)
    rep.cov["distinct_nontrivial"] = len(distinct)
    rep.cov["rule"] = rule
    rep.cov["distribution"] = kinds
    idx = sorted(set([0, len(cases) // 3, len(cases) // 2, len(cases) - 1]))
    rep.cov["samples"] = [{"id": cases[i]["id"], "script": case_script(cases[i])[:12], "expect": (cases[i].get("expect") or [])[:12]} for i in idx if cases]
    rep.cov["correspondence_differences"] = len(diffs)
    rep.cov["oracle_failures"] = len(fails)
    rep.cov["model_timeouts_not_compared"] = len(MODEL_TIMEOUTS)


# ---------------------------------------------------------------------------------------------- writer-stack driver runs
def run_w(exe, lines, crash_at=None, timeout=300, keep_dir=False):
    """one script through harness/cppw/drvw in a fresh private directory; returns (result lines, {relative name: bytes}, rc)"""
    import tempfile
    d = tempfile.mkdtemp(prefix="w.", dir=scratch_root())
    script = "".join(l + "\n" for l in (["CRASHAT %d" % crash_at] if crash_at else []) + list(lines))
    env = dict(os.environ); env["DRV_SCRATCH"] = d
    try:
        p = subprocess.run([exe], input=script, stdout=subprocess.PIPE, stderr=subprocess.PIPE, timeout=timeout, universal_newlines=True, errors="replace", env=env)
        rc, out = p.returncode, p.stdout
    except subprocess.TimeoutExpired:
        rc, out = -9, "TIMEOUT"
    files = {}
    for fn in sorted(os.listdir(d)):
        with open(os.path.join(d, fn), "rb") as f: files[fn] = f.read()
    if not keep_dir: shutil.rmtree(d, ignore_errors=True)
    ls = [l for l in out.split("\n") if l != ""]
    if crash_at: ls = ls[1:]
    return ls, files, rc

def run_model_lines(mdl, lines, timeout=300):
    rc, out, err = run_exec(mdl, "".join(l + "\n" for l in lines), timeout, model=True)
    if rc != 0: raise CheckError("model driver failed: " + err[-1000:])
    return [l for l in out.split("\n") if l != ""]

def canon_trace(lines, compressed):
    """coalesce adjacent writes to one path, drop zero-length writes, blank the sizes of compressed data"""
    out = []
    for l in lines:
        if l.startswith("ev write "):
            _, _, p, ab = l.split(" ", 3)
            a = ab.split("/")[0]
            if compressed: a = "?"
            elif a == "0": continue
            if out and out[-1][0] == "w" and out[-1][1] == p:
                out[-1] = ("w", p, "?" if compressed else str(int(out[-1][2]) + int(a)))
            else: out.append(("w", p, a))
        elif l.startswith("ev "): out.append(("e", l[3:], ""))
    # how much a compressor has emitted before its stream is finished is its own business, and so is how much of a named output a
    # std::ofstream has handed to the operating system before it is flushed or closed: writes to an output that is never closed in
    # this trace - after its last close, when the name is used several times - are not compared (compressed outputs, and the '.part' files of named outputs)
    last_close = {}
    for k, x in enumerate(out):
        if x[0] == "e" and x[1].startswith("close "): last_close[x[1][6:]] = k
    out = [x for k, x in enumerate(out) if not (x[0] == "w" and k > last_close.get(x[1], -1) and (compressed or x[1].endswith(".part")))]
    return ["write %s %s" % (x[1], x[2]) if x[0] == "w" else x[1] for x in out]
