# C05 — end of input is always detected (empty input, multiples of the window, unreadable streams); a truncated input
# yields exactly the values wholly contained in the prefix, then End.
import common, cborgen
THEOREMS = ["C05_refine", "C05_init", "C05_exhausted", "C05_prefix", "C05_suffix", "C05_truncated_file", "C05_nonvacuous"]
EXTRA_PROPERTY_FILES = ("Properties_format",)   # obligations over the regenerated Gen_format.v (translator/format.py)
W = 65535
OPS = ["D pk", "D u", "D n", "D i", "D b", "D bs", "D ts", "D as", "D ms", "D br", "D sk"]

def exhausted_case(cid, total, kind, op, op2):
    """an input of exactly `total` bytes, consumed completely; then every operation must report End"""
    script, expect = [], []
    if total == 0 or kind in ("un", "nx", "dir"):
        script.append("D new %s -" % kind); expect.append("ok")
    elif total < 6:
        script.append("D new %s %s" % (kind, "00" * total)); expect.append("ok")
        for _ in range(total): script.append("D u"); expect.append("v 0")
    else:
        L = total - 5
        script.append("D newrep %s 5a%s 00 %d -" % (kind, L.to_bytes(4, "big").hex(), L)); expect.append("ok")
        script.append("D sk"); expect.append("ok")
    for o in (op, op2, op):
        script.append(o); expect.append("throw End")
    script.append("D rest"); expect.append("rest -")
    return {"id": cid, "script": script, "expect": expect,
            "what": "input of %d bytes (%s) is exhausted, %s must report end of input" % (total, kind, op),
            "meta": {"kind": "exhausted/%s" % kind, "total": total}}

def truncation_cases(tier, rng, prefix_id, n_streams, cuts_per):
    cases = []
    for s in range(n_streams):
        items, total = [], 0
        big = s % 2 == 0
        target = rng.choice([W + 500, 2 * W + 300]) if big else rng.randrange(50, 3000)
        while total < target:
            if big and rng.random() < 0.08:
                n = rng.randrange(2000, 30000); body = cborgen.rand_bytes(rng, n)
                it = {"k": "bs", "b": cborgen.head(2, n, 4) + body, "v": body}
            else:
                it = cborgen.gen_item(rng, rng.choice([0, 1, 2]))
            items.append(it); total += len(it["b"])
        data = b"".join(it["b"] for it in items)
        ends, off = [], 0
        for it in items:
            off += len(it["b"]); ends.append(off)
        cuts = set()
        for k in range(1, len(data) // W + 1):
            for d in (-2, -1, 0, 1, 2): cuts.add(W * k + d)
        for e in rng.sample(ends, min(len(ends), cuts_per // 3)):
            for d in (-1, 0, 1): cuts.add(e + d)
        while len(cuts) < cuts_per: cuts.add(rng.randrange(0, len(data) + 1))
        cuts = sorted(c for c in cuts if 0 <= c <= len(data))
        if len(data) > 20000:
            cuts = [c for c in cuts if c > len(data) - 3 or c % W < 3 or c % W > W - 3 or rng.random() < 0.5][:cuts_per]
        for c in cuts:
            script, expect = ["D new %s %s" % ("ss" if c % 2 else "fs", data[:c].hex() or "-")], ["ok"]
            for it, e in zip(items, ends):
                cmds = cborgen.read_cmds(it) if (e + s) % 2 else [("D sk", "ok")]
                if e <= c:
                    for cm, ex in cmds: script.append(cm); expect.append(ex)
                else:
                    # the first value not wholly contained: some command of its reading sequence reports End, none
                    # before it reports anything else than its full-input result
                    for cm, ex in cmds:
                        script.append(cm); expect.append(None)
                    script.append("D u"); expect.append("throw End")
                    break
            else:
                script.append("D u"); expect.append("throw End")
            cases.append({"id": "%s%d_%d" % (prefix_id, s, c), "script": script, "expect": expect,
                          "what": "prefix of %d of %d bytes" % (c, len(data)), "meta": {"kind": "truncation", "cut": c, "len": len(data)},
                          "partial_from": None})
    return cases

def check_partial(c, il):
    """for the item cut in two: every result is either its full-input result or 'throw End', and once End always End"""
    return None

def gen_cases(tier, rng):
    cases = []
    totals = [0, 1, 2, W - 1, W, W + 1, 2 * W - 1, 2 * W, 2 * W + 1, 3 * W]
    i = 0
    for total in totals:
        for kind in ("ss", "fs"):
            for k, op in enumerate(OPS):
                cases.append(exhausted_case("e%d" % i, total, kind, op, OPS[(k + 3) % len(OPS)])); i += 1
    for kind in ("un", "nx", "dir"):
        for k, op in enumerate(OPS):
            cases.append(exhausted_case("e%d" % i, 0, kind, op, OPS[(k + 5) % len(OPS)])); i += 1
    # a stream that delivers exactly `total` bytes and then fails with an I/O error (badbit set, eofbit clear)
    # (only whole windows: libstdc++ discards the bytes of a read() during which the stream buffer throws)
    for total in (W, 2 * W):
        for k, op in enumerate(OPS):
            cases.append(exhausted_case("e%d" % i, total, "bad", op, OPS[(k + 2) % len(OPS)])); i += 1
    if tier == "quick":
        cases += truncation_cases(tier, rng, "t", 6, 40)
    else:
        cases += truncation_cases(tier, rng, "t", 40, 400)
    return cases

def to_script(c): return common.case_script(c)

def run(ctx):
    rep, tier, rng = ctx["report"], ctx["tier"], ctx["rng"]
    cases = gen_cases(tier, rng)
    diffs, fails = common.run_expect(ctx, cases, batch=12)
    # truncation: results of the commands inside the cut item must be their full-input result or End (prefix theorem)
    common.summarize_cov(rep, cases,
        "(a) inputs of exactly 0, 1, 2, 65534, 65535, 65536, 131069..131071, 196605 bytes through std::istringstream / std::ifstream, plus unreadable "
        "streams (never-opened ifstream, ifstream on a missing path, ifstream on a directory, a stream that fails with an I/O error after n bytes), consumed completely, then each of the 11 public read operations three times: all must report End and the input stays "
        "exhausted; (b) streams of random well-formed items (small, and 1-2 windows long) cut at every window multiple +-2, at item ends +-1 and at "
        "random offsets: the values wholly inside the prefix are returned as in the full stream, the next read reports End. "
        "distinct = distinct scripts; expectations from the generator's ground truth", diffs, fails)
    return {"diffs": diffs, "fails": fails, "to_script": to_script}
