# C05 — end of input is always detected (empty input, multiples of the window, unreadable streams); a truncated input
# yields exactly the values wholly contained in the prefix, then End.
import common, cborgen, schema, histgen, refcbor
THEOREMS = ["C05_refine", "C05_init", "C05_exhausted", "C05_prefix", "C05_suffix", "C05_truncated_file", "C05_truncated_outputs_of_histories", "C05_nonvacuous"]
EXTRA_PROPERTY_FILES = ("Properties_format", "Properties_decoder", "Properties_tools")   # obligations over the regenerated Gen_format.v (translator/format.py)
W = 65535
OPS = ["D pk", "D u", "D n", "D i", "D b", "D bs", "D ts", "D as", "D ms", "D br", "D sk"]

def exhausted_case(cid, total, kind, op, op2):
    """an input of exactly `total` bytes, consumed completely; then every operation must report End"""
    script, expect = [], []
    if total == 0 or kind in ("un", "nx", "dir"):
        script.append("D new %s -" % kind); expect.append("ok")
    elif total < 6:
        script.append("D new %s %s" % (kind, "00" * total)); expect.append("ok")
        for _ in range(total): script.append("D u"); expect.append("v 0")
    else:
        L = total - 5
        script.append("D newrep %s 5a%s 00 %d -" % (kind, L.to_bytes(4, "big").hex(), L)); expect.append("ok")
        script.append("D sk"); expect.append("ok")
    for o in (op, op2, op):
        script.append(o); expect.append("throw End")
    script.append("D rest"); expect.append("rest -")
    return {"id": cid, "script": script, "expect": expect,
            "what": "input of %d bytes (%s) is exhausted, %s must report end of input" % (total, kind, op),
            "meta": {"kind": "exhausted/%s" % kind, "total": total}}

def truncation_cases(tier, rng, prefix_id, n_streams, cuts_per):
    cases = []
    for s in range(n_streams):
        items, total = [], 0
        big = s % 2 == 0
        target = rng.choice([W + 500, 2 * W + 300]) if big else rng.randrange(50, 3000)
        while total < target:
            if big and rng.random() < 0.08:
                n = rng.randrange(2000, 30000); body = cborgen.rand_bytes(rng, n)
                it = {"k": "bs", "b": cborgen.head(2, n, 4) + body, "v": body}
            else:
                it = cborgen.gen_item(rng, rng.choice([0, 1, 2]))
            items.append(it); total += len(it["b"])
        data = b"".join(it["b"] for it in items)
        ends, off = [], 0
        for it in items:
            off += len(it["b"]); ends.append(off)
        cuts = set()
        for k in range(1, len(data) // W + 1):
            for d in (-2, -1, 0, 1, 2): cuts.add(W * k + d)
        for e in rng.sample(ends, min(len(ends), cuts_per // 3)):
            for d in (-1, 0, 1): cuts.add(e + d)
        cuts = set(c for c in cuts if 0 <= c <= len(data))
        while len(cuts) < min(cuts_per, len(data) + 1): cuts.add(rng.randrange(0, len(data) + 1))      # (a short stream has fewer cut points than asked for)
        cuts = sorted(cuts)
        if len(data) > 20000:
            # (each case carries the prefix in its script: the long streams get the window boundaries and at most 60 further cuts)
            edge = [c for c in cuts if c > len(data) - 3 or c % W < 3 or c % W > W - 3]
            rest = [c for c in cuts if c not in set(edge)]
            cuts = sorted(edge + rng.sample(rest, min(len(rest), 60 if cuts_per > 60 else cuts_per // 2)))
        for c in cuts:
            script, expect = ["D new %s %s" % ("ss" if c % 2 else "fs", data[:c].hex() or "-")], ["ok"]
            for it, e in zip(items, ends):
                cmds = cborgen.read_cmds(it) if (e + s) % 2 else [("D sk", "ok")]
                if e <= c:
                    for cm, ex in cmds: script.append(cm); expect.append(ex)
                else:
                    # the first value not wholly contained: some command of its reading sequence reports End, none
                    # before it reports anything else than its full-input result
                    # (an item that is SKIPPED is consumed by one command: that command itself must report End - it cannot have skipped
                    #  what is not there)
                    for cm, ex in cmds:
                        script.append(cm); expect.append("throw End" if (len(cmds) == 1 and cm == "D sk" and c < e) else None)
                    script.append("D u"); expect.append("throw End")
                    break
            else:
                script.append("D u"); expect.append("throw End")
            cases.append({"id": "%s%d_%d" % (prefix_id, s, c), "script": script, "expect": expect,
                          "what": "prefix of %d of %d bytes" % (c, len(data)), "meta": {"kind": "truncation", "cut": c, "len": len(data)},
                          "partial_from": None})
    return cases

def check_partial(c, il):
    """for the item cut in two: every result is either its full-input result or 'throw End', and once End always End"""
    return None

def gen_cases(tier, rng):
    cases = []
    totals = [0, 1, 2, W - 1, W, W + 1, 2 * W - 1, 2 * W, 2 * W + 1, 3 * W]
    i = 0
    for total in totals:
        for kind in ("ss", "fs"):
            for k, op in enumerate(OPS):
                cases.append(exhausted_case("e%d" % i, total, kind, op, OPS[(k + 3) % len(OPS)])); i += 1
    for kind in ("un", "nx", "dir"):
        for k, op in enumerate(OPS):
            cases.append(exhausted_case("e%d" % i, 0, kind, op, OPS[(k + 5) % len(OPS)])); i += 1
    # a stream that delivers exactly `total` bytes and then fails with an I/O error (badbit set, eofbit clear)
    # (only whole windows: libstdc++ discards the bytes of a read() during which the stream buffer throws)
    for total in (W, 2 * W):
        for k, op in enumerate(OPS):
            cases.append(exhausted_case("e%d" % i, total, "bad", op, OPS[(k + 2) % len(OPS)])); i += 1
    if tier == "quick":
        cases += truncation_cases(tier, rng, "t", 6, 40)
    else:
        cases += truncation_cases(tier, rng, "t", 30, 300)
    return cases

def file_cut_cases(ctx, tier, rng):
    """C05_truncated_file against the real reader: exporter-produced files (one output each, small and multi-window), cut at the end of
    the header +-1, at every block end +-1, at window multiples +-1 and at random offsets; 'F cut 0 n' runs the application's read loop
    (CdnsReader + read_block until eof / exception) on the first n bytes.  Ground truth from an independent parse of the FULL file:
    the blocks wholly inside the prefix are dumped exactly as for the full file, then 'throw End' - nothing else."""
    sch = schema.load(ctx["mdl"])
    cases = []
    for i in range(6 if tier == "quick" else 60):
        h = histgen.gen_history(sch, rng, nops=rng.choice([6, 15, 30]), rotations=False, maxi=rng.choice([1, 2, 3]))
        if i % 3 == 0:
            for o in h["ops"]:
                if o[0] == "mm" and o[2][6] is not None: o[2][6] = bytes([65 + i]) * rng.choice([40000, 70000])
        h["ops"] = [o for o in h["ops"] if o[0] in ("qr", "aec", "mm")] + [("wb",)]
        base = histgen.to_script(sch, h, read_back=False)
        impl, _, _ = common.run_both([("g", base + ["F out 0"])], ctx["impl"]["drv"], ctx["mdl"], batch=1, impl_only=True)
        il = impl.get("g", [])
        outs = [l for l in il if l.startswith("out ") and l[4:] != "-"]
        if not outs: continue
        data = bytes.fromhex(outs[-1][4:])
        k = il.index(outs[-1])
        full = il[k + 1:]                                   # dump of the full file: pre, (blk .. endblk)*, eof
        if not full or not full[0].startswith("pre ") or full[-1] != "eof": continue
        # independent block boundaries: 0x83, text, preamble item, 0x9f, items..., 0xff
        try:
            pos = 1
            _, pos = refcbor.parse_item(data, pos); _, pos = refcbor.parse_item(data, pos)
            hdr_end = pos + 1
            ends, pos = [], hdr_end
            while data[pos] != 0xff:
                _, pos = refcbor.parse_item(data, pos); ends.append(pos)
        except Exception: continue
        blocks, cur = [], None
        for l in full[1:-1]:
            if l.startswith("blk "): cur = [l]
            elif cur is not None:
                cur.append(l)
                if l == "endblk": blocks.append(cur); cur = None
        if len(blocks) != len(ends): continue
        cuts = set([0, 1, hdr_end - 1, hdr_end, hdr_end + 1, len(data) - 1])
        for e in ends:
            for d in (-1, 0, 1): cuts.add(e + d)
        for w in range(W, len(data), W):
            for d in (-1, 0, 1): cuts.add(w + d)
        while len(cuts) < (25 if tier == "quick" else 120): cuts.add(rng.randrange(0, len(data)))
        for c in sorted(x for x in cuts if 0 <= x < len(data)):
            exp = []
            if c >= hdr_end:
                exp.append(full[0])
                for e, b in zip(ends, blocks):
                    if e <= c: exp += b
            exp.append("throw End")
            cases.append({"id": "f%d_%d" % (i, c), "script": base + ["F cut 0 %d" % c], "expect": [None] * (k + 1) + exp,
                          "what": "the first %d of %d bytes of an exporter output (header ends at %d, blocks end at %s): the read loop must return the %d blocks wholly contained and then report end of input"
                                  % (c, len(data), hdr_end, ends[:6], sum(1 for e in ends if e <= c and c >= hdr_end)),
                          "meta": {"kind": "file-cut", "cut": c, "len": len(data)}})
    return cases

def to_script(c): return common.case_script(c)

def run(ctx):
    rep, tier, rng = ctx["report"], ctx["tier"], ctx["rng"]
    cases = gen_cases(tier, rng)
    diffs, fails = common.run_expect(ctx, cases, batch=12)
    fcases = file_cut_cases(ctx, tier, rng)
    d2, f2 = common.run_expect(ctx, fcases, batch=6, canon=histgen.canon_lines)
    diffs, fails, cases = diffs + d2, fails + f2, cases + fcases
    # truncation: results of the commands inside the cut item must be their full-input result or End (prefix theorem)
    common.summarize_cov(rep, cases,
        "(a) inputs of exactly 0, 1, 2, 65534, 65535, 65536, 131069..131071, 196605 bytes through std::istringstream / std::ifstream, plus unreadable "
        "streams (never-opened ifstream, ifstream on a missing path, ifstream on a directory, a stream that fails with an I/O error after n bytes), consumed completely, then each of the 11 public read operations three times: all must report End and the input stays "
        "exhausted; (b) streams of random well-formed items (small, and 1-2 windows long) cut at every window multiple +-2, at item ends +-1 and at "
        "random offsets: the values wholly inside the prefix are returned as in the full stream, the next read reports End; (c) C05_truncated_file "
        "against the real reader: exporter-produced files (incl. multi-window ones) cut at the header end +-1, every block end +-1, window multiples "
        "+-1 and random offsets, read with CdnsReader's read_block loop ('F cut'): exactly the blocks wholly contained (block ends from an independent "
        "parse of the full file), dumped as for the full file, then the end-of-input error. "
        "distinct = distinct scripts; expectations from the generator's ground truth", diffs, fails)
    return {"diffs": diffs, "fails": fails, "to_script": to_script}
