# C15 — a named output becomes visible under its final name only when complete.
import common, p_C14, p_xw
from concurrent.futures import ThreadPoolExecutor
THEOREMS = ["C15_prefix", "C15_only_part_written", "C15_compressed", "C15_exporter", "C15_exporter_files", "C15_exporter_compressed", "C15_nonvacuous"]
VARIANT = "plain"
PRE = {"out2": b"an older, complete file", "out2.gz": None, "out2.xz": None}

EXTRA_PROPERTY_FILES = ("Properties_writers",)   # the bodies of the output writers' functions as they are now (translator/writers.py) against what the model was written after
def scenarios(tier, rng):
    rnd = lambda n: bytes(rng.getrandbits(8) for _ in range(n))
    base = [
        {"ops": [("w", "hex", rnd(5000)), ("rot",), ("w", "hex", rnd(100)), ("w", "hex", rnd(3000)), ("rot",), ("w", "hex", b"last")], "destroy": True},
        {"ops": [("w", "hex", rnd(10)), ("rot",), ("rot",), ("w", "hex", rnd(70000))], "destroy": True},
        {"ops": [("rot",), ("w", "hex", rnd(2048)), ("w", "hex", rnd(2048))], "destroy": False},
        {"ops": [("w", "hex", rnd(40000))], "destroy": True},
        # rotation onto the very name that is being produced (the old output must be complete under the name before the new '.part' is opened)
        {"ops": [("w", "hex", rnd(6000)), ("rots",), ("w", "hex", rnd(100)), ("rots",), ("w", "hex", rnd(9000))], "destroy": True},
        {"ops": [("w", "hex", rnd(3000)), ("rots",), ("w", "hex", rnd(3000)), ("rot",), ("w", "hex", rnd(10)), ("rots",)], "destroy": False},
    ]
    if tier != "quick":
        for _ in range(12):
            ops = []
            for _ in range(rng.choice([2, 4, 7])):
                r = rng.random()
                ops.append(("rot",) if r < 0.25 else ("rots",) if r < 0.33 else ("w", "hex", rnd(rng.choice([0, 1, 100, 3000, 50000]))))
            base.append({"ops": ops, "destroy": rng.random() < 0.7})
    return base

def run(ctx):
    rep, tier, rng = ctx["report"], ctx["tier"], ctx["rng"]
    drvw, mdl = ctx["impl"]["drvw"], ctx["mdl"]
    diffs, fails, cases = [], [], []
    jobs = []
    for i, sc in enumerate(scenarios(tier, rng)):
        for comp in ("none", "gzip", "xz"):
            ext = {"none": "", "gzip": ".gz", "xz": ".xz"}[comp]
            pre_name = "out2" + ext
            pre_data = b"an older, complete file" if comp == "none" else None
            # the pre-existing file under the name of the second output must be a complete stream of its kind too
            import gzip, lzma
            pre_data = {"none": b"an older, complete file", "gzip": gzip.compress(b"older"), "xz": lzma.compress(b"older")}[comp]
            ls = ["CASE c", "PRE %s %s" % (pre_name, pre_data.hex())] + p_C14.script_for(sc, "name", comp)[1:]
            jobs.append((i, sc, comp, ext, pre_name, pre_data, ls))
    def complete_ok(comp, fn, data, exp_by_name, pre_name, pre_data):
        if fn == pre_name and data == pre_data: return None
        if fn not in exp_by_name: return "unexpected file %s under a final name" % fn
        try: got = data if comp == "none" else p_C14.decompress_strict(comp, data)
        except Exception as e: return "file %s under its final name is not a complete %s stream: %s" % (fn, comp, e)
        if got not in exp_by_name[fn]: return "file %s under its final name holds %d bytes, none of the complete outputs of that name (%s)" % (fn, len(got), [len(x) for x in exp_by_name[fn]])
        return None
    def one(job):
        i, sc, comp, ext, pre_name, pre_data, ls = job
        il, files, rc = common.run_w(drvw, ls)
        ml = common.run_model_lines(mdl, ls)
        nops = sum(1 for l in il if l.startswith("ev "))
        exp_by_name = p_C14.expected_by_name(sc, ext)
        why = []
        # the finished run
        for fn, data in files.items():
            if fn.endswith(".part"):
                if sc["destroy"]: why.append("a .part file is left after destruction: %s" % fn)
                continue
            w = complete_ok(comp, fn, data, exp_by_name, pre_name, pre_data)
            if w: why.append(w)
        # the process dies before its k-th output operation, for every k
        crash_results = []
        for k in range(1, nops + 1):
            cl, cfiles, crc = common.run_w(drvw, ls, crash_at=k)
            if crc != 77: continue
            crash_results.append(k)
            for fn, data in cfiles.items():
                if fn.endswith(".part"): continue
                w = complete_ok(comp, fn, data, exp_by_name, pre_name, pre_data)
                if w: why.append("process died before output operation %d of %d: %s" % (k, nops, w)); break
        return job, il, ml, why, nops, len(crash_results)
    total_crash = 0
    with ThreadPoolExecutor(max_workers=common.NPROC) as ex:
        for (i, sc, comp, ext, pre_name, pre_data, ls), il, ml, why, nops, ncr in ex.map(one, jobs):
            cid = "c%d-%s" % (i, comp)
            case = {"id": cid, "script": ls, "meta": {"kind": comp, "ops": nops, "crash_points": ncr}}
            cases.append(case); total_crash += ncr
            if why: fails.append((cid, case, why[0], il[-10:]))
            a = common.canon_trace([l for l in il if l.startswith("ev ")], comp != "none")
            b = common.canon_trace([l for l in ml if l.startswith("ev ")], comp != "none")
            if a != b: diffs.append((cid, case, "observed system-call trace differs from the model's: impl %r vs model %r" % (a[:12], b[:12])))
    # the same with the EXPORTER on top (theorems C15_exporter, C15_exporter_files): exporter histories on named outputs, every crash point
    xcases, xdiffs, xfails, xstats = p_xw.section(ctx, p_xw.gen(rng, 24 if tier == "quick" else 400, kinds=("name",)), "x", crash=True)
    cases += xcases; diffs += xdiffs; fails += xfails; total_crash += xstats["exporter_crash_points"]
    rep.cov.update(xstats)
    common.summarize_cov(rep, cases,
        "scenarios on named outputs (plain / gzip / xz): several rotations, rotation onto a name whose file exists from before, consecutive "
        "rotations, destruction with and without data, 70000-byte chunks. (1) the observed fopen/write/writev/fclose/rename sequence (adjacent "
        "writes coalesced) must equal the model's event trace; (2) the process is killed before its k-th output operation for EVERY k: each "
        "file then found under a final name must be the pre-existing file or a complete output (complete compressed stream, decompressing to the "
        "data written). Then exporter histories (buffer_qr / write_block / rotate_output with and without export / destruction, block sizes 1..50, "
        "names up to 250 bytes so that blocks span several 2 KiB staging buffers) on named outputs: return values, counters and the system-call trace "
        "WRITE BY WRITE (plain) against the model chain exporter -> encoder chunks -> writer -> events, and every crash point again. "
        "distinct = distinct scripts", diffs, fails)
    rep.cov["crash_points_explored"] = total_crash
    rep.cov["traces_validated_against_impl"] = len(cases)
    return {"diffs": diffs, "fails": fails, "to_script": lambda c: common.case_script(c)}
