# C02 — every finished output is one well-formed, schema-valid C-DNS document; an output without blocks is empty.
import common, schema, histgen, p_hist
THEOREMS = ["C02_struct_one_item", "C02_struct_skips", "C02_empty_structures", "C02_empty_output", "C02_blocks_nonempty",
            "C02_indices_resolve", "C02_output_is_one_item", "C02_outputs_of_history", "C02_output_skips", "C02_nonvacuous"]
EXTRA_PROPERTY_FILES = ("Properties_format", "Properties_encoder")   # obligations over the regenerated Gen_format.v / Gen_encoder.v (translator/format.py, encoder.py)
EMPTY_QR = None
def gen_cases(sch, tier, rng):
    cases = []
    n = 200 if tier == "quick" else 6000
    for i in range(n):
        h = histgen.gen_history(sch, rng, nops=rng.choice([4, 10, 30]))
        # present-but-empty optional structures: empty statistics, empty collection parameters, records whose sub-structures end up empty
        for o in h["ops"]:
            if o[0] in ("qr", "aec", "mm") and rng.random() < 0.3:
                o = list(o)
        if i % 3 == 0:
            for bp in h["pre"][3]:
                if rng.random() < 0.5: bp[1] = [None, None, None, None, [], [], [], None, None, None]
        ops = []
        for o in h["ops"]:
            if o[0] in ("qr", "aec", "mm") and rng.random() < 0.25: o = (o[0], [None] * 6, o[2])
            ops.append(o)
        h["ops"] = ops
        cases.append(p_hist.mk_case(sch, "h%d" % i, h, "empty-structures" if i % 3 == 0 else "random"))
    return cases
# ---- blocks the application builds directly (public add_* interface of CdnsBlock + CdnsExporter::write_block(block)) ----
class DirectBlock:
    """Python mirror of the nine de-duplicating tables, only to hand out the indices the real calls will return (caller duty:
    stored indices come from that block's own add_* calls)"""
    def __init__(self): self.t = {k: [] for k in ("ip", "ct", "nr", "sig", "qlist", "qrr", "rrlist", "rr", "mmd")}; self.lines = []
    def add(self, tab, val, text):
        l = self.t[tab]
        if val in l: ix = l.index(val)
        else: l.append(val); ix = len(l) - 1
        self.lines.append("B %s b %s" % (tab, text)); return ix
def gen_direct(sch, rng, i):
    tps = 1000
    bp = histgen.gen_bp(sch, rng, masks=(histgen.ALL_QR_BITS, histgen.ALL_SIG_BITS, 3, 3), tps=tps, maxi=rng.choice([1, 2, 3, 10000]))   # small maxima: the add calls' 'block is full' results are exercised
    pre = [1, 0, None, [bp]]
    d = DirectBlock()
    opt = lambda f: f() if rng.random() < 0.6 else None
    def ip(): v = bytes(rng.getrandbits(8) for _ in range(rng.choice([4, 16]))); return d.add("ip", v, v.hex())
    def nr(): v = rng.choice([b"\x03www\x07example\x03com\x00", b"\x00", bytes(rng.getrandbits(8) for _ in range(rng.choice([1, 5, 40])))]); return d.add("nr", v, v.hex())
    def ct(): v = [rng.choice([1, 28, 255, 65535]), rng.choice([1, 3, 255])]; return d.add("ct", v, schema.show(sch["ClassType"], v))
    U = lambda bits: rng.choice([0, 1, 23, 24, 255, 256, 65535, 65536, 2 ** 32 - 1]) % (2 ** bits)
    def sig():
        v = [opt(ip), opt(lambda: U(16)), opt(lambda: U(8)), opt(lambda: U(8)), opt(lambda: U(8)), opt(lambda: U(8)), opt(lambda: U(16)), opt(lambda: U(16)),
             opt(ct), opt(lambda: U(16)), opt(lambda: U(16)), opt(lambda: U(16)), opt(lambda: U(16)), opt(lambda: U(8)), opt(lambda: U(16)), opt(nr), opt(lambda: U(16))]
        return d.add("sig", v, schema.show(sch["QueryResponseSignature"], v))
    def qrr(): v = [nr(), ct()]; return d.add("qrr", v, schema.show(sch["Question"], v))
    def rr(): v = [nr(), ct(), opt(lambda: U(32)), opt(nr)]; return d.add("rr", v, schema.show(sch["RR"], v))
    def qlist(n=None):
        v = [qrr() for _ in range(rng.choice([0, 1, 2]) if n is None else n)]; return d.add("qlist", v, "L[ " + "".join("N%d " % x for x in v) + "]")
    def rrlist(n=None):
        v = [rr() for _ in range(rng.choice([0, 1, 3]) if n is None else n)]; return d.add("rrlist", v, "L[ " + "".join("N%d " % x for x in v) + "]")
    def mmd():
        v = [opt(ip), opt(lambda: U(16)), opt(lambda: U(8)), opt(lambda: bytes(rng.getrandbits(8) for _ in range(rng.choice([0, 3, 30]))))]
        return d.add("mmd", v, schema.show(sch["MalformedMessageData"], v))
    def time(): return "L[ N%d N%d ]" % (rng.choice([0, 5, 1600000000]), rng.randrange(tps))
    def ext(kind):
        # the shapes the seed C02-2 needs among them: an EMPTY rr list with no rr at all; rr entries without any rr list
        if kind == "empty-rrlist": return [None, rrlist(0), None, None]
        return [opt(qlist), opt(rrlist), opt(rrlist), opt(rrlist)]
    kind = ["random", "empty-rrlist", "rr-without-list", "qlist-only", "scalars-only", "random"][i % 6]
    nitems = rng.choice([1, 2, 4])
    for _ in range(nitems):
        if kind == "rr-without-list": rr()
        q = [None] * 16
        if kind != "scalars-only":
            q[1] = opt(ip); q[4] = opt(sig); q[7] = opt(nr)
            if rng.random() < 0.5: q[10] = [opt(nr), opt(lambda: U(8))]
            if kind in ("random", "empty-rrlist"): q[11] = ext(kind); q[12] = ext("random") if rng.random() < 0.5 else None
            if kind == "qlist-only": q[11] = [qlist(rng.choice([0, 1, 2])), None, None, None]
        q[2] = opt(lambda: U(16)); q[3] = U(16); q[5] = opt(lambda: U(8)); q[6] = opt(lambda: rng.choice([-5, 0, 7, 2 ** 40]))
        q[8] = opt(lambda: U(64 if False else 32)); q[9] = opt(lambda: U(32))
        q[13] = opt(lambda: bytes(rng.choice(b"AS0123456789") for _ in range(5))); q[15] = opt(lambda: rng.choice([-1, 0, 99]))
        body = schema.show(sch["QueryResponse"], [None] + q[1:])
        t = time() if rng.random() < 0.7 else "_"
        d.lines.append("B qritem b %s R[ %s %s" % (schema.show(histgen.STATS, histgen.gen_stats(rng)), t, body[len("R[ _ "):]))
    for _ in range(rng.choice([0, 1, 2])):
        m = [None, opt(ip), opt(lambda: U(16)), opt(mmd)]
        body = schema.show(sch["MalformedMessage"], m)
        d.lines.append("B mmitem b _ R[ %s %s" % (time() if rng.random() < 0.7 else "_", body[len("R[ _ "):]))
    for _ in range(rng.choice([0, 1, 3])):
        d.lines.append("B aecitem b _ R[ N%d %s N%d %s N%d ]" % (rng.choice([0, 1, 5]), rng.choice(["_", "N3"]), ip(), rng.choice(["_", "N2"]), rng.choice([0, 0, 7])))
    script = ["B new b " + schema.show(sch["BlockParameters"], bp)] + d.lines + ["B dump b", "X new " + schema.show(sch["FilePreamble"], pre), "X wbx b", "X end", "F out 0"]
    return {"id": "direct%d" % i, "script": script, "expect": None, "pre": pre, "meta": {"kind": "direct-block/" + kind}}

def check_direct(sch, c, il):
    """the block bytes (B dump) wrapped into a file, and the file write_block(block) produced, must each be exactly one well-formed,
    schema-valid document whose indices address existing table entries (the caller kept its duty)"""
    import refcbor
    why = []
    dumps = [l for l in il if l.startswith("out ")]
    if len(dumps) < 2: return [("C02", "driver output incomplete: %r" % il[-3:])]
    blk = bytes.fromhex(dumps[0][4:]) if dumps[0][4:] != "-" else b""
    wrapped = b"\x83\x65C-DNS" + schema.enc(sch["FilePreamble"], c["pre"]) + b"\x9f" + blk + b"\xff"
    for what, data in (("the bytes CdnsBlock::write produced for a directly built block", wrapped),
                       ("the output of write_block(block) for a directly built block", bytes.fromhex(dumps[1][4:]) if dumps[1][4:] != "-" else b"")):
        if not data: continue
        try: histgen.read_output(sch, data)
        except (refcbor.Malformed, schema.Nonconforming) as e:
            why.append(("C02", "%s are not one well-formed schema-valid document: %s" % (what, e))); break
    if any(l.startswith("throw") for l in il): why.append(("C02", "the library's reader fails on the file written from a directly built block: %s" % [l for l in il if l.startswith("throw")][0]))
    return why

def run(ctx):
    sch = schema.load(ctx["mdl"])
    cases = gen_cases(sch, ctx["tier"], ctx["rng"])
    diffs, cases = p_hist.run_histories(ctx, cases, batch=10)
    # directly built blocks
    dcases = [gen_direct(sch, ctx["rng"], i) for i in range(60 if ctx["tier"] == "quick" else 3000)]
    impl, model, _ = common.run_both([(c["id"], c["script"]) for c in dcases], ctx["impl"]["drv"], ctx["mdl"], batch=20)
    for c in dcases:
        il, ml = impl.get(c["id"], ["<missing>"]), model.get(c["id"], ["<missing>"])
        c["oracle"] = check_direct(sch, c, il)
        if any(l.startswith("CRASH") for l in il): c["oracle"].append(("CRASH", "the implementation crashed on directly built blocks: " + [l for l in il if l.startswith("CRASH")][0][:200]))
        a, b = histgen.canon_lines(il), histgen.canon_lines(ml)
        if a != b:
            k = next((j for j in range(min(len(a), len(b))) if a[j] != b[j]), min(len(a), len(b)))
            diffs.append((c["id"], c, "result %d (%s): impl %s vs model %s" % (k, (c["script"][k] if k < len(c["script"]) else "?")[:50], (a[k] if k < len(a) else "<none>")[:100], (b[k] if k < len(b) else "<none>")[:100])))
    cases = cases + dcases
    return p_hist.finish(ctx, "C02", cases, diffs,
        "random exporter histories incl. present-but-empty BlockStatistics and CollectionParameters, records that store nothing, rotations and "
        "destruction. Every closed output must be empty (no block written) or pass a strict independent parse: exactly one CBOR item, no "
        "trailing byte, 3-element file array with the C-DNS id, definite lengths equal to members present, mandatory members, every index in "
        "range of its table; plus blocks the application builds directly through the public add_* interface of CdnsBlock (tables deliberately out of step: an "
        "empty RR list with no RR, RRs without any list, question lists only, scalar-only items) serialised with CdnsBlock::write and written with "
        "CdnsExporter::write_block(block): same strict parse, compared with the model's bytes", related=("C13",))
