# C02 — every finished output is one well-formed, schema-valid C-DNS document; an output without blocks is empty.
import common, schema, histgen, p_hist
THEOREMS = ["C02_struct_one_item", "C02_struct_skips", "C02_empty_structures", "C02_empty_output", "C02_blocks_nonempty",
            "C02_output_is_one_item", "C02_outputs_of_history", "C02_output_skips", "C02_nonvacuous"]
EXTRA_PROPERTY_FILES = ("Properties_format",)   # obligations over the regenerated Gen_format.v (translator/format.py)
EMPTY_QR = None
def gen_cases(sch, tier, rng):
    cases = []
    n = 200 if tier == "quick" else 6000
    for i in range(n):
        h = histgen.gen_history(sch, rng, nops=rng.choice([4, 10, 30]))
        # present-but-empty optional structures: empty statistics, empty collection parameters, records whose sub-structures end up empty
        for o in h["ops"]:
            if o[0] in ("qr", "aec", "mm") and rng.random() < 0.3:
                o = list(o)
        if i % 3 == 0:
            for bp in h["pre"][3]:
                if rng.random() < 0.5: bp[1] = [None, None, None, None, [], [], [], None, None, None]
        ops = []
        for o in h["ops"]:
            if o[0] in ("qr", "aec", "mm") and rng.random() < 0.25: o = (o[0], [None] * 6, o[2])
            ops.append(o)
        h["ops"] = ops
        cases.append(p_hist.mk_case(sch, "h%d" % i, h, "empty-structures" if i % 3 == 0 else "random"))
    return cases
def run(ctx):
    sch = schema.load(ctx["mdl"])
    cases = gen_cases(sch, ctx["tier"], ctx["rng"])
    diffs, cases = p_hist.run_histories(ctx, cases, batch=10)
    return p_hist.finish(ctx, "C02", cases, diffs,
        "random exporter histories incl. present-but-empty BlockStatistics and CollectionParameters, records that store nothing, rotations and "
        "destruction. Every closed output must be empty (no block written) or pass a strict independent parse: exactly one CBOR item, no "
        "trailing byte, 3-element file array with the C-DNS id, definite lengths equal to members present, mandatory members, every index in "
        "range of its table", related=("C13",))
