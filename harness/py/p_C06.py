# C06 — encoder emits RFC 8949 shortest form independent of buffer position.
import common, refcbor

BUF = 2048
THEOREMS = ["C06_op", "C06_sequence", "C06_flushed", "C06_nonvacuous"]
EXTRA_PROPERTY_FILES = ("Properties_format", "Properties_encoder")   # obligations over the regenerated Gen_format.v / Gen_encoder.v (translator/format.py, encoder.py)
BOUNDS = [0, 1, 23, 24, 255, 256, 65535, 65536, 2**32 - 1, 2**32, 2**63 - 1, 2**63, 2**64 - 1]

def spec(op):
    o, a = op[0], (op[1] if len(op) > 1 else None)
    if o == "arr": return refcbor.enc_array_start(a)
    if o == "iarr": return refcbor.INDEF_ARRAY
    if o == "map": return refcbor.enc_map_start(a)
    if o == "imap": return refcbor.INDEF_MAP
    if o in ("bytes", "bytesp"): return refcbor.enc_bytes(a)
    if o in ("text", "textp"): return refcbor.enc_text(a)
    if o == "break": return refcbor.BREAK
    if o == "bool": return refcbor.enc_bool(a)
    if o in ("u8", "u16", "u32", "u64"): return refcbor.enc_uint(a)
    if o in ("i8", "i16", "i32", "i64"): return refcbor.enc_int(a)
    raise ValueError(o)

def line(op):
    o = op[0]
    if len(op) == 1: return "E " + o
    a = op[1]
    if isinstance(a, bytes): return "E %s %s" % (o, a.hex() if a else "-")
    if isinstance(a, bool): return "E %s %d" % (o, 1 if a else 0)
    return "E %s %d" % (o, a)

UBITS = {"u8": 8, "u16": 16, "u32": 32, "u64": 64}
IBITS = {"i8": 8, "i16": 16, "i32": 32, "i64": 64}
ALL_OPS = ["arr", "iarr", "map", "imap", "bytes", "bytesp", "text", "textp", "break", "bool",
           "u8", "u16", "u32", "u64", "i8", "i16", "i32", "i64"]

def arg_classes(o, rng):
    """boundary arguments of operation o, one per head-size class and sign"""
    if o in ("iarr", "imap", "break"): return [None]
    if o == "bool": return [False, True]
    if o in ("arr", "map"): return [v for v in BOUNDS]
    if o in UBITS: return [v for v in BOUNDS if v < 2 ** UBITS[o]]
    if o in IBITS:
        b = IBITS[o]
        vs = [v for v in BOUNDS if v < 2 ** (b - 1)]
        return vs + [-1 - v for v in BOUNDS if v < 2 ** (b - 1)]
    if o in ("bytes", "bytesp", "text", "textp"):
        return [bytes(rng.randrange(256) for _ in range(n)) for n in (0, 1, 23, 24, 255, 256, 300)]
    raise ValueError(o)

def rand_arg(o, rng):
    if o in ("iarr", "imap", "break"): return None
    if o == "bool": return rng.random() < 0.5
    if o in ("arr", "map"): return rng.choice(BOUNDS + [rng.randrange(2 ** rng.randrange(1, 65))])
    if o in UBITS: return rng.randrange(2 ** rng.randrange(1, UBITS[o] + 1))
    if o in IBITS:
        v = rng.randrange(2 ** rng.randrange(1, IBITS[o]))
        return v if rng.random() < 0.5 else -1 - v
    n = rng.choice([0, 1, 5, 23, 24, 100, 255, 256, 1000, BUF - 9, BUF, BUF + 1, 2 * BUF, 3 * BUF + 7]) if rng.random() < 0.5 else rng.randrange(0, 3 * BUF + 50)
    return bytes(rng.randrange(256) for _ in range(n))

def _blob(total, fill):
    """one bytes op whose encoding has exactly `total` bytes (total >= 1)"""
    if total <= 24: return [("bytes", bytes([fill]) * (total - 1))]
    if total <= 257: return [("bytes", bytes([fill]) * (total - 2))] if total >= 26 else [("bytes", bytes([fill]) * 23), ("u8", 0)][: 1 + (total - 24)]
    if total == 258: return [("bytes", bytes([fill]) * 255), ("u8", 0)]
    return [("bytes", bytes([fill]) * (total - 3))]

NEED = {"arr": 9, "map": 9, "bytes": 9, "bytesp": 9, "text": 9, "textp": 9, "iarr": 1, "imap": 1, "break": 1, "bool": 1,
        "u8": 2, "u16": 3, "u32": 5, "u64": 9, "i8": 2, "i16": 3, "i32": 5, "i64": 9}

def sim_level(ops, level=0):
    """fill level of the staging buffer after ops (independent re-statement of the flush rule, used only to
    confirm that the generator reaches the fill level it claims)"""
    for op in ops:
        if BUF - level < NEED[op[0]]: level = 0
        n = len(spec(op))
        if op[0] in ("bytes", "bytesp", "text", "textp"):
            hd = n - len(op[1]); level += hd; left = len(op[1])
            while BUF - level < left:
                left -= BUF - level; level = 0
            level += left
        else:
            level += n
    return level

def filler(level):
    """ops that bring an empty encoder to exactly `level` staged bytes (0 <= level <= BUF) without any flush"""
    if level == 0: return []
    if level < 30: return [("u8", 0)] * level
    ops = []
    if level - 30 > 0: ops += _blob(level - 30, 0xaa)
    ops += [("bytes", b"\xbb" * 28)]
    assert sim_level(ops) == level, (level, sim_level(ops))
    return ops

def gen_cases(tier, rng):
    cases = []
    levels_back = list(range(0, 11)) if tier == "quick" else list(range(0, BUF + 1))
    # 1. every op x every argument class x fill level BUF-a
    n = 0
    for o in ALL_OPS:
        for a in arg_classes(o, rng):
            for back in levels_back:
                if tier != "quick" and back > 12 and (back * 7 + n) % 16 != 0 and o not in ("u64", "bytes", "i64"):
                    continue
                ops = filler(BUF - back) + [(o,) if a is None else (o, a)] + [("u8", 24)]
                cases.append(("f%d" % n, ops, {"kind": "fill", "op": o, "back": back})); n += 1
    # 2. exhaustive 8-bit and (strided) 16-bit overloads
    cases.append(("x8u", [("u8", v) for v in range(256)], {"kind": "exh8"}))
    cases.append(("x8i", [("i8", v) for v in range(-128, 128)], {"kind": "exh8"}))
    step = 1
    for k in range(0, 65536, 4096):
        cases.append(("x16u%d" % k, [("u16", v) for v in range(k, k + 4096, step)], {"kind": "exh16"}))
        cases.append(("x16i%d" % k, [("i16", v - 32768) for v in range(k, k + 4096, step)], {"kind": "exh16"}))
    # 3. random sequences
    nseq = 300 if tier == "quick" else 6000
    for i in range(nseq):
        ln = rng.randrange(1, 40)
        ops = []
        for _ in range(ln):
            o = rng.choice(ALL_OPS); a = rand_arg(o, rng)
            ops.append((o,) if a is None else (o, a))
        cases.append(("r%d" % i, ops, {"kind": "random"}))
    return cases

def to_script(ops):
    return ["E new"] + [line(op) for op in ops] + ["E end"]

def oracle(ops, impl_lines):
    """independent statement of the property on the implementation's observable behaviour"""
    exp_rs = [len(spec(op)) for op in ops]
    exp_out = b"".join(spec(op) for op in ops)
    rs = [l for l in impl_lines if l.startswith("r ")]
    outl = [l for l in impl_lines if l.startswith("out ")]
    if len(rs) != len(ops) or len(outl) != 1:
        return "unexpected driver output shape: %r" % (impl_lines[:3] + impl_lines[-2:],)
    for k, (l, e) in enumerate(zip(rs, exp_rs)):
        if int(l[2:]) != e:
            return "call %d (%s) returned %s, the RFC 8949 preferred encoding has %d bytes" % (k, line(ops[k])[:60], l[2:], e)
    got = outl[0][4:]
    got = b"" if got == "-" else bytes.fromhex(got)
    if got != exp_out:
        i = next((j for j in range(min(len(got), len(exp_out))) if got[j] != exp_out[j]), min(len(got), len(exp_out)))
        return "output differs from the concatenated preferred encodings at byte %d (got %d bytes, expected %d)" % (i, len(got), len(exp_out))
    return None

def run(ctx):
    rep, tier, rng = ctx["report"], ctx["tier"], ctx["rng"]
    cases = gen_cases(tier, rng)
    scripts = [(cid, to_script(ops)) for cid, ops, meta in cases]
    impl, model, crashes = common.run_both(scripts, ctx["impl"]["drv"], ctx["mdl"], batch=60)
    diffs, fails = [], []
    kinds = {}
    distinct = set()
    for cid, ops, meta in cases:
        kinds[meta["kind"]] = kinds.get(meta["kind"], 0) + 1
        distinct.add(tuple(line(o) for o in ops))
        il, ml = impl.get(cid, ["<missing>"]), model.get(cid, ["<missing>"])
        why = oracle(ops, il)
        if why: fails.append((cid, ops, why, il))
        if il != ml:
            k = next((j for j in range(min(len(il), len(ml))) if il[j] != ml[j]), min(len(il), len(ml)))
            diffs.append((cid, ops, "line %d: impl %r vs model %r" % (k, il[k][:80] if k < len(il) else None, ml[k][:80] if k < len(ml) else None)))
    rep.cov["evaluations"] = len(cases)
    rep.cov["distinct_nontrivial"] = len(distinct)
    rep.cov["rule"] = ("cases: (a) each of the 18 write operations x each head-size/sign boundary argument x buffer fill level 2048-a "
                       "(a=0..10 quick, 0..2048 thorough) followed by a sentinel; (b) all 2^8 / 2^16 values of the 8/16-bit overloads; "
                       "(c) random call sequences with strings up to 3x the buffer. A case is a call sequence; distinct = distinct sequences; "
                       "all are non-trivial (each ends in a flush and is compared byte-for-byte and return-for-return)")
    rep.cov["distribution"] = kinds
    rep.cov["samples"] = [{"id": c[0], "script": to_script(c[1])[-4:]} for c in (cases[0], cases[len(cases) // 2], cases[-1])]
    rep.cov["correspondence_differences"] = len(diffs)
    rep.cov["oracle_failures"] = len(fails)
    return {"diffs": diffs, "fails": fails, "to_script": to_script}
