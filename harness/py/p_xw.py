# Exporter-on-writer scenarios (drvw 'X …' commands vs the model's 'XW …' group): the model runs the exporter (coq/Exporter.v), derives the
# calls its encoder makes on the output writer from the flushed chunks (coq/ExporterIO.v) and feeds them to the writer models (coq/Writer.v);
# the real stack runs under system-call interposition. Compared: every return value and counter, and the open/write/close/rename trace.
import common
_PRE = {}

def preamble_value(ctx, maxitems):
    """the model's value of the default FilePreamble with the given max_block_items, obtained from the REAL serialisation"""
    if maxitems in _PRE: return _PRE[maxitems]
    il, _, rc = common.run_w(ctx["impl"]["drvw"], ["PREAMBLE %d" % maxitems])
    hx = [l for l in il if l.startswith("pre ")]
    if rc != 0 or not hx: raise common.CheckError("drvw PREAMBLE failed: %r" % il[-3:])
    ml = common.run_model_lines(ctx["mdl"], ["S r FilePreamble " + hx[0].split()[1]])
    if not ml or not ml[0].startswith("val "): raise common.CheckError("model cannot read the default FilePreamble: %r" % ml[:2])
    _PRE[maxitems] = ml[0][4:]
    return _PRE[maxitems]

def gen(rng, n, kinds=("name", "fd"), comps=("none", "gzip", "xz"), big=False, records=("qr", "aec", "mm")):
    """records: which kinds of record the random scenarios buffer. Address event counts are all of ONE encoded size (4-byte address from a
    small set, type and aggregated count below 24): the array of a block comes out in unordered_map order, so only then are the encoder's
    flush points - the sizes of the individual write(2) calls - the same whatever that order is."""
    out = []
    fixed = [
        {"kind": "name", "comp": "none", "max": 3, "ops": [("qr", b"\x03www", 1), ("qr", b"\x03www", 2), ("wb",), ("rot", 1), ("qr", b"\x01a", 3), ("counts",)], "end": True},
        {"kind": "name", "comp": "none", "max": 2, "ops": [("rot", 1), ("rot", 0), ("qr", b"\x01a", 1), ("qr", b"\x01b", 2), ("qr", b"\x01c", 3), ("rot", 1)], "end": True},
        {"kind": "fd", "comp": "none", "max": 50, "ops": [("qr", b"%03d" % i * 60, i) for i in range(30)] + [("rot", 1), ("wb",)], "end": True},
        {"kind": "name", "comp": "none", "max": 1, "ops": [("qr", b"\x01a", 1), ("qr", b"\x01b", 2)], "end": False},
    ]
    for f in fixed:
        if f["kind"] in kinds and f["comp"] in comps: out.append(f)
    while len(out) < n:
        ops = []
        for _ in range(rng.choice([12, 25, 40]) if big else rng.choice([1, 3, 6, 12, 40])):
            r = rng.random()
            if r < 0.62:
                kind = rng.choice(records)
                if kind == "aec" and sum(1 for o in ops if o[0] == "aec") >= 10: kind = "qr"
                ln = rng.choice([30, 120, 250, 250]) if big else rng.choice([1, 1, 3, 30, 120, 250])
                if kind == "qr": ops.append(("qr", bytes([min(ln, 63)]) + bytes(rng.choice(b"abcxyz") for _ in range(ln)), rng.randrange(0, 70000)))
                elif kind == "aec": ops.append(("aec", bytes([10, 0, 0, rng.choice([1, 2, 3])]), rng.choice([0, 1, 5]), rng.choice([1, 2])))
                else: ops.append(("mm", bytes(rng.choice(b"\x00\x01\xffmn") for _ in range(ln)), rng.randrange(0, 70000)))
            elif r < 0.76: ops.append(("wb",))
            elif r < 0.92: ops.append(("rot", rng.choice([0, 1, 1])))
            else: ops.append(("counts",))
        out.append({"kind": rng.choice(kinds), "comp": rng.choice(comps), "max": rng.choice([1, 2, 3, 7, 50]), "ops": ops, "end": rng.random() < 0.8})
    return out

def scripts(ctx, sc, pre=None):
    """(drvw script, model script) of one scenario; rotations go to out2, out3, …"""
    a = ["CASE x"] + (["PRE %s %s" % pre] if pre else []) + ["X new %s %s 1 %d" % (sc["kind"], sc["comp"], sc["max"])]
    b = ["CASE x"] + (["PRE %s %s" % pre] if pre else []) + ["XW new %s %s 1 %s" % (sc["kind"], sc["comp"], preamble_value(ctx, sc["max"]))]
    nid = 1
    for o in sc["ops"]:
        if o[0] == "qr": t = "qr %s %d" % (o[1].hex(), o[2])
        elif o[0] == "aec": t = "aec %s %d %d" % (o[1].hex(), o[2], o[3])
        elif o[0] == "mm": t = "mm %s %d" % (o[1].hex(), o[2])
        elif o[0] == "wb": t = "wb"
        elif o[0] == "rot": nid += 1; t = "rot %d %d" % (nid, o[1])
        else: t = "counts"
        a.append("X " + t); b.append("XW " + t)
    if sc["end"]: a.append("X end"); b.append("XW end")
    a.append("TRACE"); b.append("TRACE")
    return a, b

def canon(lines, comp, exact):
    """return values and counters as they are; the event trace with adjacent writes coalesced (exact=False) or write by write"""
    res = [l for l in lines if not l.startswith("ev ") and l != "endtrace"]
    evs = [l for l in lines if l.startswith("ev ")]
    if exact and comp == "none":
        tr = [l[3:].rsplit("/", 1)[0] if l.startswith("ev write ") else l[3:] for l in evs if not l.startswith("ev write ") or not l.split()[3].startswith("0/")]
    else:
        tr = common.canon_trace(evs, comp != "none")
    return res, tr

def compare(ctx, sc, pre=None):
    """run one scenario on both sides; returns (drvw script, impl lines, files, difference or None)"""
    a, b = scripts(ctx, sc, pre)
    il, files, rc = common.run_w(ctx["impl"]["drvw"], a)
    ml = common.run_model_lines(ctx["mdl"], b)
    if rc != 0: return a, il, files, "the real stack ended with exit status %d: %r" % (rc, il[-3:])
    ri, ti = canon(il, sc["comp"], True)
    rm, tm = canon(ml, sc["comp"], True)
    if sc["comp"] != "none":
        # compressed sizes are the compressor's business: return values of calls that write are only compared for being zero or not
        z = lambda ls: [l if not l.startswith("r ") else ("r 0" if l == "r 0" else "r +") for l in ls]
        ri, rm = z(ri), z(rm)
    if ri != rm:
        k = next((i for i, (x, y) in enumerate(zip(ri, rm)) if x != y), min(len(ri), len(rm)))
        return a, il, files, "result %d differs: real stack %r, model %r" % (k, ri[k:k + 2], rm[k:k + 2])
    if ti != tm:
        k = next((i for i, (x, y) in enumerate(zip(ti, tm)) if x != y), min(len(ti), len(tm)))
        return a, il, files, "system-call trace differs at event %d: real stack %r, model %r" % (k, ti[k:k + 3], tm[k:k + 3])
    return a, il, files, None

def rc_ok(il):
    """the scenario ran to its end without an exception"""
    return not any(l.startswith(("throw", "CRASH")) for l in il)

def _decomp(comp, data):
    import p_C14
    return data if comp == "none" else p_C14.decompress_strict(comp, data)

def section(ctx, scs, prefix, crash=False, against_plain=False):
    """run the scenarios; returns (cases, diffs, fails, stats).
       crash: named outputs only - the process is killed before its k-th output operation for every k; a file then found under a final name
              must be the pre-existing file or a complete output of the finished run (complete compressed stream when compressed).
       against_plain: each finished compressed output must be one complete stream decompressing to what the same history produces uncompressed."""
    from concurrent.futures import ThreadPoolExecutor
    import gzip, lzma
    for m in sorted(set(sc["max"] for sc in scs)): preamble_value(ctx, m)
    def one(isc):
        i, sc = isc
        ext = {"none": "", "gzip": ".gz", "xz": ".xz"}[sc["comp"]]
        pre = None; pre_name = pre_data = None
        if crash:
            pre_name = "out2" + ext
            pre_data = {"none": b"an older, complete file", "gzip": gzip.compress(b"older"), "xz": lzma.compress(b"older")}[sc["comp"]]
            pre = (pre_name, pre_data.hex())
        a, il, files, d = compare(ctx, sc, pre)
        why, ncr = [], 0
        nops = sum(1 for l in il if l.startswith("ev "))
        if against_plain and d is None and sc["comp"] != "none":
            pa, _ = scripts(ctx, dict(sc, comp="none"))
            pl, pfiles, prc = common.run_w(ctx["impl"]["drvw"], pa)
            for fn, data in sorted(files.items()):
                if fn.endswith(".part") or fn.startswith("."): continue
                pfn = fn[:-len(ext)] if sc["kind"] == "name" else fn
                closed = ("ev close " + fn) in il or ("ev close %s.part" % fn) in il
                if not closed: continue
                try: got = _decomp(sc["comp"], data)
                except Exception as e: why.append("output %s is not one complete %s stream: %s" % (fn, sc["comp"], e)); break
                if got != pfiles.get(pfn): why.append("output %s decompresses to %d bytes; the same history uncompressed produced %d" % (fn, len(got), len(pfiles.get(pfn, b"")))); break
        # every output the finished run CLOSED (by a rotation, or by destruction) must by itself be empty or one complete C-DNS document - one
        # well-formed CBOR item, a 3-element array, nothing after it - whatever model and implementation agree or disagree on (an independent
        # statement of "complete": the crash oracle below compares with the finished run's own files and would accept a defect they share)
        if rc_ok(il):
            import refcbor
            for fn, data in sorted(files.items()):
                if fn.endswith(".part") or fn.startswith("."): continue
                closed = sc["kind"] == "name" or ("ev close " + fn) in il
                if not closed: continue
                if fn == pre_name and data == pre_data: continue            # the older file the scenario started with, untouched
                try: plain = _decomp(sc["comp"], data) if data else b""
                except Exception as e: why.append("closed output %s is not one complete %s stream: %s" % (fn, sc["comp"], e)); break
                if not plain: continue
                try:
                    t = refcbor.parse_all(plain)
                    if t[0] != "a" or len(t[1]) != 3: raise refcbor.Malformed("not a 3-element array")
                except Exception as e:
                    why.append("closed output %s (%d bytes%s) is not one complete C-DNS document: %s" % (fn, len(plain), " after decompression" if sc["comp"] != "none" else "", e)); break
        if crash and d is None:
            final = {}
            for fn, data in files.items():
                if not fn.endswith(".part"):
                    try: final[fn] = _decomp(sc["comp"], data)
                    except Exception as e: why.append("finished run: %s is not a complete %s stream: %s" % (fn, sc["comp"], e))
            for k in range(1, nops + 1):
                cl, cfiles, crc = common.run_w(ctx["impl"]["drvw"], a, crash_at=k)
                if crc != 77: continue
                ncr += 1
                for fn, data in cfiles.items():
                    if fn.endswith(".part"): continue
                    if fn == pre_name and data == pre_data: continue
                    try: got = _decomp(sc["comp"], data)
                    except Exception as e: why.append("process died before output operation %d of %d: %s under its final name is not a complete %s stream (%s)" % (k, nops, fn, sc["comp"], e)); break
                    if fn not in final or got != final[fn]:
                        why.append("process died before output operation %d of %d: %s under its final name holds %d bytes, not the complete output" % (k, nops, fn, len(got))); break
                if why: break
        return i, sc, a, il, d, why, nops, ncr
    cases, diffs, fails, ncrash = [], [], [], 0
    with ThreadPoolExecutor(max_workers=common.NPROC) as ex:
        for i, sc, a, il, d, why, nops, ncr in ex.map(one, list(enumerate(scs))):
            cid = "%s%d-%s-%s" % (prefix, i, sc["kind"], sc["comp"])
            case = {"id": cid, "script": a, "meta": {"kind": "exporter/%s/%s" % (sc["kind"], sc["comp"]), "ops": nops}}
            cases.append(case); ncrash += ncr
            if d: diffs.append((cid, case, "exporter on its writer: " + d))
            if why: fails.append((cid, case, why[0], il[-10:]))
    return cases, diffs, fails, {"exporter_histories_on_writer": len(cases), "exporter_crash_points": ncrash,
                                 "exporter_output_events": sum(c["meta"]["ops"] for c in cases)}

def fault_section(ctx, rng, n, prefix="f"):
    """exporter histories on a plain descriptor output with the k-th write(2) of the scenario rejected once (FAILONCE), cut short once (SHORTONCE)
    or rejected from then on (FAILFROM), for EVERY k, followed by a recovery attempt (rotate_output to a fresh descriptor, write_block, counts)
    and destruction: the outcome of every call (returned count / exception), the counters and what every descriptor finally holds must be what
    the model of the exporter under faults (coq/ExporterFaults.v: fstep / fdestroy) computes.  Returns (cases, diffs, stats)."""
    from concurrent.futures import ThreadPoolExecutor
    import random
    scs = []
    for i in range(n):
        sc = gen(rng, 6, kinds=("fd",), comps=("none",), big=(i % 3 != 2), records=("qr", "mm"))[-1]; sc["end"] = True; scs.append((i, sc, rng.getrandbits(32)))
    for m in sorted(set(sc["max"] for _, sc, _ in scs)): preamble_value(ctx, m)
    def ins(s, pfx):
        s = list(s); s[len(s) - 1:len(s) - 1] = [pfx + " " + e for e in ("rot 90 0", "wb", "counts")]; return s
    def one(job):
        i, sc, seed = job
        r = random.Random(seed)
        a, b = scripts(ctx, sc)
        il, files, rc = common.run_w(ctx["impl"]["drvw"], a)
        nw = sum(1 for l in il if l.startswith("ev write "))
        out = []
        for k in range(1, nw + 2):
            for plan in ("FAILONCE %d" % k, "SHORTONCE %d %d" % (k, r.choice([1, 5, 100, 2047])), "FAILFROM %d" % k):
                a2 = ins(a[:1] + [plan] + a[1:-1], "X"); b2 = ins(b[:1] + [plan] + b[1:-1], "XW") + ["XW files"]
                il2, files2, rc2 = common.run_w(ctx["impl"]["drvw"], a2)
                ml2 = common.run_model_lines(ctx["mdl"], b2)
                ri = [l for l in il2 if not l.startswith("ev ") and l != "endtrace"]
                rm = [l for l in ml2 if not l.startswith(("ev ", "file ")) and l != "endtrace"]
                fm = {l.split()[1]: (l.split()[2] if len(l.split()) > 2 and l.split()[2] != "-" else "") for l in ml2 if l.startswith("file ")}
                fi = {k2: v.hex() for k2, v in files2.items() if k2.startswith("fd")}
                d = None
                if rc2 != 0: d = "the real stack ended with exit status %d" % rc2
                elif ri != rm:
                    j = next((t for t, (x, y) in enumerate(zip(ri, rm)) if x != y), min(len(ri), len(rm)))
                    d = "call %d (%s): real stack %r, model %r" % (j, a2[j][:40] if j < len(a2) else "?", ri[j:j + 1], rm[j:j + 1])
                else:
                    bad = [k2 for k2, v in fm.items() if fi.get(k2) != v] + [k2 for k2, v in fi.items() if k2 not in fm and v]   # (a descriptor opened for a rotation that threw stays empty)
                    if bad: d = "descriptor %s finally holds %d bytes, the model says %d" % (bad[0], len(fi.get(bad[0], "")) // 2, len(fm.get(bad[0], "")) // 2)
                threw = sum(1 for l in ri if l.startswith("throw"))
                out.append((plan, a2, d, threw))
        return i, sc, out
    cases, diffs, nthrow = [], [], 0
    with ThreadPoolExecutor(max_workers=common.NPROC) as ex:
        for i, sc, out in ex.map(one, scs):
            for plan, a2, d, threw in out:
                cid = "%s%d-%s" % (prefix, i, plan.replace(" ", "_"))
                case = {"id": cid, "script": a2, "meta": {"kind": "exporter-faults/" + plan.split()[0]}}
                cases.append(case); nthrow += 1 if threw else 0
                if d: diffs.append((cid, case, "exporter under faults: " + d))
    return cases, diffs, {"exporter_fault_scenarios": len(cases), "of_which_an_api_call_threw": nthrow}
