# C12 — buffering conserves records and flushes blocks exactly at the configured size.
import common, schema, histgen, p_hist, itertools, random
THEOREMS = ["C12_flush_rule", "C12_conservation", "C12_block_bound", "C12_flush_clears", "C12_nonzero_iff_written", "C12_nonvacuous"]

def gen_cases(sch, tier, rng):
    cases = []
    # exhaustive short sequences over a small alphabet x max_block_items 0..3 x hint settings that make records unstorable
    tps = 1000
    r0 = random.Random(12)
    qrA = histgen.gen_gqr(r0, tps, 5, full=True); qrB = histgen.gen_gqr(r0, tps, 5)
    qrU = [None] * 39; qrU[2] = 53                      # only a client port: unstorable when that hint bit is clear
    aec1, aec2 = [0, None, None, histgen.IPS[0], 0], [1, 3, 2, histgen.IPS[1], 0]
    mmA = histgen.gen_gmm(r0, tps, 5, full=True)
    alpha = [("qr", None, qrA), ("qr", [1, None, None, None, None, 2], qrU), ("aec", None, aec1), ("aec", None, aec2),
             ("mm", None, mmA), ("wb",), ("setbp", 1), ("counts",)]
    L = 3 if tier == "quick" else 5
    n = 0
    for maxi in (0, 1, 2, 3):
        for masks in ((histgen.ALL_QR_BITS, histgen.ALL_SIG_BITS, 3, 3), (histgen.ALL_QR_BITS & ~4, histgen.ALL_SIG_BITS, 3, 0), (0, 0, 0, 2)):
            pre = [1, 0, None, [histgen.gen_bp(sch, r0, masks=masks, tps=tps, maxi=maxi), histgen.gen_bp(sch, r0, masks=masks, tps=tps, maxi=max(1, 3 - maxi))]]
            for seq in itertools.product(range(len(alpha)), repeat=L):
                if tier == "quick" and (n * 7 + sum(seq)) % 5: n += 1; continue
                h = {"pre": pre, "ops": [alpha[i] for i in seq]}
                cases.append(p_hist.mk_case(sch, "x%d" % n, h, "exhaustive%d/max%d" % (L, maxi))); n += 1
    for i in range(120 if tier == "quick" else 4000):
        h = histgen.gen_history(sch, rng, rotations=(i % 3 == 0), maxi=rng.choice([0, 1, 2, 3, 7]))
        cases.append(p_hist.mk_case(sch, "r%d" % i, h, "random"))
    return cases

EXTRA_PROPERTY_FILES = ("Properties_exporter",)   # the bodies of the exporter's functions as they are now (translator/exporter.py) against what the model was written after
def run(ctx):
    sch = schema.load(ctx["mdl"])
    cases = gen_cases(sch, ctx["tier"], ctx["rng"])
    diffs, cases = p_hist.run_histories(ctx, cases, batch=40)
    return p_hist.finish(ctx, "C12", cases, diffs,
        "(a) every call sequence of length 3 (quick: a fixed 1/5 sample; thorough: length 5) over {storable QR, QR that is unstorable under the "
        "second hint setting, two address-event keys, malformed message, write_block, set_active_block_parameters, counters} x max_block_items "
        "0..3 x three hint settings; (b) random histories. Oracle: specification-level simulation (flush exactly when an array reaches "
        "max(1,max); non-zero return iff a block was written; counters; records conserved in order) against an independent parse of every output")
