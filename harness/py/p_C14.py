# C14 — compression is transparent: decompressing any output gives the plain output.
import common, p_xw, gzip, lzma, zlib, io
from concurrent.futures import ThreadPoolExecutor
THEOREMS = ["C14_transparent", "C14_one_stream_per_output", "C14_exporter_outputs", "C14_nonvacuous"]
VARIANT = "plain"

EXTRA_PROPERTY_FILES = ("Properties_writers",)   # the bodies of the output writers' functions as they are now (translator/writers.py) against what the model was written after
def gen_data(rng, kind, n):
    if kind == "zeros": return ("rep", 0x00, n)
    if kind == "text": return ("hex", bytes(rng.choice(b"abcdefgh ") for _ in range(n)))
    return ("hex", bytes(rng.getrandbits(8) for _ in range(n)))

def pattern(kind, seed, n):
    """what 'W writepat' writes: n bytes of little-endian 32-bit words, word i = i + seed (cnt: compressible) or i * 0x9E3779B1 + seed (mix:
    hardly compressible) - no two stretches of a chunk are alike, whatever their distance"""
    import array, sys
    m = (n + 3) // 4
    a = array.array("I", ((i + seed) & 0xffffffff for i in range(m))) if kind == "cnt" else array.array("I", ((i * 0x9E3779B1 + seed) & 0xffffffff for i in range(m)))
    if a.itemsize != 4: raise RuntimeError("array('I') is not 32 bits wide here")
    if sys.byteorder != "little": a.byteswap()
    return a.tobytes()[:n]

def op_bytes(o):
    if o[1] == "rep": return bytes([o[2]]) * o[3]
    if o[1] == "pat": return pattern(o[2], o[3], o[4])
    return o[2]
def op_len(o): return o[3] if o[1] == "rep" else o[4] if o[1] == "pat" else len(o[2])

def gen_scenarios(tier, rng):
    scs = []
    sizes = [0, 1, 100, 2048, 5000, 70000]
    n = 40 if tier == "quick" else 700
    for i in range(n):
        ops = []
        for _ in range(rng.choice([1, 2, 4, 8])):
            r = rng.random()
            if r < 0.75:
                kind = rng.choice(["zeros", "text", "random"]); sz = rng.choice(sizes) if rng.random() < 0.7 else rng.randrange(0, 200000)
                ops.append(("w",) + gen_data(rng, kind, sz))
            else: ops.append(("rot",))
        scs.append({"ops": ops, "destroy": True})
    # rotations with a lot of compressed data pending, consecutive rotations, empty outputs
    for sz in (3000, 20000, 100000):
        scs.append({"ops": [("w", "hex", bytes(rng.getrandbits(8) for _ in range(sz))), ("rot",), ("rot",), ("w", "hex", b"tail"), ("rot",)], "destroy": True})
    # one very large chunk (the compressors' scratch space must not depend on the chunk size)
    big = [9 * 2 ** 20] if tier == "quick" else [9 * 2 ** 20, 33 * 2 ** 20]
    for b in big: scs.append({"ops": [("w", "rep", 0x41, b), ("rot",), ("w", "hex", b"x")], "destroy": True})
    # ... and very large chunks no two stretches of which are alike (a constant chunk reads the same wherever a compressor picks it up again):
    # tens of MiB in one write call, sizes around the powers of two an implementation might slice its input by
    pats = [("cnt", 20 * 2 ** 20 + 7)] if tier == "quick" else [("cnt", 20 * 2 ** 20 + 7), ("mix", 17 * 2 ** 20 + 1), ("cnt", 33 * 2 ** 20 + 3), ("mix", 2 ** 20 + 5), ("cnt", 4 * 2 ** 20 + 1)]
    for kind, b in pats:
        scs.append({"ops": [("w", "hex", b"head-of-the-output"), ("w", "pat", kind, rng.randrange(2 ** 32), b), ("rot",), ("w", "pat", "mix", 5, 70001)], "destroy": True})
    return scs

def script_for(sc, kind, comp):
    ls = ["CASE s", "W new %s %s 1" % (kind, comp)]
    nid = 1
    for o in sc["ops"]:
        if o[0] == "rot": nid += 1; ls.append("W rot %d" % nid)
        elif o[0] == "rots": ls.append("W rot %d" % nid)          # onto the very name that is being produced
        elif o[1] == "rep": ls.append("W writerep %02x %d" % (o[2], o[3]))
        elif o[1] == "pat": ls.append("W writepat %s %d %d" % (o[2], o[3], o[4]))
        else: ls.append("W write %s" % (o[2].hex() or "-"))
    if sc["destroy"]: ls.append("W end")
    ls.append("TRACE")
    return ls

def expected_outputs(sc):
    outs, cur = [], b""
    for o in sc["ops"]:
        if o[0] == "rots": raise ValueError("same-name rotations are named by expected_by_name")
        if o[0] == "rot": outs.append(cur); cur = b""
        else: cur += op_bytes(o)
    if sc["destroy"]: outs.append(cur)
    return outs

def expected_by_name(sc, ext):
    """complete outputs per final name (a name may be produced several times: any of them may be found there)"""
    res, cur, nid = {}, b"", 1
    for o in sc["ops"]:
        if o[0] in ("rot", "rots"):
            res.setdefault("out%d%s" % (nid, ext), []).append(cur); cur = b""
            if o[0] == "rot": nid += 1
        else: cur += op_bytes(o)
    if sc["destroy"]: res.setdefault("out%d%s" % (nid, ext), []).append(cur)
    return res

def decompress_strict(comp, data):
    """exactly one complete stream, nothing after it"""
    if comp == "gzip":
        d = zlib.decompressobj(31); out = d.decompress(data)
        if not d.eof: raise ValueError("gzip stream is truncated")
        if d.unused_data: raise ValueError("%d bytes after the end of the gzip stream" % len(d.unused_data))
        return out
    d = lzma.LZMADecompressor(format=lzma.FORMAT_XZ); out = d.decompress(data)
    if not d.eof: raise ValueError("xz stream is truncated")
    if d.unused_data: raise ValueError("%d bytes after the end of the xz stream" % len(d.unused_data))
    return out

def run(ctx):
    rep, tier, rng = ctx["report"], ctx["tier"], ctx["rng"]
    scs = gen_scenarios(tier, rng)
    drvw, mdl = ctx["impl"]["drvw"], ctx["mdl"]
    jobs = [(i, sc, kind, comp) for i, sc in enumerate(scs) for kind in ("name", "fd") for comp in ("gzip", "xz")]
    def one(job):
        i, sc, kind, comp = job
        ls = script_for(sc, kind, comp)
        il, files, rc = common.run_w(drvw, ls, timeout=600)
        pl, pfiles, prc = common.run_w(drvw, script_for(sc, kind, "none"), timeout=600)
        small = sum(op_len(o) for o in sc["ops"] if o[0] == "w") < 3000000
        ml = common.run_model_lines(mdl, ls) if small else None
        return job, ls, il, files, rc, pfiles, ml
    diffs, fails, cases = [], [], []
    with ThreadPoolExecutor(max_workers=common.NPROC) as ex:
        for (i, sc, kind, comp), ls, il, files, rc, pfiles, ml in ex.map(one, jobs):
            cid = "s%d-%s-%s" % (i, kind, comp)
            case = {"id": cid, "script": ls, "meta": {"kind": "%s/%s" % (kind, comp)}}
            cases.append(case)
            why = None
            ext = ".gz" if comp == "gzip" else ".xz"
            exp = expected_outputs(sc)
            if rc != 0: why = "the writer crashed (exit status %d) - %s" % (rc, "a chunk of %d bytes" % max(op_len(o) for o in sc["ops"] if o[0] == "w"))
            else:
                for k, data in enumerate(exp):
                    fn = ("out%d%s" % (k + 1, ext)) if kind == "name" else "fd%d" % (k + 1)
                    pfn = ("out%d" % (k + 1)) if kind == "name" else "fd%d" % (k + 1)
                    if fn not in files: why = "output %s is missing (files: %s)" % (fn, sorted(files)); break
                    try: got = decompress_strict(comp, files[fn])
                    except Exception as e: why = "output %s is not one complete %s stream: %s" % (fn, comp, e); break
                    if got != data or pfiles.get(pfn) != data:
                        why = "output %s decompresses to %d bytes, the plain writer produced %d, %d were written" % (fn, len(got), len(pfiles.get(pfn, b"")), len(data)); break
                if why is None and any(f.endswith(".part") for f in files): why = "a .part file is left behind: %s" % sorted(files)
            if why: fails.append((cid, case, why, il[-8:]))
            if ml is not None:
                a = common.canon_trace([l for l in il if l.startswith("ev ")], True)
                b = common.canon_trace([l for l in ml if l.startswith("ev ")], True)
                if a != b or [l for l in il if not l.startswith("ev")] != [l for l in ml if not l.startswith("ev")]:
                    diffs.append((cid, case, "trace skeleton / outcomes differ: impl %r vs model %r" % (a[-6:], b[-6:])))
    # the exporter on top of the compressing writers (theorem C14_exporter_outputs)
    xcases, xdiffs, xfails, xstats = p_xw.section(ctx, p_xw.gen(rng, 40 if tier == "quick" else 1500, comps=("gzip", "xz")), "x", against_plain=True)
    cases += xcases; diffs += xdiffs; fails += xfails
    rep.cov.update(xstats)
    common.summarize_cov(rep, cases,
        "byte sequences (zeros, text, random; chunks of 0 B .. 200 KB; one constant 9 MiB chunk, 33 MiB in the thorough tier; one 20 MiB chunk no two "
        "stretches of which are alike, in the thorough tier five of 1 .. 33 MiB, compressible and not) x chunkings x rotation "
        "patterns (incl. consecutive rotations, empty outputs, rotation with much compressed data pending) x {gzip, xz} x {named, descriptor} "
        "through the real writers; each closed output must be exactly one complete stream (Python zlib / lzma, no trailing bytes, .gz/.xz suffix) "
        "decompressing to what the uncompressed writer produced for the same calls; the event skeleton (open/write/close/rename order) is "
        "compared with the model. Then exporter histories on gzip / xz outputs (named and descriptor): results and event skeleton against the "
        "model chain exporter -> encoder chunks -> compressing writer, each closed output one complete stream decompressing to what the same "
        "history produces uncompressed", diffs, fails)
    return {"diffs": diffs, "fails": fails, "to_script": lambda c: common.case_script(c)}
