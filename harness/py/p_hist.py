# p_hist.py — shared engine of the exporter-history properties (C01, C02, C04, C10, C11, C12, C13): generate histories with the
# property's emphasis, run them through the real exporter/reader and through the extracted model, diff (AEC order canonicalised),
# and evaluate the independent oracle (histgen.check_history / check_reader_dump) on the implementation's results.
import common, schema, histgen, itertools

def run_histories(ctx, cases, batch=8):
    sch = schema.load(ctx["mdl"])
    scripts = [(c["id"], c["script"]) for c in cases]
    impl, model, crashes = common.run_both(scripts, ctx["impl"]["drv"], ctx["mdl"], batch=batch)
    diffs, fails = [], []
    for c in cases:
        il, ml = impl.get(c["id"], ["<missing>"]), model.get(c["id"], ["<missing>"])
        why = histgen.check_history(sch, c["h"], il) + histgen.check_reader_dump(sch, c["h"], il)
        crash = [l for l in il if l.startswith("CRASH")]
        if crash: why.append(("CRASH", "the implementation crashed on this (legal) API history: " + crash[0][:300]))
        c["oracle"] = why
        c["impl"] = il
        a, b = histgen.canon_lines(il), histgen.canon_lines(ml)
        if a != b:
            k = next((j for j in range(min(len(a), len(b))) if a[j] != b[j]), min(len(a), len(b)))
            x, y = (a[k] if k < len(a) else "<none>"), (b[k] if k < len(b) else "<none>")
            j = next((t for t in range(min(len(x), len(y))) if x[t] != y[t]), 0)
            diffs.append((c["id"], c, "result %d (%s): impl ..%s vs model ..%s" % (k, (c["script"][k] if k < len(c["script"]) else "?")[:40], x[max(0, j - 30):j + 60], y[max(0, j - 30):j + 60])))
    return diffs, cases

def theorem_check(ctx, cases, pid):
    """the end-to-end theorems (C01_end_to_end / C13_records_across_outputs) against the implementation: the extracted model
    evaluates the theorem's hypotheses (preamble and all written values within the ranges of the format, history admissible) and
    its right-hand side (log_qr / log_mm: the hint-filtered submitted records, minus those still buffered at the end) on the
    history; where the hypotheses hold, the records the REAL reader returned for the REAL outputs, in rotation order, must be
    exactly that list.  Returns the premise statistics for the evidence file."""
    sch = schema.load(ctx["mdl"])
    scripts = []
    if ctx["tier"] == "quick":               # the multi-window cases are re-simulated by the model only in the thorough tier
        cases = [c for c in cases if c.get("meta", {}).get("kind") != "multi-window"]
    for c in cases:
        s = histgen.to_script(sch, c["h"], read_back=False)
        k = len(s) - 1                       # before 'X end'
        scripts.append((c["id"], s[:k] + ["X thm"] + s[k:]))
    model = common.run_model(scripts, ctx["mdl"], batch=8)
    hold = 0; notadm = 0; nottyped = 0
    for c in cases:
        ml = model.get(c["id"], [])
        hyp = [l for l in ml if l.startswith("#hyp ")]
        if not hyp: c["oracle"].append((pid, "the model did not evaluate the theorem's hypotheses: %r" % ml[-2:])); continue
        f = dict(kv.split("=") for kv in hyp[0][5:].split())
        if f.get("adm") != "1": notadm += 1
        if f.get("typed") != "1" or f.get("pre") != "1": nottyped += 1
        if not (f.get("pre") == "1" and f.get("adm") == "1" and f.get("typed") == "1"): continue
        hold += 1
        il = c.get("impl", [])
        for tag, what in (("qr", "query/response"), ("mm", "malformed-message")):
            got = [l[len(tag) + 1:] for l in il if l.startswith(tag + " ")]
            exp = [l[len(tag) + 3:] for l in ml if l.startswith("#l%s " % tag)]
            if got != exp:
                k = next((j for j in range(min(len(got), len(exp))) if got[j] != exp[j]), min(len(got), len(exp)))
                c["oracle"].append((pid, "the %s records read back from the outputs differ from the right-hand side of the end-to-end theorem "
                                         "(hint-filtered submitted records): %d read, %d expected, first difference at record %d: read %s, expected %s"
                                         % (what, len(got), len(exp), k, (got[k] if k < len(got) else "<none>")[:160], (exp[k] if k < len(exp) else "<none>")[:160])))
                break
        # address events: total count per decoded key over all outputs
        def agg(lines):
            d = {}
            for l in lines:
                t = l.split(" ")
                if len(t) < 4 or not t[-2].startswith("N"): return None
                key = " ".join(t[:-2]); d[key] = d.get(key, 0) + int(t[-2][1:])
            return d
        got = agg([l[4:] for l in il if l.startswith("aec ")])
        exp = agg([l[6:] for l in ml if l.startswith("#laec ")])
        if got is None or exp is None or got != exp:
            bad = None if (got is None or exp is None) else next((k for k in sorted(set(got) | set(exp)) if got.get(k) != exp.get(k)), None)
            c["oracle"].append((pid, "the address-event totals read back from the outputs differ from the right-hand side of the end-to-end theorem (log_aec): "
                                     "key %s: read %s, expected %s" % (bad, got.get(bad) if got and bad else got, exp.get(bad) if exp and bad else exp)))
    return {"histories": len(cases), "hypotheses_hold": hold, "not_admissible": notadm, "outside_format_ranges": nottyped}

def finish(ctx, pid, cases, diffs, rule, related=()):
    """failing inputs attributed to this property (or to a property it is a corollary of) are violations with a replay;
    other oracle failures and all correspondence differences make the property 'no longer shown to hold'"""
    rep = ctx["report"]
    fails, other = [], []
    for c in cases:
        # a crash (sanitizer report, abort) of the real library on a legal history is a failing input of whichever property is being checked
        mine = [m for (p, m) in c["oracle"] if p == pid or p in related or p == "CRASH"]
        rest = [(p, m) for (p, m) in c["oracle"] if not (p == pid or p in related or p == "CRASH")]
        if mine: fails.append((c["id"], c, mine[0], c.get("impl_tail", [])))
        elif rest: other.append((c["id"], c, "%s oracle: %s" % rest[0]))
    common.summarize_cov(rep, cases, rule, diffs, fails)
    rep.cov["oracle_failures_other_properties"] = len(other)
    return {"diffs": diffs + other, "fails": fails, "to_script": lambda c: common.case_script(c)}

def mk_case(sch, cid, h, kind):
    return {"id": cid, "script": histgen.to_script(sch, h), "expect": None, "h": h, "meta": {"kind": kind}}
