# p_hist.py — shared engine of the exporter-history properties (C01, C02, C04, C10, C11, C12, C13): generate histories with the
# property's emphasis, run them through the real exporter/reader and through the extracted model, diff (AEC order canonicalised),
# and evaluate the independent oracle (histgen.check_history / check_reader_dump) on the implementation's results.
import common, schema, histgen, itertools

def run_histories(ctx, cases, batch=8):
    sch = schema.load(ctx["mdl"])
    scripts = [(c["id"], c["script"]) for c in cases]
    impl, model, crashes = common.run_both(scripts, ctx["impl"]["drv"], ctx["mdl"], batch=batch)
    diffs, fails = [], []
    for c in cases:
        il, ml = impl.get(c["id"], ["<missing>"]), model.get(c["id"], ["<missing>"])
        why = histgen.check_history(sch, c["h"], il) + histgen.check_reader_dump(sch, c["h"], il)
        crash = [l for l in il if l.startswith("CRASH")]
        if crash: why.append(("C03", "implementation crashed: " + crash[0][:200]))
        c["oracle"] = why
        a, b = histgen.canon_lines(il), histgen.canon_lines(ml)
        if a != b:
            k = next((j for j in range(min(len(a), len(b))) if a[j] != b[j]), min(len(a), len(b)))
            x, y = (a[k] if k < len(a) else "<none>"), (b[k] if k < len(b) else "<none>")
            j = next((t for t in range(min(len(x), len(y))) if x[t] != y[t]), 0)
            diffs.append((c["id"], c, "result %d (%s): impl ..%s vs model ..%s" % (k, (c["script"][k] if k < len(c["script"]) else "?")[:40], x[max(0, j - 30):j + 60], y[max(0, j - 30):j + 60])))
    return diffs, cases

def finish(ctx, pid, cases, diffs, rule, related=()):
    """failing inputs attributed to this property (or to a property it is a corollary of) are violations with a replay;
    other oracle failures and all correspondence differences make the property 'no longer shown to hold'"""
    rep = ctx["report"]
    fails, other = [], []
    for c in cases:
        mine = [m for (p, m) in c["oracle"] if p == pid or p in related]
        rest = [(p, m) for (p, m) in c["oracle"] if not (p == pid or p in related)]
        if mine: fails.append((c["id"], c, mine[0], c.get("impl_tail", [])))
        elif rest: other.append((c["id"], c, "%s oracle: %s" % rest[0]))
    common.summarize_cov(rep, cases, rule, diffs, fails)
    rep.cov["oracle_failures_other_properties"] = len(other)
    return {"diffs": diffs + other, "fails": fails, "to_script": lambda c: common.case_script(c)}

def mk_case(sch, cid, h, kind):
    return {"id": cid, "script": histgen.to_script(sch, h), "expect": None, "h": h, "meta": {"kind": kind}}
