# C08 — reading is invariant under equivalent re-encoding and ignores unknown members.
import common, schema, histgen, refcbor, cborgen
THEOREMS = ["C08_refines", "C08_invariance", "C08_encodings_wellformed", "C08_member_order", "C08_unknown_members", "C08_wide_keys_clamped", "C08_no_key_at_the_ends", "C08_wide_keys_ignored", "C08_canonical_is_an_encoding", "C08_file_invariance", "C08_exporter_output_in_family", "C08_nonvacuous"]
EXTRA_PROPERTY_FILES = ("Properties_format", "Properties_decoder")   # obligations over the regenerated Gen_format.v (translator/format.py)
NAMES = ["FilePreamble", "BlockParameters", "StorageParameters", "CollectionParameters", "QueryResponseSignature", "RR", "MalformedMessageData",
         "BlockStatistics", "QueryResponse", "AddressEventCount", "MalformedMessage", "ClassType", "Question", "ResponseProcessingData",
         "QueryResponseExtended", "BlockPreamble", "IndexListItem", "Timestamp", "StorageHints"]

def reencode_file(sch, data, rng):
    """an equivalent file: same preamble and blocks (independent parse), every item re-encoded with random head widths,
    definite <-> indefinite containers, chunked strings, permuted members and extra members with unknown keys"""
    t = refcbor.parse_all(data)
    pre = schema.interp(sch["FilePreamble"], t[1][1])
    blocks = [schema.interp(sch["Block"], b) for b in t[1][2][1]]
    body = b"".join(schema.enc(sch["Block"], b, rng, unknown=True) for b in blocks)
    arr = (b"\x9f" + body + b"\xff") if rng.random() < 0.5 else cborgen.head(4, len(blocks), rng.choice(cborgen.widths_for(len(blocks)))) + body
    tid = schema.enc(("T",), b"C-DNS", rng)
    inner = tid + schema.enc(sch["FilePreamble"], pre, rng, unknown=True) + arr
    return (b"\x9f" + inner + b"\xff") if rng.random() < 0.4 else cborgen.head(4, 3, rng.choice([0, 1, 2, 4, 8])) + inner

def run(ctx):
    rep, tier, rng = ctx["report"], ctx["tier"], ctx["rng"]
    sch = schema.load(ctx["mdl"])
    cases = []
    # (a) every structure: the reader on a random equivalent re-encoding returns the value
    for i in range(500 if tier == "quick" else 20000):
        nm = NAMES[i % len(NAMES)]; t = sch[nm]
        v = schema.gen_val(t, rng, small=True)
        r = schema.enc(t, v, rng, unknown=True)
        tail = b"\x18\x2a"
        cases.append({"id": "s%d" % i, "script": ["S r %s %s" % (nm, (r + tail).hex())], "expect": ["val " + schema.show(t, v), "rest 182a"],
                      "what": "%s re-encoded equivalently (widths, indefinite lengths, chunks, member order, unknown members)" % nm, "meta": {"kind": "struct/" + nm}})
    # (b) whole files: exporter output vs an equivalent re-encoding of it, through the library's reader
    hs = [histgen.gen_history(sch, rng, nops=rng.choice([4, 10, 25]), rotations=False) for _ in range(25 if tier == "quick" else 400)]
    gen = [("g%d" % i, histgen.to_script(sch, h, read_back=False)) for i, h in enumerate(hs)]
    impl, _, _ = common.run_both(gen, ctx["impl"]["drv"], ctx["mdl"], batch=10, impl_only=True)
    fcases = []
    for cid, _ in gen:
        outs = [l for l in impl[cid] if l.startswith("out ") and l[4:] != "-"]
        if not outs: continue
        data = bytes.fromhex(outs[-1][4:])
        for k in range(3):
            try: re = reencode_file(sch, data, rng)
            except Exception: continue
            fcases.append({"id": "%s_%d" % (cid, k), "script": ["F read " + data.hex(), "M sep", "F read " + re.hex()], "expect": None, "meta": {"kind": "file"}})
    # (c) keys outside the int64 range (defect F15, repaired): 2^64-1 used to be read as -1 (asn), -2^64 as 0 (time offset); every structure, both keys
    qr = sch["QueryResponse"]
    base = [5, None, 53] + [None] * 13
    for key_bytes, name in ((bytes.fromhex("1bffffffffffffffff"), "2^64-1"), (bytes.fromhex("3bffffffffffffffff"), "-2^64")):
        good = schema.enc(qr, base)
        n = good[0] & 31
        forged = bytes([0xa0 | (n + 1)]) + good[1:] + key_bytes + b"\x00"
        c = {"id": "k" + name, "script": ["S r QueryResponse " + forged.hex()], "expect": ["val " + schema.show(qr, base), "rest -"],
             "what": "QueryResponse with an extra member whose unknown key is %s" % name, "meta": {"kind": "bigkey"}}
        cases.append(c)
    for i, nm in enumerate(NAMES):
        t = sch[nm]
        if t[0] != "M": continue
        v = schema.gen_val(t, rng, small=True)
        good = schema.enc(t, v)
        if good[0] & 0xe0 != 0xa0 or (good[0] & 31) > 21: continue
        extra = bytes.fromhex("1bffffffffffffffff") + cborgen.gen_item(rng, 1)["b"] + bytes.fromhex("3bffffffffffffffff") + cborgen.gen_item(rng, 1)["b"]
        forged = bytes([good[0] + 2]) + extra + good[1:]
        cases.append({"id": "kk%d" % i, "script": ["S r %s %s" % (nm, forged.hex())], "expect": ["val " + schema.show(t, v), "rest -"],
                      "what": "%s with two extra members whose unknown keys are 2^64-1 and -2^64" % nm, "meta": {"kind": "bigkey"}})
    d1, f1 = common.run_expect(ctx, cases, batch=60)
    d2, f2 = common.run_expect(ctx, fcases, batch=6)
    # file level oracle: the dump of the re-encoded file equals the dump of the original
    scripts = {c["id"]: c for c in fcases}
    impl2, _, _ = common.run_both([(c["id"], c["script"]) for c in fcases], ctx["impl"]["drv"], ctx["mdl"], batch=6, impl_only=True)
    for c in fcases:
        il = impl2.get(c["id"], [])
        if "mark sep" in il:
            k = il.index("mark sep"); a, b = il[:k], il[k + 1:]
            if a != b:
                j = next((x for x in range(min(len(a), len(b))) if a[x] != b[x]), min(len(a), len(b)))
                f2.append((c["id"], c, "the reader returns different data for an equivalent re-encoding of the file: line %d %r vs %r" % (j, (a[j] if j < len(a) else None), (b[j] if j < len(b) else None)), il[-4:]))
    common.summarize_cov(rep, cases + fcases,
        "(a) values of 19 structures re-encoded by an independent encoder with random head widths, definite/indefinite arrays and maps, chunked "
        "strings, permuted members and unknown members (keys in the int64 range carrying random well-formed items: tagged, floats, nested) and "
        "read by the library: the decoded members must equal the value; (b) exporter-produced files re-encoded the same way at every level: the "
        "reader's record dump must equal that of the original; (c) unknown keys outside the int64 range (2^64-1, -2^64) in every structure", d1 + d2, f1 + f2)
    return {"diffs": d1 + d2, "fails": f1 + f2, "to_script": lambda c: common.case_script(c)}
