# C20 — independent exporter / reader instances are safe to use from concurrent threads.
import os, sys, glob, subprocess
import common
sys.path.insert(0, os.path.join(common.VERIF, "translator"))
import globals as gen_globals
THEOREMS = ["C20_schedule_independent", "C20_no_shared_writable_state", "C20_external_callees_reentrant", "C20_nonvacuous"]
VARIANT = "plain"
INVENTORY = {}

def pre():
    """regenerate coq/Gen_globals.v from the library objects compiled from /repo's current working tree"""
    r = common.build_impl("plain")
    objs = sorted(glob.glob(os.path.join(r["dir"], "lib_*.o")))
    w, e = gen_globals.generate(objs, os.path.join(common.COQ, "Gen_globals.v"))
    INVENTORY["writable"], INVENTORY["external"] = w, e

def run(ctx):
    rep, tier = ctx["report"], ctx["tier"]
    t = common.build_impl("tsan")
    fails, cases = [], []
    configs = [(4, 3), (8, 2)] if tier == "quick" else [(2, 20), (4, 20), (8, 10), (16, 10)]
    env = dict(os.environ); env["TSAN_OPTIONS"] = "halt_on_error=0:report_signal_unsafe=0:second_deadlock_stack=1"
    for n, rounds in configs:
        p = subprocess.run([t["drvt"], str(n), str(rounds)], stdout=subprocess.PIPE, stderr=subprocess.PIPE, env=env, timeout=1800, universal_newlines=True, errors="replace")
        case = {"id": "t%d" % n, "script": ["drvt %d %d" % (n, rounds)], "meta": {"kind": "threads=%d" % n}}
        cases.append(case)
        why = None
        if "ThreadSanitizer" in p.stderr:
            i = p.stderr.find("WARNING: ThreadSanitizer"); why = "data race between threads that use only their own instances: " + " ".join(p.stderr[i:i + 700].split())
        elif p.returncode != 0 or not p.stdout.startswith("ok"):
            why = "concurrent run differs from the sequential one: %s (exit %d) %s" % (p.stdout.strip()[:100], p.returncode, p.stderr[-200:])
        if why: fails.append((case["id"], case, why, [p.stdout[-200:]]))
    common.summarize_cov(rep, cases,
        "the inventory of writable static-storage objects and external C callees regenerated from the freshly compiled library objects (nm) and "
        "checked inside Coq against the allow-lists; plus 4 / 8 (thorough: 2..16) threads, each with its own exporter (plain / gzip / xz), reader, "
        "blocks and text renderers on its own descriptors, run concurrently under ThreadSanitizer for several rounds and compared with the "
        "sequential reference digests (outputs, return values, rendered records)", [], fails)
    rep.cov["distinct_nontrivial"] = max(2, len(cases))
    rep.cov["static_inventory"] = INVENTORY
    return {"diffs": [], "fails": fails, "to_script": lambda c: c["script"]}

def replay(ctx, rp):
    """run the stored thread configuration again under ThreadSanitizer"""
    sc = rp.get("script") or []
    if not sc or not sc[0].startswith("drvt "):
        print("replay file holds no thread configuration: %s" % str(rp.get("broken") or rp.get("what"))[:1000]); return 1
    t = common.build_impl("tsan")
    env = dict(os.environ); env["TSAN_OPTIONS"] = "halt_on_error=0:report_signal_unsafe=0:second_deadlock_stack=1"
    p = subprocess.run([t["drvt"]] + sc[0].split()[1:], stdout=subprocess.PIPE, stderr=subprocess.PIPE, env=env, timeout=1800, universal_newlines=True, errors="replace")
    print("== %s: exit status %d\n%s\n%s" % (sc[0], p.returncode, p.stdout[-500:], p.stderr[-3000:]))
    return 1 if (p.returncode != 0 or "ThreadSanitizer" in p.stderr or not p.stdout.startswith("ok")) else 0
