# C13 — rotation yields self-contained files and loses, repeats or reorders nothing.
import common, schema, histgen, p_hist
THEOREMS = ["C13_frozen", "C13_stream", "C13_empty_output", "C13_restart", "C13_header_has_all_params", "C13_nonvacuous"]
def gen_cases(sch, tier, rng):
    cases = []
    n = 250 if tier == "quick" else 8000
    for i in range(n):
        h = histgen.gen_history(sch, rng, nops=rng.choice([6, 12, 25, 50]), maxi=rng.choice([0, 1, 2, 3, 7, 10000]))
        # rotation-heavy: insert rotations (with / without export), also back to back and before any block
        ops = []
        for o in h["ops"]:
            ops.append(o)
            if rng.random() < 0.25: ops.append(("rot", rng.random() < 0.5))
            if rng.random() < 0.05: ops.append(("rot", False))
        if i % 7 == 0: ops.insert(0, ("rot", i % 2 == 0))
        h["ops"] = ops
        cases.append(p_hist.mk_case(sch, "h%d" % i, h, "rotations"))
    return cases
def run(ctx):
    sch = schema.load(ctx["mdl"])
    cases = gen_cases(sch, ctx["tier"], ctx["rng"])
    diffs, cases = p_hist.run_histories(ctx, cases, batch=10)
    return p_hist.finish(ctx, "C13", cases, diffs,
        "random exporter histories with many rotations (with and without export of the buffered block, back to back, before the first "
        "block), parameter sets added between outputs and switched, max_block_items 0..10000. Every closed output is parsed independently "
        "(one complete document or empty; preamble holds every parameter set its blocks use); the records of all outputs in rotation order "
        "are compared with the submissions; the library's own reader is run on every output", related=("C12", "C01", "C02"))
