# C13 — rotation yields self-contained files and loses, repeats or reorders nothing.
import common, schema, histgen, p_hist, p_xw
THEOREMS = ["C13_frozen", "C13_stream", "C13_empty_output", "C13_restart", "C13_header_has_all_params", "C13_outputs_self_contained", "C13_writer_receives_outputs",
            "C13_records_across_outputs", "C13_nonvacuous"]
EXTRA_PROPERTY_FILES = ("Properties_format", "Properties_exporter", "Properties_writers")   # obligations over the regenerated Gen_format.v (translator/format.py)
def gen_cases(sch, tier, rng):
    cases = []
    n = 250 if tier == "quick" else 8000
    for i in range(n):
        h = histgen.gen_history(sch, rng, nops=rng.choice([6, 12, 25, 50]), maxi=rng.choice([0, 1, 2, 3, 7, 10000]))
        # rotation-heavy: insert rotations (with / without export), also back to back and before any block
        ops = []
        for o in h["ops"]:
            ops.append(o)
            if rng.random() < 0.25: ops.append(("rot", rng.random() < 0.5))
            if rng.random() < 0.05: ops.append(("rot", False))
        if i % 7 == 0: ops.insert(0, ("rot", i % 2 == 0))
        h["ops"] = ops
        cases.append(p_hist.mk_case(sch, "h%d" % i, h, "rotations"))
    return cases
def named_compressed(ctx, rng, tier):
    """rotations of NAMED outputs in the three compression modes through the real exporter (writer-stack driver): every closed
    output must decompress to a complete document (or be empty) and the records of all outputs, in rotation order, must be the
    records buffered, in order, each once.  Implementation + independent parse only (the exporter model works on descriptors)."""
    import p_C14, refcbor
    from concurrent.futures import ThreadPoolExecutor
    plain = common.build_impl("plain")
    jobs = []
    for i in range(9 if tier == "quick" else 90):
        comp = ["none", "gzip", "xz"][i % 3]
        maxi = rng.choice([1, 2, 5, 10000])
        ls, names, nid, q = ["CASE n", "X new name %s 1 %d" % (comp, maxi)], [], 1, 0
        for _ in range(rng.choice([3, 6, 12])):
            r = rng.random()
            if r < 0.7:
                for _ in range(rng.choice([1, 3, 40, 120])):
                    nm = bytes(rng.choice(b"abcdefghijklmnopqrstuvwxyz0123456789") for _ in range(40)); names.append(nm)
                    ls.append("X qr %s %d" % (nm.hex(), q)); q += 1
            elif r < 0.8: ls.append("X wb")
            else: nid += 1; ls.append("X rot %d %d" % (nid, 1 if rng.random() < 0.5 else 0))
        ls += ["X wb", "X end"]
        jobs.append((i, comp, ls, names, nid))
    fails = []
    def one(job):
        i, comp, ls, names, nid = job
        il, files, rc = common.run_w(plain["drvw"], ls)
        return job, il, files, rc
    with ThreadPoolExecutor(max_workers=common.NPROC) as ex:
        for (i, comp, ls, names, nid), il, files, rc in ex.map(one, jobs):
            ext = {"none": "", "gzip": ".gz", "xz": ".xz"}[comp]
            case = {"id": "n%d" % i, "script": ls, "meta": {"kind": "named/" + comp}}
            why, got = None, []
            if rc != 0: why = "the exporter process died (exit %d)" % rc
            for k in range(1, nid + 1):
                if why: break
                fn = "out%d%s" % (k, ext)
                if fn not in files: why = "output %s is missing (files: %s)" % (fn, sorted(files)); break
                try: data = files[fn] if comp == "none" else p_C14.decompress_strict(comp, files[fn])
                except Exception as e: why = "output %s is not one complete %s stream: %s" % (fn, comp, e); break
                if not data: continue
                try: t = refcbor.parse_all(data)
                except Exception as e: why = "output %s is not a complete document: %s" % (fn, e); break
                for b in t[1][2][1]:
                    tabs = dict((kk[1], vv) for kk, vv in b[1])
                    nr = [x[1] for x in dict((kk[1], vv) for kk, vv in tabs[2][1])[2][1]]
                    for it in tabs[3][1]:
                        got.append(nr[dict((kk[1], vv) for kk, vv in it[1])[7][1]])
            if why is None and got != names:
                why = "records read from all outputs in rotation order (%d) differ from the records buffered (%d)" % (len(got), len(names))
            if why: fails.append((case["id"], case, why, il[-4:]))
            yield_cases.append(case)
    return fails

yield_cases = []
def run(ctx):
    sch = schema.load(ctx["mdl"])
    cases = gen_cases(sch, ctx["tier"], ctx["rng"])
    diffs, cases = p_hist.run_histories(ctx, cases, batch=10)
    ctx["report"].cov["end_to_end_theorem_premises"] = p_hist.theorem_check(ctx, cases, "C13")
    del yield_cases[:]
    extra_fails = named_compressed(ctx, ctx["rng"], ctx["tier"])
    for c in yield_cases: c["oracle"] = []
    for f in extra_fails:
        f[1]["oracle"] = [("C13", f[2])]
    cases = cases + yield_cases
    # the exporter on its output writer (theorem C13_writer_receives_outputs): results, counters and the system-call trace, write by write
    xctx = dict(ctx, impl=common.build_impl("plain"))
    xcases, xdiffs, xfails, xstats = p_xw.section(xctx, p_xw.gen(ctx["rng"], 60 if ctx["tier"] == "quick" else 2500, comps=("none",)), "x")
    for c in xcases: c["oracle"] = []
    for f in xfails: f[1]["oracle"] = [("C13", f[2])]
    cases = cases + xcases; diffs = diffs + xdiffs
    ctx["report"].cov.update(xstats)
    return p_hist.finish(ctx, "C13", cases, diffs,
        "random exporter histories with many rotations (with and without export of the buffered block, back to back, before the first "
        "block), parameter sets added between outputs and switched, max_block_items 0..10000. Every closed output is parsed independently "
        "(one complete document or empty; preamble holds every parameter set its blocks use); the records of all outputs in rotation order "
        "are compared with the submissions; the library's own reader is run on every output; plus rotations of NAMED outputs in the plain / gzip / xz "
        "modes through the real exporter, each closed file decompressed and parsed independently, records in rotation order compared; and, on every "
        "history satisfying the hypotheses of C13_records_across_outputs (evaluated by the extracted model), the records the library's reader returns "
        "for all outputs in rotation order must equal the theorem's right-hand side; and exporter histories on plain named / descriptor outputs under system-call interposition: every "
        "return value and counter and the open/write/close/rename trace WRITE BY WRITE against the model chain exporter -> encoder chunks "
        "(coq/ExporterIO.v) -> writer (coq/Writer.v)", related=("C12", "C01", "C02"))
