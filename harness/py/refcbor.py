# refcbor.py — independent reference for RFC 8949: preferred-serialisation encoder, strict well-formedness parser,
# canonical tree dump.  Written from the RFC, shares nothing with the Coq model or the C++ code.
import struct

def head(major, v):
    mt = major << 5
    if v < 24: return bytes([mt | v])
    if v < 1 << 8: return bytes([mt | 24, v])
    if v < 1 << 16: return bytes([mt | 25]) + v.to_bytes(2, "big")
    if v < 1 << 32: return bytes([mt | 26]) + v.to_bytes(4, "big")
    if v < 1 << 64: return bytes([mt | 27]) + v.to_bytes(8, "big")
    raise ValueError("argument out of range")

def enc_uint(v): return head(0, v)
def enc_int(z): return head(1, -1 - z) if z < 0 else head(0, z)
def enc_bytes(b): return head(2, len(b)) + b
def enc_text(b): return head(3, len(b)) + b
def enc_array_start(n): return head(4, n)
def enc_map_start(n): return head(5, n)
def enc_bool(b): return b"\xf5" if b else b"\xf4"
INDEF_ARRAY, INDEF_MAP, BREAK = b"\x9f", b"\xbf", b"\xff"

class Malformed(Exception):
    pass
class Truncated(Malformed):
    pass

# tree nodes: ("u", v, w) ("n", v, w) ("b", bytes, chunks|None) ("t", bytes, chunks|None) ("a", [items], indef, w)
#             ("m", [(k, v)], indef, w) ("tag", t, item, w) ("s", v, w) ("f", raw bytes)
def parse_item(b, i=0, depth=0):
    """strict RFC 8949 well-formedness; returns (tree, next offset)"""
    if i >= len(b): raise Truncated("no item")
    ib = b[i]; mt, ai = ib >> 5, ib & 31; i += 1
    def arg(i):
        if ai < 24: return ai, i, 0
        if ai > 27: raise Malformed("reserved additional info %d" % ai)
        w = 1 << (ai - 24)
        if i + w > len(b): raise Truncated("head")
        return int.from_bytes(b[i:i + w], "big"), i + w, w
    if mt in (0, 1):
        v, i, w = arg(i); return (("u" if mt == 0 else "n"), v, w), i
    if mt in (2, 3):
        k = "b" if mt == 2 else "t"
        if ai == 31:
            chunks = []
            while True:
                if i >= len(b): raise Truncated("chunks")
                if b[i] == 0xff: i += 1; break
                if b[i] >> 5 != mt or (b[i] & 31) == 31: raise Malformed("bad chunk")
                c, i = parse_item(b, i, depth + 1); chunks.append(c[1])
            return (k, b"".join(chunks), chunks), i
        v, i, w = arg(i)
        if i + v > len(b): raise Truncated("string body")
        return (k, bytes(b[i:i + v]), None, w), i + v
    if mt == 4:
        items = []
        if ai == 31:
            while True:
                if i >= len(b): raise Truncated("array")
                if b[i] == 0xff: i += 1; break
                it, i = parse_item(b, i, depth + 1); items.append(it)
            return ("a", items, True, 0), i
        v, i, w = arg(i)
        for _ in range(v):
            it, i = parse_item(b, i, depth + 1); items.append(it)
        return ("a", items, False, w), i
    if mt == 5:
        items = []
        if ai == 31:
            while True:
                if i >= len(b): raise Truncated("map")
                if b[i] == 0xff: i += 1; break
                k, i = parse_item(b, i, depth + 1); v, i = parse_item(b, i, depth + 1); items.append((k, v))
            return ("m", items, True, 0), i
        n, i, w = arg(i)
        for _ in range(n):
            k, i = parse_item(b, i, depth + 1); v, i = parse_item(b, i, depth + 1); items.append((k, v))
        return ("m", items, False, w), i
    if mt == 6:
        t, i, w = arg(i); it, i = parse_item(b, i, depth + 1); return ("tag", t, it, w), i
    # major 7
    if ai < 24: return ("s", ai, 0), i
    if ai == 24:
        if i >= len(b): raise Truncated("simple")
        if b[i] < 32: raise Malformed("two-byte simple < 32")
        return ("s", b[i], 1), i + 1
    if ai in (25, 26, 27):
        w = 1 << (ai - 24)
        if i + w > len(b): raise Truncated("float")
        return ("f", bytes(b[i:i + w])), i + w
    if ai == 31: raise Malformed("unexpected break")
    raise Malformed("reserved additional info %d" % ai)

def parse_all(b):
    """exactly one item, no trailing bytes"""
    t, i = parse_item(b, 0)
    if i != len(b): raise Malformed("trailing bytes: %d of %d consumed" % (i, len(b)))
    return t

def ival(t):
    """integer value of a u/n node"""
    if t[0] == "u": return t[1]
    if t[0] == "n": return -1 - t[1]
    raise Malformed("not an integer: %r" % (t[0],))

def dump(t):
    """canonical text of a parsed tree, encoding details (head widths, indefinite flags, chunking) included"""
    k = t[0]
    if k in ("u", "n"): return "%s%d/%d" % (k, t[1], t[2])
    if k in ("b", "t"):
        if t[2] is None: return "%s'%s'/%d" % (k, t[1].hex(), t[3])
        return "%s(%s)" % (k, ",".join(c.hex() for c in t[2]))
    if k == "a": return "[%s%s%s]" % ("_" if t[2] else "", "" if t[2] else "/%d " % t[3], " ".join(dump(x) for x in t[1]))
    if k == "m": return "{%s%s%s}" % ("_" if t[2] else "", "" if t[2] else "/%d " % t[3], " ".join(dump(a) + ":" + dump(b) for a, b in t[1]))
    if k == "tag": return "tag%d/%d(%s)" % (t[1], t[3], dump(t[2]))
    if k == "s": return "s%d/%d" % (t[1], t[2])
    if k == "f": return "f" + t[1].hex()
    return "?"

def canon_file_dump(data):
    """text of a C-DNS output in which the address-event-count array of every block is sorted (the library keeps these in
    an unordered_map, so their order is unspecified); everything else, encoding details included, is kept"""
    try:
        t = parse_all(data)
        if t[0] == "m":      # a bare block
            ents = []
            for kk, vv in t[1]:
                if kk[0] == "u" and kk[1] == 4 and vv[0] == "a": vv = ("a", sorted(vv[1], key=dump), vv[2], vv[3])
                ents.append((kk, vv))
            t = ("m", ents, t[2], t[3])
        if t[0] == "a" and len(t[1]) == 3 and t[1][2][0] == "a":
            blocks = []
            for b in t[1][2][1]:
                if b[0] == "m":
                    ents = []
                    for kk, vv in b[1]:
                        if kk[0] == "u" and kk[1] == 4 and vv[0] == "a":
                            vv = ("a", sorted(vv[1], key=dump), vv[2], vv[3])
                        ents.append((kk, vv))
                    b = ("m", ents, b[2], b[3])
                blocks.append(b)
            t = ("a", [t[1][0], t[1][1], ("a", blocks, t[1][2][2], t[1][2][3])], t[2], t[3])
        return "%d:%s" % (len(data), dump(t))
    except Malformed:
        return data.hex() or "-"

def encode(t, lie=None):
    """bytes of a parsed tree (head widths, indefinite flags and chunking preserved)"""
    def hd(major, v, w):
        mt = major << 5
        if w == 0 and v < 24: return bytes([mt | v])
        if w == 0: w = 1 if v < 256 else 2 if v < 65536 else 4 if v < 2 ** 32 else 8
        return bytes([mt | {1: 24, 2: 25, 4: 26, 8: 27}[w]]) + (v % 256 ** w).to_bytes(w, "big")
    k = t[0]
    if k == "u": return hd(0, t[1], t[2])
    if k == "n": return hd(1, t[1], t[2])
    if k in ("b", "t"):
        m = 2 if k == "b" else 3
        if t[2] is None: return hd(m, len(t[1]), t[3]) + t[1]
        return bytes([(m << 5) | 31]) + b"".join(hd(m, len(c), 0) + c for c in t[2]) + b"\xff"
    if k == "a":
        body = b"".join(encode(x) for x in t[1])
        return (b"\x9f" + body + b"\xff") if t[2] else hd(4, len(t[1]), t[3]) + body
    if k == "m":
        body = b"".join(encode(a) + encode(b) for a, b in t[1])
        return (b"\xbf" + body + b"\xff") if t[2] else hd(5, len(t[1]), t[3]) + body
    if k == "tag": return hd(6, t[1], t[3]) + encode(t[2])
    if k == "s": return bytes([0xe0 | t[1]]) if t[2] == 0 else bytes([0xf8, t[1]])
    if k == "f": return bytes([0xe0 | {2: 25, 4: 26, 8: 27}[len(t[1])]]) + t[1]
    raise ValueError(k)

def repeat_key(t, rng):
    """the tree with ONE map entry (key and value) repeated at a random place of its map, nothing else changed: invalid CBOR that a reader
    must survive; what it makes of it (append / last wins) is compared with the model"""
    maps = []
    def walk(x):
        if x[0] == "m":
            if x[1]: maps.append(x)
            for a, b in x[1]: walk(b)
        elif x[0] == "a":
            for y in x[1]: walk(y)
        elif x[0] == "tag": walk(x[2])
    walk(t)
    if not maps: return t
    # prefer entries whose value is a container (the members a reader may append to)
    cands = [(m, e) for m in maps for e in m[1] if e[1][0] in ("a", "m") and e[1][1]] or [(m, e) for m in maps for e in m[1]]
    tm, te = rng.choice(cands)
    def rebuild(x):
        if x is tm:
            ents = [(a, rebuild(b)) for a, b in x[1]]
            ents.insert(rng.randrange(len(ents) + 1), te)
            return ("m", ents, x[2], x[3])
        if x[0] == "m": return ("m", [(a, rebuild(b)) for a, b in x[1]], x[2], x[3])
        if x[0] == "a": return ("a", [rebuild(y) for y in x[1]], x[2], x[3])
        if x[0] == "tag": return ("tag", x[1], rebuild(x[2]), x[3])
        return x
    return rebuild(t)

# where a block stores table indices: (container, key) -> target table (BlockTables key)
_TABS = {"ip": 0, "ct": 1, "nr": 2, "sig": 3, "qlist": 4, "qrr": 5, "rrlist": 6, "rr": 7, "mmd": 8}
def index_boundary_mutants(t):
    """for the first block of a parsed file: one mutant per kind of stored index, with the FIRST index of that kind replaced by the length of
    the table it points into (the smallest value that is out of range) - a reader must refuse it, not read one entry past the table"""
    if t[0] != "a" or len(t[1]) < 3 or t[1][2][0] != "a" or not t[1][2][1]: return []
    blk = t[1][2][1][0]
    if blk[0] != "m": return []
    get = lambda m, k: next((v for kk, v in m[1] if kk[0] in ("u", "n") and ival(kk) == k), None)
    tabs = get(blk, 2)
    tlen = {nm: (len(get(tabs, k)[1]) if tabs is not None and get(tabs, k) is not None and get(tabs, k)[0] == "a" else 0) for nm, k in _TABS.items()}
    # (path to the container, key inside it or None for 'every element of the list', target table)
    sites = []
    def items(key): a = get(blk, key); return a[1] if a is not None and a[0] == "a" else []
    def tab(nm): a = get(tabs, _TABS[nm]) if tabs is not None else None; return a[1] if a is not None and a[0] == "a" else []
    for it in items(3):
        if it[0] != "m": continue
        sites += [("qr.ip", it, 1, "ip"), ("qr.sig", it, 4, "sig"), ("qr.name", it, 7, "nr")]
        rpd = get(it, 10)
        if rpd is not None and rpd[0] == "m": sites.append(("qr.bailiwick", rpd, 0, "nr"))
        for ek in (11, 12):
            e = get(it, ek)
            if e is not None and e[0] == "m": sites += [("qr.ext%d.q" % ek, e, 0, "qlist"), ("qr.ext%d.a" % ek, e, 1, "rrlist"), ("qr.ext%d.n" % ek, e, 2, "rrlist"), ("qr.ext%d.r" % ek, e, 3, "rrlist")]
    for it in items(4):
        if it[0] == "m": sites.append(("aec.ip", it, 2, "ip"))
    for it in items(5):
        if it[0] == "m": sites += [("mm.ip", it, 1, "ip"), ("mm.data", it, 3, "mmd")]
    for e in tab("sig"):
        if e[0] == "m": sites += [("sig.ip", e, 0, "ip"), ("sig.ct", e, 8, "ct"), ("sig.rdata", e, 15, "nr")]
    for e in tab("qrr"):
        if e[0] == "m": sites += [("qrr.name", e, 0, "nr"), ("qrr.ct", e, 1, "ct")]
    for e in tab("rr"):
        if e[0] == "m": sites += [("rr.name", e, 0, "nr"), ("rr.ct", e, 1, "ct"), ("rr.rdata", e, 3, "nr")]
    for e in tab("mmd"):
        if e[0] == "m": sites.append(("mmd.ip", e, 0, "ip"))
    for e in tab("qlist"):
        if e[0] == "a" and e[1]: sites.append(("qlist.elem", e, None, "qrr"))
    for e in tab("rrlist"):
        if e[0] == "a" and e[1]: sites.append(("rrlist.elem", e, None, "rr"))
    out, seen = [], set()
    for kind, cont, key, target in sites:
        if kind in seen: continue
        if key is not None and get(cont, key) is None: continue
        seen.add(kind)
        newv = ("u", tlen[target], 0)
        def rebuild(x):
            if x is cont:
                if key is None: return ("a", [newv] + list(x[1][1:]), x[2], x[3])
                return ("m", [(kk, newv if (kk[0] in ("u", "n") and ival(kk) == key) else vv) for kk, vv in x[1]], x[2], x[3])
            if x[0] == "m": return ("m", [(a, rebuild(b)) for a, b in x[1]], x[2], x[3])
            if x[0] == "a": return ("a", [rebuild(y) for y in x[1]], x[2], x[3])
            if x[0] == "tag": return ("tag", x[1], rebuild(x[2]), x[3])
            return x
        out.append((kind, encode(rebuild(t))))
    return out

def drop_member(t, rng):
    """the tree with ONE entry of its outermost map removed, nothing else changed (a structure that lacks a member: its reader must
    insist on exactly the mandatory ones)"""
    if t[0] != "m" or not t[1]: return t
    k = rng.randrange(len(t[1]))
    return ("m", t[1][:k] + t[1][k + 1:], t[2], t[3])

def mutate_tree(t, rng, p=0.06):
    """structure-aware mutation: integers replaced by boundary values (out-of-range indices, huge counts), members dropped or
    duplicated, containers switched to indefinite, wrong major types"""
    k = t[0]
    if rng.random() < p:
        r = rng.random()
        if r < 0.45: return ("u", rng.choice([0, 1, 23, 24, 255, 65535, 2 ** 31, 2 ** 32 - 1, 2 ** 32, 2 ** 63 - 1, 2 ** 63, 2 ** 64 - 1]), 8)
        if r < 0.55: return ("n", rng.choice([0, 2 ** 63 - 1, 2 ** 63, 2 ** 64 - 1]), 8)
        if r < 0.65: return ("b", bytes(rng.getrandbits(8) for _ in range(rng.choice([0, 1, 3, 5, 20]))), None, 0)
        if r < 0.72: return ("t", b"x" * rng.choice([0, 3]), None, 0)
        if r < 0.80: return ("a", [], rng.random() < 0.5, 0)
        if r < 0.88: return ("m", [], rng.random() < 0.5, 0)
        if r < 0.94: return ("tag", rng.choice([0, 1, 2 ** 40]), t, 0)
        return ("s", rng.choice([20, 21, 22, 23]), 0)
    if k == "a":
        items = [mutate_tree(x, rng, p) for x in t[1]]
        if items and rng.random() < p: items = items[:rng.randrange(len(items))] if rng.random() < 0.5 else items + [items[-1]]
        return ("a", items, t[2] if rng.random() > p else not t[2], t[3])
    if k == "m":
        ents = [(mutate_tree(a, rng, p / 2), mutate_tree(b, rng, p)) for a, b in t[1]]
        if ents and rng.random() < p: ents = ents[:rng.randrange(len(ents))] if rng.random() < 0.5 else ents + [ents[rng.randrange(len(ents))]]
        return ("m", ents, t[2] if rng.random() > p else not t[2], t[3])
    if k == "tag": return ("tag", t[1], mutate_tree(t[2], rng, p), t[3])
    return t


def single_int_mutants(t, values, rng=None, limit=None):
    """every encoding that differs from t in exactly ONE unsigned integer that is a value (not a map key): that integer replaced by each of
    `values` ("boundary integers in every numeric field", one field at a time, the rest of the file intact). Yields (path, value, bytes);
    with `limit`, a random subset of the (node, value) pairs."""
    paths = []
    def walk(n, path):
        k = n[0]
        if k == "u": paths.append(path)
        elif k == "a":
            for i, x in enumerate(n[1]): walk(x, path + (i,))
        elif k == "m":
            for i, (a, b) in enumerate(n[1]): walk(b, path + (i,))
        elif k == "tag": walk(n[2], path + (0,))
    walk(t, ())
    def put(n, path, v):
        if not path: return ("u", v, 8)
        k, i = n[0], path[0]
        if k == "a": return ("a", n[1][:i] + [put(n[1][i], path[1:], v)] + n[1][i + 1:], n[2], n[3])
        if k == "m": return ("m", n[1][:i] + [(n[1][i][0], put(n[1][i][1], path[1:], v))] + n[1][i + 1:], n[2], n[3])
        if k == "tag": return ("tag", n[1], put(n[2], path[1:], v), n[3])
        return n
    pairs = [(p, v) for p in paths for v in values]
    if limit is not None and rng is not None and len(pairs) > limit: pairs = rng.sample(pairs, limit)
    for p, v in pairs:
        yield p, v, encode(put(t, p, v))
