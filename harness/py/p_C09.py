# C09 — file preamble and block parameters survive write -> read unchanged.
import common, schema, refcbor
THEOREMS = ["C09_descriptors_ok", "C09_roundtrip", "C09_roundtrip_any", "C09_roundtrip_phys", "C09_nonvacuous"]
EXTRA_PROPERTY_FILES = ("Properties_format",)   # obligations over the regenerated Gen_format.v (translator/format.py)
STRUCTS = ["FilePreamble", "BlockParameters", "StorageParameters", "StorageHints", "CollectionParameters"]

def make_cases(sch, tier, rng):
    cases = []
    n = 400 if tier == "quick" else 20000
    for i in range(n):
        nm = "FilePreamble" if i % 2 == 0 else rng.choice(STRUCTS)
        t = sch[nm]
        mode = i % 10
        v = schema.gen_val(t, rng, small=(mode != 3), empty_bias=0.3 if mode in (1, 2) else 0.1)
        txt = schema.show(t, v)
        canon = schema.enc(t, v)
        script = ["S wr %s %s" % (nm, txt)]
        expect = ["r %d" % len(canon), "out " + (canon.hex() or "-"), "val " + txt, "rest -"]
        # and the library reading an independently produced encoding of the same value (plus trailing bytes left alone)
        script.append("S r %s %s" % (nm, (canon + b"\x00").hex()))
        expect += ["val " + txt, "rest 00"]
        cases.append({"id": "p%d" % i, "script": script, "expect": expect,
                      "what": "%s written and read back member for member" % nm, "meta": {"kind": nm}})
    # an object that has been read into before: read() starts from the reset state, the second result must not depend on the first
    import p_C08
    for i in range(150 if tier == "quick" else 6000):
        nm = p_C08.NAMES[i % len(p_C08.NAMES)]; t = sch[nm]
        v1 = schema.gen_val(t, rng, small=True, empty_bias=0.05); v2 = schema.gen_val(t, rng, small=True, empty_bias=0.5)
        cases.append({"id": "q%d" % i, "script": ["S rr %s %s %s" % (nm, schema.enc(t, v1).hex() or "-", schema.enc(t, v2).hex() or "-")],
                      "expect": ["val " + schema.show(t, v2), "rest -"],
                      "what": "%s read into an object that held another value before" % nm, "meta": {"kind": "reread/" + nm}})
    return cases

def to_script(c): return common.case_script(c)

def run(ctx):
    rep, tier, rng = ctx["report"], ctx["tier"], ctx["rng"]
    sch = schema.load(ctx["mdl"])
    cases = make_cases(sch, tier, rng)
    diffs, fails = common.run_expect(ctx, cases, batch=50)
    common.summarize_cov(rep, cases,
        "random FilePreamble / BlockParameters / StorageParameters / StorageHints / CollectionParameters values from the descriptor-driven "
        "generator: versions 0..255, private version present/absent, 1..n parameter sets, every optional subset (biased runs with almost all "
        "members absent: present-but-empty CollectionParameters), boundary integers of each declared width, opcode / RR-type lists incl. "
        "unassigned values, empty and long strings.  Each value is written by the library, the bytes compared with an independent Python "
        "encoder, read back by the library and compared member for member; then the library reads the Python encoding followed by a "
        "trailing byte; and each of the 19 structures read into an object that already holds another value (read() must start from the reset state: "
        "a member absent the second time must not keep its first value).  distinct = distinct scripts", diffs, fails)
    return {"diffs": diffs, "fails": fails, "to_script": to_script}
