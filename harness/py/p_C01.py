# C01 — export -> file -> read returns exactly the records that were buffered (library reader and independent reader).
import common, schema, histgen, p_hist
THEOREMS = ["C01_block_bytes_roundtrip", "C01_records_kept", "C01_index_denotes", "C01_statistics", "C01_aec_totals", "C01_decode_inverts_build",
            "C01_decode_inverts_build_mm", "C01_decode_aec_key", "C01_block_reads_back", "C01_view_is_log", "C01_end_to_end", "C01_hypotheses_decidable",
            "C01_end_to_end_nonvacuous", "C01_log_aec_one_pass", "C01_nonvacuous", "C01_ancount_narrowing_is_identity"]
EXTRA_PROPERTY_FILES = ("Properties_format", "Properties_encoder", "Properties_builder")   # obligations over the regenerated Gen_format.v / Gen_encoder.v (translator/format.py, encoder.py)
def gen_cases(sch, tier, rng):
    cases = []
    n = 150 if tier == "quick" else 5000
    for i in range(n):
        h = histgen.gen_history(sch, rng, nops=rng.choice([5, 15, 40, 120]), rotations=(i % 4 == 0))
        cases.append(p_hist.mk_case(sch, "h%d" % i, h, "random"))
    # files crossing the decoder window (65535 bytes) and blocks crossing many encoder flushes: long names / payloads
    for i in range(4 if tier == "quick" else 60):
        h = histgen.gen_history(sch, rng, nops=60, rotations=False, maxi=rng.choice([3, 7, 10000]))
        for o in h["ops"]:
            if o[0] == "qr" and o[2][23] is not None: o[2][23] = bytes([i + 1]) * rng.choice([3000, 70000])
            if o[0] == "mm" and o[2][6] is not None: o[2][6] = bytes([i + 2]) * rng.choice([2048, 2049, 5000])
        cases.append(p_hist.mk_case(sch, "big%d" % i, h, "multi-window"))
    # records with exactly ONE member present - one for each of the 39 query/response members and the 7 malformed-message members (a record is
    # stored iff some enabled member is present: each member alone must be enough) - under all hints and under random masks
    for rep in range(2 if tier == "quick" else 30):
        full = (histgen.ALL_QR_BITS, histgen.ALL_SIG_BITS, 3, 3)
        pre = [1, 0, None, [histgen.gen_bp(sch, rng, masks=full if rep % 2 == 0 else None, tps=1000, maxi=10000)]]
        ops = []
        for i in range(39):
            g = histgen.gen_gqr(rng, 1000, 5, full=True)
            ops.append(("qr", None, [x if j == i else None for j, x in enumerate(g)]))
        for i in range(7):
            g = histgen.gen_gmm(rng, 1000, 5, full=True)
            ops.append(("mm", None, [x if j == i else None for j, x in enumerate(g)]))
        ops.append(("wb",))
        cases.append(p_hist.mk_case(sch, "one%d" % rep, {"pre": pre, "ops": ops}, "single-member"))
    return cases
def run(ctx):
    sch = schema.load(ctx["mdl"])
    cases = gen_cases(sch, ctx["tier"], ctx["rng"])
    diffs, cases = p_hist.run_histories(ctx, cases, batch=6)
    prem = p_hist.theorem_check(ctx, cases, "C01")
    ctx["report"].cov["end_to_end_theorem_premises"] = prem
    return p_hist.finish(ctx, "C01", cases, diffs,
        "random exporter histories: 1-3 parameter sets with random / default / single-bit-cleared hint masks, tick rates 1..10^9, "
        "max_block_items 0..10000, records with every optional-member subset, boundary integers of each width, byte strings incl. NUL, "
        "repeated and distinct table values, RR lists, statistics; plus files of several decoder windows with 70000-byte names, plus records with exactly one member present (each of the 39 + 7 members alone). Each output is "
        "read by an independent Python RFC 8949/8618 reader and by the library's reader; both must return the submitted records after hint "
        "filtering, in order, AEC totals per key, statistics most recently supplied; and the records the library's reader returns must equal "
        "log_qr / log_mm, the right-hand side of C01_end_to_end evaluated by the extracted model, on every history satisfying the theorem's hypotheses "
        "(admb, typed_xb evaluated by the model too)", related=("C17", "C09", "C05"))
