# C04 — storage hints are honoured.
import common, schema, histgen, p_hist
THEOREMS = ["C04_absent", "C04_no_insert_sections", "C04_no_insert_member", "C04_other_aec", "C04_other_mm", "C04_preamble", "C04_never_returned", "C04_rr_hints", "C04_log_respects_hints", "C04_every_entry_reachable", "C04_reachable_nonvacuous", "C04_nonvacuous"]
EXTRA_PROPERTY_FILES = ("Properties_format",)   # obligations over the regenerated Gen_format.v (translator/format.py)
def gen_cases(sch, tier, rng):
    cases = []
    A, S = histgen.ALL_QR_BITS, histgen.ALL_SIG_BITS
    masks = [(A, S, 3, 3), (0, 0, 0, 0), (0, S, 3, 3), (A, 0, 3, 3)]
    for b in range(18): masks += [(A & ~(1 << b), S, 3, 3), (1 << b, S, 3, 3)]
    for b in range(17): masks += [(A, S & ~(1 << b), 3, 3), (A, 1 << b, 3, 3)]
    for r in range(4):
        for o in range(4): masks.append((A, S, r, o))
    n = 0
    for m in masks:
        for rep in range(1 if tier == "quick" else 6):
            pre = [1, 0, None, [histgen.gen_bp(sch, rng, masks=m, tps=1000, maxi=rng.choice([2, 10000]))]]
            ops = [("qr", None, histgen.gen_gqr(rng, 1000, 5, full=True)), ("mm", None, histgen.gen_gmm(rng, 1000, 5, full=True)),
                   ("aec", None, histgen.gen_gaec(rng)), ("qr", None, histgen.gen_gqr(rng, 1000, 5)), ("aec", None, histgen.gen_gaec(rng))]
            cases.append(p_hist.mk_case(sch, "m%d" % n, {"pre": pre, "ops": ops}, "single-bit")); n += 1
    # the documented way to change the hints in force: set_active_block_parameters(i); write_block() - issued on a fresh exporter, in
    # the middle of a block, right after an automatic flush, right after an explicit write_block() and right after an exporting rotation
    full = (A, S, 3, 3)
    for k, m in enumerate(masks):
        for pos in (range(5) if tier != "quick" else [k % 5]):
            pre = [1, 0, None, [histgen.gen_bp(sch, rng, masks=full, tps=1000, maxi=2), histgen.gen_bp(sch, rng, masks=m, tps=1000, maxi=2)]]
            q = lambda: ("qr", None, histgen.gen_gqr(rng, 1000, 5, full=True))
            lead = [[], [q()], [q(), q()], [q(), ("wb",)], [q(), ("rot", True)]][pos]
            ops = lead + [("setbp", 1), ("wb",), q(), ("mm", None, histgen.gen_gmm(rng, 1000, 5, full=True)), ("aec", None, histgen.gen_gaec(rng)), q()]
            cases.append(p_hist.mk_case(sch, "s%d" % n, {"pre": pre, "ops": ops}, "switch-p%d" % pos)); n += 1
    for i in range(150 if tier == "quick" else 5000):
        h = histgen.gen_history(sch, rng, nops=rng.choice([5, 15, 30]))
        cases.append(p_hist.mk_case(sch, "r%d" % i, h, "random-masks"))
    return cases
def run(ctx):
    sch = schema.load(ctx["mdl"])
    cases = gen_cases(sch, ctx["tier"], ctx["rng"])
    diffs, cases = p_hist.run_histories(ctx, cases, batch=20)
    return p_hist.finish(ctx, "C04", cases, diffs,
        "records with every member present x {all hints, none, each of the 18 query/response bits alone cleared and alone set, each of the 17 "
        "signature bits alone cleared and alone set, the 4 RR-hint and 4 other-data settings} plus the same masks as a SECOND parameter set switched to (set_active_block_parameters + write_block) on a fresh exporter / mid-block / "
        "right after an automatic flush / after an explicit write_block / after an exporting rotation, plus random masks over random histories. "
        "Independent parse of every output: members present per item vs the mask in force, every entry of every block table referenced by a "
        "stored item, address events / malformed messages only with their bit, the preamble states the masks applied", related=())
