# C04 — storage hints are honoured.
import common, schema, histgen, p_hist
THEOREMS = ["C04_absent", "C04_no_insert_sections", "C04_no_insert_member", "C04_other_aec", "C04_other_mm", "C04_other_direct", "C04_preamble", "C04_never_returned", "C04_rr_hints", "C04_log_respects_hints", "C04_every_entry_reachable", "C04_reachable_nonvacuous", "C04_nonvacuous"]
EXTRA_PROPERTY_FILES = ("Properties_format", "Properties_builder")   # obligations over the regenerated Gen_format.v (translator/format.py)
def gen_cases(sch, tier, rng):
    cases = []
    A, S = histgen.ALL_QR_BITS, histgen.ALL_SIG_BITS
    masks = [(A, S, 3, 3), (0, 0, 0, 0), (0, S, 3, 3), (A, 0, 3, 3)]
    for b in range(18): masks += [(A & ~(1 << b), S, 3, 3), (1 << b, S, 3, 3)]
    for b in range(17): masks += [(A, S & ~(1 << b), 3, 3), (A, 1 << b, 3, 3)]
    for r in range(4):
        for o in range(4): masks.append((A, S, r, o))
    n = 0
    for m in masks:
        for rep in range(1 if tier == "quick" else 6):
            pre = [1, 0, None, [histgen.gen_bp(sch, rng, masks=m, tps=1000, maxi=rng.choice([2, 10000]))]]
            ops = [("qr", None, histgen.gen_gqr(rng, 1000, 5, full=True)), ("mm", None, histgen.gen_gmm(rng, 1000, 5, full=True)),
                   ("aec", None, histgen.gen_gaec(rng)), ("qr", None, histgen.gen_gqr(rng, 1000, 5)), ("aec", None, histgen.gen_gaec(rng))]
            cases.append(p_hist.mk_case(sch, "m%d" % n, {"pre": pre, "ops": ops}, "single-bit")); n += 1
    # the documented way to change the hints in force: set_active_block_parameters(i); write_block() - issued on a fresh exporter, in
    # the middle of a block, right after an automatic flush, right after an explicit write_block() and right after an exporting rotation
    full = (A, S, 3, 3)
    for k, m in enumerate(masks):
        for pos in (range(5) if tier != "quick" else [k % 5]):
            pre = [1, 0, None, [histgen.gen_bp(sch, rng, masks=full, tps=1000, maxi=2), histgen.gen_bp(sch, rng, masks=m, tps=1000, maxi=2)]]
            q = lambda: ("qr", None, histgen.gen_gqr(rng, 1000, 5, full=True))
            lead = [[], [q()], [q(), q()], [q(), ("wb",)], [q(), ("rot", True)]][pos]
            ops = lead + [("setbp", 1), ("wb",), q(), ("mm", None, histgen.gen_gmm(rng, 1000, 5, full=True)), ("aec", None, histgen.gen_gaec(rng)), q()]
            cases.append(p_hist.mk_case(sch, "s%d" % n, {"pre": pre, "ops": ops}, "switch-p%d" % pos)); n += 1
    for i in range(150 if tier == "quick" else 5000):
        h = histgen.gen_history(sch, rng, nops=rng.choice([5, 15, 30]))
        cases.append(p_hist.mk_case(sch, "r%d" % i, h, "random-masks"))
    return cases
def gen_direct(sch, rng, i, other):
    """a block the application builds through CdnsBlock's DIRECT interface (add_malformed_message(const MalformedMessage&),
    add_address_event_count(const AddressEventCount&), table entries through add_ip_address / add_malformed_message_data) under the given
    other-data mask: 'address events and malformed messages are stored only when their hint bit is set' is a statement about the block,
    whichever of its add functions is used"""
    import p_C02
    bp = histgen.gen_bp(sch, rng, masks=(histgen.ALL_QR_BITS, histgen.ALL_SIG_BITS, 3, other), tps=1000, maxi=rng.choice([1, 3, 10000]))
    pre = [1, 0, None, [bp]]
    d = p_C02.DirectBlock()
    def ip(): v = bytes(rng.getrandbits(8) for _ in range(rng.choice([4, 16]))); return d.add("ip", v, v.hex())
    def mmd():
        v = [ip() if rng.random() < 0.6 else None, rng.choice([None, 53, 65535]), rng.choice([None, 0, 5]), rng.choice([None, b"", b"\x00\x01payload"])]
        return d.add("mmd", v, schema.show(sch["MalformedMessageData"], v))
    order = ["mm", "aec", "mm", "aec"] if i % 2 else ["aec", "mm"]
    for what in order:
        if what == "mm":
            m = [None, ip() if rng.random() < 0.7 else None, rng.choice([None, 1, 40000]), mmd() if rng.random() < 0.8 else None]
            if m[1] is None and m[2] is None and m[3] is None: m[2] = 7
            body = schema.show(sch["MalformedMessage"], m)
            d.lines.append("B mmitem b _ R[ %s %s" % ("L[ N%d N%d ]" % (rng.choice([0, 5, 1600000000]), rng.randrange(1000)) if rng.random() < 0.7 else "_", body[len("R[ _ "):]))
        else:
            d.lines.append("B aecitem b _ R[ N%d %s N%d %s N%d ]" % (rng.choice([0, 1, 5]), rng.choice(["_", "N3"]), ip(), rng.choice(["_", "N2"]), rng.choice([0, 0, 7])))
    script = ["B new b " + schema.show(sch["BlockParameters"], bp)] + d.lines + ["B dump b"]
    return {"id": "direct%d" % i, "script": script, "expect": None, "pre": pre, "other": other, "meta": {"kind": "direct-interface/other-data-mask-%d" % other}}

def check_direct(sch, c, il):
    import refcbor
    dumps = [l for l in il if l.startswith("out ")]
    if not dumps: return [("C04", "driver output incomplete: %r" % il[-3:])]
    blk = bytes.fromhex(dumps[0][4:]) if dumps[0][4:] != "-" else b""
    if not blk: return []
    wrapped = b"\x83\x65C-DNS" + schema.enc(sch["FilePreamble"], c["pre"]) + b"\x9f" + blk + b"\xff"
    try: out = histgen.read_output(sch, wrapped)
    except (refcbor.Malformed, schema.Nonconforming) as e: return [("C02", "a directly built block is not a well-formed schema-valid block: %s" % e)]
    why = []
    for b in out["blocks"]:
        if b["mms"] and not c["other"] & 1: why.append(("C04", "%d malformed message(s) stored through add_malformed_message(const MalformedMessage&) although the malformed-messages bit of the other-data hints in force (%d) is cleared" % (len(b["mms"]), c["other"])))
        if b["aec"] and not c["other"] & 2: why.append(("C04", "%d address event(s) stored through add_address_event_count(const AddressEventCount&) although the address-event bit of the other-data hints in force (%d) is cleared" % (len(b["aec"]), c["other"])))
    return why

def run(ctx):
    sch = schema.load(ctx["mdl"])
    cases = gen_cases(sch, ctx["tier"], ctx["rng"])
    diffs, cases = p_hist.run_histories(ctx, cases, batch=20)
    # the direct interface under the four other-data masks
    dcases = [gen_direct(sch, ctx["rng"], i, i % 4) for i in range(24 if ctx["tier"] == "quick" else 800)]
    impl, model, _ = common.run_both([(c["id"], c["script"]) for c in dcases], ctx["impl"]["drv"], ctx["mdl"], batch=20)
    for c in dcases:
        il, ml = impl.get(c["id"], ["<missing>"]), model.get(c["id"], ["<missing>"])
        c["oracle"] = check_direct(sch, c, il)
        if any(l.startswith("CRASH") for l in il): c["oracle"].append(("CRASH", "the implementation crashed on a directly built block: " + [l for l in il if l.startswith("CRASH")][0][:200]))
        a, b = histgen.canon_lines(il), histgen.canon_lines(ml)
        if a != b:
            k = next((j for j in range(min(len(a), len(b))) if a[j] != b[j]), min(len(a), len(b)))
            diffs.append((c["id"], c, "result %d (%s): impl %s vs model %s" % (k, (c["script"][k] if k < len(c["script"]) else "?")[:50], (a[k] if k < len(a) else "<none>")[:100], (b[k] if k < len(b) else "<none>")[:100])))
    cases = cases + dcases
    return p_hist.finish(ctx, "C04", cases, diffs,
        "records with every member present x {all hints, none, each of the 18 query/response bits alone cleared and alone set, each of the 17 "
        "signature bits alone cleared and alone set, the 4 RR-hint and 4 other-data settings} plus the same masks as a SECOND parameter set switched to (set_active_block_parameters + write_block) on a fresh exporter / mid-block / "
        "right after an automatic flush / after an explicit write_block / after an exporting rotation, plus random masks over random histories. "
        "Independent parse of every output: members present per item vs the mask in force, every entry of every block table referenced by a "
        "stored item, address events / malformed messages only with their bit, the preamble states the masks applied; plus blocks built through "
        "CdnsBlock's direct interface (add_malformed_message(const MalformedMessage&), add_address_event_count(const AddressEventCount&)) under each of "
        "the four other-data masks: the serialised block holds malformed messages / address events only with their bit", related=())
