# cborgen.py — grammar-driven generator of RFC 8949 encodings with ground truth (independent of the Coq model and of
# the C++): every head width (non-preferred ones too), definite / indefinite containers, chunked strings, tags,
# simple values and floats, nesting.  An item is a dict {k: kind, b: encoding bytes, v: RFC value, n: member count}.
import struct

WIDTHS = [0, 1, 2, 4, 8]
def head(major, v, w=None):
    """head of width w (bytes after the initial byte; None = shortest)"""
    mt = major << 5
    if w is None:
        w = 0 if v < 24 else 1 if v < 256 else 2 if v < 65536 else 4 if v < 2 ** 32 else 8
    if w == 0:
        assert v < 24
        return bytes([mt | v])
    assert v < 256 ** w
    return bytes([mt | {1: 24, 2: 25, 4: 26, 8: 27}[w]]) + v.to_bytes(w, "big")

def widths_for(v):
    return [w for w in WIDTHS if (v < 24 if w == 0 else v < 256 ** w)]

BOUND_VALUES = [0, 1, 23, 24, 255, 256, 65535, 65536, 2 ** 32 - 1, 2 ** 32, 2 ** 63 - 1, 2 ** 63, 2 ** 64 - 1]

def rand_uint(rng, limit=2 ** 64):
    if rng.random() < 0.4:
        return rng.choice([v for v in BOUND_VALUES if v < limit])
    return rng.randrange(min(limit, 2 ** rng.randrange(1, 65)))

def rand_bytes(rng, n):
    return bytes(rng.getrandbits(8) for _ in range(n)) if n < 4096 else (bytes(rng.getrandbits(8) for _ in range(64)) * (n // 64 + 1))[:n]

def gen_uint(rng, limit=2 ** 64):
    v = rand_uint(rng, limit); w = rng.choice(widths_for(v))
    return {"k": "u", "b": head(0, v, w), "v": v}
def gen_nint(rng, limit=2 ** 63):
    v = rand_uint(rng, limit); w = rng.choice(widths_for(v))
    return {"k": "n", "b": head(1, v, w), "v": -1 - v}
def gen_bool(rng):
    t = rng.random() < 0.5
    return {"k": "bool", "b": b"\xf5" if t else b"\xf4", "v": t}
def gen_str(rng, text=None, maxlen=300):
    text = rng.random() < 0.5 if text is None else text
    major = 3 if text else 2
    if rng.random() < 0.4:
        chunks, enc = [], bytes([(major << 5) | 31])
        for _ in range(rng.choice([0, 1, 1, 2, 3, 7])):
            c = rand_bytes(rng, rng.choice([0, 1, 5, 23, 24, 100, rng.randrange(0, maxlen + 1)]))
            chunks.append(c); enc += head(major, len(c), rng.choice(widths_for(len(c)))) + c
        enc += b"\xff"
        return {"k": "ts" if text else "bs", "b": enc, "v": b"".join(chunks), "chunked": True}
    n = rng.choice([0, 1, 23, 24, 255, 256, rng.randrange(0, maxlen + 1)])
    n = min(n, maxlen)
    s = rand_bytes(rng, n)
    return {"k": "ts" if text else "bs", "b": head(major, n, rng.choice(widths_for(n))) + s, "v": s, "chunked": False}
def gen_seven(rng):
    r = rng.random()
    if r < 0.3:
        v = rng.choice([0, 19, 20, 21, 22, 23]); return {"k": "simple", "b": bytes([0xe0 | v]), "v": v}
    if r < 0.4:
        v = rng.randrange(32, 256); return {"k": "simple", "b": bytes([0xf8, v]), "v": v}
    w = rng.choice([2, 4, 8])
    return {"k": "float", "b": bytes([0xe0 | {2: 25, 4: 26, 8: 27}[w]]) + rand_bytes(rng, w), "v": None}
def gen_container(rng, depth, is_map=None):
    is_map = rng.random() < 0.5 if is_map is None else is_map
    major = 5 if is_map else 4
    n = rng.choice([0, 1, 2, 3, 5]) if depth > 0 else 0
    members = []
    for _ in range(n * (2 if is_map else 1)):
        members.append(gen_item(rng, depth - 1))
    body = b"".join(m["b"] for m in members)
    if rng.random() < 0.45:
        enc = bytes([(major << 5) | 31]) + body + b"\xff"; indef = True
    else:
        enc = head(major, n, rng.choice(widths_for(n))) + body; indef = False
    return {"k": "map" if is_map else "arr", "b": enc, "v": None, "n": n, "indef": indef, "members": members}
def gen_tag(rng, depth):
    t = rand_uint(rng); x = gen_item(rng, depth - 1)
    return {"k": "tag", "b": head(6, t, rng.choice(widths_for(t))) + x["b"], "v": None, "inner": x}

def gen_item(rng, depth=3):
    r = rng.random()
    if depth <= 0: r *= 0.7
    if r < 0.18: return gen_uint(rng)
    if r < 0.32: return gen_nint(rng, 2 ** 64)
    if r < 0.38: return gen_bool(rng)
    if r < 0.58: return gen_str(rng)
    if r < 0.70: return gen_seven(rng)
    if r < 0.90: return gen_container(rng, depth)
    return gen_tag(rng, depth)

def nest(depth, kind, inner=b"\x00"):
    """deeply nested item: kind in arr1 (0x81), iarr (0x9f..ff), tag (0xc1), map1 (0xa1 00 ..)"""
    if kind == "arr1": return b"\x81" * depth + inner
    if kind == "iarr": return b"\x9f" * depth + inner + b"\xff" * depth
    if kind == "tag": return b"\xc1" * depth + inner
    if kind == "map1": return b"\xa1\x00" * depth + inner
    raise ValueError(kind)

def fnv64(s):
    h = 0xcbf29ce484222325
    for c in s:
        h = ((h ^ c) * 0x100000001b3) & 0xffffffffffffffff
    return h
def summarize(s):
    """the drivers' rendering of a byte string"""
    if len(s) == 0: return "-"
    if len(s) <= 64: return s.hex()
    return "L%d:%s..%s#%016x" % (len(s), s[:16].hex(), s[-16:].hex(), fnv64(s))

def read_cmds(item):
    """commands that read this item through its matching read operation and the expected result lines"""
    k = item["k"]
    if k == "u": return [("D u", "v %d" % item["v"])]
    if k == "n":
        if item["v"] >= -2 ** 63: return [("D n", "z %d" % item["v"])] if len(item["b"]) % 2 else [("D i", "z %d" % item["v"])]
        return [("D sk", "ok")]
    if k == "bool": return [("D b", "b %d" % (1 if item["v"] else 0))]
    if k == "bs": return [("D bs", "s " + summarize(item["v"]))]
    if k == "ts": return [("D ts", "s " + summarize(item["v"]))]
    if k in ("arr", "map"):
        out = [("D as" if k == "arr" else "D ms", "st %d %d" % (0 if item["indef"] else item["n"], 1 if item["indef"] else 0))]
        for m in item["members"]: out.append(("D sk", "ok"))
        if item["indef"]: out.append(("D br", "ok"))
        return out
    return [("D sk", "ok")]
