# C19 — blocks have value semantics: a copy is complete and independent of its source.
import common, schema, histgen, random
THEOREMS = ["C19_find_refines", "C19_own_refs", "C19_value_copy", "C19_destroy_other", "C19_copy_independent", "C19_any_history", "C19_histories_from_nothing", "C19_history_nonvacuous", "C19_shallow_copy_refuted", "C19_nonvacuous"]
EXTRA_PROPERTY_FILES = ("Properties_hash", "Properties_tables")   # obligations over the regenerated Gen_hash.v (translator/hashes.py)

def dup_tables(data, rng):
    """the same file with one entry of the ip / classtype / name_rdata table of every block repeated at the end of the table (legal
    content: the reader accepts it; every stored index still denotes the same value)"""
    import refcbor
    t = refcbor.parse_all(data)
    n = 0
    probes = []          # (block number, table command, value text) of every repeated entry
    for bi, b in enumerate(t[1][2][1]):
        for kk, vv in b[1]:
            if kk[0] == "u" and kk[1] == 2 and vv[0] == "m":
                for tk, tv in vv[1]:
                    if tk[0] == "u" and tk[1] in (0, 1, 2) and tv[0] == "a" and tv[1]:
                        picks = [tv[1][rng.randrange(len(tv[1]))]] + ([tv[1][0]] if rng.random() < 0.3 else [])
                        for e in picks:
                            tv[1].append(e); n += 1
                            if tk[1] in (0, 2) and e[0] == "b": probes.append((bi, "ip" if tk[1] == 0 else "nr", e[1].hex() or "-"))
                            elif tk[1] == 1 and e[0] == "m":
                                d = dict((refcbor.ival(a), refcbor.ival(c)) for a, c in e[1])
                                probes.append((bi, "ct", "R[ N%d N%d ]" % (d.get(0, 0), d.get(1, 0))))
    return (refcbor.encode(t), probes) if n else None

def gen_scenario(sch, rng, with_file, dup_file=None):
    """returns (ops, flat_ops): ops use copy/move/assign; flat_ops rebuild every copied block from scratch by replaying the
    commands that produced its content.  Observable commands are preceded by 'M <k>' in both."""
    bp = histgen.gen_bp(sch, rng, masks=(histgen.ALL_QR_BITS, histgen.ALL_SIG_BITS, 3, 3), tps=1000, maxi=10000)
    bptxt = schema.show(sch["BlockParameters"], bp)
    ops, flat = [], []
    hist = {}          # block name -> list of content-building command suffixes (without the name), or None when destroyed
    kindr = {}
    mark = [0]
    nblocks = [0]
    file_aecs = []
    pre = []
    if with_file:
        h = histgen.gen_history(sch, rng, nops=rng.choice([6, 15]), rotations=False, maxi=rng.choice([2, 3, 10000]), nsets=1,
                                masks=(histgen.ALL_QR_BITS, histgen.ALL_SIG_BITS, 3, 3))
        h["ops"] = [o for o in h["ops"] if o[0] in ("qr", "aec", "mm", "wb")]
        file_aecs.extend(o[2] for o in h["ops"] if o[0] == "aec")
        pre = histgen.to_script(sch, h, read_back=False)
        spx, _ = histgen.simulate(h)
        nblocks[0] = len(spx.outputs[0]["blocks"])
        if nblocks[0] == 0: with_file = False
    fileno = 0
    if with_file and dup_file is not None:
        # the crafted file (tables with repeated entries) is registered as output 1 and the blocks are read from it
        pre = dup_file["pre"] + ["X addout " + dup_file["data"].hex()]; nblocks[0] = dup_file["nblocks"]; file_aecs[:] = dup_file["aecs"]; fileno = 1
    names = ["a", "b", "c", "d"]
    def both(cmd): ops.append(cmd); flat.append(cmd)
    def observe(cmd):
        mark[0] += 1; both("M %d" % mark[0]); both(cmd); both("M end")
    def content(n):
        r = rng.random()
        if r < 0.3: c = ("qr", "%s %s" % (schema.show(histgen.STATS, histgen.gen_stats(rng)), schema.show(histgen.GQR, histgen.gen_gqr(rng, 1000, 5))))
        elif r < 0.4:
            a = rng.choice(file_aecs) if file_aecs and rng.random() < 0.7 else histgen.gen_gaec(rng)
            c = ("aec", "_ " + schema.show(histgen.GAEC, a))
        elif r < 0.55: c = ("mm", "_ " + schema.show(histgen.GMM, histgen.gen_gmm(rng, 1000, 5)))
        elif r < 0.75: c = ("nr", rng.choice(histgen.NAMES + [b"new-%d" % rng.randrange(50)]).hex())
        elif r < 0.85: c = ("ip", rng.choice(histgen.IPS).hex())
        elif r < 0.93: c = ("ct", "R[ N%d N%d ]" % tuple(rng.choice(histgen.CTS)))
        else: c = ("mmd", schema.show(sch["MalformedMessageData"], [rng.choice([None, 0]), rng.choice([None, 53]), None, rng.choice([None, b"hello", b""])]))
        return c
    def live(): return [n for n in names if hist.get(n) is not None]
    def start(n):
        if with_file and rng.random() < 0.5:
            cmd = "fromfile %s %d %d" % (n, fileno, rng.randrange(0, nblocks[0]))
            both("B " + cmd.replace("fromfile %s" % n, "fromfile %s" % n)); hist[n] = [("fromfile", cmd.split(" ", 2)[2])]; kindr[n] = True
        else:
            k = "rnew" if rng.random() < 0.3 else "new"
            both("B %s %s %s" % (k, n, bptxt)); hist[n] = [(k, bptxt)]; kindr[n] = (k == "rnew")
    start("a")
    for _ in range(rng.choice([8, 20, 40])):
        lv = live()
        r = rng.random()
        if not lv or (r < 0.08 and len(lv) < 3):
            free = [n for n in names if hist.get(n) is None]
            if free: start(rng.choice(free))
            continue
        n = rng.choice(lv)
        if r < 0.55:
            c = content(n); observe("B %s %s %s" % (c[0], n, c[1])); hist[n].append(c)
        elif r < 0.72:
            dst = rng.choice(names); kindop = rng.choice(["copy", "move", "assign", "massign"])
            if dst == n: continue
            if kindop in ("assign", "massign"):
                if hist.get(dst) is None or (kindr[dst] and not kindr[n]): continue
            ops.append("B %s %s %s" % (kindop, dst, n))
            # rebuilt from scratch in the flattened scenario
            if kindop in ("copy", "move") or True:
                first = hist[n][0]
                if kindop in ("copy", "move"): kindr[dst] = kindr[n]
                if first[0] == "fromfile": flat.append("B fromfile %s %s" % (dst, first[1]))
                else: flat.append("B %s %s %s" % ("rnew" if kindr[dst] else "new", dst, first[1]))
                for c in hist[n][1:]:
                    flat.append("B %s %s %s" % (c[0], dst, c[1]))
            hist[dst] = list(hist[n])
        elif r < 0.80:
            both("B destroy %s" % n); hist[n] = None
        elif r < 0.85:
            if hist[n][0][0] == "fromfile": continue
            both("B clear %s" % n); hist[n] = [hist[n][0]]
        elif r < 0.95: observe("B dump %s" % n)
        elif kindr[n]: observe("B gen %s" % n)
    for n in live(): observe("B dump %s" % n)
    return pre + ops, pre + flat

def dup_aec_key(lines):
    """a block built through add_* never holds the same address event twice; a block that came from the reader must behave
    the same when more events are added to it"""
    import refcbor
    for l in lines:
        if not l.startswith("out ") or len(l) < 8: continue
        try: t = refcbor.parse_all(bytes.fromhex(l[4:]))
        except Exception: continue
        if t[0] != "m": continue
        for kk, vv in t[1]:
            if kk[0] == "u" and kk[1] == 4 and vv[0] == "a":
                seen = set()
                for a in vv[1]:
                    key = tuple(sorted((refcbor.ival(x), refcbor.dump(y)) for x, y in a[1] if refcbor.ival(x) != 4))
                    if key in seen: return "a block read from a file and then extended holds the same address event twice (it does not aggregate like a freshly built block): %r" % (key,)
                    seen.add(key)
    return None

def observed(lines):
    res, cur = {}, None
    for l in lines:
        if l == "mark end": cur = None
        elif l.startswith("mark "): cur = l[5:]; res[cur] = []
        elif cur is not None: res[cur].append(l)
    return res

def run(ctx):
    rep, tier, rng = ctx["report"], ctx["tier"], ctx["rng"]
    sch = schema.load(ctx["mdl"])
    cases = []
    for i in range(250 if tier == "quick" else 8000):
        ops, flat = gen_scenario(sch, rng, with_file=(i % 3 == 0))
        cases.append({"id": "s%d" % i, "script": ops, "flat": flat, "expect": None, "meta": {"kind": "file" if i % 3 == 0 else "built"}})
    # blocks read from files whose tables hold the same entry twice: copies must resolve look-ups like the block the reader returned
    # (implementation + rebuilt-block oracle only: the value-level table model of Block.v describes de-duplicated tables)
    dups = []
    for i in range(12 if tier == "quick" else 300):
        h = histgen.gen_history(sch, rng, nops=rng.choice([8, 15]), rotations=False, maxi=rng.choice([2, 3, 10000]), nsets=1,
                                masks=(histgen.ALL_QR_BITS, histgen.ALL_SIG_BITS, 3, 3))
        h["ops"] = [o for o in h["ops"] if o[0] in ("qr", "aec", "mm", "wb")]
        pre = histgen.to_script(sch, h, read_back=False)
        r0, _, _ = common.run_both([("p", pre)], ctx["impl"]["drv"], ctx["mdl"], batch=1, impl_only=True)
        outs = [l for l in r0.get("p", []) if l.startswith("out ") and l[4:] != "-"]
        if not outs: continue
        dt = dup_tables(bytes.fromhex(outs[-1][4:]), rng)
        if dt is None: continue
        data, probes = dt
        spx, _ = histgen.simulate(h)
        nb = len(spx.outputs[0]["blocks"])
        if nb == 0: continue
        dups.append({"pre": pre, "data": data, "nblocks": nb, "aecs": [o[2] for o in h["ops"] if o[0] == "aec"], "probes": probes})
    for i, d in enumerate(dups):
        # targeted: every copy route from a block the reader returned, then a look-up (de-duplicating add) of every repeated value
        for j in sorted(set(p[0] for p in d["probes"])):
            if j >= d["nblocks"]: continue
            head = d["pre"] + ["X addout " + d["data"].hex()]
            ops = head + ["B fromfile0 a 1 %d" % j, "B copy b a", "B fromfile0 s 1 %d" % j, "B move c s", "B fromfile0 d 1 %d" % (d["nblocks"] - 1), "B assign d a",
                          "B fromfile0 e 1 %d" % (d["nblocks"] - 1), "B fromfile0 s2 1 %d" % j, "B massign e s2", "B destroy a"]
            flat = head + ["B fromfile0 %s 1 %d" % (n, j) for n in ("b", "c", "d", "e")]     # the reference: the objects the reader returned
            k = 0
            for n in ("b", "c", "d", "e"):
                for (bj, cmd, val) in d["probes"]:
                    if bj != j: continue
                    k += 1
                    for l in (ops, flat): l += ["M %d" % k, "B %s %s %s" % (cmd, n, val), "M end"]
                k += 1
                for l in (ops, flat): l += ["M %d" % k, "B dump %s" % n, "M end"]
            cases.append({"id": "dt%d_%d" % (i, j), "script": ops, "flat": flat, "expect": None, "no_model": True, "meta": {"kind": "file-with-repeated-table-entries/targeted"}})
        for rep_ in range(3):
            ops, flat = gen_scenario(sch, rng, True, dup_file=d)
            cases.append({"id": "d%d_%d" % (i, rep_), "script": ops, "flat": flat, "expect": None, "no_model": True, "meta": {"kind": "file-with-repeated-table-entries"}})
    # targeted: the READING state of a CdnsBlockRead (its three cursors) across every copy route: a block with several address events,
    # query/responses and malformed messages read from a file, copied / moved / assigned; then the source gets further events of kinds it
    # already counts and new ones, or is cleared, or destroyed; the generic records of the copy are then read (and the other way round)
    for i in range(16 if tier == "quick" else 400):
        h = histgen.gen_history(sch, rng, nops=rng.choice([8, 15]), rotations=False, maxi=10000, nsets=1, masks=(histgen.ALL_QR_BITS, histgen.ALL_SIG_BITS, 3, 3))
        h["ops"] = [o for o in h["ops"] if o[0] in ("qr", "aec", "mm")] + [("aec", None, histgen.gen_gaec(rng)) for _ in range(3)] + [("wb",)]
        aecs = [o[2] for o in h["ops"] if o[0] == "aec"]
        pre = histgen.to_script(sch, h, read_back=False)
        route, after = ["copy", "move", "assign", "massign"][i % 4], ["more", "clear", "destroy", "more-on-copy"][(i // 4) % 4]
        if route in ("move", "massign") and after in ("more", "clear"): after = "destroy"      # a moved-from source is only destroyed
        rd = "fromfile0" if i % 2 else "fromfile"
        bpt = schema.show(sch["BlockParameters"], h["pre"][3][0])
        ops = pre + ["B %s a 0 0" % rd] + (["B rnew b " + bpt] if route in ("assign", "massign") else []) + ["B %s b a" % route]
        flat = pre + ["B %s b 0 0" % rd]
        more = ["B aec %s _ %s" % ("%s", schema.show(histgen.GAEC, a)) for a in (rng.sample(aecs, 2) + [histgen.gen_gaec(rng)])]
        if after == "more": ops += [m % "a" for m in more]
        elif after == "clear": ops += ["B clear a"]
        elif after == "destroy": ops += ["B destroy a"]
        else:
            # the copy is extended and read; the source must still read as the block in the file
            for l in (ops, flat): l += [m % "b" for m in more]
            if route in ("copy", "assign"):
                ops += ["M 9", "B gen0 a", "M end"]; flat += ["B %s a 0 0" % rd, "M 9", "B gen0 a", "M end"]
        for k, cmd in enumerate(["B gen b", "B dump b", "B gen0 b"]):     # gen0: through the object's own cursors (once)
            for l in (ops, flat): l += ["M %d" % k, cmd, "M end"]
        # (the model has no cursors: gen0 on an object extended after it was read / copied is compared with the rebuilt block only)
        cases.append({"id": "rc%d" % i, "script": ops, "flat": flat, "expect": None, "no_model": rd == "fromfile0" or after == "more-on-copy", "meta": {"kind": "reader-cursors/%s/%s" % (route, after)}})
    scripts = [(c["id"], c["script"]) for c in cases if not c.get("no_model")]
    impl, model, crashes = common.run_both(scripts, ctx["impl"]["drv"], ctx["mdl"], batch=10)
    nm = [(c["id"], c["script"]) for c in cases if c.get("no_model")]
    if nm:
        i2, _, _ = common.run_both(nm, ctx["impl"]["drv"], ctx["mdl"], batch=10, impl_only=True)
        impl.update(i2); model.update(i2)
    # the oracle: the same observable commands on blocks rebuilt from scratch (implementation only)
    flat_scripts = [(c["id"], c["flat"]) for c in cases]
    fimpl, _, _ = common.run_both(flat_scripts, ctx["impl"]["drv"], ctx["mdl"], batch=10, impl_only=True)
    diffs, fails = [], []
    for c in cases:
        il, ml = histgen.canon_lines(impl.get(c["id"], ["<missing>"])), histgen.canon_lines(model.get(c["id"], ["<missing>"]))
        fl = histgen.canon_lines(fimpl.get(c["id"], ["<missing>"]))
        crash = [l for l in il if l.startswith("CRASH")]
        why = None
        if crash: why = "operations on a copied / assigned block touch memory of its source: " + crash[0][:200]
        else:
            a, b = observed(il), observed(fl)
            for k in a:
                if a[k] != b.get(k):
                    why = "a copy does not behave like a block rebuilt with the same content: observable command %s gives %r, on the rebuilt block %r" % (k, a[k][:2], (b.get(k) or [])[:2])
                    why = why[:600]; break
        if why is None:
            why = dup_aec_key(impl.get(c["id"], []))
        if why: fails.append((c["id"], c, why, il))
        if il != ml:
            k = next((j for j in range(min(len(il), len(ml))) if il[j] != ml[j]), min(len(il), len(ml)))
            diffs.append((c["id"], c, "result %d: impl %r vs model %r" % (k, il[k][:150] if k < len(il) else None, ml[k][:150] if k < len(ml) else None)))
    common.summarize_cov(rep, cases,
        "histories over up to four blocks (CdnsBlock and CdnsBlockRead, built through add_* or obtained from the reader by the documented "
        "'block = reader.read_block(eof)' idiom): copy-construct, move-construct, copy-/move-assign, then destroy / clear / keep filling the source, "
        "add existing and new values to the copy (de-duplicating adds on single tables and whole records), serialise it, read its generic records; targeted scenarios for the reading cursors of a CdnsBlockRead (every copy route x source extended / "
        "cleared / destroyed / copy extended, then the generic records of the copy and of the source are read). "
        "Run under ASan. Oracle on the implementation alone: every observable result must equal the result of the same command on a block rebuilt "
        "from scratch with the same content; model comparison on top. distinct = distinct scripts", diffs, fails)
    return {"diffs": diffs, "fails": fails, "to_script": lambda c: common.case_script(c)}
