# C07 — the decoder accepts every well-formed encoding (any head width, any position relative to the window) and
# skip_item consumes exactly one item.
import common, cborgen
THEOREMS = ["C07_read_unsigned", "C07_read_negative", "C07_read_integer", "C07_read_bool", "C07_read_string_definite",
            "C07_read_string_chunked", "C07_container_start_definite", "C07_container_start_indefinite", "C07_read_break",
            "C07_skip", "C07_any_position", "C07_nonvacuous"]
EXTRA_PROPERTY_FILES = ("Properties_format", "Properties_decoder")   # obligations over the regenerated Gen_format.v (translator/format.py)
W = 65535

def pad_prefix(pos):
    """input prefix that one `D sk` consumes, leaving the decoder at absolute offset pos (pos = 0 or pos >= 5)"""
    if pos == 0: return None
    L = pos - 5
    return ("5a" + L.to_bytes(4, "big").hex(), L)

def make_case(cid, item, pos, kind, rng, mode):
    sentinel = rng.randrange(256, 65536)
    trailing = cborgen.rand_bytes(rng, rng.choice([0, 0, 1, 7]))
    suffix = item["b"] + b"\x19" + sentinel.to_bytes(2, "big") + trailing
    script, expect = [], []
    pp = pad_prefix(pos)
    if pp is None:
        script.append("D new %s %s" % (kind, suffix.hex() or "-")); expect.append("ok")
    else:
        script.append("D newrep %s %s 00 %d %s" % (kind, pp[0], pp[1], suffix.hex())); expect.append("ok")
        script.append("D sk"); expect.append("ok")
    cmds = [("D sk", "ok")] if mode == "skip" else cborgen.read_cmds(item)
    for c, e in cmds:
        script.append(c); expect.append(e)
    script.append("D u"); expect.append("v %d" % sentinel)
    script.append("D rest"); expect.append("rest " + cborgen.summarize(trailing))
    return {"id": cid, "script": script, "expect": expect,
            "what": "well-formed %s item at offset %d read by %s" % (item["k"], pos, mode),
            "meta": {"kind": "%s/%s" % (mode, item["k"]), "pos": pos}}

def gen_cases(tier, rng):
    cases = []
    n_items = 700 if tier == "quick" else 20000
    offsets = [0] + [W * k + d for k in (1, 2) for d in range(-16, 3)]
    i = 0
    # every head width x boundary value for integers and container starts, at offset 0 and straddling the first boundary
    for v in cborgen.BOUND_VALUES:
        for w in cborgen.widths_for(v):
            for major, k in ((0, "u"), (1, "n")):
                it = {"k": k, "b": cborgen.head(major, v, w), "v": v if major == 0 else -1 - v}
                if k == "n" and it["v"] < -2 ** 63: continue
                for pos in (0, W - len(it["b"]) + 1, W - 1, W):
                    cases.append(make_case("h%d" % i, it, pos, "ss", rng, "read")); i += 1
    for n in range(n_items):
        it = cborgen.gen_item(rng, rng.choice([0, 1, 2, 3, 4]))
        pos = rng.choice(offsets) if n % 3 else W * rng.choice([1, 2]) - rng.randrange(0, len(it["b"]) + 2)
        if 0 < pos < 5: pos = 0
        kind = "ss" if n % 7 else "fs"
        cases.append(make_case("r%d" % n, it, pos, kind, rng, "read" if n % 2 else "skip"))
    # deep nesting is skipped exactly (the work list is on the heap)
    depths = [10, 1000, 2000, 30000] if tier == "quick" else [10, 1000, 30000, 300000, 2000000]
    for d in depths:
        for kd in ("arr1", "iarr", "tag", "map1"):
            it = {"k": "deep-" + kd, "b": cborgen.nest(d, kd), "v": None}
            c = make_case("d%s%d" % (kd, d), it, 0, "ss", rng, "skip"); c["meta"]["deep"] = d
            cases.append(c)
    return cases

def to_script(c): return common.case_script(c)

def run(ctx):
    rep, tier, rng = ctx["report"], ctx["tier"], ctx["rng"]
    cases = gen_cases(tier, rng)
    deep = [c for c in cases if c["meta"].get("deep", 0) > 2000]
    shallow = [c for c in cases if c["meta"].get("deep", 0) <= 2000]
    diffs, fails = common.run_expect(ctx, shallow, batch=40, impl_env={"DRV_STACK_KB": "1024"})
    # very deep nesting: implementation against the ground truth only (the model's nested binds make it quadratic there)
    d2, f2 = common.run_expect(ctx, deep, batch=1, impl_env={"DRV_STACK_KB": "1024"}, impl_only=True)
    fails += f2
    common.summarize_cov(rep, cases,
        "grammar-driven well-formed items (all majors, every admissible head width incl. non-preferred, chunked strings, nested definite/"
        "indefinite containers, tags, simple values, floats) followed by a sentinel integer and trailing bytes, placed at offset 0 and at every "
        "offset 65535*k-16..+2 (k=1,2) and straddling the boundary, through std::istringstream and std::ifstream; each read by its matching "
        "read operation or by skip_item; plus nesting depth up to 30000 (quick) / 2*10^6 (thorough). distinct = distinct scripts; "
        "expected values come from the generator's ground truth", diffs, fails)
    return {"diffs": diffs, "fails": fails, "to_script": to_script}
