#!/bin/bash
# tools/adopt_seed.sh <property id> <check id>... : re-verify a sub-agent's seed in its scratch worktree starting from clean sources
# (seed/patch.diff applied / reverse-applied; never git stash, which is shared between worktrees): unit tests green with the change,
# demo fails with / passes without it; then copy it to seeded/<id>-<n>/ and run the given checks against it.
p=$1; shift
w=/tmp/wt_$p
n=1; while [ -d /verif/seeded/$p-$n ]; do n=$((n+1)); done
d=/verif/seeded/$p-$n
git -C $w checkout -- src || exit 2
git -C $w apply $w/seed/patch.diff || { echo "seed patch does not apply to clean sources"; exit 2; }
echo "== tests with the change"; ( cd $w && cmake --build _build 2>&1 | tail -1 && ctest --test-dir _build 2>&1 | grep "tests passed" )
mkdir -p /tmp/seedchk_$p
demo_cmd() { # the g++ command from the demo's header comment, output redirected to $1
  python3 - "$w/seed/demo.cpp" "$1" <<'PY'
import re, sys
src = open(sys.argv[1]).read()
m = re.search(r"g\+\+ (?:[^\n]*\\\n)*[^\n]*", src)
cmd = m.group(0).replace("\\\n", " ")
cmd = re.sub(r"\n\s*\*?\s*", " ", cmd)
cmd = re.sub(r"^\s*\*\s*", "", cmd)
cmd = re.sub(r"\s\*\s", " ", cmd)
cmd = re.sub(r"\*/.*$", "", cmd)
cmd = re.sub(r" -o \S+", "", cmd)
print(cmd + " -lpthread -o " + sys.argv[2])
PY
}
build() { if [ -f $w/seed/demo.cpp ]; then ( cd $w/seed && eval "$(demo_cmd $1)" 2>&1 | tail -3 ); fi; }
run_demo() { ( cd $w/seed && timeout 900 $1 > $2 2>&1; echo "rc=$?" ); }
build /tmp/seedchk_$p/demo_with; echo -n "== demo with the change: "; run_demo /tmp/seedchk_$p/demo_with /tmp/seedchk_$p/with.out
git -C $w apply -R $w/seed/patch.diff; ( cd $w && cmake --build _build 2>&1 | tail -1 )
build /tmp/seedchk_$p/demo_without; echo -n "== demo without the change: "; run_demo /tmp/seedchk_$p/demo_without /tmp/seedchk_$p/without.out
git -C $w apply $w/seed/patch.diff
mkdir -p $d; cp $w/seed/patch.diff $d/; cp $w/seed/notes.md $d/ 2>/dev/null; cp $w/seed/demo.cpp $d/ 2>/dev/null
echo "== checks"; /verif/tools/try_seed.sh $d "$@"
echo "adopted as $d"
