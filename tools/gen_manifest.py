#!/usr/bin/env python3
# gen_manifest.py — regenerates MANIFEST.json from the table below (so that it stays valid and current).
import json, os
V = os.path.dirname(os.path.dirname(os.path.abspath(__file__)))
TECH = "Coq proof over an executable model + model/code correspondence check"
NOTE = "Trusted: Coq 8.16.1 kernel, extraction (ExtrOcamlBasic), the C++/OCaml drivers, g++/sanitizers, Python oracles. Modelled, not verified: the C++ itself. "

CHECKS = {
 "C06": dict(
   text="Theorems C06_op / C06_sequence / C06_flushed (closed under the global context): for each of the 18 write operations, every argument in the operand type's range and every buffer fill level, the model of CdnsEncoder extends the output stream by exactly the RFC 8949 preferred encoding (specified independently with div/mod only) and returns its length; by induction for every call sequence. Tie: correspondence run (same call sequences through the real class under ASan/UBSan and through the extracted model, byte- and return-exact) aimed at the proof's case splits (head-size boundaries x fill levels 2048-a) + independent Python reference encoder as oracle.",
   ref="DESIGN.md 3.6", note="The output writer below flush_buffer() is covered by C13-C16."),
 "C17": dict(
   text="Theorems C17_offset_exact / C17_add_inverse / C17_compare_lt / C17_compare_le / C17_refuse / C17_rate0 / C17_no_ub / C17_block / C17_block_offsets over a model of Timestamp in Z with the code's int64 arithmetic made explicit (an overflowing signed operation is the distinguished outcome TUB): for every tick rate 1..10^9, all instants below 2^63 ticks and all int64 offsets (INT64_MIN included). C17_block is an invariant by induction over every add history of a block (timed/untimed records in any order). Tie: correspondence (same commands through the real Timestamp / CdnsBlock classes under UBSan and through the extracted model) + Python big-integer oracle.",
   ref="DESIGN.md 3.17", note="Hypothesis of the theorems: ticks_per_second <= 10^9 and instants < 2^63 ticks (the 'representable range' of the property)."),
}
NOT_APPLICABLE = {}   # property id -> reason (none: every property is meant to be decided)

def main():
    props = [json.loads(l)["id"] for l in open(os.path.join(V, "properties.jsonl"))]
    checks, na = [], []
    for p in props:
        if p in CHECKS:
            c = CHECKS[p]
            checks.append({
                "property_id": p,
                "quick_cmd": "./check %s --tier quick" % p,
                "thorough_cmd": "./check %s --tier thorough" % p,
                "evidence_file": "evidence/%s.json" % p,
                "replay_cmd_template": "./check %s --replay {path}" % p,
                "engine": "coq-model",
                "level_claimed": {"category": c.get("category", "proof"), "text": c["text"], "design_ref": c["ref"]},
                "level_note": NOTE + c.get("note", ""),
                "technique": c.get("technique", TECH),
            })
        else:
            na.append({"property_id": p, "reason": NOT_APPLICABLE.get(p, "not claimed yet: the model, theorems and correspondence for this property are still being built (the technique applies; see DESIGN.md section 3)")})
    m = {
     "version": 1,
     "setup_cmd": "./setup.sh",
     "hooks": {
      "guard": "CDNS_VERIF",
      "enable": "the checks compile /repo/src/*.cpp themselves with -DCDNS_VERIF (harness/py/common.py build_impl)",
      "baseline_off_cmd": "cmake -G Ninja -S /repo -B /repo/_build -DBUILD_TESTS=ON && cmake --build /repo/_build && ctest --test-dir /repo/_build -j8 --timeout 900",
      "source_commits": json.load(open(os.path.join(V, "tools", "hook_commits.json"))) if os.path.exists(os.path.join(V, "tools", "hook_commits.json")) else [],
      "add_only": True
     },
     "engines": [
      {"name": "coq-model", "path": "coq/", "serves_properties": sorted(CHECKS), "kind_free_text": "Coq 8.16.1 development: executable Gallina models + theorems (Properties_<id>.v), full .vo build"},
      {"name": "correspondence", "path": "harness/", "serves_properties": sorted(CHECKS), "kind_free_text": "one script language, two executors (C++ driver built from /repo's working tree, OCaml extraction of the model), exact diff + independent Python oracles for the failing-input search"}
     ],
     "checks": checks,
     "not_applicable": na,
     "notes": "see DESIGN.md; known findings and fixed defects are listed in known_findings.json"
    }
    json.dump(m, open(os.path.join(V, "MANIFEST.json"), "w"), indent=1)
    print("MANIFEST.json: %d checks, %d not claimed" % (len(checks), len(na)))
main()
