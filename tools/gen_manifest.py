#!/usr/bin/env python3
# gen_manifest.py — regenerates MANIFEST.json from the table below (so that it stays valid and current).
import json, os
V = os.path.dirname(os.path.dirname(os.path.abspath(__file__)))
TECH = "Coq proof over an executable model + model/code correspondence check"
NOTE = "Trusted: Coq 8.16.1 kernel, extraction (ExtrOcamlBasic), the C++/OCaml drivers, g++/sanitizers, Python oracles. Modelled, not verified: the C++ itself. "

CHECKS = {
 "C06": dict(
   text="Theorems C06_op / C06_sequence / C06_flushed (closed under the global context): for each of the 18 write operations, every argument in the operand type's range and every buffer fill level, the model of CdnsEncoder extends the output stream by exactly the RFC 8949 preferred encoding (specified independently with div/mod only) and returns its length; by induction for every call sequence. Tie: correspondence run (same call sequences through the real class under ASan/UBSan and through the extracted model, byte- and return-exact) aimed at the proof's case splits (head-size boundaries x fill levels 2048-a) + independent Python reference encoder as oracle.",
   ref="DESIGN.md 3.6", note="The output writer below flush_buffer() is covered by C13-C16."),
 "C05": dict(
   text="Theorems C05_refine (the physical decoder - a window of ANY size B>0 refilled from the stream, any fill level, any stream state - returns exactly what the logical byte list determines, by induction over all decoder programs), C05_init, C05_exhausted (all 11 public read operations report End once the logical input is empty: empty input, multiples of the window, unreadable stream), C05_prefix (universal prefix lemma: on a prefix of the input EVERY decoder program returns its full-input result or End, nothing else), C05_suffix. Tie: correspondence on inputs of 0/1/2/65534..65536/131069..131071/196605 bytes x istringstream/ifstream/unopened x every operation, and truncation sweeps of 1-2-window item streams at window multiples, item ends and random cuts; ground-truth oracle from the generator.",
   ref="DESIGN.md 3.5", note="The block-level corollary (a truncated C-DNS file yields exactly its complete blocks) is checked by the file-level truncation sweep of C01's reader model when claimed; here it follows from C05_prefix for any reader written in the decoder monad."),
 "C07": dict(
   text="Theorems C07_read_unsigned/_negative/_integer/_bool/_string_definite/_string_chunked/_container_start_definite/_indefinite/_read_break/_skip over an independent inductive RFC 8949 grammar (every head width incl. non-preferred, chunked strings, nested definite/indefinite arrays and maps, tags with content, simple values, floats): for every well-formed encoding x and every continuation rest, the read operation on ser x ++ rest returns the RFC value and leaves exactly rest; skip_item by nested induction over the grammar with a fuel bound equal to the encoding length. C07_any_position: position independence w.r.t. the window for any buffer size. Tie: correspondence with grammar-driven items at offsets 65535k-16..+2 and straddling, istringstream and ifstream, nesting depth to 30000 (2*10^6 thorough) under a 1 MiB stack.",
   ref="DESIGN.md 3.7", note="Negative integers below -2^63 (not representable in the int64 return type) are outside the theorems; see C08/F15."),
 "C09": dict(
   text="Theorems C09_roundtrip / C09_roundtrip_any / C09_roundtrip_phys / C09_descriptors_ok: the structures are data (descriptors in coq/Schema.v interpreted by one generic writer and one generic reader that follow the shape of every X::write / X::read); proved once, by mutual induction over descriptors, for EVERY descriptor with pairwise distinct keys and EVERY well-typed value: what write produces (through the real encoder model: staging buffer, flushes; C06) is the serialisation of one well-formed tree, its return value is the byte count, and read returns the value member for member (absent stays absent, present-but-empty stays present, vectors in order), leaving following bytes untouched, at any position relative to the decoder window. Instantiated on FilePreamble/BlockParameters/StorageParameters/StorageHints/CollectionParameters (side conditions by vm_compute). Tie: correspondence - random preambles written and read back by the real classes and by the extracted model (bytes, return values, decoded members compared exactly) + independent Python encoder/interpreter as oracle.",
   ref="DESIGN.md 3.9", note="The descriptors are hand-written from the C++ (trusted, validated by the correspondence run on every check)."),
 "C01": dict(
   text="Theorems C01_block_bytes_roundtrip (any well-typed block value written through the encoder model is read back equal by the generic structure reader, following bytes untouched), C01_records_kept / C01_aec_totals (each API call appends exactly the stored form of its record to 'written blocks ++ buffered block'; AEC totals +1 per accepted call), C01_index_denotes (an index handed out by a table denotes the value in every later state of the block), C01_statistics; C01_nonvacuous runs export -> bytes -> read_file -> read_generic_qr inside Coq. The composition of the layers into one end-to-end theorem over histories is NOT proved (partial); it is checked on every run by the correspondence and by two readers (library + independent Python RFC reader). Tie: correspondence - generated API histories run through the real CdnsExporter/CdnsReader (memfd outputs, ASan/UBSan) and through the extracted model: every return value, counter, output byte (address-event arrays order-canonicalised) and the reader's record dump compared; independent Python oracle (specification-level exporter simulation + strict RFC 8949/8618 parser) names the failing history.",
   ref='DESIGN.md 3.1', note='Partial: end-to-end composition, the independent-reader clause and time-offset exactness at block level (C17) are validated, not proved.'),
 "C02": dict(
   text="Theorems C02_struct_one_item (for all 21 descriptors and every well-typed value the bytes written are the serialisation of exactly one well-formed item whose declared lengths equal the members present), C02_struct_skips (a generic CBOR reader consumes it exactly), C02_empty_structures, C02_empty_output (over every API history an output without a block receives zero bytes), C02_blocks_nonempty. Tie: correspondence - generated API histories run through the real CdnsExporter/CdnsReader (memfd outputs, ASan/UBSan) and through the extracted model: every return value, counter, output byte (address-event arrays order-canonicalised) and the reader's record dump compared; independent Python oracle (specification-level exporter simulation + strict RFC 8949/8618 parser) names the failing history.",
   ref='DESIGN.md 3.2', note='Schema-validity of whole files (mandatory members, index ranges) for arbitrary histories is checked by the strict independent parser on every run; the whole-file well-formedness theorem is not composed (partial).'),
 "C04": dict(
   text="Theorems C04_absent (for every hint mask, record and table state a query/response member whose bit is clear is absent from the stored item: slots 0..10), C04_no_insert_member / C04_no_insert_sections (a cleared bit inserts nothing into any table), C04_other_aec / C04_other_mm (refused records change nothing and return 0), C04_preamble. Tie: correspondence - generated API histories run through the real CdnsExporter/CdnsReader (memfd outputs, ASan/UBSan) and through the extracted model: every return value, counter, output byte (address-event arrays order-canonicalised) and the reader's record dump compared; independent Python oracle (specification-level exporter simulation + strict RFC 8949/8618 parser) names the failing history.",
   ref='DESIGN.md 3.4', note='Per-signature-member and RR-hint absence and table reachability are checked by the oracle (each of the 18+17+2+2 bits alone cleared / alone set), not proved (partial).'),
 "C10": dict(
   text="Theorems C10_encoder_call / C10_encoder_run (every encoder call / run returns the number of bytes by which the stream grew, any fill level), C10_struct_write (all structures: returned count = bytes written), C10_write_block_partial (a block write returns the growth of the output, header included, given operand ranges), C10_empty_output. Tie: correspondence - generated API histories run through the real CdnsExporter/CdnsReader (memfd outputs, ASan/UBSan) and through the extracted model: every return value, counter, output byte (address-event arrays order-canonicalised) and the reader's record dump compared; independent Python oracle (specification-level exporter simulation + strict RFC 8949/8618 parser) names the failing history.",
   ref='DESIGN.md 3.10', note='The per-output sum over whole histories is checked by the oracle on every run; its theorem carries the operand-range hypothesis (partial).'),
 "C11": dict(
   text="Theorems C11_equality, C11_add_get, C11_idempotent, C11_nodup (invariant of every add history), C11_injective, C11_stable, C11_index_in_range, C11_build_qr / C11_build_mm (every insertion the block builder performs extends the nine tables only at their ends and keeps them duplicate-free), C11_reference_survives, C11_history (over every exporter history), C11_clear. Tie: correspondence - generated API histories run through the real CdnsExporter/CdnsReader (memfd outputs, ASan/UBSan) and through the extracted model: every return value, counter, output byte (address-event arrays order-canonicalised) and the reader's record dump compared; independent Python oracle (specification-level exporter simulation + strict RFC 8949/8618 parser) names the failing history.",
   ref='DESIGN.md 3.11', note='Value-level table model; the reference-level behaviour (KeyRef into the deque) is C19. Hash/equality consistency of the C++ key types is validated by the correspondence (duplicate detection in parsed outputs).'),
 "C12": dict(
   text="Theorems C12_flush_rule, C12_conservation (qr / mm sequences and AEC totals, per API call, for all seven calls), C12_block_bound (over every history: every written block is non-empty and within max(1,max); the buffered block rests below the maximum), C12_flush_clears. Tie: correspondence - generated API histories run through the real CdnsExporter/CdnsReader (memfd outputs, ASan/UBSan) and through the extracted model: every return value, counter, output byte (address-event arrays order-canonicalised) and the reader's record dump compared; independent Python oracle (specification-level exporter simulation + strict RFC 8949/8618 parser) names the failing history.",
   ref='DESIGN.md 3.12', note='Non-zero return iff a block was written and the counter getters are checked by the oracle (exhaustive call sequences of length 3/5 over an 8-letter alphabet x max 0..3).'),
 "C13": dict(
   text="Theorems C13_frozen (closed outputs never change, any later history), C13_stream (a rotation leaves the record sequence and AEC totals untouched; without export the buffered block stays buffered), C13_empty_output, C13_restart, C13_header_has_all_params. Tie: correspondence - generated API histories run through the real CdnsExporter/CdnsReader (memfd outputs, ASan/UBSan) and through the extracted model: every return value, counter, output byte (address-event arrays order-canonicalised) and the reader's record dump compared; independent Python oracle (specification-level exporter simulation + strict RFC 8949/8618 parser) names the failing history.",
   ref='DESIGN.md 3.13', note='Same-kind rotations (fd to fd); completeness of each closed document is checked by the independent parser. Mixed-kind rotation (F16) is outside the modelled alphabet.'),
 "C19": dict(
   text="Theorems over a reference-level table model (items in heap cells, index keys that are references, freed cells, outcome UAF): C19_find_refines (under the ownership invariant a lookup never touches freed memory and equals the value-level lookup), C19_own_refs (de-duplicating adds keep the invariant and refine the value-level add), C19_value_copy (copy: same content, storage of its own, source unchanged), C19_destroy_other, C19_copy_independent (copy, destroy the source, look up: result of a fresh table with that content); C19_shallow_copy_refuted exhibits the UAF the implicit member-wise copy produced. Tie: correspondence under ASan on histories over up to four CdnsBlock / CdnsBlockRead objects (copy-/move-construct, copy-/move-assign, 'block = reader.read_block(eof)', destroy / clear / refill the source, de-duplicating adds, serialisation, generic reads) against the value-level model; oracle on the implementation alone: every observable result equals that on a block rebuilt from scratch; read blocks must aggregate address events.",
   ref="DESIGN.md 3.19", note="The heap model abstracts std::deque / std::unordered_map to 'stable cells + list of key references'; real allocator behaviour is observed by ASan, not proved (partial w.r.t. memory safety of the containers themselves)."),
 "C14": dict(
   text="Theorems C14_transparent / C14_one_stream_per_output over a model of the gzip / xz wrappers around an abstract compressor (Section variables crun / cfinish / decompress with the single recorded hypothesis codec_ok): for every sequence of writes in any chunking and every rotation pattern, closed by rotation or destruction, the inner writer receives per output exactly one complete stream (finish before the inner rotation, re-initialise after) and it decompresses to what the uncompressed writer receives for the same calls. Tie: the real writers (named and descriptor, gzip and xz) on generated data / chunkings / rotations incl. a 9 MiB chunk; every closed output is decompressed with Python zlib / lzma (one complete stream, no trailing bytes, suffix) and compared with the uncompressed writer's output; the open/write/close/rename skeleton is compared with the model's trace.",
   ref="DESIGN.md 3.14", note="Partial: zlib / liblzma themselves and the termination of the finish loops are the hypothesis codec_ok, validated by the independent decompressors, not proved.", category="proof"),
 "C17": dict(
   text="Theorems C17_offset_exact / C17_add_inverse / C17_compare_lt / C17_compare_le / C17_refuse / C17_rate0 / C17_no_ub / C17_block / C17_block_offsets over a model of Timestamp in Z with the code's int64 arithmetic made explicit (an overflowing signed operation is the distinguished outcome TUB): for every tick rate 1..10^9, all instants below 2^63 ticks and all int64 offsets (INT64_MIN included). C17_block is an invariant by induction over every add history of a block (timed/untimed records in any order). Tie: correspondence (same commands through the real Timestamp / CdnsBlock classes under UBSan and through the extracted model) + Python big-integer oracle.",
   ref="DESIGN.md 3.17", note="Hypothesis of the theorems: ticks_per_second <= 10^9 and instants < 2^63 ticks (the 'representable range' of the property)."),
}
NOT_APPLICABLE = {}   # property id -> reason (none: every property is meant to be decided)

def main():
    props = [json.loads(l)["id"] for l in open(os.path.join(V, "properties.jsonl"))]
    checks, na = [], []
    for p in props:
        if p in CHECKS:
            c = CHECKS[p]
            checks.append({
                "property_id": p,
                "quick_cmd": "./check %s --tier quick" % p,
                "thorough_cmd": "./check %s --tier thorough" % p,
                "evidence_file": "evidence/%s.json" % p,
                "replay_cmd_template": "./check %s --replay {path}" % p,
                "engine": "coq-model",
                "level_claimed": {"category": c.get("category", "proof"), "text": c["text"], "design_ref": c["ref"]},
                "level_note": NOTE + c.get("note", ""),
                "technique": c.get("technique", TECH),
            })
        else:
            na.append({"property_id": p, "reason": NOT_APPLICABLE.get(p, "not claimed yet: the model, theorems and correspondence for this property are still being built (the technique applies; see DESIGN.md section 3)")})
    m = {
     "version": 1,
     "setup_cmd": "./setup.sh",
     "hooks": {
      "guard": "CDNS_VERIF",
      "enable": "the checks compile /repo/src/*.cpp themselves with -DCDNS_VERIF (harness/py/common.py build_impl)",
      "baseline_off_cmd": "cmake -G Ninja -S /repo -B /repo/_build -DBUILD_TESTS=ON && cmake --build /repo/_build && ctest --test-dir /repo/_build -j8 --timeout 900",
      "source_commits": json.load(open(os.path.join(V, "tools", "hook_commits.json"))) if os.path.exists(os.path.join(V, "tools", "hook_commits.json")) else [],
      "add_only": True
     },
     "engines": [
      {"name": "coq-model", "path": "coq/", "serves_properties": sorted(CHECKS), "kind_free_text": "Coq 8.16.1 development: executable Gallina models + theorems (Properties_<id>.v), full .vo build"},
      {"name": "correspondence", "path": "harness/", "serves_properties": sorted(CHECKS), "kind_free_text": "one script language, two executors (C++ driver built from /repo's working tree, OCaml extraction of the model), exact diff + independent Python oracles for the failing-input search"}
     ],
     "checks": checks,
     "not_applicable": na,
     "notes": "see DESIGN.md; known findings and fixed defects are listed in known_findings.json"
    }
    json.dump(m, open(os.path.join(V, "MANIFEST.json"), "w"), indent=1)
    print("MANIFEST.json: %d checks, %d not claimed" % (len(checks), len(na)))
main()
