#!/usr/bin/env python3
# tools/mutate.py — development aid: a small mutation campaign against the checks.
#   tools/mutate.py <n> <seed> [file-substring]
# Works on scratch copies only (a clone of /repo and a copy of /verif under /tmp/mut.<pid>, removed at the end); never touches /repo.
# For each of <n> randomly chosen single-token mutations of /repo/src (relational operators, && / ||, +1 / -1, true / false, a deleted
# clear() / reset() / increment statement): rebuild the library's own unit tests in the clone; a mutant they kill is of no interest (the
# brief asks for changes that pass the existing tests); a mutant that survives them is run against the quick checks mapped to the mutated
# file. Output: one line per mutant (KILLED-BY-TESTS / DETECTED by <check> / SURVIVED) and, for survivors, the diff - to be read by hand:
# a survivor is either an equivalent mutant (no behaviour a property talks about changes) or a blind spot of a check.
import os, random, re, shutil, subprocess, sys, tempfile

CHECKS = {
    "cdns_encoder": ["C06", "C10", "C02", "C14", "C13"], "cdns_decoder": ["C07", "C05", "C03", "C08"], "block.cpp": ["C01", "C04", "C11", "C12", "C02", "C08", "C19", "C09", "C03"],
    "block.h": ["C11", "C19", "C01"], "block_table": ["C11", "C19"], "hash": ["C11"], "file_preamble": ["C09", "C08", "C13", "C03"],
    "timestamp": ["C17", "C01"], "writer": ["C14", "C15", "C16", "C13"], "cdns.": ["C12", "C13", "C10", "C05", "C02", "C16"],
    "interface": ["C03", "C01"], "bin/cdns_merge": ["C18"], "bin/cdns_itemcount": ["C18"],
}
OPS = [(r"(?<![<>=!\-+])<(?![<=])", "<="), (r"<=", "<"), (r"(?<![<>=!\-])>(?![>=])", ">="), (r">=", ">"), (r"==", "!="), (r"!=", "=="),
       (r"&&", "||"), (r"\|\|", "&&"), (r"\+ 1\b", ""), (r"- 1\b", ""), (r"\btrue\b", "false"), (r"\bfalse\b", "true"),
       (r"\+\+", "--"), (r"\+=", "-=")]
DELETABLE = re.compile(r"^\s*[\w\.\->\[\]\*]+\.(clear|reset)\(\);\s*$|^\s*[\w\.\->]+(\+\+|--);\s*$|^\s*[\w\.\->\[\]]+ = [^;]*;\s*$")

def sh(cmd, cwd=None, timeout=3600, env=None):
    p = subprocess.run(cmd, shell=True, cwd=cwd, stdout=subprocess.PIPE, stderr=subprocess.STDOUT, universal_newlines=True, errors="replace", timeout=timeout, env=env)
    return p.returncode, p.stdout

def candidates(path):
    res = []
    code = open(path).read().split("\n")
    in_comment = False
    for i, l in enumerate(code):
        s = l.strip()
        if s.startswith("/*") or s.startswith("*") or s.startswith("//") or s.startswith("#") or not s: continue
        if "throw " in l or "std::cerr" in l or "static_assert" in l or "template" in l or "operator" in l: continue
        body = l.split("//")[0]
        if '"' in body: continue                                   # leave string literals alone
        if re.search(r"\b(if|while|for|return)\b", body) or re.search(r"[<>=!]=|&&|\|\|", body):
            for k, (pat, rep) in enumerate(OPS):
                for m in re.finditer(pat, body):
                    # skip template brackets / includes / shifts / arrows
                    if pat.startswith("(?<![<>=!") and re.search(r"(std::|<\w+>|static_cast|vector|optional|unique_ptr|->)", body): continue
                    res.append((i, m.start(), m.end(), rep, "op"))
        if DELETABLE.match(l) and "=" not in l.split("=")[0][-1:]:
            res.append((i, 0, len(l), "", "del"))
    return code, res

def main():
    n, seed = int(sys.argv[1]), int(sys.argv[2])
    only = sys.argv[3] if len(sys.argv) > 3 else ""
    rng = random.Random(seed)
    root = tempfile.mkdtemp(prefix="mut.")
    repo, verif = os.path.join(root, "repo"), os.path.join(root, "verif")
    try:
        sh("git clone -q /repo %s" % repo)
        sh("rsync -a --exclude .cache --exclude build --exclude .git --exclude replays /verif/ %s/" % verif)
        rc, out = sh("cmake -G Ninja -S . -B _build -DBUILD_TESTS=ON > /dev/null && cmake --build _build 2>&1 | tail -1", cwd=repo)
        files = [os.path.join(repo, "src", f) for f in sorted(os.listdir(os.path.join(repo, "src"))) if f.endswith((".cpp", ".h"))]
        files += [os.path.join(repo, "src", "bin", f) for f in ("cdns_merge.cpp", "cdns_itemcount.cpp")]
        files = [f for f in files if any(k in f for k in CHECKS) and only in f and "format_specification" not in f]
        pool = []
        for f in files:
            code, cs = candidates(f)
            pool += [(f, c) for c in cs]
        rng.shuffle(pool)
        print("%d candidate mutations in %d files; running %d" % (len(pool), len(files), min(n, len(pool))), flush=True)
        env = dict(os.environ); env["VERIF_REPO"] = repo
        stats = {"KILLED-BY-TESTS": 0, "DETECTED": 0, "SURVIVED": 0, "NO-BUILD": 0}
        for f, (i, a, b, rep, kind) in pool[:n]:
            orig = open(f).read()
            code = orig.split("\n")
            old = code[i]
            code[i] = (old[:a] + rep + old[b:]) if kind == "op" else ""
            open(f, "w").write("\n".join(code))
            rel = os.path.relpath(f, repo)
            tag = "%s:%d [%s] %r -> %r" % (rel, i + 1, kind, old.strip()[:90], code[i].strip()[:90])
            try:
                rc, out = sh("cmake --build _build 2>&1 | tail -3", cwd=repo, timeout=1200)
                if "error" in out.lower() or "FAILED" in out:
                    stats["NO-BUILD"] += 1; print("NO-BUILD   " + tag, flush=True); continue
                rc, out = sh("timeout 600 ctest --test-dir _build 2>&1 | tail -3", cwd=repo, timeout=900)
                if "100% tests passed" not in out:
                    stats["KILLED-BY-TESTS"] += 1; print("KILLED-BY-TESTS " + tag, flush=True); continue
                checks = next(v for k, v in CHECKS.items() if k in rel)
                hit = None
                for c in checks:
                    rc, out = sh("./check %s --tier quick 2>&1 | grep -E '^VIOLATION|^Traceback' | head -2" % c, cwd=verif, env=env, timeout=3000)
                    if "VIOLATION" in out or "Traceback" in out: hit = c + (" (no failing input)" if "no-failing-input-found" in out else "") + (" CHECK CRASHED" if "Traceback" in out else ""); break
                if hit: stats["DETECTED"] += 1; print("DETECTED by %s  %s" % (hit, tag), flush=True)
                else: stats["SURVIVED"] += 1; print("SURVIVED (checks %s)  %s" % (",".join(checks), tag), flush=True)
            finally:
                open(f, "w").write(orig)
        print("summary: %r" % stats, flush=True)
    finally:
        shutil.rmtree(root, ignore_errors=True)

if __name__ == "__main__":
    main()
