#!/bin/bash
# tools/try_seed.sh <seed dir> <check id>... : apply the seeded change to /repo, run the given checks (quick), undo it straight afterwards.
# With SEED_REPO=<a scratch clone of /repo> (and optionally SEED_VERIF=<a scratch copy of /verif>) the change is applied to the clone and the
# checks run against it (VERIF_REPO), so that nothing else running against /repo is disturbed.
d=$1; shift
R=${SEED_REPO:-/repo}; V=${SEED_VERIF:-/verif}
git -C $R apply "$d/patch.diff" || { echo "PATCH DOES NOT APPLY"; exit 2; }
for c in "$@"; do
  all=$(cd $V && VERIF_REPO=$R ./check $c --tier quick 2>&1)
  if echo "$all" | grep -q "^Traceback"; then echo "[$c] THE CHECK ITSELF CRASHED"; echo "$all" | tail -3; continue; fi
  if echo "$all" | grep -qE "what: (source gate|check infrastructure error)"; then echo "[$c] INVALID: the machinery is broken in this copy, nothing it reports counts"; echo "$all" | grep "what:" | head -2 | cut -c1-300; continue; fi
  out=$(echo "$all" | grep -E "VIOLATION|what:" | head -4)
  if echo "$all" | grep "^VIOLATION" | grep -qv "no-failing-input-found"; then echo "[$c] DETECTED with a failing input"; echo "$out" | cut -c1-260 | head -3
  elif echo "$out" | grep -q VIOLATION; then echo "[$c] DETECTED through a broken obligation only (no failing input: the generators / oracles of this check do not reach the change)"; echo "$out" | cut -c1-260 | head -3
  else echo "[$c] missed"; fi
done
git -C $R checkout -- .
