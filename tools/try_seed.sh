#!/bin/bash
# tools/try_seed.sh <seed dir> <check id>... : apply the seeded change to /repo, run the given checks (quick), undo it straight afterwards.
d=$1; shift
git -C /repo apply "$d/patch.diff" || { echo "PATCH DOES NOT APPLY"; exit 2; }
for c in "$@"; do
  out=$(cd /verif && ./check $c --tier quick 2>&1 | grep -E "VIOLATION|what:" | head -4)
  if echo "$out" | grep -q VIOLATION; then echo "[$c] DETECTED"; echo "$out" | cut -c1-260 | head -3; else echo "[$c] missed"; fi
done
git -C /repo checkout -- . 
