#!/bin/bash
# tools/soak.sh <tier> <seed>... : run every check with each seed on the current tree; a summary line per run.
# (development aid: confirms the checks stay quiet on the unchanged tree under other seeds / the thorough tier)
tier=$1; shift
V=$(dirname "$(dirname "$(realpath "$0")")")      # the copy of /verif this script lives in (a scratch copy can be soaked while /verif is edited)
mkdir -p $V/build/soak
for seed in "$@"; do
  for p in ${SOAK_PROPS:-C01 C02 C03 C04 C05 C06 C07 C08 C09 C10 C11 C12 C13 C14 C15 C16 C17 C18 C19 C20}; do
    s=$(date +%s)
    VERIF_SEED=$seed $V/check $p --tier $tier > $V/build/soak/$p.$tier.$seed.log 2>&1; rc=$?
    echo "$p tier=$tier seed=$seed rc=$rc $(( $(date +%s) - s ))s $(grep -c '^VIOLATION' $V/build/soak/$p.$tier.$seed.log) violations"
  done
done
