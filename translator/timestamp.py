#!/usr/bin/env python3
# translator/timestamp.py — regenerates coq/Gen_timestamp.v from /repo's current src/timestamp.cpp and timestamp.h (clang AST): the four
# functions of CDNS::Timestamp that C17 is about - operator<, operator<=, get_time_offset, add_time_offset - TRANSLATED into Gallina over the
# arithmetic vocabulary of coq/Timestamp.v. The bodies are printed in a canonical form that carries the C++ TYPE of every arithmetic and
# comparison node and every integral conversion (mul_u64, add_u64: unsigned, wrapping; conv_i64: reinterpretation as int64_t; sub_i64,
# lt_i64: signed - overflow is undefined behaviour), so that a change of an operand's type, of a comparison's signedness or of the order of
# conversions changes the text. Each body is matched against the shape its Gallina counterpart was written after; the comparison operators
# of the two orderings and the INT64_MAX literal of the overflow guard are taken from the code. The obligations are in
# coq/Properties_timestamp.v (compiled by C17): nothing unrecognised, and the generated definitions ARE those of Timestamp.v.
import os, re, sys
import hashes, encoder

SK = ("ParenExpr", "ExprWithCleanups", "MaterializeTemporaryExpr", "CXXBindTemporaryExpr", "ConstantExpr")
TY = {"unsigned long": "u64", "long": "i64", "int": "int", "bool": "bool", "unsigned int": "u32", "unsigned char": "u8", "unsigned short": "u16", "short": "i16", "signed char": "i8",
      "unsigned long long": "u64", "long long": "i64"}
def ty(n):
    t = n.get("type", {}).get("desugaredQualType") or n.get("type", {}).get("qualType", "?")
    t = t.replace("const ", "")
    return TY.get(t, t.replace(" ", "_"))
def tc(n):
    k = n.get("kind"); inner = n.get("inner", [])
    if k in SK and inner: return tc(inner[0])
    if k == "ImplicitCastExpr":
        if n.get("castKind") in ("IntegralCast", "IntegralToBoolean", "IntegralToFloating", "FloatingToIntegral"): return "conv_%s(%s)" % (ty(n), tc(inner[0]))
        return tc(inner[0])
    if k in ("CXXStaticCastExpr", "CStyleCastExpr", "CXXFunctionalCastExpr"): return "cast_%s(%s)" % (ty(n), tc(inner[0]))
    if k == "BinaryOperator":
        op = n.get("opcode"); nm = encoder.BIN.get(op, "?" + str(op))
        if op in ("+", "-", "*", "/", "%", "<<", ">>", "&", "|"): nm += "_" + ty(n)
        if op in ("<", "<=", ">", ">=", "==", "!="): nm += "_" + ty(inner[0])
        return "%s(%s,%s)" % (nm, tc(inner[0]), tc(inner[1]))
    if k == "CompoundAssignOperator":
        ct = n.get("computeResultType", {}).get("desugaredQualType") or n.get("computeResultType", {}).get("qualType", "?")
        return "%s_assign_%s(%s,%s)" % (encoder.BIN.get((n.get("opcode") or "?")[:-1], "?"), TY.get(ct, ct), tc(inner[0]), tc(inner[1]))
    if k == "CompoundStmt": return "{" + ";".join(tc(c) for c in inner) + "}" if len(inner) != 1 else tc(inner[0])
    if k == "IfStmt": return "if(" + ",".join(tc(c) for c in inner) + ")"
    if k == "DeclStmt":
        out = []
        for v in inner:
            init = [c for c in v.get("inner", [])]
            out.append("decl_%s(%s%s)" % (ty(v), v.get("name"), "=" + tc(init[0]) if init else ""))
        return ";".join(out)
    if k == "ReturnStmt": return "return(%s)" % (tc(inner[0]) if inner else "")
    if k == "MemberExpr":
        base = inner[0] if inner else {}
        while base.get("kind") in SK + ("ImplicitCastExpr",) and base.get("inner"): base = base["inner"][0]
        return n.get("name") if base.get("kind") == "CXXThisExpr" else "%s.%s" % (tc(base), n.get("name"))
    if k == "UnaryOperator": return "%s_%s(%s)" % (encoder.UN.get(n.get("opcode"), "?" + str(n.get("opcode"))), ty(n), tc(inner[0]))
    return encoder.canon(n)

def body(path, filt, name):
    o = [x for x in hashes.objs(path, filt) if x.get("kind") == "CXXMethodDecl" and x.get("name") == name and any(c.get("kind") == "CompoundStmt" for c in x.get("inner", []))]
    if len(o) < 1: return "no definition"
    b = [c for c in o[0]["inner"] if c.get("kind") == "CompoundStmt"][0]
    return ";".join(tc(st) for st in b.get("inner", []))

CMP = {"lt": "<?", "le": "<=?"}
def t_order(c):
    m = re.fullmatch(r"if\(lt_u64\(m_secs,rhs\.m_secs\),return\(true\)\);if\(land\(eq_u64\(m_secs,rhs\.m_secs\),(lt|le)_u64\(m_ticks,rhs\.m_ticks\)\),return\(true\)\);return\(false\)", c)
    if m: return "if secs a <? secs b then true else if (secs a =? secs b) && (ticks a %s ticks b) then true else false" % CMP[m.group(1)]
TOTAL = r"conv_i64\(add_u64\(mul_u64\(%sm_secs,ticks_per_second\),%sm_ticks\)\)"
GUARD0 = r"if\(eq_u64\(ticks_per_second,conv_u64\(0\)\),throw\);"
def t_get(c):
    m = re.fullmatch(GUARD0 + r"decl_i64\(ticks=" + TOTAL % ("", "") + r"\);decl_i64\(ref_ticks=" + TOTAL % (r"reference\.", r"reference\.") + r"\);return\(sub_i64\(ticks,ref_ticks\)\)", c)
    if m: return "if tps =? 0 then TThrow\n  else\n    let d := total_ticks t tps - total_ticks ref tps in\n    if in_i64 d then TOk d else TUB"
def t_add(c):
    m = re.fullmatch(GUARD0 + r"decl_i64\(ticks=" + TOTAL % ("", "") + r"\);if\(lor\(lor\(lt_i64\(ticks,conv_i64\(0\)\),land\(lt_i64\(offset,conv_i64\(0\)\),lt_i64\(add_i64\(ticks,offset\),conv_i64\(0\)\)\)\),"
                     r"land\(gt_i64\(offset,conv_i64\(0\)\),gt_i64\(ticks,sub_i64\((\d+),offset\)\)\)\),throw\);add_assign_i64\(ticks,offset\);"
                     r"assign\(m_secs,div_u64\(conv_u64\(ticks\),ticks_per_second\)\);assign\(m_ticks,mod_u64\(conv_u64\(ticks\),ticks_per_second\)\)", c)
    if m and m.group(1) == "9223372036854775807":
        return ("if tps =? 0 then TThrow\n  else\n    let tk := total_ticks t tps in\n    if (tk <? 0) || ((offset <? 0) && (tk + offset <? 0)) || ((0 <? offset) && (I64MAX - offset <? tk))\n"
                "    then TThrow\n    else let n := tk + offset in TOk (mkTs (n / tps) (n mod tps))")

def generate(src, out_path):
    cpp, h = os.path.join(src, "timestamp.cpp"), os.path.join(src, "timestamp.h")
    items = [("ts_lt", "(a b : ts) : bool", t_order, body(h, "CDNS::Timestamp::operator<", "operator<"), "false"),
             ("ts_le", "(a b : ts) : bool", t_order, body(h, "CDNS::Timestamp::operator<=", "operator<="), "false"),
             ("get_time_offset", "(t ref : ts) (tps : Z) : tres Z", t_get, body(cpp, "CDNS::Timestamp::get_time_offset", "get_time_offset"), "TUB"),
             ("add_time_offset", "(t : ts) (offset tps : Z) : tres ts", t_add, body(cpp, "CDNS::Timestamp::add_time_offset", "add_time_offset"), "TUB")]
    t = "(* Gen_timestamp.v - GENERATED by translator/timestamp.py from /repo/src/timestamp.cpp and timestamp.h (clang AST of the current working tree). Do not edit. *)\n"
    t += "Require Import List ZArith String Bool. Import ListNotations. Require Import Base Timestamp. Local Open Scope Z_scope.\n"
    bad, res = [], []
    for nm, sig, tr, c, dummy in items:
        term = tr(c)
        # operator< must be the strict one, operator<= the other
        if nm == "ts_lt" and term and "<=? ticks b" in term: term = None
        if nm == "ts_le" and term and "<=? ticks b" not in term: term = None
        if term is None: bad.append(nm); term = dummy
        t += "(* %s%s *)\nDefinition g_%s %s :=\n  %s.\n" % (nm, "" if nm not in bad else " - NOT RECOGNISED: " + c.replace("*)", "* )")[:1500], nm, sig, term)
        res.append((nm, None if nm in bad else term, c))
    t += "Definition gen_timestamp_unrecognised : list string := [%s]%%string.\n" % "; ".join('"%s"' % b for b in bad)
    old = open(out_path).read() if os.path.exists(out_path) else None
    if old != t:
        with open(out_path, "w") as f: f.write(t)
    return res

if __name__ == "__main__":
    for r in generate(sys.argv[1], sys.argv[2]): print(r[0], "OK" if r[1] else "UNRECOGNISED: " + r[2])
