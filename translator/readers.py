#!/usr/bin/env python3
# translator/readers.py — regenerates coq/Gen_readers.v from the read() methods of /repo's current src/block.cpp and src/file_preamble.cpp
# (clang AST): for every serialised structure, per map key its reader handles,
#   - whether the member is MANDATORY on reading (its is_<member> flag, set in the key's case, occurs in the condition of the final
#     'if (...) throw CdnsDecoderException(... missing one of mandatory items)'),
#   - whether that check also insists on a NON-EMPTY vector (a '.size() == 0' on the member in the same condition),
#   - whether a REPEATED key accumulates (the case appends to a container - push_back / add_value / operator+= / a member function that
#     does so for every key - without clearing the member or assigning a fresh object first),
# and whether read() begins by resetting the object (reset() / clear()).
# The obligations over this file are in coq/Properties_format.v (FT_reader_presence): the presence class of every member of every
# hand-written descriptor of coq/Schema.v (Mand / MandNE vs the rest) and the descriptors' lists of accumulating members (Schema.upd_slot)
# are what the code does.
import hashlib, json, os, re, subprocess, sys
from concurrent.futures import ThreadPoolExecutor
import hashes

READERS = [("file_preamble.cpp", "StorageHints", "StorageHints::read"), ("file_preamble.cpp", "StorageParameters", "StorageParameters::read"),
           ("file_preamble.cpp", "CollectionParameters", "CollectionParameters::read"), ("file_preamble.cpp", "BlockParameters", "BlockParameters::read"),
           ("file_preamble.cpp", "FilePreamble", "FilePreamble::read"),
           ("block.cpp", "ClassType", "ClassType::read"), ("block.cpp", "QueryResponseSignature", "QueryResponseSignature::read"),
           ("block.cpp", "Question", "Question::read"), ("block.cpp", "RR", "RR::read"), ("block.cpp", "MalformedMessageData", "MalformedMessageData::read"),
           ("block.cpp", "ResponseProcessingData", "ResponseProcessingData::read"), ("block.cpp", "QueryResponseExtended", "QueryResponseExtended::read"),
           ("block.cpp", "BlockPreamble", "BlockPreamble::read"), ("block.cpp", "BlockStatistics", "BlockStatistics::read"),
           ("block.cpp", "QueryResponse", "QueryResponse::read"), ("block.cpp", "AddressEventCount", "AddressEventCount::read"),
           ("block.cpp", "MalformedMessage", "MalformedMessage::read"),
           ("block.cpp", "BlockTables", "CdnsBlockRead::read_blocktables"), ("block.cpp", "Block", "CdnsBlockRead::read")]
APPENDERS = {"push_back", "emplace_back", "add_value"}
DEC_CALLS = {"read_unsigned": "u", "read_integer": "i", "read_bool": "bool", "read_textstring": "text", "read_bytestring": "bytes"}

def value_kind(stmts):
    """how the value of a key is read: u / i / bool / text / bytes (the CdnsDecoder call), struct (some object's read(dec) - a nested
    structure, a Timestamp, an index list - or a member function given the decoder), array:<kind of the elements> (dec.read_array(...))"""
    calls = []
    for st in stmts:
        for x in walk(st):
            if x.get("kind") == "CXXMemberCallExpr":
                nm, me = callee_name(x)
                if nm in DEC_CALLS: calls.append(DEC_CALLS[nm])
                elif nm == "read_array": calls.append("array")
                elif nm in ("read", "read_blocktables"): calls.append("struct")
    if not calls: return "?"
    if "array" in calls:
        rest = [c for c in calls if c != "array"]
        return "array:" + (rest[0] if rest else "?")
    return calls[0]


def walk(n):
    yield n
    for c in n.get("inner", []):
        yield from walk(c)

def method_body(path, qual):
    for o in hashes.objs(path, "CDNS::" + qual):
        if o.get("kind") == "CXXMethodDecl" and o.get("name") == qual.split("::")[-1]:
            for c in o.get("inner", []):
                if c.get("kind") == "CompoundStmt": return c
    raise RuntimeError("no body of CDNS::%s in %s" % (qual, path))

def callee_name(call):
    """name of the member function a CXXMemberCallExpr calls"""
    inner = call.get("inner", [])
    if inner and inner[0].get("kind") == "MemberExpr": return inner[0].get("name"), inner[0]
    return None, None

def on_this(mexpr):
    """is the object of this member call `this` itself (as opposed to a member / parameter)?"""
    inner = mexpr.get("inner", [])
    return bool(inner) and inner[0].get("kind") in ("CXXThisExpr",) or (bool(inner) and inner[0].get("kind") == "ImplicitCastExpr" and
            inner[0].get("inner", [{}])[0].get("kind") == "CXXThisExpr")

def case_groups(switch):
    """[(key values, enumerator names, [statements])] of a switch whose body is a compound statement"""
    body = [c for c in switch.get("inner", []) if c.get("kind") == "CompoundStmt"][-1]
    groups, cur = [], None
    for st in body.get("inner", []):
        if st.get("kind") in ("CaseStmt", "DefaultStmt"):
            keys, names, sub = [], [], st
            while sub.get("kind") in ("CaseStmt", "DefaultStmt"):
                if sub["kind"] == "CaseStmt":
                    ce = sub["inner"][0]
                    val = next((x.get("value") for x in walk(ce) if x.get("kind") == "ConstantExpr" and "value" in x), None)
                    nm = next((x["referencedDecl"]["name"] for x in walk(ce) if x.get("kind") == "DeclRefExpr" and x.get("referencedDecl", {}).get("kind") == "EnumConstantDecl"), None)
                    if val is None: raise RuntimeError("case label without a constant value")
                    keys.append(int(val)); names.append(nm)
                    sub = sub["inner"][-1]
                else:
                    keys.append(None); names.append("default"); sub = sub["inner"][-1]
            cur = (keys, names, [sub]); groups.append(cur)
        elif cur is not None:
            cur[2].append(st)
    return groups

def analyse(src, fname, struct, qual, delegates):
    body = method_body(os.path.join(src, fname), qual)
    top = body.get("inner", [])
    # does read() start by resetting the object?
    resets = False
    for st in top:
        if st.get("kind") in ("WhileStmt", "ForStmt"): break
        for x in walk(st):
            if x.get("kind") == "CXXMemberCallExpr":
                nm, me = callee_name(x)
                if nm in ("reset", "clear") and me is not None and on_this(me): resets = True
    switches = [x for x in walk(body) if x.get("kind") == "SwitchStmt"]
    if len(switches) != 1: raise RuntimeError("%s: expected one switch, found %d" % (qual, len(switches)))
    # the mandatory check: the last top-level 'if' whose branch throws
    mand_flags, nonempty_members, plain_or = set(), set(), True
    for st in top:
        if st.get("kind") == "IfStmt" and any(x.get("kind") == "CXXThrowExpr" for x in walk(st["inner"][-1])) and \
           any(x.get("kind") == "DeclRefExpr" and x.get("referencedDecl", {}).get("name", "").startswith("is_") for x in walk(st["inner"][0])):
            cond = st["inner"][0]
            # the check must be a plain disjunction: '!is_a || !is_b || ... [|| member.size() == 0]' - any other connective (a '&&', a
            # flag that is not negated) lets a structure with a missing member through
            def disj(c):
                k = c.get("kind")
                if k in ("ParenExpr", "ImplicitCastExpr", "ExprWithCleanups"): return disj(c["inner"][0])
                if k == "BinaryOperator" and c.get("opcode") == "||": return disj(c["inner"][0]) and disj(c["inner"][1])
                if k == "UnaryOperator" and c.get("opcode") == "!": return any(y.get("kind") == "DeclRefExpr" and y.get("referencedDecl", {}).get("name", "").startswith("is_") for y in walk(c))
                if k == "BinaryOperator" and c.get("opcode") == "==": return any(y.get("kind") == "CXXMemberCallExpr" for y in walk(c))
                if k == "CXXMemberCallExpr": return callee_name(c)[0] == "empty"
                return False
            if not disj(cond): plain_or = False
            for x in walk(cond):
                if x.get("kind") == "DeclRefExpr" and x.get("referencedDecl", {}).get("kind") == "VarDecl": mand_flags.add(x["referencedDecl"]["name"])
                if x.get("kind") == "CXXMemberCallExpr":
                    nm, me = callee_name(x)
                    if nm in ("size", "empty") and me is not None:
                        for y in walk(me):
                            if y.get("kind") == "MemberExpr" and y is not me and y.get("name"): nonempty_members.add(y["name"])
    rows = []
    for keys, names, stmts in case_groups(switches[0]):
        flags, clears, appends, fresh, members = set(), False, False, False, set()
        for st in stmts:
            for x in walk(st):
                k = x.get("kind")
                if k == "BinaryOperator" and x.get("opcode") == "=":
                    lhs, rhs = x["inner"][0], x["inner"][1]
                    if lhs.get("kind") == "DeclRefExpr" and lhs.get("referencedDecl", {}).get("name", "").startswith("is_") and \
                       any(y.get("kind") == "CXXBoolLiteralExpr" and y.get("value") is True for y in walk(rhs)):
                        flags.add(lhs["referencedDecl"]["name"])
                if k == "CXXOperatorCallExpr":
                    ops = [y.get("referencedDecl", {}).get("name") for y in walk(x["inner"][0])] if x.get("inner") else []
                    if "operator=" in ops and any(y.get("kind") in ("CXXTemporaryObjectExpr", "CXXFunctionalCastExpr") or
                                                  (y.get("kind") == "CXXConstructExpr" and not y.get("inner")) for y in walk(x)): fresh = True
                    if "operator+=" in ops: appends = True
                if k == "CompoundAssignOperator" and x.get("opcode") == "+=": appends = True
                if k == "CXXMemberCallExpr":
                    nm, me = callee_name(x)
                    if nm == "clear": clears = True
                    if nm in APPENDERS: appends = True
                    if nm in delegates and me is not None and on_this(me) and delegates[nm]: appends = True
                if k == "MemberExpr" and x.get("name") and x.get("inner") and x["inner"][0].get("kind") == "CXXThisExpr": members.add(x["name"])
        kind = value_kind(stmts)
        for key, nm in zip(keys, names):
            if key is None: continue
            rows.append((key, nm, bool(flags & mand_flags), bool(members & nonempty_members), appends and not clears and not fresh, kind))
    return struct, resets, rows, plain_or

# ---------------------------------------------------------------------------------------------- the write() methods
WRITERS = [(f, st, q.replace("::read", "::write")) for f, st, q in READERS if st not in ("BlockTables", "Block")] + \
          [("block.cpp", "BlockTables", "CdnsBlock::write_blocktables"), ("block.cpp", "Block", "CdnsBlock::write")]

def arg_kind(call):
    """kind of the value an enc.write(x) call writes, from the static type of x"""
    args = call.get("inner", [])[1:]
    if not args: return "?"
    ty = args[0].get("type", {}).get("qualType", "")
    ty = ty.replace("const ", "").replace("CDNS::", "").strip()
    if ty == "bool": return "bool"
    if ty in ("int64_t", "long", "long long", "int8_t", "signed char"): return "i" if ty in ("int64_t", "long", "long long") else "key"
    return "u"

def analyse_writer(src, fname, struct, qual):
    """[(key, guard, kind)] in the order the code writes them: guard = always | opt (written iff the boost::optional holds a value) |
    nonempty (written iff the vector is not empty)"""
    body = method_body(os.path.join(src, fname), qual)
    rows = []
    def guard_of(cond):
        names = [callee_name(x)[0] for x in walk(cond) if x.get("kind") == "CXXMemberCallExpr"]
        if "size" in names or "empty" in names: return "nonempty"
        return "opt"
    def visit(n, guard):
        k = n.get("kind")
        if k == "IfStmt":
            inner = n.get("inner", [])
            g = guard_of(inner[0])
            visit(inner[0], guard)
            for c in inner[1:2]: visit(c, g if guard == "always" else guard)
            for c in inner[2:]: visit(c, guard)
            return
        if k == "LambdaExpr": return
        if k == "CallExpr":
            f = n.get("inner", [{}])[0]
            if any(x.get("kind") == "DeclRefExpr" and x.get("referencedDecl", {}).get("name") == "get_map_index" for x in walk(f)):
                ec = next((x for x in walk(n) if x.get("kind") == "DeclRefExpr" and x.get("referencedDecl", {}).get("kind") == "EnumConstantDecl"), None)
                if ec is None:
                    if rows: rows[-1][2].append("u")           # get_map_index(value): an enumeration VALUE written as its integer
                    return
                nm = ec["referencedDecl"]["name"]
                en = ec.get("type", {}).get("qualType", "").replace("CDNS::", "")
                rows.append([nm, guard, [], en]); return
        if k == "CXXMemberCallExpr":
            nm, me = callee_name(n)
            if nm == "write_map_start": return                        # (its argument may be get_map_index(<X>_size): a member count, not a key)
            if nm == "write_array_start":
                if rows: rows[-1][2].append("array")
                return
            for c in n.get("inner", [])[1:]: visit(c, guard)          # arguments first (the key is an argument of enc.write)
            key_call = any(x.get("kind") == "DeclRefExpr" and x.get("referencedDecl", {}).get("name") == "get_map_index" for x in walk(n))
            if rows and not key_call:
                if nm == "write_textstring": rows[-1][2].append("text")
                elif nm == "write_bytestring": rows[-1][2].append("bytes")
                elif nm in ("write", "write_blocktables"):
                    obj = me.get("inner", [{}])[0] if me else {}
                    is_enc = any(x.get("kind") == "DeclRefExpr" and x.get("referencedDecl", {}).get("name") == "enc" for x in walk(obj)) and not any(x.get("kind") == "MemberExpr" for x in walk(obj))
                    oty = obj.get("type", {}).get("qualType", "")
                    rows[-1][2].append(arg_kind(n) if is_enc else "bytes" if "StringItem" in oty else "struct")
            return
        for c in n.get("inner", []): visit(c, guard)
    visit(body, "always")
    out = []
    for nm, guard, calls, en in rows:
        if not calls: kind = "?"
        elif calls[0] == "array": kind = "array:" + (calls[1] if len(calls) > 1 else "?")
        else: kind = calls[0]
        out.append((nm, en, guard, kind))
    return struct, out

def source_digest(src):
    h = hashlib.sha256()
    for f in ("block.cpp", "file_preamble.cpp", "block.h", "file_preamble.h", "format_specification.h", "cdns_decoder.h"):
        h.update(open(os.path.join(src, f), "rb").read())
    h.update(open(os.path.abspath(__file__), "rb").read())
    return h.hexdigest()

def generate(src, out_path):
    dig = source_digest(src)
    if os.path.exists(out_path) and ("inputs sha256 " + dig) in open(out_path).read(): return None
    # read_blocktables first: Block's key 2 delegates to it
    bt = analyse(src, "block.cpp", "BlockTables", "CdnsBlockRead::read_blocktables", {})
    delegates = {"read_blocktables": (not bt[1]) and all(r[4] for r in bt[2])}
    todo = [r for r in READERS if r[1] != "BlockTables"]
    with ThreadPoolExecutor(max_workers=8) as ex:
        res = list(ex.map(lambda r: analyse(src, r[0], r[1], r[2], delegates), todo))
    res.append(bt)
    order = {r[1]: i for i, r in enumerate(READERS)}
    res.sort(key=lambda r: order[r[0]])
    b = lambda x: "true" if x else "false"
    t = "(* Gen_readers.v - GENERATED by translator/readers.py from the read() methods of /repo/src/block.cpp and file_preamble.cpp (clang AST). Do not edit.\n   inputs sha256 " + dig + " *)\n"
    t += "Require Import String List ZArith. Import ListNotations. Open Scope string_scope.\n"
    t += "(* (structure, (read() resets the object first, the mandatory check is a plain disjunction of missing-member tests,\n   [(key, (mandatory on reading, must be a non-empty vector, a repeated key accumulates, how the value is read))])) *)\n"
    t += "Definition gen_readers : list (string * (bool * bool * list (Z * (bool * bool * bool * string)))) := [\n"
    t += ";\n".join('  ("%s", (%s, %s, [%s]))' % (n, b(rs), b(po), "; ".join('((%d)%%Z, (%s, %s, %s, "%s"))' % (k, b(m), b(ne), b(ac), kd) for k, _, m, ne, ac, kd in rows)) for n, rs, rows, po in res)
    t += "].\n"
    with ThreadPoolExecutor(max_workers=8) as ex:
        wres = list(ex.map(lambda r: analyse_writer(src, r[0], r[1], r[2]), WRITERS))
    t += "(* the write() methods: (structure, [(key enumerator, its enumeration, written always | opt (iff the optional holds a value) |\n   nonempty (iff the vector is not empty), how the value is written)]) in the order the code writes the members *)\n"
    t += "Definition gen_writers : list (string * list (string * (string * string * string))) := [\n"
    t += ";\n".join('  ("%s", [%s])' % (n, "; ".join('("%s", ("%s", "%s", "%s"))' % (nm, en, g, kd) for nm, en, g, kd in rows)) for n, rows in wres)
    t += "].\n"
    with open(out_path, "w") as f: f.write(t)
    return res

if __name__ == "__main__" and len(sys.argv) > 3 and sys.argv[3] == "writers":
    for f, st, q in WRITERS:
        try: print(analyse_writer(sys.argv[1], f, st, q))
        except Exception as e: print(st, "FAILED", e)
    sys.exit(0)
if __name__ == "__main__":
    for n, rs, rows, po in generate(sys.argv[1], sys.argv[2]) or []:
        print(n, "resets" if rs else "NO-RESET", "or" if po else "NOT-A-PLAIN-DISJUNCTION", [(k, nm, "M" if m else "", "NE" if ne else "", "ACC" if ac else "", kd) for k, nm, m, ne, ac, kd in rows])
