#!/usr/bin/env python3
# translator/cursors.py — regenerates coq/Gen_cursors.v from /repo's current src/block.cpp and src/block.h (clang AST): the top-level
# statements of CdnsBlockRead::read() and of CdnsBlockRead::operator=(CdnsBlockRead&), each reduced to what it does to the three reading
# cursors (m_qr_read, m_aec_read, m_mm_read) and to the containers they run over:
#   destroy  the statement destroys the nodes of the address-event map (clear() of the block, assignment of the whole base object, or
#            clear / erase / swap / operator= on m_address_event_counts itself): every iterator into it dangles from here on
#   rw_qr / rw_aec / rw_mm   the cursor is rewound (m_qr_read = 0, m_aec_read = m_address_event_counts.begin(), m_mm_read = 0)
#   work     anything else that calls something or throws: it may add items to the containers and it may leave the function by exception
#   local    a declaration / expression without calls
# The obligation over this file is FT_cursor_steps in coq/Properties_format.v: after every `destroy` the iterator is rewound before any
# statement that can throw, and a run that completes leaves all three cursors at the beginning; CursorProofs.v derives from it that no
# history of reads (successful or thrown), assignments and accessor calls ever leaves the iterator dangling.
import os, sys
import hashes

CURSORS = {"m_qr_read": "rw_qr", "m_aec_read": "rw_aec", "m_mm_read": "rw_mm"}
CALLS = ("CallExpr", "CXXMemberCallExpr", "CXXOperatorCallExpr", "CXXConstructExpr", "CXXThrowExpr", "CXXNewExpr", "LambdaExpr", "CXXTemporaryObjectExpr")
DESTROYERS = {"clear", "erase", "swap", "operator=", "rehash", "reserve", "extract", "merge"}

def walk(n):
    yield n
    for c in n.get("inner", []):
        yield from walk(c)

def strip(n):
    while n.get("kind") in ("ExprWithCleanups", "ImplicitCastExpr", "ParenExpr", "MaterializeTemporaryExpr", "CXXBindTemporaryExpr") and n.get("inner"):
        n = n["inner"][0]
    return n

def is_this(n):
    n = strip(n)
    return n.get("kind") == "CXXThisExpr"

def member_of_this(n, names):
    """n is this->NAME (implicit or explicit) for a NAME in names: the name, else None"""
    n = strip(n)
    if n.get("kind") == "MemberExpr" and n.get("name") in names and n.get("inner") and is_this(n["inner"][0]): return n["name"]
    return None

def classify(st):
    s = strip(st)
    k = s.get("kind")
    # cursor = value
    if k in ("BinaryOperator", "CXXOperatorCallExpr"):
        ops = s.get("inner", [])
        if k == "BinaryOperator" and s.get("opcode") == "=" and len(ops) == 2:
            c = member_of_this(ops[0], CURSORS)
            if c in ("m_qr_read", "m_mm_read"):
                r = strip(ops[1])
                if r.get("kind") == "IntegerLiteral" and r.get("value") == "0": return CURSORS[c]
                return "work"                                   # a cursor set to something else than 0: not a rewind
        if k == "CXXOperatorCallExpr" and len(ops) == 3 and any(x.get("kind") == "DeclRefExpr" and x.get("referencedDecl", {}).get("name") == "operator=" for x in walk(ops[0])):
            c = member_of_this(ops[1], CURSORS)
            if c == "m_aec_read":
                r = strip(ops[2])
                if r.get("kind") == "CXXMemberCallExpr":
                    me = strip(r["inner"][0])
                    if me.get("kind") == "MemberExpr" and me.get("name") == "begin" and member_of_this(me["inner"][0], {"m_address_event_counts"}): return "rw_aec"
                return "work"
    # does it destroy the map's nodes?
    for x in walk(s):
        if x.get("kind") == "CXXMemberCallExpr":
            me = strip(x["inner"][0])
            if me.get("kind") == "MemberExpr":
                nm, obj = me.get("name"), me.get("inner", [{}])[0]
                if nm in ("clear", "operator=") and is_this(obj): return "destroy"
                if nm in DESTROYERS and member_of_this(obj, {"m_address_event_counts"}): return "destroy"
        if x.get("kind") == "CXXOperatorCallExpr":
            ops = x.get("inner", [])
            if len(ops) == 3 and any(y.get("kind") == "DeclRefExpr" and y.get("referencedDecl", {}).get("name") == "operator=" for y in walk(ops[0])):
                if member_of_this(ops[1], {"m_address_event_counts"}): return "destroy"
    if any(x.get("kind") in CALLS for x in walk(s)): return "work"
    return "local"

def body_of(path, qual, argtype=None):
    for o in hashes.objs(path, "CDNS::" + qual):
        if o.get("kind") == "CXXMethodDecl" and o.get("name") == qual.split("::")[-1]:
            if argtype is not None and o.get("type", {}).get("qualType", "").replace("CDNS::", "") != argtype: continue
            for c in o.get("inner", []):
                if c.get("kind") == "CompoundStmt": return c
    raise RuntimeError("no body of CDNS::%s in %s" % (qual, path))

def steps(body):
    res = []
    for st in body.get("inner", []):
        if st.get("kind") == "ReturnStmt": continue
        # `if (this != &rhs) { ... }` of an assignment operator: its statements
        if st.get("kind") == "IfStmt" and any(x.get("kind") == "CXXThisExpr" for x in walk(st["inner"][0])) and len(st["inner"]) == 2 and st["inner"][1].get("kind") == "CompoundStmt":
            res += steps(st["inner"][1]); continue
        res.append(classify(st))
    return res

def generate(src, out_path):
    rd = steps(body_of(os.path.join(src, "block.cpp"), "CdnsBlockRead::read"))
    asg = steps(body_of(os.path.join(src, "block.h"), "CdnsBlockRead::operator=", "CdnsBlockRead &(CdnsBlockRead &)"))
    q = lambda l: "[" + "; ".join('"%s"' % x for x in l) + "]"
    t = "(* Gen_cursors.v - GENERATED by translator/cursors.py from /repo/src/block.cpp and block.h (clang AST of the current working tree). Do not edit. *)\n"
    t += "Require Import String List. Import ListNotations. Open Scope string_scope.\n"
    t += "(* the top-level statements of CdnsBlockRead::read(), each reduced to what it does to the reading cursors and the containers under them *)\n"
    t += "Definition gen_read_steps : list string := %s.\n" % q(rd)
    t += "(* ... and of CdnsBlockRead::operator=(CdnsBlockRead&) (the copy / move constructors and the move assignment delegate to it) *)\n"
    t += "Definition gen_assign_steps : list string := %s.\n" % q(asg)
    old = open(out_path).read() if os.path.exists(out_path) else None
    if old != t:
        with open(out_path, "w") as f: f.write(t)
    return rd, asg

if __name__ == "__main__":
    print(generate(sys.argv[1], sys.argv[2]))
