#!/usr/bin/env python3
# translator/encoder.py — regenerates coq/Gen_encoder.v from /repo's current src/cdns_encoder.cpp (clang AST): the 16 public write
# operations of CdnsEncoder (array / map starts, the indefinite starts and break, the two string writers, bool, the eight integer
# overloads) are TRANSLATED into Gallina, as applications of the combinators of coq/EncoderModel.v (op_int, op_fixed, op_sint, op_string).
# Each method body is first printed in a small canonical form (implicit casts, parentheses and cleanups dropped), e.g.
#     if(lt(m_avail,2),call(flush_buffer));decl(written=call(write_int,value,UNSIGNED));call(update_buffer,written);return(written)
# and then matched against the five shapes the combinators stand for; the constants of the shape (the flush guard, the major type, the
# simple values of true / false, the operand of the negative branch) are taken from the code. A body that matches no shape is translated
# to a dummy and named in gen_encoder_unrecognised. The obligation over this file is FT_encoder_ops in coq/Properties_encoder.v: nothing
# is unrecognised and every generated definition IS the hand-written one of EncoderModel.v (by reflexivity).
import os, re, sys
import hashes

MAJOR = {"UNSIGNED": "T_UNSIGNED", "NEGATIVE": "T_NEGATIVE", "BYTE_STRING": "T_BYTES", "TEXT_STRING": "T_TEXT", "ARRAY": "T_ARRAY", "MAP": "T_MAP", "TAG": "T_TAG", "SIMPLE": "T_SIMPLE"}
BIN = {"<": "lt", "<=": "le", ">": "gt", ">=": "ge", "==": "eq", "!=": "ne", "|": "or", "&": "and", "+": "add", "-": "sub", "=": "assign", "&&": "land", "||": "lor", "*": "mul", ">>": "shr", "<<": "shl", "/": "div", "%": "mod"}
UN = {"~": "not", "!": "lnot", "-": "neg", "+": "pos", "*": "deref", "&": "addr"}
SKIP = ("ImplicitCastExpr", "ParenExpr", "ExprWithCleanups", "MaterializeTemporaryExpr", "CXXBindTemporaryExpr", "ConstantExpr")

def walk(n):
    yield n
    for c in n.get("inner", []):
        yield from walk(c)

def canon(n):
    k = n.get("kind")
    inner = n.get("inner", [])
    if k in SKIP and inner: return canon(inner[0])
    if k == "CompoundStmt": return "{" + ";".join(canon(c) for c in inner) + "}" if len(inner) != 1 else canon(inner[0])
    if k == "IfStmt": return "if(" + ",".join(canon(c) for c in inner) + ")"
    if k == "BinaryOperator": return "%s(%s,%s)" % (BIN.get(n.get("opcode"), "?op" + str(n.get("opcode"))), canon(inner[0]), canon(inner[1]))
    if k == "UnaryOperator":
        if n.get("opcode") in ("++", "--"): return "%s%s(%s)" % ("post" if n.get("isPostfix") else "pre", "inc" if n.get("opcode") == "++" else "dec", canon(inner[0]))
        return "%s(%s)" % (UN.get(n.get("opcode"), "?un" + str(n.get("opcode"))), canon(inner[0]))
    if k == "DeclRefExpr": return n.get("referencedDecl", {}).get("name", "?ref")
    if k == "MemberExpr":
        base = inner[0] if inner else {}
        while base.get("kind") in SKIP and base.get("inner"): base = base["inner"][0]
        return n.get("name", "?member") if base.get("kind") == "CXXThisExpr" else "member(%s,%s)" % (canon(base), n.get("name"))
    if k == "CXXMemberCallExpr": return "call(" + ",".join(canon(c) for c in inner) + ")"
    if k == "IntegerLiteral": return str(n.get("value"))
    if k == "CXXBoolLiteralExpr": return "true" if n.get("value") else "false"
    if k == "DeclStmt":
        out = []
        for v in inner:
            init = [c for c in v.get("inner", [])]
            out.append("decl(%s%s)" % (v.get("name"), "=" + canon(init[0]) if init else ""))
        return ";".join(out)
    if k == "ReturnStmt": return "return(%s)" % (canon(inner[0]) if inner else "")
    if k == "ArraySubscriptExpr": return "index(%s,%s)" % (canon(inner[0]), canon(inner[1]))
    if k in ("CXXStaticCastExpr", "CStyleCastExpr", "CXXFunctionalCastExpr"): return "cast(%s)" % canon(inner[0])
    if k == "CompoundAssignOperator": return "%s_assign(%s,%s)" % (BIN.get((n.get("opcode") or "?")[:-1], "?op"), canon(inner[0]), canon(inner[1]))
    if k == "CXXThrowExpr": return "throw"
    if k == "BreakStmt": return "break"
    if k == "ContinueStmt": return "continue"
    if k == "NullStmt": return "skip"
    if k == "ConditionalOperator": return "cond(%s,%s,%s)" % tuple(canon(c) for c in inner[:3])
    if k == "SwitchStmt": return "switch(" + ",".join(canon(c) for c in inner) + ")"
    if k == "CaseStmt": return "case(" + ",".join(canon(c) for c in inner) + ")"
    if k == "DefaultStmt": return "default(" + ",".join(canon(c) for c in inner) + ")"
    if k == "ForStmt": return "for(" + ",".join(canon(c) if c.get("kind") else "_" for c in inner) + ")"
    if k in ("CXXConstructExpr", "CXXTemporaryObjectExpr") and len(inner) == 1: return canon(inner[0])
    if k == "CXXTryStmt": return "try(" + ",".join(canon(c) for c in inner) + ")"
    if k == "CXXCatchStmt": return "catch(" + ",".join(canon(c) for c in inner if c.get("kind") != "VarDecl") + ")"
    if k == "UnresolvedMemberExpr":     # (clang's JSON gives no name for it: the source position of the member's token, resolved by the caller)
        e = n.get("range", {}).get("end", {})
        return "member(%s,@%s:%s)" % (canon(inner[0]) if inner else "this", e.get("offset", "?"), e.get("tokLen", "?"))
    if k == "CXXDependentScopeMemberExpr": return "member(%s,%s)" % (canon(inner[0]) if inner else "this", n.get("member") or n.get("name") or "?")
    if k == "StringLiteral": return "str(%s)" % n.get("value")
    if k == "CXXOperatorCallExpr": return "opcall(" + ",".join(canon(c) for c in inner) + ")"
    if k == "CXXTypeidExpr": return "typeid(%s)" % (n.get("typeArg", {}).get("qualType") or (canon(inner[0]) if inner else "?"))
    if k == "UnresolvedLookupExpr": return n.get("name") or "?lookup"
    if k == "CXXDefaultArgExpr": return "default"
    if k == "CharacterLiteral": return "chr(%s)" % n.get("value")
    if k == "CXXForRangeStmt":
        # (init, the hidden __range / __begin / __end declarations, condition, increment, the loop variable, the body): variable, range, body
        rng = next((canon(v["inner"][0]) for c in inner if c.get("kind") == "DeclStmt" for v in c.get("inner", []) if v.get("kind") == "VarDecl" and str(v.get("name", "")).startswith("__range") and v.get("inner")), "?")
        var = next((v.get("name") for c in inner if c.get("kind") == "DeclStmt" for v in c.get("inner", []) if v.get("kind") == "VarDecl" and not str(v.get("name", "")).startswith("__")), "?")
        return "foreach(%s,%s,%s)" % (var, rng, canon(inner[-1]) if inner else "")
    if k == "WhileStmt": return "while(" + ",".join(canon(c) for c in inner) + ")"
    if k == "CallExpr": return "fcall(" + ",".join(canon(c) for c in inner) + ")"
    return "?" + str(k)

def body_canon(o):
    body = [c for c in o.get("inner", []) if c.get("kind") == "CompoundStmt"][0]
    return ";".join(canon(st) for st in body.get("inner", []))

NUM, ID = r"(\d+)", r"([A-Z_]+)"
def translate(name, text):
    """(Gallina term, None) or (dummy, reason)"""
    m = re.fullmatch(r"if\(lt\(m_avail,%s\),call\(flush_buffer\)\);decl\(written=call\(write_int,(size|value),%s\)\);call\(update_buffer,written\);return\(written\)" % (NUM, ID), text)
    if m and m.group(3) in MAJOR: return "op_int %s %s" % (m.group(1), MAJOR[m.group(3)]), None
    m = re.fullmatch(r"if\(lt\(m_avail,%s\),call\(flush_buffer\)\);if\(lt\(m_avail,%s\),return\(0\)\);assign\(index\(m_p,0\),or\(cast\(%s\),%s\)\);call\(update_buffer,1\);return\(1\)" % (NUM, NUM, ID, NUM), text)
    if m and m.group(3) in MAJOR and m.group(1) == "1" and m.group(2) == "1": return "op_fixed (N.lor %s %s)" % (MAJOR[m.group(3)], m.group(4)), None
    m = re.fullmatch(r"decl\(written\);if\(lt\(m_avail,%s\),call\(flush_buffer\)\);if\(value,assign\(written,call\(write_int,%s,%s\)\),assign\(written,call\(write_int,%s,%s\)\)\);call\(update_buffer,written\);return\(written\)" % (NUM, NUM, ID, NUM, ID), text)
    if m and m.group(3) == m.group(5) and m.group(3) in MAJOR: return "fun b : bool => op_int %s %s (if b then %s else %s)" % (m.group(1), MAJOR[m.group(3)], m.group(2), m.group(4)), None
    m = re.fullmatch(r"decl\(written\);if\(lt\(m_avail,%s\),call\(flush_buffer\)\);if\(lt\(value,0\),\{assign\(written,call\(write_int,not\(value\),NEGATIVE\)\);call\(update_buffer,written\)\},\{assign\(written,call\(write_int,value,UNSIGNED\)\);call\(update_buffer,written\)\}\);return\(written\)" % NUM, text)
    if m: return "op_sint %s" % m.group(1), None
    m = re.fullmatch(r"if\(lnot\(str\),return\(0\)\);if\(lt\(m_avail,%s\),call\(flush_buffer\)\);decl\(written=call\(write_int,size,%s\)\);call\(update_buffer,written\);call\(write_string,str,size\);return\(add\(written,size\)\)" % (NUM, ID), text)
    if m and m.group(2) in MAJOR and m.group(1) == "9": return "op_string %s" % MAJOR[m.group(2)], None
    return None, text

class Unrecognised(Exception): pass
def strip(n):
    while n.get("kind") in SKIP and n.get("inner"): n = n["inner"][0]
    return n
def tr_write_int(o):
    """CdnsEncoder::write_int(value, major) -> Gallina: the chain `if (value <= T) { if (m_avail >= K) { m_p[0] = major | X; m_p[i] = value >> S ...;
    return K; } } else if ... ; return 0;` becomes `if value <=? T then (if K <=? av then [bytes] else []) else ...` - the bytes stored at m_p in
    order (a store into unsigned char keeps the low 8 bits: `byte`), [] where the code falls through to `return 0`"""
    body = [c for c in o.get("inner", []) if c.get("kind") == "CompoundStmt"][0]["inner"]
    if len(body) != 2 or canon(body[1]) != "return(0)": raise Unrecognised("write_int does not end in a single return 0")
    def store(st, i):
        st = strip(st)
        if st.get("kind") != "BinaryOperator" or st.get("opcode") != "=": raise Unrecognised("not a store: " + canon(st))
        lhs, rhs = strip(st["inner"][0]), strip(st["inner"][1])
        if canon(lhs) != "index(m_p,%d)" % i: raise Unrecognised("stores are not to m_p[0], m_p[1], ... in order: " + canon(lhs))
        c = canon(rhs)
        m = re.fullmatch(r"or\(cast\(major\),(value|\d+)\)", c)
        if m: return "N.lor major %s" % m.group(1)
        m = re.fullmatch(r"shr\(value,(\d+)\)", c)
        if m: return "byte (N.shiftr value %s)" % m.group(1)
        if c == "value": return "byte value"
        raise Unrecognised("unknown byte expression " + c)
    def fit(n):
        """if (m_avail >= K) { stores; return K; }"""
        n = strip(n)
        if n.get("kind") == "CompoundStmt" and len(n["inner"]) == 1: n = strip(n["inner"][0])
        if n.get("kind") != "IfStmt" or len(n["inner"]) != 2: raise Unrecognised("no `if (m_avail >= K)`: " + canon(n)[:80])
        m = re.fullmatch(r"ge\(m_avail,(\d+)\)", canon(n["inner"][0]))
        if not m: raise Unrecognised("no `m_avail >= K`: " + canon(n["inner"][0]))
        k = int(m.group(1))
        blk = strip(n["inner"][1]); sts = blk["inner"] if blk.get("kind") == "CompoundStmt" else [blk]
        if canon(sts[-1]) != "return(%d)" % (len(sts) - 1) or k != len(sts) - 1: raise Unrecognised("%d bytes stored, guard %d, %s" % (len(sts) - 1, k, canon(sts[-1])))
        return "(if %d <=? av then [%s] else [])" % (k, "; ".join(store(st, i) for i, st in enumerate(sts[:-1])))
    def chain(n):
        n = strip(n)
        if n.get("kind") == "CompoundStmt" and len(n["inner"]) == 1: n = strip(n["inner"][0])
        if n.get("kind") == "IfStmt" and len(n["inner"]) == 3:
            m = re.fullmatch(r"le\(value,(\d+)\)", canon(n["inner"][0]))
            if m: return "if value <=? %s then %s else %s" % (m.group(1), fit(n["inner"][1]), chain(n["inner"][2]))
        return fit(n)
    return chain(body[0])

# (name in the generated file, method name, its C++ type as clang prints it, the Gallina type of the translation)
METHODS = [("array_start", "write_array_start", "std::size_t (std::size_t)", "N -> enc -> enc * N"), ("map_start", "write_map_start", "std::size_t (std::size_t)", "N -> enc -> enc * N"),
           ("indef_array_start", "write_indef_array_start", "std::size_t ()", "enc -> enc * N"), ("indef_map_start", "write_indef_map_start", "std::size_t ()", "enc -> enc * N"),
           ("break", "write_break", "std::size_t ()", "enc -> enc * N"),
           ("bytestring", "write_bytestring", "std::size_t (const unsigned char *, std::size_t)", "list N -> enc -> enc * N"),
           ("textstring", "write_textstring", "std::size_t (const unsigned char *, std::size_t)", "list N -> enc -> enc * N"),
           ("bool", "write", "std::size_t (bool)", "bool -> enc -> enc * N"),
           ("u8", "write", "std::size_t (uint8_t)", "N -> enc -> enc * N"), ("u16", "write", "std::size_t (uint16_t)", "N -> enc -> enc * N"),
           ("u32", "write", "std::size_t (uint32_t)", "N -> enc -> enc * N"), ("u64", "write", "std::size_t (uint64_t)", "N -> enc -> enc * N"),
           ("i8", "write", "std::size_t (int8_t)", "Z -> enc -> enc * N"), ("i16", "write", "std::size_t (int16_t)", "Z -> enc -> enc * N"),
           ("i32", "write", "std::size_t (int32_t)", "Z -> enc -> enc * N"), ("i64", "write", "std::size_t (int64_t)", "Z -> enc -> enc * N")]
DUMMY = {"N -> enc -> enc * N": "fun (_ : N) (e : enc) => (e, 0)", "enc -> enc * N": "fun e : enc => (e, 0)", "list N -> enc -> enc * N": "fun (_ : list N) (e : enc) => (e, 0)",
         "bool -> enc -> enc * N": "fun (_ : bool) (e : enc) => (e, 0)", "Z -> enc -> enc * N": "fun (_ : Z) (e : enc) => (e, 0)"}

def generate(src, out_path):
    objs = [o for o in hashes.objs(os.path.join(src, "cdns_encoder.cpp"), "CDNS::CdnsEncoder::write") if o.get("kind") == "CXXMethodDecl" and any(c.get("kind") == "CompoundStmt" for c in o.get("inner", []))]
    t = "(* Gen_encoder.v - GENERATED by translator/encoder.py from /repo/src/cdns_encoder.cpp (clang AST of the current working tree). Do not edit. *)\n"
    t += "Require Import List NArith ZArith String. Import ListNotations. Require Import Base EncoderModel. Local Open Scope N_scope.\n"
    bad, res = [], []
    wi = [x for x in objs if x.get("name") == "write_int"]
    try:
        if len(wi) != 1: raise Unrecognised("no (single) definition of write_int")
        term = tr_write_int(wi[0]); why = None
    except Unrecognised as e:
        term, why = "[]", str(e); bad.append(("write_int", why))
    t += "(* CdnsEncoder::write_int(value, major): the bytes stored at m_p, [] where it returns 0%s *)\nDefinition g_write_int (av value major : N) : list N :=\n  %s.\n" % ("" if why is None else " - NOT RECOGNISED: " + why.replace("*)", "* )")[:900], term)
    res.append(("write_int", term, why))
    for gname, meth, cty, gty in METHODS:
        o = [x for x in objs if x.get("name") == meth and x.get("type", {}).get("qualType") == cty]
        if len(o) != 1: term, why = None, "no (single) definition of %s %s" % (meth, cty)
        else: term, why = translate(gname, body_canon(o[0]))
        if term is None: bad.append((gname, why)); term = DUMMY[gty]
        t += "(* CdnsEncoder::%s : %s%s *)\nDefinition g_%s : %s := %s.\n" % (meth, cty, "" if why is None else " - NOT RECOGNISED: " + why.replace("*)", "* )")[:900], gname, gty, term)
        res.append((gname, term, why))
    # the three helpers the combinators of EncoderModel.v are written after: their bodies must be, statement for statement, these
    SHAPES = {"write_string": "decl(str_left=str);decl(size_left=size);while(lt(m_avail,size_left),{fcall(memcpy,m_p,str_left,m_avail);sub_assign(size_left,m_avail);add_assign(str_left,m_avail);call(update_buffer,m_avail);call(flush_buffer)});fcall(memcpy,m_p,str_left,size_left);call(update_buffer,size_left)",
              "flush_buffer": "if(ne(m_p,m_buffer),{call(member(opcall(operator->,m_cos),write),?CXXReinterpretCastExpr,sub(m_p,m_buffer));assign(m_p,m_buffer);assign(m_avail,BUFFER_SIZE)})"}
    for nm, want in SHAPES.items():
        o = [x for x in (objs if nm != "flush_buffer" else hashes.objs(os.path.join(src, "cdns_encoder.cpp"), "CDNS::CdnsEncoder::flush_buffer")) if x.get("kind") == "CXXMethodDecl" and x.get("name") == nm and any(c.get("kind") == "CompoundStmt" for c in x.get("inner", []))]
        got = body_canon(o[0]) if len(o) == 1 else "no (single) definition"
        if got != want: bad.append((nm, got))
        res.append((nm, "shape", None if got == want else got))
    hobjs = [o for o in hashes.objs(os.path.join(src, "cdns_encoder.h"), "CDNS::CdnsEncoder::update_buffer") if o.get("kind") == "CXXMethodDecl" and any(c.get("kind") == "CompoundStmt" for c in o.get("inner", []))]
    got = body_canon(hobjs[0]) if len(hobjs) == 1 else "no (single) definition"
    if got != "add_assign(m_p,bytes);sub_assign(m_avail,bytes)": bad.append(("update_buffer", got))
    res.append(("update_buffer", "shape", None if got == "add_assign(m_p,bytes);sub_assign(m_avail,bytes)" else got))
    t += "Definition gen_encoder_unrecognised : list string := [%s]%%string.\n" % "; ".join('"%s"' % b for b, _ in bad)
    old = open(out_path).read() if os.path.exists(out_path) else None
    if old != t:
        with open(out_path, "w") as f: f.write(t)
    return res

if __name__ == "__main__":
    for r in generate(sys.argv[1], sys.argv[2]): print(r)
