#!/usr/bin/env python3
# translator/hashes.py — regenerates coq/Gen_hash.v from /repo's current src/block.h (clang AST): for every type used as the key of a
# de-duplicating block table (or of the address-event map) its data members, the members its operator== reads, and the members its
# hash_value() overload reads (types without an overload are hashed over their object bytes: all members).
# The obligations over this file are in coq/Properties_hash.v: a hash reads only members equality compares (so equal keys hash
# equally: without it unordered_map look-ups miss and a table holds two equal entries), and equality compares every member.
import json, os, subprocess, sys
from concurrent.futures import ThreadPoolExecutor

TYPES = ["ClassType", "QueryResponseSignature", "Question", "RR", "MalformedMessageData", "AddressEventCount", "StringItem", "IndexListItem"]
CLANG = ["clang++", "-std=c++14", "-msse4", "-fsyntax-only", "-x", "c++", "-w", "-Xclang", "-ast-dump=json"]

_DIGEST = {}
def _src_digest(d):
    """SHA-256 over the names and contents of every source file next to the one being dumped (headers included): the key of the AST cache"""
    import hashlib
    if d not in _DIGEST:
        h = hashlib.sha256()
        for root, _, files in sorted(os.walk(d)):
            for f in sorted(files):
                if f.endswith((".h", ".cpp", ".hpp", ".c")):
                    p = os.path.join(root, f); h.update(os.path.relpath(p, d).encode()); h.update(b"\0"); h.update(open(p, "rb").read()); h.update(b"\0")
        _DIGEST[d] = h.hexdigest()
    return _DIGEST[d]

def _dump(path, filt):
    """clang's JSON AST dump of the declarations whose qualified name contains `filt`. The dump of one translation unit takes seconds and
    every check asks for the same dozens of dumps, so they are kept under .cache/ast keyed by the digest of ALL sources in the directory,
    the file, the filter and the command line: the same sources give the same dump, any edit gives a new key."""
    import hashlib
    cache = os.environ.get("CDNS_AST_CACHE", os.path.join(os.path.dirname(os.path.dirname(os.path.abspath(__file__))), ".cache", "ast"))
    key = hashlib.sha256(("\0".join(CLANG) + "\0" + filt + "\0" + os.path.basename(path) + "\0" + _src_digest(os.path.dirname(os.path.abspath(path)))).encode()).hexdigest()
    f = os.path.join(cache, key + ".json")
    try:
        with open(f) as fh: return fh.read()
    except OSError: pass
    out = subprocess.run(CLANG + ["-Xclang", "-ast-dump-filter=" + filt, path], stdout=subprocess.PIPE, stderr=subprocess.PIPE,
                         universal_newlines=True, timeout=600).stdout
    try:
        os.makedirs(cache, exist_ok=True)
        tmp = f + ".%d.tmp" % os.getpid()
        with open(tmp, "w") as fh: fh.write(out)
        os.replace(tmp, f)
        # (the cache is bounded: the dumps of the few most recent source states are kept)
        names = [n for n in os.listdir(cache) if n.endswith(".json")]
        if len(names) > 300:
            names.sort(key=lambda n: os.path.getmtime(os.path.join(cache, n)))
            for n in names[:len(names) - 150]:
                try: os.remove(os.path.join(cache, n))
                except OSError: pass
    except OSError: pass
    return out

def objs(path, filt):
    out = _dump(path, filt)
    res, dec, i = [], json.JSONDecoder(), 0
    while True:
        j = out.find("{", i)
        if j < 0: break
        try: o, k = dec.raw_decode(out[j:])
        except ValueError: break
        res.append(o); i = j + k
    return res

def member_refs(node, field_ids, acc):
    if node.get("kind") == "MemberExpr" and node.get("referencedMemberDecl") in field_ids:
        nm = field_ids[node["referencedMemberDecl"]]
        if nm not in acc: acc.append(nm)
    for c in node.get("inner", []): member_refs(c, field_ids, acc)

def analyse(path, t):
    rec = None
    def find(n):
        nonlocal rec
        if n.get("kind") == "CXXRecordDecl" and n.get("name") == t and n.get("completeDefinition") and rec is None: rec = n
        for c in n.get("inner", []): find(c)
    for o in objs(path, "CDNS::" + t): find(o)
    if rec is None: raise RuntimeError("no definition of CDNS::%s in %s" % (t, path))
    fields = [(c["id"], c["name"]) for c in rec.get("inner", []) if c.get("kind") == "FieldDecl"]
    ids = dict(fields)
    eqm, hashm, custom = [], [], False
    for c in rec.get("inner", []):
        if c.get("kind") == "CXXMethodDecl" and c.get("name") == "operator==": member_refs(c, ids, eqm)
        if c.get("kind") == "FriendDecl":
            for f in c.get("inner", []):
                if f.get("kind") == "FunctionDecl" and f.get("name") == "hash_value": custom = True; member_refs(f, ids, hashm)
    if not custom: hashm = [n for _, n in fields]
    return t, [n for _, n in fields], eqm, custom, hashm

# the classes whose objects own storage that other members refer to (BlockTable: the look-up index holds references into the item
# container) or contain such objects: how each of their copy / move operations comes about
VALUE_CLASSES = [("block_table.h", "BlockTable"), ("block.h", "CdnsBlock"), ("block.h", "CdnsBlockRead")]
def special_members(path, t):
    rec = None
    def find(n):
        nonlocal rec
        if n.get("kind") == "CXXRecordDecl" and n.get("name") == t and n.get("completeDefinition") and rec is None: rec = n
        for c in n.get("inner", []): find(c)
    for o in objs(path, "CDNS::" + t): find(o)
    if rec is None: raise RuntimeError("no definition of CDNS::%s in %s" % (t, path))
    res = {"copy_ctor": "implicit", "move_ctor": "none", "copy_assign": "implicit", "move_assign": "none"}
    def how(c): return "deleted" if c.get("explicitlyDeleted") else "defaulted" if c.get("explicitlyDefaulted") else "implicit" if c.get("isImplicit") else "user"
    for c in rec.get("inner", []):
        ty = c.get("type", {}).get("qualType", "")
        arg = ty[ty.find("(") + 1: ty.rfind(")")].replace("const ", "").replace("CDNS::", "").strip() if "(" in ty else ""
        same = arg.split("<")[0].split("&")[0].strip() == t
        if c.get("kind") == "CXXConstructorDecl" and same:
            res["move_ctor" if arg.endswith("&&") else "copy_ctor"] = how(c)
        if c.get("kind") == "CXXMethodDecl" and c.get("name") == "operator=" and same:
            res["move_assign" if arg.endswith("&&") else "copy_assign"] = how(c)
    return t, res

def generate(src, out_path):
    path = os.path.join(src, "block.h")
    with ThreadPoolExecutor(max_workers=8) as ex: rows = list(ex.map(lambda t: analyse(path, t), TYPES))
    q = lambda l: "[" + "; ".join('"%s"' % x for x in l) + "]"
    t = "(* Gen_hash.v - GENERATED by translator/hashes.py from /repo/src/block.h (clang AST of the current working tree). Do not edit. *)\n"
    t += "Require Import String List. Import ListNotations. Open Scope string_scope.\n"
    t += "(* (type, data members, members read by operator==, has its own hash_value overload, members read by the hash) *)\n"
    t += "Definition gen_key_types : list (string * (list string * (list string * (bool * list string)))) := [\n"
    t += ";\n".join('  ("%s", (%s, (%s, (%s, %s))))' % (n, q(f), q(e), "true" if c else "false", q(h)) for n, f, e, c, h in rows)
    t += "].\n"
    with ThreadPoolExecutor(max_workers=4) as ex: sm = list(ex.map(lambda ft: special_members(os.path.join(src, ft[0]), ft[1]), VALUE_CLASSES))
    t += "(* (class, (copy constructor, move constructor, copy assignment, move assignment)): user = written out, defaulted / deleted = so declared,\n   implicit = generated by the compiler (member-wise), none = not declared (a move then falls back to the copy) *)\n"
    t += "Definition gen_special_members : list (string * (string * string * string * string)) := [\n"
    t += ";\n".join('  ("%s", ("%s", "%s", "%s", "%s"))' % (n, r["copy_ctor"], r["move_ctor"], r["copy_assign"], r["move_assign"]) for n, r in sm)
    t += "].\n"
    old = open(out_path).read() if os.path.exists(out_path) else None
    if old != t:
        with open(out_path, "w") as f: f.write(t)
    return rows

if __name__ == "__main__":
    for r in generate(sys.argv[1], sys.argv[2]): print(r)
