#!/usr/bin/env python3
# translator/decoder.py — regenerates coq/Gen_decoder.v from /repo's current src/cdns_decoder.cpp (clang AST): the head-level read operations
# of CdnsDecoder (peek_type, read_cbor_type, read_int, read_unsigned, read_negative, read_integer, read_bool, read_break, read_array_start,
# read_map_start, read_bytestring, read_textstring) are TRANSLATED into programs of the decoder monad of coq/Base.v. Each method body is
# printed in the canonical form of translator/encoder.py and matched against the statement shape its Gallina counterpart was written after;
# the constants of the shape - the major type tested, the additional-information bounds of every guard, the masks, the simple values of
# false / true, the break code, the clamping bounds of the signed reads - are taken from the code and put into the generated term.
# The four functions with loops (read_to_buffer, read_string, skip_item, read_array) and read_int's byte loop must be, statement for
# statement, what coq/DecoderModel.v was written after (exact canonical text). Anything else is named in gen_decoder_unrecognised.
# The obligations over this file are in coq/Properties_decoder.v: nothing unrecognised, and every generated program IS the hand-written one
# of DecoderModel.v (reflexivity).
import os, re, sys
import hashes, encoder
from encoder import body_canon

MAJ = {"UNSIGNED": "MU", "NEGATIVE": "MN", "BYTE_STRING": "MB", "TEXT_STRING": "MT", "ARRAY": "MA", "MAP": "MM", "TAG": "MTag", "SIMPLE": "M7"}
N, ID = r"(\d+)", r"([A-Z_]+)"
HEAD = r"decl\(cbor_type\);decl\((\w+)\);call\(read_cbor_type,cbor_type,\1\);"
I64MAX = "9223372036854775807"

def t_peek_type(c):
    m = re.fullmatch(r"call\(read_to_buffer\);if\(eq\(cast\(index\(m_p,0\)\),BREAK\),return\(BREAK\),return\(cast\(and\(index\(m_p,0\),%s\)\)\)\)" % N, c)
    if m and m.group(1) == "224": return "Peek (fun b => Ret (if b =? 255 then None else Some (major_of b)))"       # (BREAK = 255: FT_cbor_types)
def t_read_type(c):
    m = re.fullmatch(r"call\(read_to_buffer\);assign\(cbor_type,cast\(and\(index\(m_p,0\),%s\)\)\);assign\(additional,and\(index\(m_p,0\),%s\)\);postinc\(m_p\)" % (N, N), c)
    if m and m.group(1) == "224": return "Next (fun b => Ret (major_of b, N.land b %s))" % m.group(2)
def t_read_int(c):
    m = re.fullmatch(r"decl\(value=0\);if\(le\(item_length,%s\),return\(item_length\),if\(land\(ge\(item_length,%s\),le\(item_length,%s\)\),"
                     r"for\(decl\(i=shl\(1,sub\(item_length,%s\)\)\),_,gt\(i,0\),postdec\(i\),\{call\(read_to_buffer\);add_assign\(value,shl\(cast\(index\(m_p,0\)\),mul\(sub\(i,1\),8\)\)\);postinc\(m_p\)\}\)\)\);return\(value\)" % (N, N, N, N), c)
    if m and (m.group(2), m.group(3), m.group(4)) == ("24", "27", "24"):
        return "if ai <=? %s then Ret ai\n  else if ai =? 24 then read_be 1 0 else if ai =? 25 then read_be 2 0\n  else if ai =? 26 then read_be 4 0 else if ai =? 27 then read_be 8 0\n  else Ret 0" % m.group(1)
def t_read_unsigned(c):
    m = re.fullmatch(HEAD + r"if\(ne\(cbor_type,%s\),throw,if\(ge\(\1,%s\),throw\)\);return\(call\(read_int,\1\)\)" % (ID, N), c)
    if m and m.group(2) in MAJ:
        return "ta <- read_type ;;\n  match fst ta with\n  | %s => if %s <=? snd ta then Throw EDec else read_int (snd ta)\n  | _ => Throw EDec\n  end" % (MAJ[m.group(2)], m.group(3)) if MAJ[m.group(2)] == "MU" else None
def t_read_negative(c):
    m = re.fullmatch(HEAD + r"if\(ne\(cbor_type,%s\),throw,if\(ge\(\1,%s\),throw\)\);decl\(value=call\(read_int,\1\)\);if\(gt\(value,cast\(%s\)\),return\(sub\(neg\(%s\),1\)\)\);return\(sub\(neg\(1\),cast\(value\)\)\)" % (ID, N, N, N), c)
    if m and m.group(2) == "NEGATIVE" and m.group(4) == I64MAX and m.group(5) == I64MAX:
        return "ta <- read_type ;;\n  match fst ta with\n  | MN => if %s <=? snd ta then Throw EDec else v <- read_int (snd ta) ;; Ret (neg_of v)\n  | _ => Throw EDec\n  end" % m.group(3)
def t_read_integer(c):
    m = re.fullmatch(r"decl\(peek=call\(peek_type\)\);switch\(peek,\{case\(UNSIGNED,\{decl\(value=call\(read_unsigned\)\);if\(gt\(value,cast\(%s\)\),return\(%s\)\);return\(cast\(value\)\);break\}\);"
                     r"case\(NEGATIVE,return\(call\(read_negative\)\)\);break;default\(throw\);break\}\)" % (N, N), c)
    if m and m.group(1) == I64MAX and m.group(2) == I64MAX:
        return "pk <- peek_type ;;\n  match pk with\n  | Some MU => v <- read_unsigned ;; Ret (clamp_i64 v)\n  | Some MN => read_negative\n  | _ => Throw EDec\n  end"
def t_read_bool(c):
    m = re.fullmatch(HEAD + r"if\(land\(ne\(cbor_type,SIMPLE\),ne\(cbor_type,UNSIGNED\)\),throw,if\(land\(eq\(cbor_type,SIMPLE\),land\(ne\(\1,%s\),ne\(\1,%s\)\)\),throw,if\(land\(eq\(cbor_type,UNSIGNED\),ge\(\1,%s\)\),throw\)\)\);"
                     r"if\(eq\(cbor_type,SIMPLE\),return\(eq\(\1,%s\)\),return\(ne\(call\(read_int,\1\),0\)\)\)" % (N, N, N, N), c)
    if m and m.group(5) == m.group(3):
        return ("ta <- read_type ;;\n  match fst ta with\n  | M7 => if (snd ta =? %s) || (snd ta =? %s) then Ret (snd ta =? %s) else Throw EDec\n"
                "  | MU => if %s <=? snd ta then Throw EDec else v <- read_int (snd ta) ;; Ret (negb (v =? 0))\n  | _ => Throw EDec\n  end") % (m.group(2), m.group(3), m.group(5), m.group(4))
def t_read_break(c):
    m = re.fullmatch(HEAD + r"if\(lor\(ne\(cbor_type,SIMPLE\),ne\(\1,%s\)\),throw\)" % N, c)
    if m: return "ta <- read_type ;;\n  match fst ta with\n  | M7 => if snd ta =? %s then Ret tt else Throw EDec\n  | _ => Throw EDec\n  end" % m.group(2)
def t_read_xstart(want):
    def f(c):
        m = re.fullmatch(HEAD + r"if\(ne\(cbor_type,%s\),throw,if\(land\(ge\(\1,%s\),le\(\1,%s\)\),throw\)\);if\(eq\(\1,%s\),\{assign\(indef,true\);return\(0\)\}\);assign\(indef,false\);return\(call\(read_int,\1\)\)" % (ID, N, N, N), c)
        if m and m.group(2) == want and (m.group(3), m.group(4), m.group(5)) == ("28", "30", "31"): return "read_xstart %s" % MAJ[want]
    return f
def t_read_xstring(want):
    def f(c):
        m = re.fullmatch(HEAD + r"if\(ne\(cbor_type,%s\),throw,if\(land\(ge\(\1,%s\),le\(\1,%s\)\),throw\)\);return\(call\(read_string,%s,call\(read_int,\1\),cond\(eq\(\1,%s\),true,false\)\)\)" % (ID, N, N, ID, N), c)
        if m and m.group(2) == want and m.group(5) == want and (m.group(3), m.group(4), m.group(6)) == ("28", "30", "31"): return "read_xstring %s" % MAJ[want]
    return f

# (generated name, method, Gallina type, translation)
OPS = [("peek_type", "peek_type", "prog (option major)", t_peek_type), ("read_type", "read_cbor_type", "prog (major * N)", t_read_type),
       ("read_unsigned", "read_unsigned", "prog N", t_read_unsigned), ("read_negative", "read_negative", "prog Z", t_read_negative),
       ("read_integer", "read_integer", "prog Z", t_read_integer), ("read_bool", "read_bool", "prog bool", t_read_bool), ("read_break", "read_break", "prog unit", t_read_break),
       ("read_array_start", "read_array_start", "prog (N * bool)", t_read_xstart("ARRAY")), ("read_map_start", "read_map_start", "prog (N * bool)", t_read_xstart("MAP")),
       ("read_bytestring", "read_bytestring", "nat -> prog (list N)", t_read_xstring("BYTE_STRING")), ("read_textstring", "read_textstring", "nat -> prog (list N)", t_read_xstring("TEXT_STRING"))]
DUMMY = {"prog (option major)": "Throw EDec", "prog (major * N)": "Throw EDec", "prog N": "Throw EDec", "prog Z": "Throw EDec", "prog bool": "Throw EDec", "prog unit": "Throw EDec",
         "prog (N * bool)": "Throw EDec", "nat -> prog (list N)": "fun _ : nat => Throw EDec"}

# the loops DecoderModel.v was written after (read_bytes / read_chunks / read_string, skip with its work list as recursion, the window refill of
# run_phys, the array loop of the structure readers): exact canonical text
SHAPES = {
 "read_to_buffer": "if(eq(m_p,m_end),{if(call(member(m_input,eof)),throw);call(member(m_input,read),?CXXReinterpretCastExpr,BUFFER_SIZE);assign(m_p,m_buffer);assign(m_end,add(m_buffer,call(member(m_input,gcount))));if(eq(m_p,m_end),throw)})",
 "read_string": "decl(ret=?CXXConstructExpr);if(lnot(indef),{call(member(ret,reserve),cond(lt(length,BUFFER_SIZE),length,BUFFER_SIZE));for(decl(i=0),_,lt(i,length),postinc(i),{call(read_to_buffer);call(member(ret,push_back),index(m_p,0));postinc(m_p)})},{while(ne(call(peek_type),BREAK),{decl(chunk_type);decl(chunk_length_value);call(read_cbor_type,chunk_type,chunk_length_value);if(ne(chunk_type,cbor_type),throw,if(eq(chunk_length_value,31),throw));decl(chunk_length=call(read_int,chunk_length_value));call(member(ret,reserve),add(call(member(ret,size)),cond(lt(chunk_length,BUFFER_SIZE),chunk_length,BUFFER_SIZE)));for(decl(i=0),_,lt(i,chunk_length),postinc(i),{call(read_to_buffer);call(member(ret,push_back),index(m_p,0));postinc(m_p)})});call(read_break)});return(ret)",
 "read_array": "decl(indef=false);decl(length=call(read_array_start,indef));while(lor(gt(length,0),indef),{if(land(indef,eq(call(peek_type),BREAK)),{call(read_break);break});opcall(operator(),cb,deref(?CXXThisExpr));postdec(length)})",
 "skip_item": "decl(Pending=?CXXRecordDecl);decl(stack=?CXXConstructExpr);call(member(stack,push_back),?InitListExpr);while(lnot(call(member(stack,empty))),{if(member(call(member(stack,back)),indef),if(eq(call(peek_type),BREAK),{postinc(m_p);call(member(stack,pop_back));continue}),{if(eq(member(call(member(stack,back)),items),0),{call(member(stack,pop_back));continue});postdec(member(call(member(stack,back)),items))});decl(cbor_type);decl(item_length);call(read_cbor_type,cbor_type,item_length);switch(cbor_type,{case(UNSIGNED,case(NEGATIVE,if(ge(item_length,28),throw)));call(read_int,item_length);break;case(TAG,if(ge(item_length,28),throw));call(read_int,item_length);call(member(stack,push_back),?InitListExpr);break;case(SIMPLE,if(land(ge(item_length,28),le(item_length,30)),throw));call(read_int,item_length);break;case(BYTE_STRING,case(TEXT_STRING,if(land(ge(item_length,28),le(item_length,30)),throw)));call(read_string,cbor_type,call(read_int,item_length),cond(eq(item_length,31),true,false));break;case(ARRAY,case(MAP,if(land(ge(item_length,28),le(item_length,30)),throw)));if(eq(item_length,31),call(member(stack,push_back),?InitListExpr),{decl(item_count=call(read_int,item_length));call(member(stack,push_back),?InitListExpr);if(eq(cbor_type,MAP),call(member(stack,push_back),?InitListExpr))});break;default(throw);break})})",
}

def generate(src, out_path):
    path = os.path.join(src, "cdns_decoder.cpp")
    objs = [o for o in hashes.objs(path, "CDNS::CdnsDecoder::") if o.get("kind") == "CXXMethodDecl" and any(c.get("kind") == "CompoundStmt" for c in o.get("inner", []))]
    by = {}
    for o in objs: by.setdefault(o["name"], []).append(o)
    t = "(* Gen_decoder.v - GENERATED by translator/decoder.py from /repo/src/cdns_decoder.cpp (clang AST of the current working tree). Do not edit. *)\n"
    t += "Require Import List NArith ZArith String Bool. Import ListNotations. Require Import Base Cbor DecoderModel. Local Open Scope N_scope.\n"
    bad, res = [], []
    ri = by.get("read_int", [])
    term = t_read_int(body_canon(ri[0])) if len(ri) == 1 else None
    if term is None: bad.append("read_int"); term = "Ret ai"
    t += "(* CdnsDecoder::read_int(additional information) *)\nDefinition g_read_int (ai : N) : prog N :=\n  %s.\n" % term
    res.append(("read_int", term if "read_int" not in bad else None))
    for gname, meth, gty, tr in OPS:
        o = by.get(meth, [])
        c = body_canon(o[0]) if len(o) == 1 else "no (single) definition"
        term = tr(c) if len(o) == 1 else None
        if term is None: bad.append(gname); term = DUMMY[gty]
        t += "(* CdnsDecoder::%s%s *)\nDefinition g_%s : %s :=\n  %s.\n" % (meth, "" if gname not in bad else " - NOT RECOGNISED: " + c.replace("*)", "* )")[:1500], gname, gty, term)
        res.append((gname, None if gname in bad else term))
    for nm, want in SHAPES.items():
        o = by.get(nm, [])
        got = body_canon(o[0]) if len(o) == 1 else "no (single) definition"
        ok = got == want
        if ok and nm == "skip_item":
            pushes = ["{" + ",".join(encoder.canon(c) for c in x.get("inner", [])) + "}" for x in encoder.walk(o[0]) if x.get("kind") == "InitListExpr"]
            # the frames pushed onto the work list: the item itself, a tag's content, an indefinite container, a definite container's items (twice for a map)
            if pushes != ["{1,false}", "{1,false}", "{0,true}", "{item_count,false}", "{item_count,false}"]: ok = False; got = "pushes " + ";".join(pushes)
            res.append((nm + ".pushes", ";".join(pushes)))
        if not ok: bad.append(nm)
        res.append((nm, "shape" if ok else None if False else ("shape" if ok else "DIFFERENT: " + got[:300])))
    t += "Definition gen_decoder_unrecognised : list string := [%s]%%string.\n" % "; ".join('"%s"' % b for b in bad)
    old = open(out_path).read() if os.path.exists(out_path) else None
    if old != t:
        with open(out_path, "w") as f: f.write(t)
    return res

if __name__ == "__main__":
    for r in generate(sys.argv[1], sys.argv[2]): print(r)
