(* E2ESpec.v — the specification-side and decision functions of the end-to-end theorems, executable and proof-free
   (so that they are extracted and run by the harness whether or not a proof compiles):
   [exp_qr] / [exp_mm] / [exp_aec]: the record an application may expect back for a submitted record under given hints — they
   never look at a block table; [log_qr] / [log_mm]: what a whole history contributes, call by call;
   [has_tyb] / [typed_xb] / [admb]: deciders for the hypotheses (values within the ranges of the format; admissible history). *)
Require Import Base Cbor EncoderModel DecoderModel Schema Timestamp Block Exporter Merge.
Local Open Scope N_scope.

Definition is_some {A} (o : option A) : bool := match o with Some _ => true | None => false end.

(* ---------- specification side: the record an application may expect back ---------- *)
Definition exp_q (g : val) : val := VR [Some (oval (rr_name g)); Some (oval (rr_ct g)); None; None].
Definition exp_rr (hrr : N) (g : val) : val :=
  VR [Some (oval (rr_name g)); Some (oval (rr_ct g)); bit hrr 0 (rr_ttl g); bit hrr 1 (rr_rdata g)].
Definition exp_qsec (h b : N) (ov : option val) : option val :=
  if N.testbit h b then match section ov with Some gl => Some (VL (map exp_q gl)) | None => None end else None.
Definition exp_rrsec (hrr h b : N) (ov : option val) : option val :=
  if N.testbit h b then match section ov with Some gl => Some (VL (map (exp_rr hrr) gl)) | None => None end else None.
Definition sigb (bp : bparams) (k : N) (ov : option val) : option val :=
  if N.testbit (h_qr bp) 4 then bit (h_sig bp) k ov else None.
Definition exp_qr (bp : bparams) (gr : list (option val)) : list (option val) :=
  let g := nth_o gr in let hq := h_qr bp in let hr := h_rr bp in
  [bit hq 0 (g 0%nat); bit hq 1 (g 1%nat); bit hq 2 (g 2%nat); bit hq 3 (g 3%nat);
   sigb bp 0 (g 4%nat); sigb bp 1 (g 5%nat); sigb bp 2 (g 6%nat); sigb bp 3 (g 7%nat); sigb bp 4 (g 8%nat);
   sigb bp 5 (g 9%nat); sigb bp 6 (g 10%nat); sigb bp 7 (g 11%nat); sigb bp 8 (g 12%nat); sigb bp 9 (g 13%nat);
   narrow16 (sigb bp 10 (g 14%nat)); sigb bp 11 (g 15%nat); sigb bp 12 (g 16%nat); sigb bp 13 (g 17%nat); sigb bp 14 (g 18%nat);
   sigb bp 15 (g 19%nat); sigb bp 16 (g 20%nat);
   bit hq 5 (g 21%nat); bit hq 6 (g 22%nat); bit hq 7 (g 23%nat); bit hq 8 (g 24%nat); bit hq 9 (g 25%nat);
   bit hq 10 (g 26%nat); bit hq 10 (g 27%nat);
   exp_qsec hq 11 (g 28%nat); exp_rrsec hr hq 12 (g 29%nat); exp_rrsec hr hq 13 (g 30%nat); exp_rrsec hr hq 14 (g 31%nat);
   exp_qsec hq 11 (g 32%nat); exp_rrsec hr hq 15 (g 33%nat); exp_rrsec hr hq 16 (g 34%nat); exp_rrsec hr hq 17 (g 35%nat);
   g 36%nat; g 37%nat; g 38%nat].
Definition exp_mm (gm : list (option val)) : list (option val) :=
  let g := nth_o gm in [g 0%nat; g 1%nat; g 2%nat; g 3%nat; g 4%nat; g 5%nat; g 6%nat].

Definition exp_aec (ga : list (option val)) (c : N) : val :=
  VR [nth_o ga 0%nat; nth_o ga 1%nat; nth_o ga 2%nat; Some (oval (nth_o ga 3%nat)); Some (VN c)].
Definition tps_of (b : blk) : Z := Z.of_N (bp_tps (b_bp b)).
Definition new_qr (bp : bparams) (gr : list (option val)) : list val :=
  if filled (exp_qr bp gr) then [VR (exp_qr bp gr)] else [].
Definition new_mm (bp : bparams) (gm : list (option val)) : list val :=
  if N.testbit (h_other bp) 0 then (if filled (exp_mm gm) then [VR (exp_mm gm)] else []) else [].

(* the log of a whole history: the concatenation, call by call, of what each buffer call contributes *)
Fixpoint log_qr (x : exporter) (ops : list xop) : list val :=
  match ops with
  | [] => []
  | o :: r => (match o with XQr gr _ => new_qr (b_bp (x_blk x)) gr | _ => [] end) ++ log_qr (fst (xstep x o)) r
  end.
Fixpoint log_mm (x : exporter) (ops : list xop) : list val :=
  match ops with
  | [] => []
  | o :: r => (match o with XMm gm _ => new_mm (b_bp (x_blk x)) gm | _ => [] end) ++ log_mm (fst (xstep x o)) r
  end.
Fixpoint has_tyb (t : ty) (v : val) {struct t} : bool :=
  match t, v with
  | TU bits, VN n => (n <? 2 ^ bits) && ((bits =? 8) || (bits =? 16) || (bits =? 32) || (bits =? 64))
  | TI, VZ z => ((- Z.of_N two63 <=? z) && (z <? Z.of_N two63))%Z
  | TBool, VB _ => true
  | TText, VS bs => (N.of_nat (length bs) <? two64) && forallb (fun b => b <? 256) bs
  | TBytes, VS bs => (N.of_nat (length bs) <? two64) && forallb (fun b => b <? 256) bs
  | TTime, VL [VN s; VN k] => (s <? two64) && (k <? two64)
  | TArr e, VL xs => (N.of_nat (length xs) <? two64) && (fix all l := match l with [] => true | x :: l' => has_tyb e x && all l' end) xs
  | TIdx, VL xs => (N.of_nat (length xs) <? two64) && (fix all l := match l with [] => true | x :: l' => (match x with VN n => n <? 2 ^ 32 | _ => false end) && all l' end) xs
  | TMap sk _ fs, VR vs => fields_tyb sk fs vs
  | _, _ => false
  end
with fields_tyb (sk : bool) (fs : fields) (vs : list (option val)) {struct fs} : bool :=
  match fs, vs with
  | FNil, [] => true
  | FCons k p t r, v :: vs' =>
      (if sk then ((-128 <=? k) && (k <? 128))%Z else ((0 <=? k) && (k <? 256))%Z) &&
      match p, v with
      | (Mand | Always), Some x => has_tyb t x
      | MandNE, Some x => has_tyb t x && negb (match x with VL [] => true | _ => false end)
      | (Mand | MandNE | Always), None => false
      | Opt, Some x => has_tyb t x
      | Opt, None => true
      | NonEmpty, Some (VL xs) => has_tyb t (VL xs)
      | NonEmpty, _ => false
      end && fields_tyb sk r vs'
  | _, _ => false
  end.

Definition typed_blkb (b : blk) : bool := has_tyb Schema.Block (blk_val b).
Definition typed_xb (x : exporter) : bool := forallb typed_blkb (x_done x) && has_tyb FilePreamble (preamble_val x).
Local Open Scope Z_scope.
Definition good_timeb (tps : Z) (ov : option val) : bool :=
  match ov with
  | None => true
  | Some (VL [VN s; VN k]) => (1 <=? tps) && (tps <? M64) && (Z.of_N k <? tps) && (Z.of_N s * tps + Z.of_N k <? M63)
  | Some _ => false
  end.
Local Close Scope Z_scope.
Local Open Scope N_scope.
(* the header of an output is written with its first block: [hn] = number of parameter sets in the open output's header *)
Definition hn_next (x : exporter) (hn : N) : N := if x_written x =? 0 then N.of_nat (length (x_params x)) else hn.
Definition adm1b (x : exporter) (hn : N) (o : xop) : bool :=
  match o with
  | XSetBp i => (x_written x =? 0) || (i <? hn) || (N.of_nat (length (x_params x)) <=? i)
  | XQr gr _ => good_timeb (tps_of (x_blk x)) (nth_o gr 0%nat)
  | XMm gm _ => good_timeb (tps_of (x_blk x)) (nth_o gm 0%nat)
  | _ => true
  end.
Fixpoint admb (x : exporter) (hn : N) (ops : list xop) : bool :=
  match ops with [] => true | o :: r => adm1b x hn o && admb (fst (xstep x o)) (hn_next x hn) r end.

(* ---------- address events: the decoded key of a submitted event, totals per decoded key ---------- *)
Definition dkey (ga : list (option val)) : list (option val) :=
  [nth_o ga 0%nat; nth_o ga 1%nat; nth_o ga 2%nat; Some (oval (nth_o ga 3%nat))].
Definition oval_eqb (x y : option val) : bool :=
  match x, y with None, None => true | Some u, Some v => val_eqb u v | _, _ => false end.
Definition okey_eqb (a b : list (option val)) : bool := list_eqb oval_eqb a b.
(* the count a decoded address-event record [t; c; f; ip; count] contributes to key k *)
Definition dec_count (k : list (option val)) (v : option val) : N :=
  match v with Some (VR [t; c; f; ip; Some (VN n)]) => if okey_eqb [t; c; f; ip] k then n else 0 | _ => 0 end.
Definition dec_total (k : list (option val)) (l : list (option val)) : N := fold_right (fun v a => dec_count k v + a) 0 l.
Definition new_aec (bp : bparams) (ga : list (option val)) (k : list (option val)) : N :=
  if N.testbit (h_other bp) 1 then (if okey_eqb (dkey ga) k then 1 else 0) else 0.
Fixpoint log_aec (x : exporter) (ops : list xop) (k : list (option val)) : N :=
  match ops with
  | [] => 0
  | o :: r => (match o with XAec ga _ => new_aec (b_bp (x_blk x)) ga k | _ => 0 end) + log_aec (fst (xstep x o)) r k
  end.

(* the same in one pass: the decoded keys of the accepted events, in order; [log_aec x ops k] is the number of occurrences of k *)
Fixpoint log_aec_keys (x : exporter) (ops : list xop) : list (list (option val)) :=
  match ops with
  | [] => []
  | o :: r => (match o with XAec ga _ => if N.testbit (h_other (b_bp (x_blk x))) 1 then [dkey ga] else [] | _ => [] end)
              ++ log_aec_keys (fst (xstep x o)) r
  end.
Definition count_key (k : list (option val)) (l : list (list (option val))) : N :=
  fold_right (fun k' a => (if okey_eqb k' k then 1 else 0) + a) 0 l.

(* ---------- which hint bits enable generic query/response member i (0..38) ---------- *)
Definition qr_guard (bp : bparams) (i : nat) : bool :=
  let q := N.testbit (h_qr bp) in let s k := N.testbit (h_qr bp) 4 && N.testbit (h_sig bp) k in
  nth i [q 0; q 1; q 2; q 3;
         s 0; s 1; s 2; s 3; s 4; s 5; s 6; s 7; s 8; s 9; s 10; s 11; s 12; s 13; s 14; s 15; s 16;
         q 5; q 6; q 7; q 8; q 9; q 10; q 10;
         q 11; q 12; q 13; q 14; q 11; q 15; q 16; q 17] true.

(* ---------- cdns-merge: the second pass as one list of blocks; deciders for the hypotheses of the merged-file theorem ---------- *)
Definition nonempty (b : blk) : bool := negb (item_count b =? 0).
Definition pass2_blocks (offs : list (N * N)) (ins : list minput) : list blk :=
  flat_map (fun i => match i with
                     | MBad _ => []
                     | MFile name _ blocks => match lookup_off offs name with None => [] | Some off => map (remap off) blocks end
                     end) ins.

Local Open Scope Z_scope.
Definition rate_okb (tps : Z) : bool := (1 <=? tps) && (tps <? M64).
Definition instantz (t : ts) (tps : Z) : Z := secs t * tps + ticks t.
Definition normalisedb (t : ts) (tps : Z) : bool := (0 <=? secs t) && (0 <=? ticks t) && (ticks t <? tps).
Definition ts_okb (t : ts) (tps : Z) : bool := (0 <=? secs t) && (0 <=? ticks t) && (instantz t tps <? M63).
Definition item_time_okb (e : ts) (tps : Z) (it : val) : bool :=
  match it with
  | VR (Some tv :: _) =>
      rate_okb tps && match ts_of_val tv with
                      | Some t => normalisedb t tps && ts_okb t tps && (instantz e tps <=? instantz t tps)
                      | None => false
                      end
  | _ => true
  end.
Definition time_invb (b : blk) : bool :=
  let e := b_earliest b in let tps := tps_of b in
  (0 <=? secs e) && (0 <=? ticks e) && (if rate_okb tps then normalisedb e tps && ts_okb e tps else true) &&
  forallb (item_time_okb e tps) (b_qrs b) && forallb (item_time_okb e tps) (b_mms b).
Local Close Scope Z_scope.
Local Open Scope N_scope.
Definition aec_shapeb (k : val) : bool := match k with VR [_; _; _; _; Some (VN 0)] => true | _ => false end.
Fixpoint nodup_valb (l : list val) : bool := match l with [] => true | k :: r => negb (existsb (val_eqb k) r) && nodup_valb r end.
Definition aec_invb (l : list (val * N)) : bool := forallb (fun kc => aec_shapeb (fst kc)) l && nodup_valb (map fst l).
Definition good_blkb (b : blk) : bool := time_invb b && aec_invb (b_aecs b).
Definition bparams_eqb (a b : bparams) : bool :=
  (bp_tps a =? bp_tps b) && (bp_max a =? bp_max b) && (h_qr a =? h_qr b) && (h_sig a =? h_sig b) && (h_rr a =? h_rr b) && (h_other a =? h_other b).
Definition blk_params_okb (ps : list val) (b : blk) : bool := (b_bpi b <? N.of_nat (length ps)) && bparams_eqb (b_bp b) (nth_bp ps (b_bpi b)).
Definition merge_okb (ins : list minput) : bool :=
  let pre := merged_preamble (run_pass1 ins) in
  has_tyb FilePreamble pre &&
  forallb (fun b => if nonempty b then typed_blkb b && blk_params_okb (params_of pre) b && good_blkb b else true) (pass2_blocks (p_off (run_pass1 ins)) ins).
