(* Base.v — bytes, the decoder program monad and its logical interpreter.
   Model of: the way every read-side function of CZ-NIC/c-dns consumes its input
   (CdnsDecoder::read_to_buffer + m_p[0] / m_p++), abstracted to "next byte" / "peek byte".
   No proofs about the code live here; only the universal lemmas of the monad. *)
From Coq Require Export List NArith ZArith Lia Bool.
Require Export ZifyBool ZifyN ZifyNat.
Export ListNotations.
Local Open Scope N_scope.
Ltac Zify.zify_post_hook ::= Z.div_mod_to_equations.

(* ---- outcome classes a caller can distinguish ---- *)
Inductive err :=
| EEnd      (* CDNS::CdnsDecoderEnd *)
| EDec      (* CDNS::CdnsDecoderException *)
| ERun      (* any other std::runtime_error (timestamp, table index, block parameters) *)
| EOut      (* CDNS::CborOutputException / CdnsEncoderException *)
| EFuel.    (* model artefact: fuel exhausted; excluded by the theorems *)

Definition err_eqb (a b : err) : bool :=
  match a, b with
  | EEnd, EEnd | EDec, EDec | ERun, ERun | EOut, EOut | EFuel, EFuel => true
  | _, _ => false
  end.

(* ---- decoder programs ---- *)
Inductive prog (A : Type) : Type :=
| Ret (a : A)
| Throw (e : err)
| Next (k : N -> prog A)             (* read_to_buffer(); b = *m_p++ *)
| Peek (k : N -> prog A)             (* read_to_buffer(); b = *m_p   *)
| Reserve (n : N) (k : prog A).      (* std::string/vector::reserve(n) — observable request size *)
Arguments Ret {A}. Arguments Throw {A}. Arguments Next {A}. Arguments Peek {A}. Arguments Reserve {A}.

Fixpoint bind {A B} (p : prog A) (f : A -> prog B) : prog B :=
  match p with
  | Ret a => f a
  | Throw e => Throw e
  | Next k => Next (fun b => bind (k b) f)
  | Peek k => Peek (fun b => bind (k b) f)
  | Reserve n k => Reserve n (bind k f)
  end.

Notation "x <- p ;; q" := (bind p (fun x => q))
  (at level 61, p at next level, right associativity).
Notation "p ;;; q" := (bind p (fun _ => q))
  (at level 61, right associativity).

(* logical interpreter: input = the bytes not yet consumed *)
Fixpoint run {A} (p : prog A) (inp : list N) : (A + err) * list N :=
  match p with
  | Ret a => (inl a, inp)
  | Throw e => (inr e, inp)
  | Next k => match inp with [] => (inr EEnd, []) | b :: r => run (k b) r end
  | Peek k => match inp with [] => (inr EEnd, []) | b :: _ => run (k b) inp end
  | Reserve _ k => run k inp
  end.

(* largest reservation requested along the execution on [inp] *)
Fixpoint max_reserve {A} (p : prog A) (inp : list N) : N :=
  match p with
  | Ret _ | Throw _ => 0
  | Next k => match inp with [] => 0 | b :: r => max_reserve (k b) r end
  | Peek k => match inp with [] => 0 | b :: _ => max_reserve (k b) inp end
  | Reserve n k => N.max n (max_reserve k inp)
  end.

Lemma run_bind {A B} (p : prog A) (f : A -> prog B) inp :
  run (bind p f) inp =
  match run p inp with
  | (inl a, r) => run (f a) r
  | (inr e, r) => (inr e, r)
  end.
Proof.
  revert inp; induction p as [a|e|k IH|k IH|n k IH]; intros inp; cbn; auto;
    destruct inp; auto.
Qed.

(* Universal prefix lemma: on a prefix [q] of the input [q ++ s] every program either behaves
   identically (leaving [s] untouched behind its remainder) or reports end of input.  Nothing else. *)
Lemma run_prefix {A} (p : prog A) : forall q s,
  match run p (q ++ s) with
  | (res, r) => (exists r', r = r' ++ s /\ run p q = (res, r')) \/ (fst (run p q) = inr EEnd)
  end.
Proof.
  induction p as [a|e|k IH|k IH|n k IH]; intros q s; cbn.
  - left; exists q; auto.
  - left; exists q; auto.
  - destruct q as [|b q]; cbn.
    + destruct s as [|b s]; [left; exists []; auto|]. destruct (run (k b) s); right; auto.
    + apply IH.
  - destruct q as [|b q]; cbn.
    + destruct s as [|b s]; [left; exists []; auto|]. destruct (run (k b) (b :: s)); right; auto.
    + specialize (IH b (b :: q) s). cbn in IH. exact IH.
  - apply IH.
Qed.

(* A program never invents input: the remainder is a suffix of the input. *)
Lemma run_suffix {A} (p : prog A) : forall inp res r,
  run p inp = (res, r) -> exists c, inp = c ++ r.
Proof.
  induction p as [a|e|k IH|k IH|n k IH]; intros inp res r H; cbn in H.
  - inversion H; subst. exists []; reflexivity.
  - inversion H; subst. exists []; reflexivity.
  - destruct inp as [|b inp].
    + inversion H; subst. exists []; reflexivity.
    + apply IH in H. destruct H as [c ->]. exists (b :: c); reflexivity.
  - destruct inp as [|b inp].
    + inversion H; subst. exists []; reflexivity.
    + apply IH in H. exact H.
  - eapply IH; eauto.
Qed.

(* linear-time list reversal (the standard [rev] is quadratic when executed) *)
Definition frev {A} (l : list A) : list A := rev_append l [].
Lemma frev_rev {A} (l : list A) : frev l = rev l.
Proof. unfold frev. rewrite rev_append_rev. apply app_nil_r. Qed.

(* ---- small arithmetic helpers shared by encoder and decoder ---- *)
Definition byte_ok (b : N) : Prop := b < 256.
Definition bytes_ok (bs : list N) : Prop := Forall byte_ok bs.

(* big-endian bytes of v on k bytes (specification side, independent of shifts) *)
Fixpoint be (k : nat) (v : N) : list N :=
  match k with
  | O => []
  | S k' => (v / 256 ^ N.of_nat k') mod 256 :: be k' v
  end.

Lemma pow256_pos k : 0 < 256 ^ N.of_nat k.
Proof. assert (256 ^ N.of_nat k <> 0) by (apply N.pow_nonzero; lia). lia. Qed.

Lemma be_length k v : length (be k v) = k.
Proof. revert v; induction k; intros; cbn; auto. Qed.

Lemma be_bytes_ok k v : bytes_ok (be k v).
Proof.
  revert v; induction k as [|k IH]; intros v; cbn; constructor.
  - unfold byte_ok. apply N.mod_lt. lia.
  - apply IH.
Qed.

Lemma be_mod k : forall v, be k (v mod 256 ^ N.of_nat k) = be k v.
Proof.
  induction k as [|k IH]; intros v; cbn [be]; auto.
  rewrite Nat2N.inj_succ, N.pow_succ_r'.
  set (Q := 256 ^ N.of_nat k). pose proof (pow256_pos k) as HQ. fold Q in HQ.
  rewrite (N.mul_comm 256 Q), N.mod_mul_r by lia.
  f_equal.
  - rewrite (N.mul_comm Q), N.div_add by lia. rewrite (N.div_small (v mod Q)) by (apply N.mod_lt; lia).
    rewrite N.add_0_l, N.mod_mod by lia. reflexivity.
  - rewrite <- (IH (v mod Q + _)). rewrite (N.mul_comm Q), N.mod_add by lia.
    rewrite N.mod_mod by lia. apply IH.
Qed.

Definition two64 : N := 18446744073709551616.
Definition two63 : N := 9223372036854775808.
