(* BlockDecode.v — the generic-record readers (read_generic_qr / _mm of src/block.cpp, [gen_qr] / [gen_mm] of Exporter.v)
   are left inverses of the builders ([build_qr] / [build_mm] of Block.v) up to the storage hints:
   what a stored item decodes to — in the tables as they are then or as they are after any number of later
   insertions — is the submitted record with exactly the hint-disabled members removed ([exp_qr], [exp_mm]:
   specification-side functions that never look at a table). *)
Require Import Base Cbor EncoderModel DecoderModel Schema Timestamp Block BlockProofs Exporter E2ESpec.
Local Open Scope N_scope.

Definition tidn (i : tid) : nat :=
  match i with T_ip => 0 | T_ct => 1 | T_nr => 2 | T_sig => 3 | T_qlist => 4 | T_qrr => 5 | T_rrlist => 6 | T_rr => 7 | T_mmd => 8 end%nat.
Lemma lst_tbs tb i : lst (nth_o (tbs_of_tables tb) (tidn i)) = tget tb i.
Proof. destruct i; reflexivity. Qed.

(* ---------- an index denotes a value, in these tables and in every extension of them ---------- *)
Definition den (tb' : tables) (i : tid) (ix ov : option val) : Prop := tl_get (tbs_of_tables tb') (tidn i) ix = Some ov.
Definition stable (tb1 : tables) (P : tables -> Prop) : Prop := forall tb', tb_ext tb1 tb' -> P tb'.

Lemma den_some tb' i n v : nth_error (tget tb' i) (N.to_nat n) = Some v -> den tb' i (Some (VN n)) (Some v).
Proof. intros H. unfold den, tl_get. rewrite nthN_spec, lst_tbs, H. reflexivity. Qed.
Lemma den_none tb' i : den tb' i None None.
Proof. reflexivity. Qed.

Lemma add_to_den tb i v :
  tb_ext tb (fst (add_to tb i v)) /\ stable (fst (add_to tb i v)) (fun tb' => den tb' i (Some (VN (snd (add_to tb i v)))) (Some v)).
Proof.
  split; [apply add_to_good|]. intros tb' He. apply den_some. eapply ext_keeps; eauto. apply add_to_get.
Qed.

Lemma via_den tb i ov :
  tb_ext tb (fst (via tb i ov)) /\ stable (fst (via tb i ov)) (fun tb' => den tb' i (snd (via tb i ov)) ov)
  /\ is_some (snd (via tb i ov)) = is_some ov.
Proof.
  unfold via. destruct ov as [v|].
  - pose proof (add_to_den tb i v) as [H1 H2]. destruct (add_to tb i v) as [tb1 ix]. cbn [fst snd] in *. auto.
  - cbn [fst snd]. split; [apply tb_ext_refl|]. split; [|reflexivity]. intros tb' _. apply den_none.
Qed.

(* ---------- question and RR lists ---------- *)
Lemma gen_qs_app tbs a : forall b ra rb, gen_qs tbs a = Some ra -> gen_qs tbs b = Some rb -> gen_qs tbs (a ++ b) = Some (ra ++ rb).
Proof.
  induction a as [|x a IH]; intros b ra rb Ha Hb; cbn [gen_qs app] in *.
  - inversion Ha. exact Hb.
  - unfold obind in *. destruct (tl_get tbs 5 (Some x)) as [q|]; [|discriminate].
    destruct (tl_get tbs 2 _) as [nm|]; [|discriminate]. destruct (tl_get tbs 1 _) as [ct|]; [|discriminate].
    destruct (gen_qs tbs a) as [r|] eqn:E; [|discriminate]. inversion Ha; subst. rewrite (IH b r rb eq_refl Hb). reflexivity.
Qed.
Lemma gen_rrs_app tbs a : forall b ra rb, gen_rrs tbs a = Some ra -> gen_rrs tbs b = Some rb -> gen_rrs tbs (a ++ b) = Some (ra ++ rb).
Proof.
  induction a as [|x a IH]; intros b ra rb Ha Hb; cbn [gen_rrs app] in *.
  - inversion Ha. exact Hb.
  - unfold obind in *. destruct (tl_get tbs 7 (Some x)) as [q|]; [|discriminate].
    destruct (tl_get tbs 2 (nth_o (fields_of q) 0)) as [nm|]; [|discriminate]. destruct (tl_get tbs 1 _) as [ct|]; [|discriminate].
    destruct (tl_get tbs 2 (nth_o (fields_of q) 3)) as [rd|]; [|discriminate].
    destruct (gen_rrs tbs a) as [r|] eqn:E; [|discriminate]. inversion Ha; subst. rewrite (IH b r rb eq_refl Hb). reflexivity.
Qed.

Ltac stepd H lem :=
  pose proof lem as H; cbv zeta in H;
  match type of H with context [fst ?e] => destruct e as [? ?]; cbn [fst snd] in H; cbn [fst snd] end.

Lemma add_questions_den : forall gl tb racc,
  tb_ext tb (fst (add_questions tb gl racc)) /\
  exists new, snd (add_questions tb gl racc) = rev racc ++ new /\
    stable (fst (add_questions tb gl racc)) (fun tb' => gen_qs (tbs_of_tables tb') new = Some (map exp_q gl)).
Proof.
  induction gl as [|g gl IH]; intros tb racc; cbn [add_questions].
  - cbn [fst snd]. split; [apply tb_ext_refl|]. exists []. rewrite frev_rev, app_nil_r. split; [reflexivity|]. intros tb' _. reflexivity.
  - stepd H1 (add_to_den tb T_nr (oval (rr_name g))). destruct H1 as [E1 D1].
    stepd H2 (add_to_den t T_ct (oval (rr_ct g))). destruct H2 as [E2 D2].
    stepd H3 (add_to_den t0 T_qrr (VR [Some (VN n); Some (VN n0)])). destruct H3 as [E3 D3].
    destruct (IH t1 (VN n1 :: racc)) as [E4 (new & Hs & D4)].
    split; [eapply tb_ext_trans; [exact E1|]; eapply tb_ext_trans; [exact E2|]; eapply tb_ext_trans; eauto|].
    exists (VN n1 :: new). split; [rewrite Hs; cbn [rev]; rewrite <- app_assoc; reflexivity|].
    intros tb' He. cbn [gen_qs map].
    assert (He3 : tb_ext t1 tb') by (eapply tb_ext_trans; eauto).
    assert (He2 : tb_ext t0 tb') by (eapply tb_ext_trans; eauto).
    assert (He1 : tb_ext t tb') by (eapply tb_ext_trans; eauto).
    specialize (D1 _ He1). specialize (D2 _ He2). specialize (D3 _ He3). specialize (D4 _ He).
    unfold den in D1, D2, D3. cbn [tidn] in D1, D2, D3. unfold obind. rewrite D3. cbn [fields_of nth_o nth]. rewrite D1, D2, D4. reflexivity.
Qed.

Lemma add_rrs_den hrr : forall gl tb racc,
  tb_ext tb (fst (add_rrs hrr tb gl racc)) /\
  exists new, snd (add_rrs hrr tb gl racc) = rev racc ++ new /\
    stable (fst (add_rrs hrr tb gl racc)) (fun tb' => gen_rrs (tbs_of_tables tb') new = Some (map (exp_rr hrr) gl)).
Proof.
  induction gl as [|g gl IH]; intros tb racc; cbn [add_rrs].
  - cbn [fst snd]. split; [apply tb_ext_refl|]. exists []. rewrite frev_rev, app_nil_r. split; [reflexivity|]. intros tb' _. reflexivity.
  - stepd H1 (add_to_den tb T_nr (oval (rr_name g))). destruct H1 as [E1 D1].
    stepd H2 (add_to_den t T_ct (oval (rr_ct g))). destruct H2 as [E2 D2].
    stepd H3 (via_den t0 T_nr (bit hrr 1 (rr_rdata g))). destruct H3 as (E3 & D3 & _).
    stepd H4 (add_to_den t1 T_rr (VR [Some (VN n); Some (VN n0); bit hrr 0 (rr_ttl g); o])). destruct H4 as [E4 D4].
    destruct (IH t2 (VN n1 :: racc)) as [E5 (new & Hs & D5)].
    split; [eapply tb_ext_trans; [exact E1|]; eapply tb_ext_trans; [exact E2|]; eapply tb_ext_trans; [exact E3|]; eapply tb_ext_trans; eauto|].
    exists (VN n1 :: new). split; [rewrite Hs; cbn [rev]; rewrite <- app_assoc; reflexivity|].
    intros tb' He. cbn [gen_rrs map].
    assert (He4 : tb_ext t2 tb') by (eapply tb_ext_trans; eauto).
    assert (He3 : tb_ext t1 tb') by (eapply tb_ext_trans; eauto).
    assert (He2 : tb_ext t0 tb') by (eapply tb_ext_trans; eauto).
    assert (He1 : tb_ext t tb') by (eapply tb_ext_trans; eauto).
    specialize (D1 _ He1). specialize (D2 _ He2). specialize (D3 _ He3). specialize (D4 _ He4). specialize (D5 _ He).
    unfold den in D1, D2, D3, D4. cbn [tidn] in D1, D2, D3, D4. unfold obind. rewrite D4. cbn [fields_of nth_o nth]. rewrite D1, D2, D3, D5. reflexivity.
Qed.

Lemma add_generic_qlist_den tb gl :
  tb_ext tb (fst (add_generic_qlist tb gl)) /\
  stable (fst (add_generic_qlist tb gl))
         (fun tb' => gen_qlist (tbs_of_tables tb') (Some (VN (snd (add_generic_qlist tb gl)))) = Some (Some (VL (map exp_q gl)))).
Proof.
  unfold add_generic_qlist. pose proof (add_questions_den gl tb []) as [E1 (new & Hs & D1)].
  destruct (add_questions tb gl []) as [tb1 ixs]. cbn [fst snd rev app] in *. subst ixs.
  stepd H2 (add_to_den tb1 T_qlist (VL new)). destruct H2 as [E2 D2].
  split; [eapply tb_ext_trans; eauto|]. intros tb' He.
  specialize (D2 _ He). specialize (D1 _ (tb_ext_trans _ _ _ E2 He)). unfold den in D2. cbn [tidn] in D2.
  unfold gen_qlist, obind. rewrite D2. cbn [lst]. rewrite D1. reflexivity.
Qed.
Lemma add_generic_rrlist_den hrr tb gl :
  tb_ext tb (fst (add_generic_rrlist hrr tb gl)) /\
  stable (fst (add_generic_rrlist hrr tb gl))
         (fun tb' => gen_rrlist (tbs_of_tables tb') (Some (VN (snd (add_generic_rrlist hrr tb gl)))) = Some (Some (VL (map (exp_rr hrr) gl)))).
Proof.
  unfold add_generic_rrlist. pose proof (add_rrs_den hrr gl tb []) as [E1 (new & Hs & D1)].
  destruct (add_rrs hrr tb gl []) as [tb1 ixs]. cbn [fst snd rev app] in *. subst ixs.
  stepd H2 (add_to_den tb1 T_rrlist (VL new)). destruct H2 as [E2 D2].
  split; [eapply tb_ext_trans; eauto|]. intros tb' He.
  specialize (D2 _ He). specialize (D1 _ (tb_ext_trans _ _ _ E2 He)). unfold den in D2. cbn [tidn] in D2.
  unfold gen_rrlist, obind. rewrite D2. cbn [lst]. rewrite D1. reflexivity.
Qed.

Lemma via_qlist_den tb h b ov :
  tb_ext tb (fst (via_qlist tb h b ov)) /\
  stable (fst (via_qlist tb h b ov)) (fun tb' => gen_qlist (tbs_of_tables tb') (snd (via_qlist tb h b ov)) = Some (exp_qsec h b ov))
  /\ is_some (snd (via_qlist tb h b ov)) = is_some (exp_qsec h b ov).
Proof.
  unfold via_qlist, exp_qsec. destruct (N.testbit h b).
  - destruct (section ov) as [gl|].
    + pose proof (add_generic_qlist_den tb gl) as [E D]. destruct (add_generic_qlist tb gl) as [tb1 ix]. cbn [fst snd] in *. auto.
    + cbn [fst snd]. split; [apply tb_ext_refl|]. split; [|reflexivity]. intros tb' _. reflexivity.
  - cbn [fst snd]. split; [apply tb_ext_refl|]. split; [|reflexivity]. intros tb' _. reflexivity.
Qed.
Lemma via_rrlist_den hrr tb h b ov :
  tb_ext tb (fst (via_rrlist hrr tb h b ov)) /\
  stable (fst (via_rrlist hrr tb h b ov)) (fun tb' => gen_rrlist (tbs_of_tables tb') (snd (via_rrlist hrr tb h b ov)) = Some (exp_rrsec hrr h b ov))
  /\ is_some (snd (via_rrlist hrr tb h b ov)) = is_some (exp_rrsec hrr h b ov).
Proof.
  unfold via_rrlist, exp_rrsec. destruct (N.testbit h b).
  - destruct (section ov) as [gl|].
    + pose proof (add_generic_rrlist_den hrr tb gl) as [E D]. destruct (add_generic_rrlist hrr tb gl) as [tb1 ix]. cbn [fst snd] in *. auto.
    + cbn [fst snd]. split; [apply tb_ext_refl|]. split; [|reflexivity]. intros tb' _. reflexivity.
  - cbn [fst snd]. split; [apply tb_ext_refl|]. split; [|reflexivity]. intros tb' _. reflexivity.
Qed.

(* ---------- "filled" ---------- *)
Lemma filled_false l : filled l = false -> Forall (fun o => o = None) l.
Proof.
  induction l as [|o l IH]; intros H; constructor.
  - destruct o; [discriminate|reflexivity].
  - apply IH. destruct o; [discriminate|exact H].
Qed.
Lemma filled_is_some l : filled l = existsb is_some l.
Proof. reflexivity. Qed.

(* ---------- build_qr / gen_qr with their two conditional sub-blocks named (convertible to the originals) ---------- *)
Definition sig_list (hs : N) (g : nat -> option val) (q0 q8 q15 : option val) : list (option val) :=
  [q0; bit hs 1 (g 5%nat); bit hs 2 (g 6%nat); bit hs 3 (g 7%nat); bit hs 4 (g 8%nat); bit hs 5 (g 9%nat);
   bit hs 6 (g 10%nat); bit hs 7 (g 11%nat); q8; bit hs 9 (g 13%nat); bit hs 10 (g 14%nat);
   bit hs 11 (g 15%nat); bit hs 12 (g 16%nat); bit hs 13 (g 17%nat); bit hs 14 (g 18%nat); q15;
   bit hs 16 (g 20%nat)].
Definition sig_blk (hq hs : N) (g : nat -> option val) (tb : tables) : tables * option val :=
  if N.testbit hq 4 then
    let '(tb, q0) := via tb T_ip (bit hs 0 (g 4%nat)) in
    let '(tb, q8) := via tb T_ct (bit hs 8 (g 12%nat)) in
    let '(tb, q15) := via tb T_nr (bit hs 15 (g 19%nat)) in
    let sig := sig_list hs g q0 q8 q15 in
    if filled sig then let '(tb, ix) := add_to tb T_sig (VR sig) in (tb, Some (VN ix)) else (tb, None)
  else (tb, None).
Definition rpd_blk (hq : N) (g : nat -> option val) (tb : tables) : tables * option val :=
  if N.testbit hq 10 then
    let '(tb, bw) := via tb T_nr (g 26%nat) in
    let rpd := [bw; g 27%nat] in
    if filled rpd then (tb, Some (VR rpd)) else (tb, None)
  else (tb, None).
Definition ext_slot (qe : list (option val)) : option val := if filled qe then Some (VR qe) else None.
Definition build_qr2 (bp : bparams) (gr : list (option val)) (tb : tables) : tables * list (option val) :=
  let g := nth_o gr in
  let hq := h_qr bp in let hs := h_sig bp in let hr := h_rr bp in
  let '(tb, s1) := via tb T_ip (bit hq 1 (g 1%nat)) in
  let '(tb, s4) := sig_blk hq hs g tb in
  let '(tb, s7) := via tb T_nr (bit hq 7 (g 23%nat)) in
  let '(tb, s10) := rpd_blk hq g tb in
  let '(tb, e0) := via_qlist tb hq 11 (g 28%nat) in
  let '(tb, e1) := via_rrlist hr tb hq 12 (g 29%nat) in
  let '(tb, e2) := via_rrlist hr tb hq 13 (g 30%nat) in
  let '(tb, e3) := via_rrlist hr tb hq 14 (g 31%nat) in
  let '(tb, r0) := via_qlist tb hq 11 (g 32%nat) in
  let '(tb, r1) := via_rrlist hr tb hq 15 (g 33%nat) in
  let '(tb, r2) := via_rrlist hr tb hq 16 (g 34%nat) in
  let '(tb, r3) := via_rrlist hr tb hq 17 (g 35%nat) in
  (tb, [bit hq 0 (g 0%nat); s1; bit hq 2 (g 2%nat); bit hq 3 (g 3%nat); s4; bit hq 5 (g 21%nat); bit hq 6 (g 22%nat); s7;
        bit hq 8 (g 24%nat); bit hq 9 (g 25%nat); s10; ext_slot [e0; e1; e2; e3]; ext_slot [r0; r1; r2; r3];
        g 36%nat; g 37%nat; g 38%nat]).
Lemma build_qr2_eq bp gr tb : build_qr bp gr tb = build_qr2 bp gr tb.
Proof. reflexivity. Qed.

Definition dec_sig (tbs : list (option val)) (sg : option val) : option (list (option val)) :=
  let q := nth_o (fields_of sg) in
  g4 <~ tl_get tbs 0 (q 0%nat) ;; g12 <~ tl_get tbs 1 (q 8%nat) ;; g19 <~ tl_get tbs 2 (q 15%nat) ;;
  Some [g4; q 1%nat; q 2%nat; q 3%nat; q 4%nat; q 5%nat; q 6%nat; q 7%nat; g12; q 9%nat; narrow16 (q 10%nat);
        q 11%nat; q 12%nat; q 13%nat; q 14%nat; g19; q 16%nat].
Definition dec_rpd (tbs : list (option val)) (o : option val) : option (list (option val)) :=
  let rp := nth_o (fields_of o) in g26 <~ tl_get tbs 2 (rp 0%nat) ;; Some [g26; rp 1%nat].
Definition dec_ext (tbs : list (option val)) (o : option val) : option (list (option val)) :=
  let qe := nth_o (fields_of o) in
  a <~ gen_qlist tbs (qe 0%nat) ;; b <~ gen_rrlist tbs (qe 1%nat) ;; c <~ gen_rrlist tbs (qe 2%nat) ;; d <~ gen_rrlist tbs (qe 3%nat) ;;
  Some [a; b; c; d].
Definition gen_qr2 (tbs : list (option val)) (it : val) : option val :=
  let s := nth_o (fields_of (Some it)) in
  g1 <~ tl_get tbs 0 (s 1%nat) ;;
  sl <~ (sg <~ tl_get tbs 3 (s 4%nat) ;; dec_sig tbs sg) ;;
  g23 <~ tl_get tbs 2 (s 7%nat) ;;
  rl <~ dec_rpd tbs (s 10%nat) ;;
  ql <~ dec_ext tbs (s 11%nat) ;;
  el <~ dec_ext tbs (s 12%nat) ;;
  Some (VR ([s 0%nat; g1; s 2%nat; s 3%nat] ++ sl ++ [s 5%nat; s 6%nat; g23; s 8%nat; s 9%nat] ++ rl ++ ql ++ el ++ [s 13%nat; s 14%nat; s 15%nat])).

Lemma gen_qr2_eq tbs it : gen_qr tbs it = gen_qr2 tbs it.
Proof.
  unfold gen_qr, gen_qr2, dec_sig, dec_rpd, dec_ext, obind.
  repeat match goal with
         | |- context [match tl_get ?a ?b ?c with Some _ => _ | None => _ end] => destruct (tl_get a b c); [|reflexivity]
         | |- context [match gen_qlist ?a ?b with Some _ => _ | None => _ end] => destruct (gen_qlist a b); [|reflexivity]
         | |- context [match gen_rrlist ?a ?b with Some _ => _ | None => _ end] => destruct (gen_rrlist a b); [|reflexivity]
         end.
  reflexivity.
Qed.

Definition sig_exp (bp : bparams) (g : nat -> option val) : list (option val) :=
  [sigb bp 0 (g 4%nat); sigb bp 1 (g 5%nat); sigb bp 2 (g 6%nat); sigb bp 3 (g 7%nat); sigb bp 4 (g 8%nat);
   sigb bp 5 (g 9%nat); sigb bp 6 (g 10%nat); sigb bp 7 (g 11%nat); sigb bp 8 (g 12%nat); sigb bp 9 (g 13%nat);
   narrow16 (sigb bp 10 (g 14%nat)); sigb bp 11 (g 15%nat); sigb bp 12 (g 16%nat); sigb bp 13 (g 17%nat); sigb bp 14 (g 18%nat);
   sigb bp 15 (g 19%nat); sigb bp 16 (g 20%nat)].

Lemma is_some_narrow16 o : is_some (narrow16 o) = is_some o.
Proof. destruct o as [[n| | | | |]|]; reflexivity. Qed.
Lemma narrow16_none : narrow16 None = None.
Proof. reflexivity. Qed.
Lemma is_some_eq_none {A B} (a : option A) (b : option B) : is_some a = is_some b -> a = None -> b = None.
Proof. intros H ->. destruct b; [discriminate|reflexivity]. Qed.

Lemma sig_blk_den bp g tb :
  let r := sig_blk (h_qr bp) (h_sig bp) g tb in
  tb_ext tb (fst r) /\
  stable (fst r) (fun tb' => (sg <~ tl_get (tbs_of_tables tb') 3 (snd r) ;; dec_sig (tbs_of_tables tb') sg) = Some (sig_exp bp g)) /\
  is_some (snd r) = filled (sig_exp bp g).
Proof.
  unfold sig_blk, sig_exp, sigb. destruct (N.testbit (h_qr bp) 4).
  - stepd V0 (via_den tb T_ip (bit (h_sig bp) 0 (g 4%nat))). destruct V0 as (E0 & D0 & I0).
    stepd V8 (via_den t T_ct (bit (h_sig bp) 8 (g 12%nat))). destruct V8 as (E8 & D8 & I8).
    stepd V15 (via_den t0 T_nr (bit (h_sig bp) 15 (g 19%nat))). destruct V15 as (E15 & D15 & I15).
    destruct (filled (sig_list (h_sig bp) g o o0 o1)) eqn:F.
    + stepd VSg (add_to_den t1 T_sig (VR (sig_list (h_sig bp) g o o0 o1))). destruct VSg as (ES & DS).
      split; [eapply tb_ext_trans; [exact E0|]; eapply tb_ext_trans; [exact E8|]; eapply tb_ext_trans; eauto|].
      split.
      * intros tb' He.
        assert (He15 : tb_ext t1 tb') by (eapply tb_ext_trans; eauto).
        assert (He8 : tb_ext t0 tb') by (eapply tb_ext_trans; eauto).
        assert (He0 : tb_ext t tb') by (eapply tb_ext_trans; eauto).
        specialize (DS _ He). specialize (D15 _ He15). specialize (D8 _ He8). specialize (D0 _ He0).
        unfold den in *. cbn [tidn] in *. unfold obind at 1. rewrite DS.
        unfold dec_sig, sig_list. cbn [fields_of nth_o nth]. unfold obind. rewrite D0, D8, D15. reflexivity.
      * cbn [is_some]. rewrite <- F. unfold sig_list. rewrite !filled_is_some. cbn [existsb]. rewrite ?filled_is_some. cbn [existsb]. rewrite ?is_some_narrow16, I0, I8, I15. reflexivity.
    + cbn [fst snd]. split; [eapply tb_ext_trans; [exact E0|]; eapply tb_ext_trans; eauto|].
      pose proof (filled_false _ F) as HF. unfold sig_list in HF.
      repeat match goal with H : Forall _ (_ :: _) |- _ => inversion H; clear H; subst end.
      pose proof (is_some_eq_none _ _ I0 eq_refl) as X0. pose proof (is_some_eq_none _ _ I8 eq_refl) as X8.
      pose proof (is_some_eq_none _ _ I15 eq_refl) as X15.
      repeat match goal with H : bit _ _ _ = None |- _ => rewrite H; clear H end.
      split; [intros tb' _; reflexivity|reflexivity].
  - cbn [fst snd]. split; [apply tb_ext_refl|]. split; [intros tb' _; reflexivity|reflexivity].
Qed.

Lemma rpd_blk_den bp g tb :
  let r := rpd_blk (h_qr bp) g tb in
  tb_ext tb (fst r) /\
  stable (fst r) (fun tb' => dec_rpd (tbs_of_tables tb') (snd r) = Some [bit (h_qr bp) 10 (g 26%nat); bit (h_qr bp) 10 (g 27%nat)]) /\
  is_some (snd r) = filled [bit (h_qr bp) 10 (g 26%nat); bit (h_qr bp) 10 (g 27%nat)].
Proof.
  unfold rpd_blk, bit. destruct (N.testbit (h_qr bp) 10).
  - stepd V (via_den tb T_nr (g 26%nat)). destruct V as (E & D & I).
    destruct (filled [o; g 27%nat]) eqn:F; cbn [fst snd].
    + split; [exact E|]. split.
      * intros tb' He. specialize (D _ He). unfold den in D. cbn [tidn] in D. unfold dec_rpd. cbn [fields_of nth_o nth]. unfold obind. rewrite D. reflexivity.
      * cbn [is_some]. rewrite <- F. rewrite !filled_is_some. cbn [existsb]. rewrite I. reflexivity.
    + split; [exact E|]. pose proof (filled_false _ F) as HF.
      repeat match goal with H : Forall _ (_ :: _) |- _ => inversion H; clear H; subst end.
      pose proof (is_some_eq_none _ _ I eq_refl) as X. rewrite X. match goal with H : g 27%nat = None |- _ => rewrite H end.
      split; [intros tb' _; reflexivity|reflexivity].
  - cbn [fst snd]. split; [apply tb_ext_refl|]. split; [intros tb' _; reflexivity|reflexivity].
Qed.

Lemma dec_ext_slot tbs e0 e1 e2 e3 x0 x1 x2 x3 :
  gen_qlist tbs e0 = Some x0 -> gen_rrlist tbs e1 = Some x1 -> gen_rrlist tbs e2 = Some x2 -> gen_rrlist tbs e3 = Some x3 ->
  is_some e0 = is_some x0 -> is_some e1 = is_some x1 -> is_some e2 = is_some x2 -> is_some e3 = is_some x3 ->
  dec_ext tbs (ext_slot [e0; e1; e2; e3]) = Some [x0; x1; x2; x3] /\ is_some (ext_slot [e0; e1; e2; e3]) = filled [x0; x1; x2; x3].
Proof.
  intros G0 G1 G2 G3 I0 I1 I2 I3. unfold ext_slot. destruct (filled [e0; e1; e2; e3]) eqn:F.
  - split.
    + unfold dec_ext. cbn [fields_of nth_o nth]. unfold obind. rewrite G0, G1, G2, G3. reflexivity.
    + cbn [is_some]. rewrite <- F. rewrite !filled_is_some. cbn [existsb]. rewrite I0, I1, I2, I3. reflexivity.
  - pose proof (filled_false _ F) as HF.
    repeat match goal with H : Forall _ (_ :: _) |- _ => inversion H; clear H; subst end.
    rewrite (is_some_eq_none _ _ I0 eq_refl), (is_some_eq_none _ _ I1 eq_refl), (is_some_eq_none _ _ I2 eq_refl), (is_some_eq_none _ _ I3 eq_refl).
    split; reflexivity.
Qed.

Ltac chain tb' :=
  repeat match goal with
         | H1 : tb_ext ?a ?b, H2 : tb_ext ?b tb' |- _ =>
             lazymatch goal with
             | _ : tb_ext a tb' |- _ => fail
             | _ => pose proof (tb_ext_trans _ _ _ H1 H2)
             end
         end.

(* what a stored query/response item decodes to, now and after any later insertions; and when an item is stored at all *)
Theorem gen_build_qr bp gr tb tb' : tb_ext (fst (build_qr bp gr tb)) tb' ->
  gen_qr (tbs_of_tables tb') (VR (snd (build_qr bp gr tb))) = Some (VR (exp_qr bp gr)) /\
  filled (snd (build_qr bp gr tb)) = filled (exp_qr bp gr).
Proof.
  rewrite build_qr2_eq, gen_qr2_eq. unfold build_qr2.
  stepd V1 (via_den tb T_ip (bit (h_qr bp) 1 (nth_o gr 1%nat))). destruct V1 as (E1 & D1 & I1).
  stepd V4 (sig_blk_den bp (nth_o gr) t). destruct V4 as (E4 & D4 & I4).
  stepd V7 (via_den t0 T_nr (bit (h_qr bp) 7 (nth_o gr 23%nat))). destruct V7 as (E7 & D7 & I7).
  stepd V10 (rpd_blk_den bp (nth_o gr) t1). destruct V10 as (E10 & D10 & I10).
  stepd Q0 (via_qlist_den t2 (h_qr bp) 11 (nth_o gr 28%nat)). destruct Q0 as (Eq0 & Dq0 & Iq0).
  stepd Q1 (via_rrlist_den (h_rr bp) t3 (h_qr bp) 12 (nth_o gr 29%nat)). destruct Q1 as (Eq1 & Dq1 & Iq1).
  stepd Q2 (via_rrlist_den (h_rr bp) t4 (h_qr bp) 13 (nth_o gr 30%nat)). destruct Q2 as (Eq2 & Dq2 & Iq2).
  stepd Q3 (via_rrlist_den (h_rr bp) t5 (h_qr bp) 14 (nth_o gr 31%nat)). destruct Q3 as (Eq3 & Dq3 & Iq3).
  stepd R0 (via_qlist_den t6 (h_qr bp) 11 (nth_o gr 32%nat)). destruct R0 as (Er0 & Dr0 & Ir0).
  stepd R1 (via_rrlist_den (h_rr bp) t7 (h_qr bp) 15 (nth_o gr 33%nat)). destruct R1 as (Er1 & Dr1 & Ir1).
  stepd R2 (via_rrlist_den (h_rr bp) t8 (h_qr bp) 16 (nth_o gr 34%nat)). destruct R2 as (Er2 & Dr2 & Ir2).
  stepd R3 (via_rrlist_den (h_rr bp) t9 (h_qr bp) 17 (nth_o gr 35%nat)). destruct R3 as (Er3 & Dr3 & Ir3).
  intros He. chain tb'.
  repeat match goal with D : stable ?t _, H : tb_ext ?t tb' |- _ => specialize (D _ H) end.
  cbv beta in *.
  destruct (dec_ext_slot _ _ _ _ _ _ _ _ _ Dq0 Dq1 Dq2 Dq3 Iq0 Iq1 Iq2 Iq3) as [X11 Y11].
  destruct (dec_ext_slot _ _ _ _ _ _ _ _ _ Dr0 Dr1 Dr2 Dr3 Ir0 Ir1 Ir2 Ir3) as [X12 Y12].
  split.
  - unfold gen_qr2. cbn [fields_of nth_o nth]. unfold den in D1, D7. cbn [tidn] in D1, D7.
    unfold obind at 1. rewrite D1. unfold obind at 1. rewrite D4. unfold obind at 1. rewrite D7.
    unfold obind at 1. rewrite D10. unfold obind at 1. rewrite X11. unfold obind at 1. rewrite X12.
    reflexivity.
  - unfold exp_qr. unfold sig_exp in I4. change filled with (existsb (@is_some val)) in *. cbn [existsb] in *.
    rewrite I1, I4, I7, I10, Y11, Y12. rewrite !orb_assoc, !orb_false_r. reflexivity.
Qed.

Theorem gen_build_mm gm tb tb' : tb_ext (fst (build_mm gm tb)) tb' ->
  gen_mm (tbs_of_tables tb') (VR (snd (build_mm gm tb))) = Some (VR (exp_mm gm)) /\
  filled (snd (build_mm gm tb)) = filled (exp_mm gm).
Proof.
  unfold build_mm.
  stepd V1 (via_den tb T_ip (nth_o gm 1%nat)). destruct V1 as (E1 & D1 & I1).
  stepd V3 (via_den t T_ip (nth_o gm 3%nat)). destruct V3 as (E3 & D3 & I3).
  destruct (filled [o0; nth_o gm 4%nat; nth_o gm 5%nat; nth_o gm 6%nat]) eqn:F.
  - stepd VM (add_to_den t0 T_mmd (VR [o0; nth_o gm 4%nat; nth_o gm 5%nat; nth_o gm 6%nat])). destruct VM as (EM & DM).
    intros He. chain tb'.
    repeat match goal with D : stable ?t _, H : tb_ext ?t tb' |- _ => specialize (D _ H) end. cbv beta in *.
    unfold den in *. cbn [tidn] in *. split.
    + unfold gen_mm. cbn [fields_of nth_o nth]. unfold obind at 1. rewrite D1. unfold obind at 1. rewrite DM.
      cbn [fields_of nth_o nth]. unfold obind. rewrite D3. reflexivity.
    + unfold exp_mm. change filled with (existsb (@is_some val)) in *. cbn [existsb is_some] in *. rewrite I1, <- F, I3.
      rewrite !orb_assoc, !orb_false_r. reflexivity.
  - cbn [fst snd]. intros He. chain tb'.
    repeat match goal with D : stable ?t _, H : tb_ext ?t tb' |- _ => specialize (D _ H) end. cbv beta in *.
    unfold den in *. cbn [tidn] in *.
    pose proof (filled_false _ F) as HF.
    repeat match goal with H : Forall _ (_ :: _) |- _ => inversion H; clear H; subst end.
    pose proof (is_some_eq_none _ _ I3 eq_refl) as X3. split.
    + unfold gen_mm. cbn [fields_of nth_o nth]. unfold obind at 1. rewrite D1. cbn [tl_get obind fields_of nth_o nth].
      unfold exp_mm. repeat match goal with H : nth_o gm _ = None |- _ => rewrite H; clear H end. reflexivity.
    + unfold exp_mm. change filled with (existsb (@is_some val)) in *. cbn [existsb is_some] in *. rewrite I1.
      repeat match goal with H : nth_o gm _ = None |- _ => rewrite H; clear H end. cbn [is_some].
      rewrite !orb_assoc, !orb_false_r. reflexivity.
Qed.

(* address events: the key stored for a submitted event decodes to the submitted key members (the count is the block's) *)
Theorem gen_aec_key ga tb tb' c : tb_ext (fst (add_to tb T_ip (oval (nth_o ga 3%nat)))) tb' ->
  gen_aec (tbs_of_tables tb')
          (VR [nth_o ga 0%nat; nth_o ga 1%nat; Some (VN (snd (add_to tb T_ip (oval (nth_o ga 3%nat))))); nth_o ga 2%nat; Some (VN 0)], c)
  = Some (exp_aec ga c).
Proof.
  stepd V (add_to_den tb T_ip (oval (nth_o ga 3%nat))). destruct V as (E & D). intros He. specialize (D _ He).
  unfold den in D. cbn [tidn] in D. unfold gen_aec. cbn [fst snd fields_of nth_o nth]. unfold obind. rewrite D. reflexivity.
Qed.

(* ---------- C04 on the decoded side: a member whose hint is cleared is never returned ---------- *)
Lemma exp_qr_guard bp gr i : qr_guard bp i = false -> nth i (exp_qr bp gr) None = None.
Proof.
  unfold qr_guard, exp_qr, sigb, bit, exp_qsec, exp_rrsec.
  do 36 (destruct i as [|i]; [cbn [nth]; intros H;
         repeat match goal with
                | H : ?a && ?b = false |- _ => apply andb_false_iff in H; destruct H as [H|H]
                | H : N.testbit ?h ?k = false |- _ => rewrite H; clear H
                end; try reflexivity; repeat match goal with |- context [if ?c then _ else _] => destruct c end; reflexivity|]).
  cbn [nth]. destruct i as [|[|[|i]]]; intros H; try discriminate; destruct i; discriminate.
Qed.
Theorem decoded_respects_hints bp gr tb tb' l i : tb_ext (fst (build_qr bp gr tb)) tb' ->
  gen_qr (tbs_of_tables tb') (VR (snd (build_qr bp gr tb))) = Some (VR l) -> qr_guard bp i = false -> nth i l None = None.
Proof.
  intros He Hg Hi. destruct (gen_build_qr bp gr tb tb' He) as [G _]. rewrite G in Hg. inversion Hg; subst. apply exp_qr_guard. exact Hi.
Qed.
Lemma exp_rr_hints hrr g : exp_rr hrr g = VR [Some (oval (rr_name g)); Some (oval (rr_ct g)); (if N.testbit hrr 0 then rr_ttl g else None);
                                              (if N.testbit hrr 1 then rr_rdata g else None)].
Proof. reflexivity. Qed.
