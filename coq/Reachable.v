(* Reachable.v — C04 / C02: every entry of every block table is referred to - by a stored item or by an entry of another table - and, the
   reference graph being layered (items -> signatures, lists, message data -> questions, resource records -> addresses, class/types,
   names), reachable from a stored item.  For every block the generic add_* functions build, over every history. *)
Require Import Base Cbor EncoderModel DecoderModel Schema Timestamp Block BlockProofs Exporter ExporterProofs.
Local Open Scope N_scope.

(* ---------- the index occurrences ---------- *)
Definition ix (t : tid) (ov : option val) : list (tid * N) := match ov with Some (VN i) => [(t, i)] | _ => [] end.
Definition ixs (t : tid) (v : val) : list (tid * N) :=
  match v with VL l => flat_map (fun x => match x with VN i => [(t, i)] | _ => [] end) l | _ => [] end.
Definition sub (ov : option val) (k : nat) : option val := match ov with Some (VR l) => nth_o l k | _ => None end.

(* the indices a table entry stores, with the table each one points into *)
Definition refs_entry (t : tid) (e : val) : list (tid * N) :=
  match t, e with
  | T_sig, VR l => ix T_ip (nth_o l 0) ++ ix T_ct (nth_o l 8) ++ ix T_nr (nth_o l 15)
  | T_qlist, v => ixs T_qrr v
  | T_rrlist, v => ixs T_rr v
  | T_qrr, VR l => ix T_nr (nth_o l 0) ++ ix T_ct (nth_o l 1)
  | T_rr, VR l => ix T_nr (nth_o l 0) ++ ix T_ct (nth_o l 1) ++ ix T_nr (nth_o l 3)
  | T_mmd, VR l => ix T_ip (nth_o l 0)
  | _, _ => []
  end.
(* ... a query/response item, a malformed-message item, an address-event key *)
Definition refs_qr (it : val) : list (tid * N) :=
  match it with
  | VR l => ix T_ip (nth_o l 1) ++ ix T_sig (nth_o l 4) ++ ix T_nr (nth_o l 7) ++ ix T_nr (sub (nth_o l 10) 0) ++
            ix T_qlist (sub (nth_o l 11) 0) ++ ix T_rrlist (sub (nth_o l 11) 1) ++ ix T_rrlist (sub (nth_o l 11) 2) ++ ix T_rrlist (sub (nth_o l 11) 3) ++
            ix T_qlist (sub (nth_o l 12) 0) ++ ix T_rrlist (sub (nth_o l 12) 1) ++ ix T_rrlist (sub (nth_o l 12) 2) ++ ix T_rrlist (sub (nth_o l 12) 3)
  | _ => []
  end.
Definition refs_mm (it : val) : list (tid * N) := match it with VR l => ix T_ip (nth_o l 1) ++ ix T_mmd (nth_o l 3) | _ => [] end.
Definition refs_aec (kc : val * N) : list (tid * N) := match fst kc with VR l => ix T_ip (nth_o l 2) | _ => [] end.

Definition table_refs (tb : tables) : list (tid * N) := flat_map (fun t => flat_map (refs_entry t) (tget tb t)) all_tids.
Definition item_refs (b : blk) : list (tid * N) := flat_map refs_qr (b_qrs b) ++ flat_map refs_aec (b_aecs b) ++ flat_map refs_mm (b_mms b).

(* every entry is referred to *)
Definition covered (b : blk) : Prop :=
  forall t i, i < N.of_nat (length (tget (b_tb b) t)) -> In (t, i) (item_refs b) \/ In (t, i) (table_refs (b_tb b)).

(* ---------- reachability proper: from the items, through entries ---------- *)
Inductive reach (b : blk) : tid -> N -> Prop :=
| reach_item t i : In (t, i) (item_refs b) -> reach b t i
| reach_entry t i e t' j : reach b t i -> nth_error (tget (b_tb b) t) (N.to_nat i) = Some e -> In (t', j) (refs_entry t e) -> reach b t' j.

(* the layers: an entry only refers to entries of a deeper layer *)
Definition rank (t : tid) : nat :=
  match t with T_sig | T_qlist | T_rrlist | T_mmd => 1 | T_qrr | T_rr => 2 | T_ip | T_ct | T_nr => 3 end%nat.
Lemma ix_in t ov t' j : In (t', j) (ix t ov) -> t' = t.
Proof. unfold ix. destruct ov as [[n| | | | |]|]; cbn; intros H; try contradiction. destruct H as [H|[]]. inversion H. reflexivity. Qed.
Lemma ixs_in t v t' j : In (t', j) (ixs t v) -> t' = t.
Proof.
  unfold ixs. destruct v as [| | | |l|]; try contradiction. intros H. apply in_flat_map in H. destruct H as (x & _ & H).
  destruct x; try contradiction. destruct H as [H|[]]. inversion H. reflexivity.
Qed.
Lemma refs_entry_deeper t e t' j : In (t', j) (refs_entry t e) -> (rank t < rank t')%nat.
Proof.
  unfold refs_entry. destruct t; try contradiction; try (destruct e; try contradiction);
    repeat (rewrite in_app_iff; intros [H|H]; [apply ix_in in H; subst; cbn; lia|revert H]);
    intros H; try (apply ix_in in H; subst; cbn; lia); try (apply ixs_in in H; subst; cbn; lia).
Qed.

Lemma in_table_refs tb t e t' j : In e (tget tb t) -> In (t', j) (refs_entry t e) -> In (t', j) (table_refs tb).
Proof.
  intros He Hr. unfold table_refs. apply in_flat_map. exists t. split; [destruct t; cbn; tauto|]. apply in_flat_map. exists e. split; assumption.
Qed.
Lemma table_refs_inv tb t' j : In (t', j) (table_refs tb) -> exists t e, In e (tget tb t) /\ In (t', j) (refs_entry t e).
Proof.
  unfold table_refs. intros H. apply in_flat_map in H. destruct H as (t & _ & H). apply in_flat_map in H. destruct H as (e & He & Hr). exists t, e. auto.
Qed.

(* a referring entry has an index below the length of its table, hence is itself covered *)
Theorem covered_reach b : covered b -> forall t i, i < N.of_nat (length (tget (b_tb b) t)) -> reach b t i.
Proof.
  intros C. assert (H : forall n t, (rank t <= n)%nat -> forall i, i < N.of_nat (length (tget (b_tb b) t)) -> reach b t i).
  { induction n as [|n IH]; intros t Hr i Hi; [destruct t; cbn in Hr; lia|].
    destruct (C t i Hi) as [Hit|Htb]; [apply reach_item; exact Hit|].
    apply table_refs_inv in Htb. destruct Htb as (t0 & e & He & Hre).
    pose proof (refs_entry_deeper _ _ _ _ Hre) as Hd.
    apply In_nth_error in He. destruct He as [k Hk].
    assert (Hk2 : (k < length (tget (b_tb b) t0))%nat) by (apply nth_error_Some; congruence).
    apply (reach_entry b t0 (N.of_nat k) e t i); [apply IH; lia|rewrite Nat2N.id; exact Hk|exact Hre]. }
  intros t i Hi. apply (H 3%nat t); [destruct t; cbn; lia|exact Hi].
Qed.

(* ---------- building: what a sequence of table insertions owes ----------
   [ok tb tb' R]: tb' extends tb, and every entry of tb' that tb does not have is referred to by an entry of tb' or is among the indices R
   handed back to the caller (who must store them) *)
Definition ok (tb tb' : tables) (R : list (tid * N)) : Prop :=
  tb_ext tb tb' /\
  forall t i, N.of_nat (length (tget tb t)) <= i < N.of_nat (length (tget tb' t)) -> In (t, i) R \/ In (t, i) (table_refs tb').

Lemma ext_in tb tb' t e : tb_ext tb tb' -> In e (tget tb t) -> In e (tget tb' t).
Proof. intros H He. destruct (H t) as [suf E]. rewrite E. apply in_or_app. left. exact He. Qed.
Lemma table_refs_mono tb tb' r : tb_ext tb tb' -> In r (table_refs tb) -> In r (table_refs tb').
Proof. intros H Hr. destruct r as [t' j]. apply table_refs_inv in Hr. destruct Hr as (t & e & He & Hre). eapply in_table_refs; [eapply ext_in; eauto|exact Hre]. Qed.
Lemma ext_len tb tb' t : tb_ext tb tb' -> (length (tget tb t) <= length (tget tb' t))%nat.
Proof. intros H. destruct (H t) as [suf E]. rewrite E, app_length. lia. Qed.

Lemma ok_refl tb : ok tb tb [].
Proof. split; [apply tb_ext_refl|]. intros t i H. lia. Qed.
Lemma ok_weaken tb tb' R R' : ok tb tb' R -> incl R R' -> ok tb tb' R'.
Proof. intros [E F] Hi. split; auto. intros t i H. destruct (F t i H) as [H1|H1]; auto. Qed.

(* one insertion: the entry v goes into table t (or is found there); the indices it stores are no longer owed, its own index is *)
Lemma add_to_fresh tb t v : let tb' := fst (add_to tb t v) in let i := snd (add_to tb t v) in
  tb_ext tb tb' /\ In v (tget tb' t) /\ nth_error (tget tb' t) (N.to_nat i) = Some v /\
  forall t0 k, N.of_nat (length (tget tb t0)) <= k < N.of_nat (length (tget tb' t0)) -> t0 = t /\ k = i.
Proof.
  cbv zeta. pose proof (add_to_good tb t v) as [_ He]. pose proof (add_to_get tb t v) as Hg.
  split; [exact He|]. split; [eapply nth_error_In; exact Hg|]. split; [exact Hg|].
  unfold add_to in *. destruct (tadd (tget tb t) v) as [l i] eqn:E. cbn [fst snd] in *.
  intros t0 k Hk. rewrite tget_tset in Hk.
  unfold tadd in E. destruct (tfind (tget tb t) v) as [j|] eqn:Ef.
  - inversion E; subst. exfalso. destruct t, t0; lia.
  - inversion E; subst. destruct t, t0; try lia; rewrite app_length in Hk; cbn [length] in Hk; (split; [reflexivity|lia]).
Qed.

Lemma ok_add tb tb1 Rkeep Rgo t v : ok tb tb1 (Rkeep ++ Rgo) -> incl Rgo (refs_entry t v) ->
  ok tb (fst (add_to tb1 t v)) (Rkeep ++ [(t, snd (add_to tb1 t v))]).
Proof.
  intros [E F] Hgo. destruct (add_to_fresh tb1 t v) as (E2 & Hin & _ & Hfr). cbv zeta in *.
  split; [eapply tb_ext_trans; eauto|]. intros t0 k Hk.
  destruct (N.lt_ge_cases k (N.of_nat (length (tget tb1 t0)))) as [Hlt|Hge].
  - destruct (F t0 k) as [H1|H1]; [lia| |right; eapply table_refs_mono; eauto].
    apply in_app_or in H1. destruct H1 as [H1|H1]; [left; apply in_or_app; left; exact H1|].
    right. eapply in_table_refs; [exact Hin|apply Hgo; exact H1].
  - destruct (Hfr t0 k) as [-> ->]; [lia|]. left. apply in_or_app. right. left. reflexivity.
Qed.

(* a leaf value stored through a table (addresses, class/types, names) *)
Lemma ok_via tb tb1 R t ov : (forall v, refs_entry t v = []) -> ok tb tb1 R -> ok tb (fst (via tb1 t ov)) (R ++ ix t (snd (via tb1 t ov))).
Proof.
  intros Hleaf H. unfold via. destruct ov as [v|]; [|cbn [fst snd ix]; rewrite app_nil_r; exact H].
  pose proof (ok_add tb tb1 R [] t v) as H2. rewrite app_nil_r in H2. specialize (H2 H (incl_nil_l _)).
  destruct (add_to tb1 t v) as [tb2 i]. cbn [fst snd ix] in *. exact H2.
Qed.
Lemma leaf_ip v : refs_entry T_ip v = []. Proof. reflexivity. Qed.
Lemma leaf_ct v : refs_entry T_ct v = []. Proof. reflexivity. Qed.
Lemma leaf_nr v : refs_entry T_nr v = []. Proof. reflexivity. Qed.

(* question lists *)
Lemma ok_add_questions : forall gl tb tb1 R racc, ok tb tb1 (R ++ ixs T_qrr (VL (rev racc))) ->
  ok tb (fst (add_questions tb1 gl racc)) (R ++ ixs T_qrr (VL (snd (add_questions tb1 gl racc)))).
Proof.
  induction gl as [|g gl IH]; intros tb tb1 R racc H; cbn [add_questions].
  - cbn [fst snd]. rewrite frev_rev. exact H.
  - pose proof (ok_via tb tb1 _ T_nr (Some (oval (rr_name g))) leaf_nr H) as H1. unfold via in H1.
    destruct (add_to tb1 T_nr (oval (rr_name g))) as [tb2 ni]. cbn [fst snd ix] in H1.
    pose proof (ok_via tb tb2 _ T_ct (Some (oval (rr_ct g))) leaf_ct H1) as H2. unfold via in H2.
    destruct (add_to tb2 T_ct (oval (rr_ct g))) as [tb3 ci]. cbn [fst snd ix] in H2.
    rewrite <- !app_assoc in H2.
    pose proof (ok_add tb tb3 (R ++ ixs T_qrr (VL (rev racc))) ([(T_nr, ni)] ++ [(T_ct, ci)]) T_qrr (VR [Some (VN ni); Some (VN ci)])) as H3.
    rewrite <- app_assoc in H3. specialize (H3 H2).
    assert (Hi : incl ([(T_nr, ni)] ++ [(T_ct, ci)]) (refs_entry T_qrr (VR [Some (VN ni); Some (VN ci)]))) by (cbn; apply incl_refl).
    specialize (H3 Hi). destruct (add_to tb3 T_qrr (VR [Some (VN ni); Some (VN ci)])) as [tb4 qi]. cbn [fst snd] in H3.
    apply IH. cbn [rev]. unfold ixs in *. rewrite flat_map_app. cbn [flat_map]. rewrite app_nil_r, <- app_assoc in *. exact H3.
Qed.
Lemma ok_qlist tb tb1 R gl : ok tb tb1 R -> ok tb (fst (add_generic_qlist tb1 gl)) (R ++ [(T_qlist, snd (add_generic_qlist tb1 gl))]).
Proof.
  intros H. unfold add_generic_qlist.
  pose proof (ok_add_questions gl tb tb1 R []) as H1. cbn [rev ixs flat_map] in H1. rewrite app_nil_r in H1. specialize (H1 H).
  destruct (add_questions tb1 gl []) as [tb2 ixl]. cbn [fst snd] in H1.
  pose proof (ok_add tb tb2 R (ixs T_qrr (VL ixl)) T_qlist (VL ixl) H1 (incl_refl _)) as H2.
  destruct (add_to tb2 T_qlist (VL ixl)) as [tb3 i]. exact H2.
Qed.
Lemma ok_via_qlist tb tb1 R h b ov : ok tb tb1 R -> ok tb (fst (via_qlist tb1 h b ov)) (R ++ ix T_qlist (snd (via_qlist tb1 h b ov))).
Proof.
  intros H. unfold via_qlist. destruct (N.testbit h b); [|cbn [fst snd ix]; rewrite app_nil_r; exact H].
  destruct (section ov) as [gl|]; [|cbn [fst snd ix]; rewrite app_nil_r; exact H].
  pose proof (ok_qlist tb tb1 R gl H) as H1. destruct (add_generic_qlist tb1 gl) as [tb2 i]. exact H1.
Qed.

(* resource-record lists *)
Lemma ok_add_rrs hrr : forall gl tb tb1 R racc, ok tb tb1 (R ++ ixs T_rr (VL (rev racc))) ->
  ok tb (fst (add_rrs hrr tb1 gl racc)) (R ++ ixs T_rr (VL (snd (add_rrs hrr tb1 gl racc)))).
Proof.
  induction gl as [|g gl IH]; intros tb tb1 R racc H; cbn [add_rrs].
  - cbn [fst snd]. rewrite frev_rev. exact H.
  - pose proof (ok_via tb tb1 _ T_nr (Some (oval (rr_name g))) leaf_nr H) as H1. unfold via in H1.
    destruct (add_to tb1 T_nr (oval (rr_name g))) as [tb2 ni]. cbn [fst snd ix] in H1.
    pose proof (ok_via tb tb2 _ T_ct (Some (oval (rr_ct g))) leaf_ct H1) as H2. unfold via in H2.
    destruct (add_to tb2 T_ct (oval (rr_ct g))) as [tb3 ci]. cbn [fst snd ix] in H2.
    pose proof (ok_via tb tb3 _ T_nr (bit hrr 1 (rr_rdata g)) leaf_nr H2) as H3.
    destruct (via tb3 T_nr (bit hrr 1 (rr_rdata g))) as [tb4 rd]. cbn [fst snd] in H3.
    rewrite <- !app_assoc in H3.
    pose proof (ok_add tb tb4 (R ++ ixs T_rr (VL (rev racc))) ([(T_nr, ni)] ++ [(T_ct, ci)] ++ ix T_nr rd) T_rr (VR [Some (VN ni); Some (VN ci); bit hrr 0 (rr_ttl g); rd])) as H4.
    rewrite <- app_assoc in H4. specialize (H4 H3).
    assert (Hi : incl ([(T_nr, ni)] ++ [(T_ct, ci)] ++ ix T_nr rd) (refs_entry T_rr (VR [Some (VN ni); Some (VN ci); bit hrr 0 (rr_ttl g); rd]))) by (cbn; apply incl_refl).
    specialize (H4 Hi). destruct (add_to tb4 T_rr _) as [tb5 ri]. cbn [fst snd] in H4.
    apply IH. cbn [rev]. unfold ixs in *. rewrite flat_map_app. cbn [flat_map]. rewrite app_nil_r, <- app_assoc in *. exact H4.
Qed.
Lemma ok_rrlist hrr tb tb1 R gl : ok tb tb1 R -> ok tb (fst (add_generic_rrlist hrr tb1 gl)) (R ++ [(T_rrlist, snd (add_generic_rrlist hrr tb1 gl))]).
Proof.
  intros H. unfold add_generic_rrlist.
  pose proof (ok_add_rrs hrr gl tb tb1 R []) as H1. cbn [rev ixs flat_map] in H1. rewrite app_nil_r in H1. specialize (H1 H).
  destruct (add_rrs hrr tb1 gl []) as [tb2 ixl]. cbn [fst snd] in H1.
  pose proof (ok_add tb tb2 R (ixs T_rr (VL ixl)) T_rrlist (VL ixl) H1 (incl_refl _)) as H2.
  destruct (add_to tb2 T_rrlist (VL ixl)) as [tb3 i]. exact H2.
Qed.
Lemma ok_via_rrlist hrr tb tb1 R h b ov : ok tb tb1 R -> ok tb (fst (via_rrlist hrr tb1 h b ov)) (R ++ ix T_rrlist (snd (via_rrlist hrr tb1 h b ov))).
Proof.
  intros H. unfold via_rrlist. destruct (N.testbit h b); [|cbn [fst snd ix]; rewrite app_nil_r; exact H].
  destruct (section ov) as [gl|]; [|cbn [fst snd ix]; rewrite app_nil_r; exact H].
  pose proof (ok_rrlist hrr tb tb1 R gl H) as H1. destruct (add_generic_rrlist hrr tb1 gl) as [tb2 i]. exact H1.
Qed.

(* ---------- one generic query/response ---------- *)
Lemma filled_false l : filled l = false -> forall o, In o l -> o = None.
Proof.
  unfold filled. intros H o Ho. destruct o as [v|]; [|reflexivity]. exfalso.
  assert (existsb (fun o => match o with Some _ => true | None => false end) l = true) by (apply existsb_exists; exists (Some v); auto). congruence.
Qed.
Ltac stepok H f := pose proof f as H; match type of H with ok _ (fst ?e) _ => destruct e as [? ?]; cbn [fst snd] in H end.

Lemma ok_build_qr bp gr tb tb1 R : ok tb tb1 R -> ok tb (fst (build_qr bp gr tb1)) (R ++ refs_qr (VR (snd (build_qr bp gr tb1)))).
Proof.
  intros H0. unfold build_qr.
  stepok H1 (ok_via tb tb1 R T_ip (bit (h_qr bp) 1 (nth_o gr 1)) leaf_ip H0).
  set (R1 := R ++ ix T_ip o) in *.
  (* the signature *)
  match goal with |- context [if N.testbit (h_qr bp) 4 then ?a else ?b] =>
    assert (H2 : ok tb (fst (if N.testbit (h_qr bp) 4 then a else b)) (R1 ++ ix T_sig (snd (if N.testbit (h_qr bp) 4 then a else b)))) end.
  { destruct (N.testbit (h_qr bp) 4); [|cbn [fst snd ix]; rewrite app_nil_r; exact H1].
    stepok Ha (ok_via tb t R1 T_ip (bit (h_sig bp) 0 (nth_o gr 4)) leaf_ip H1).
    stepok Hb (ok_via tb t0 _ T_ct (bit (h_sig bp) 8 (nth_o gr 12)) leaf_ct Ha).
    stepok Hc (ok_via tb t1 _ T_nr (bit (h_sig bp) 15 (nth_o gr 19)) leaf_nr Hb).
    rewrite <- !app_assoc in Hc.
    match goal with |- context [if filled ?s then _ else _] => destruct (filled s) eqn:Ef end.
    - match goal with |- context [add_to ?tb2 T_sig ?v] =>
        pose proof (ok_add tb tb2 R1 (ix T_ip o0 ++ ix T_ct o1 ++ ix T_nr o2) T_sig v Hc) as Hd; destruct (add_to tb2 T_sig v) as [tb3 i3] end.
      cbn [fst snd ix] in *. apply Hd. cbn [refs_entry nth_o nth]. apply incl_refl.
    - cbn [fst snd ix]. rewrite app_nil_r.
      rewrite (filled_false _ Ef o0), (filled_false _ Ef o1), (filled_false _ Ef o2) in Hc by (cbn; tauto).
      cbn [ix app] in Hc. rewrite app_nil_r in Hc. exact Hc. }
  match goal with |- context [let '(_, _) := ?e in _] => destruct e as [tb2 s4] end. cbn [fst snd] in H2.
  stepok H3 (ok_via tb tb2 _ T_nr (bit (h_qr bp) 7 (nth_o gr 23)) leaf_nr H2).
  (* response processing data *)
  match goal with |- context [if N.testbit (h_qr bp) 10 then ?a else ?b] =>
    assert (H4 : ok tb (fst (if N.testbit (h_qr bp) 10 then a else b)) ((R1 ++ ix T_sig s4) ++ ix T_nr o0 ++ ix T_nr (sub (snd (if N.testbit (h_qr bp) 10 then a else b)) 0))) end.
  { rewrite <- app_assoc in H3. destruct (N.testbit (h_qr bp) 10); [|cbn [fst snd sub ix]; rewrite app_nil_r; rewrite <- app_assoc; exact H3].
    stepok Ha (ok_via tb t0 _ T_nr (nth_o gr 26) leaf_nr H3).
    match goal with |- context [if filled ?s then _ else _] => destruct (filled s) eqn:Ef end; cbn [fst snd sub nth_o nth].
    - rewrite <- !app_assoc in *. exact Ha.
    - rewrite (filled_false _ Ef o1) in Ha by (cbn; tauto). cbn [ix] in *. rewrite <- !app_assoc in *. exact Ha. }
  match goal with |- context [let '(_, _) := ?e in _] => destruct e as [tb4 s10] end. cbn [fst snd] in H4.
  stepok H5 (ok_via_qlist tb tb4 _ (h_qr bp) 11 (nth_o gr 28) H4).
  stepok H6 (ok_via_rrlist (h_rr bp) tb t1 _ (h_qr bp) 12 (nth_o gr 29) H5).
  stepok H7 (ok_via_rrlist (h_rr bp) tb t2 _ (h_qr bp) 13 (nth_o gr 30) H6).
  stepok H8 (ok_via_rrlist (h_rr bp) tb t3 _ (h_qr bp) 14 (nth_o gr 31) H7).
  stepok H9 (ok_via_qlist tb t4 _ (h_qr bp) 11 (nth_o gr 32) H8).
  stepok H10 (ok_via_rrlist (h_rr bp) tb t5 _ (h_qr bp) 15 (nth_o gr 33) H9).
  stepok H11 (ok_via_rrlist (h_rr bp) tb t6 _ (h_qr bp) 16 (nth_o gr 34) H10).
  stepok H12 (ok_via_rrlist (h_rr bp) tb t7 _ (h_qr bp) 17 (nth_o gr 35) H11).
  cbn [fst snd]. eapply ok_weaken; [exact H12|].
  unfold refs_qr. cbn [nth_o nth]. unfold R1.
  assert (Hq : forall a b c d rest, ix T_qlist a ++ ix T_rrlist b ++ ix T_rrlist c ++ ix T_rrlist d ++ rest =
            ix T_qlist (sub (if filled [a; b; c; d] then Some (VR [a; b; c; d]) else None) 0) ++ ix T_rrlist (sub (if filled [a; b; c; d] then Some (VR [a; b; c; d]) else None) 1) ++
            ix T_rrlist (sub (if filled [a; b; c; d] then Some (VR [a; b; c; d]) else None) 2) ++ ix T_rrlist (sub (if filled [a; b; c; d] then Some (VR [a; b; c; d]) else None) 3) ++ rest).
  { intros a b c d rest. destruct (filled [a; b; c; d]) eqn:Ef; [reflexivity|].
    rewrite (filled_false _ Ef a), (filled_false _ Ef b), (filled_false _ Ef c), (filled_false _ Ef d) by (cbn; tauto). reflexivity. }
  rewrite <- (Hq o1 o2 o3 o4), <- (app_nil_r (ix T_rrlist (sub (if filled [o5; o6; o7; o8] then _ else _) 3))), <- (Hq o5 o6 o7 o8 []).
  rewrite !app_nil_r, <- !app_assoc. apply incl_refl.
Qed.

Lemma ok_build_mm gm tb tb1 R : ok tb tb1 R -> ok tb (fst (build_mm gm tb1)) (R ++ refs_mm (VR (snd (build_mm gm tb1)))).
Proof.
  intros H0. unfold build_mm.
  stepok H1 (ok_via tb tb1 R T_ip (nth_o gm 1) leaf_ip H0).
  stepok H2 (ok_via tb t _ T_ip (nth_o gm 3) leaf_ip H1).
  match goal with |- context [if filled ?s then _ else _] => destruct (filled s) eqn:Ef end.
  - rewrite <- app_assoc in H2.
    match goal with |- context [add_to ?tb2 T_mmd ?v] =>
      pose proof (ok_add tb tb2 (R ++ ix T_ip o) (ix T_ip o0) T_mmd v) as Hd; destruct (add_to tb2 T_mmd v) as [tb3 i3] end.
    rewrite <- app_assoc in Hd. specialize (Hd H2). cbn [fst snd refs_mm nth_o nth ix] in *. rewrite <- app_assoc in Hd. apply Hd.
    cbn [refs_entry nth_o nth]. apply incl_refl.
  - cbn [fst snd refs_mm nth_o nth ix]. rewrite (filled_false _ Ef o0) in H2 by (cbn; tauto). cbn [ix] in H2. rewrite !app_nil_r in *. exact H2.
Qed.

(* ---------- the block ---------- *)
Lemma refs_qr_unfilled item : filled item = false -> refs_qr (VR item) = [].
Proof.
  intros H. unfold refs_qr.
  assert (Hn : forall k, nth_o item k = None).
  { intros k. unfold nth_o. destruct (nth_in_or_default k item None) as [Hin|Hd]; [apply (filled_false _ H); exact Hin|exact Hd]. }
  rewrite !Hn. reflexivity.
Qed.
Lemma refs_mm_unfilled item : filled item = false -> refs_mm (VR item) = [].
Proof.
  intros H. unfold refs_mm.
  assert (Hn : forall k, nth_o item k = None).
  { intros k. unfold nth_o. destruct (nth_in_or_default k item None) as [Hin|Hd]; [apply (filled_false _ H); exact Hin|exact Hd]. }
  rewrite !Hn. reflexivity.
Qed.

(* the general step: the tables grow by insertions that owe R, and the items afterwards refer to at least what they did plus R *)
Lemma covered_step b b' R : covered b -> ok (b_tb b) (b_tb b') R ->
  incl (item_refs b) (item_refs b') -> incl R (item_refs b') -> covered b'.
Proof.
  intros C [E F] Hold Hnew t i Hi.
  destruct (N.lt_ge_cases i (N.of_nat (length (tget (b_tb b) t)))) as [Hlt|Hge].
  - destruct (C t i Hlt) as [H|H]; [left; apply Hold; exact H|right; eapply table_refs_mono; eauto].
  - destruct (F t i) as [H|H]; [lia|left; apply Hnew; exact H|right; exact H].
Qed.

Lemma add_qr_covered gr st b : covered b -> covered (fst (add_qr gr st b)).
Proof.
  intros C. unfold add_qr. pose proof (ok_build_qr (b_bp b) gr (b_tb b) (b_tb b) [] (ok_refl _)) as H.
  destruct (build_qr (b_bp b) gr (b_tb b)) as [tb item]. cbn [fst snd app] in *.
  apply (covered_step b _ (refs_qr (VR item)) C); cbn [b_tb b_qrs b_aecs b_mms]; [exact H| |].
  - unfold item_refs. cbn [b_qrs b_aecs b_mms]. destruct (filled item); [rewrite flat_map_app|]; intros r Hr; repeat (rewrite in_app_iff in *); tauto.
  - unfold item_refs. cbn [b_qrs b_aecs b_mms]. destruct (filled item) eqn:Ef.
    + rewrite flat_map_app. cbn [flat_map]. rewrite app_nil_r. intros r Hr. repeat (rewrite in_app_iff); tauto.
    + rewrite (refs_qr_unfilled _ Ef). apply incl_nil_l.
Qed.

Lemma add_mm_covered gm st b : covered b -> covered (fst (add_mm gm st b)).
Proof.
  intros C. unfold add_mm. destruct (negb (N.testbit (h_other (b_bp b)) 0)); [exact C|].
  pose proof (ok_build_mm gm (b_tb b) (b_tb b) [] (ok_refl _)) as H.
  destruct (build_mm gm (b_tb b)) as [tb item]. cbn [fst snd app] in *.
  apply (covered_step b _ (refs_mm (VR item)) C); cbn [b_tb b_qrs b_aecs b_mms]; [exact H| |].
  - unfold item_refs. cbn [b_qrs b_aecs b_mms]. destruct (filled item); [rewrite flat_map_app|]; intros r Hr; repeat (rewrite in_app_iff in *); tauto.
  - unfold item_refs. cbn [b_qrs b_aecs b_mms]. destruct (filled item) eqn:Ef.
    + rewrite flat_map_app. cbn [flat_map]. rewrite app_nil_r. intros r Hr. repeat (rewrite in_app_iff); tauto.
    + rewrite (refs_mm_unfilled _ Ef). apply incl_nil_l.
Qed.

(* address events: the key list keeps every key it has (a repeated key only bumps its count) and gains the new one *)
Lemma aec_bump_refs : forall l k, incl (flat_map refs_aec l) (flat_map refs_aec (aec_bump l k)) /\ incl (refs_aec (k, 1)) (flat_map refs_aec (aec_bump l k)).
Proof.
  induction l as [|[k' c] l IH]; intros k; cbn [aec_bump flat_map].
  - rewrite app_nil_r. split; [apply incl_nil_l|apply incl_refl].
  - destruct (val_eqb k' k) eqn:E.
    + apply val_eqb_eq in E. subst. cbn [flat_map]. unfold refs_aec at 1 3 4. cbn [fst]. split; [apply incl_refl|apply incl_appl; apply incl_refl].
    + cbn [flat_map]. destruct (IH k) as [H1 H2]. split; [apply incl_app; [apply incl_appl; apply incl_refl|apply incl_appr; exact H1]|apply incl_appr; exact H2].
Qed.
Lemma add_aec_covered ga st b : covered b -> covered (fst (add_aec ga st b)).
Proof.
  intros C. unfold add_aec. destruct (negb (N.testbit (h_other (b_bp b)) 1)); [exact C|].
  pose proof (ok_via (b_tb b) (b_tb b) [] T_ip (Some (oval (nth_o ga 3))) leaf_ip (ok_refl _)) as H. unfold via in H.
  destruct (add_to (b_tb b) T_ip (oval (nth_o ga 3))) as [tb i]. cbn [fst snd app ix] in *.
  set (key := VR [nth_o ga 0; nth_o ga 1; Some (VN i); nth_o ga 2; Some (VN 0)]).
  destruct (aec_bump_refs (b_aecs b) key) as [H1 H2].
  apply (covered_step b _ [(T_ip, i)] C); cbn [b_tb b_qrs b_aecs b_mms]; [exact H| |].
  - unfold item_refs. cbn [b_qrs b_aecs b_mms]. intros r Hr. repeat (rewrite in_app_iff in *). destruct Hr as [Hr|[Hr|Hr]]; auto.
  - unfold item_refs. cbn [b_qrs b_aecs b_mms]. intros r Hr. repeat (rewrite in_app_iff). right. left. apply H2. exact Hr.
Qed.

Lemma empty_covered bp bpi e st : covered (mkBlk e bpi bp st tables_empty [] [] []).
Proof. intros t i Hi. destruct t; cbn in Hi; lia. Qed.

(* ---------- over histories: the buffered block and every block written ---------- *)
Definition covered_inv (x : exporter) : Prop := Forall covered (x_blk x :: x_done x).

Lemma write_block_covered x : covered_inv x -> covered_inv (fst (write_block x)).
Proof.
  intros H. unfold covered_inv in *. pose proof (write_block_fields x) as (Hd & _).
  inversion H as [|? ? Hb Hdn]; subst. constructor.
  - unfold write_block. destruct (write_block_ext x (x_blk x)) as [x1 r]. unfold blk_set_bp. rewrite item_count_clear.
    cbn [N.ltb N.compare fst x_blk with_blk blk_clear b_earliest b_stats b_tb b_qrs b_aecs b_mms]. apply empty_covered.
  - rewrite Hd. destruct (item_count (x_blk x) =? 0); auto. apply Forall_app. split; auto.
Qed.
Lemma buffer_covered add x : covered_inv x -> covered (fst (add (x_blk x))) -> covered_inv (fst (buffer add x)).
Proof.
  intros H Hb. unfold buffer. destruct (add (x_blk x)) as [b' f]. cbn [fst] in Hb.
  assert (H1 : covered_inv (with_blk x b')) by (unfold covered_inv in *; cbn [with_blk x_blk x_done]; inversion H; subst; constructor; auto).
  destruct f; [apply write_block_covered; auto|exact H1].
Qed.
Theorem xstep_covered x o : covered_inv x -> covered_inv (fst (xstep x o)).
Proof.
  intros H. pose proof (Forall_inv H) as Hb. destruct o as [gr st|ga st|gm st| |e|bp|i]; cbn [xstep] in *.
  - apply buffer_covered; auto. apply add_qr_covered; auto.
  - apply buffer_covered; auto. apply add_aec_covered; auto.
  - apply buffer_covered; auto. apply add_mm_covered; auto.
  - apply write_block_covered; auto.
  - unfold rotate. destruct e.
    + pose proof (write_block_covered x H) as H1. destruct (write_block x) as [x1 r1]. destruct (if 0 <? x_written x1 then _ else _). exact H1.
    + destruct (if 0 <? x_written x then _ else _). exact H.
  - exact H.
  - unfold set_active. destruct (_ <=? _); exact H.
Qed.
Lemma x_new_covered pre : covered_inv (x_new pre).
Proof.
  unfold x_new, covered_inv, blk_new.
  destruct pre as [| | | | |[|ma [|mi [|pv [|[[| | | |ps|]|] [|? ?]]]]]]; cbn [x_blk x_done]; (constructor; [apply empty_covered|constructor]).
Qed.
(* every block a history writes, and the one still buffered: every table entry is reachable from a stored item *)
Theorem history_entries_reachable pre ops : Forall (fun b => forall t i, i < N.of_nat (length (tget (b_tb b) t)) -> reach b t i)
                                                   (x_blk (xrun (x_new pre) ops) :: x_done (xrun (x_new pre) ops)).
Proof.
  assert (H : covered_inv (xrun (x_new pre) ops)).
  { unfold xrun. generalize (x_new_covered pre). generalize (x_new pre). induction ops as [|o ops IH]; intros x Hx; cbn [fold_left]; [exact Hx|].
    apply IH. apply xstep_covered. exact Hx. }
  unfold covered_inv in H. rewrite Forall_forall in *. intros b Hb. apply covered_reach. apply H. exact Hb.
Qed.
