Require Import Base Timestamp.
Local Open Scope Z_scope.

Definition instant (t : ts) (tps : Z) : Z := secs t * tps + ticks t.
Definition normalised (t : ts) (tps : Z) : Prop := 0 <= secs t /\ 0 <= ticks t < tps.
(* the representable range of the property: rate in [1, 2^64), instant below 2^63, members are uint64 *)
Definition rate_ok (tps : Z) : Prop := 1 <= tps < M64.
Definition ts_ok (t : ts) (tps : Z) : Prop := 0 <= secs t /\ 0 <= ticks t /\ instant t tps < M63.

Lemma to_i64_small z : 0 <= z < M63 -> to_i64 z = z.
Proof.
  intros H. unfold to_i64. rewrite Z.mod_small by (unfold M64, M63 in *; lia).
  assert (z <? M63 = true) as -> by lia. reflexivity.
Qed.

Lemma total_ticks_ok t tps : rate_ok tps -> ts_ok t tps -> total_ticks t tps = instant t tps.
Proof.
  intros Hr (Hs & Ht & Hi). unfold total_ticks. apply to_i64_small. unfold instant in *.
  unfold rate_ok in Hr. nia.
Qed.

Lemma instant_nonneg t tps : rate_ok tps -> ts_ok t tps -> 0 <= instant t tps.
Proof. intros Hr (Hs & Ht & Hi). unfold instant, rate_ok in *. nia. Qed.

Lemma offset_exact t r tps : rate_ok tps -> ts_ok t tps -> ts_ok r tps ->
  get_time_offset t r tps = TOk (instant t tps - instant r tps).
Proof.
  intros Hr Ht Hrf. unfold get_time_offset.
  assert (tps =? 0 = false) as -> by (unfold rate_ok in Hr; lia).
  rewrite !total_ticks_ok by auto.
  pose proof (instant_nonneg t tps Hr Ht). pose proof (instant_nonneg r tps Hr Hrf).
  destruct Ht as (_ & _ & ?). destruct Hrf as (_ & _ & ?).
  unfold in_i64. assert ((- M63 <=? instant t tps - instant r tps) && (instant t tps - instant r tps <? M63) = true) as -> by lia.
  reflexivity.
Qed.

Lemma add_ok t off tps : rate_ok tps -> ts_ok t tps -> 0 <= instant t tps + off < M63 ->
  exists t', add_time_offset t off tps = TOk t' /\ instant t' tps = instant t tps + off /\ normalised t' tps
             /\ ts_ok t' tps.
Proof.
  intros Hr Ht Hn. unfold add_time_offset.
  assert (tps =? 0 = false) as -> by (unfold rate_ok in Hr; lia).
  rewrite total_ticks_ok by auto.
  pose proof (instant_nonneg t tps Hr Ht) as H0.
  unfold I64MAX, M63 in *.
  assert ((instant t tps <? 0) || ((off <? 0) && (instant t tps + off <? 0))
          || ((0 <? off) && (9223372036854775807 - off <? instant t tps)) = false) as -> by lia.
  set (n := instant t tps + off) in *.
  unfold rate_ok in Hr.
  exists (mkTs (n / tps) (n mod tps)). split; [reflexivity|].
  assert (Hdm : n = tps * (n / tps) + n mod tps) by (apply Z.div_mod; lia).
  assert (Hm : 0 <= n mod tps < tps) by (apply Z.mod_pos_bound; lia).
  assert (Hq : 0 <= n / tps) by (apply Z.div_pos; lia).
  unfold instant, normalised, ts_ok; cbn [secs ticks]. unfold instant; cbn [secs ticks]. unfold M63. repeat split; try lia.
Qed.

Lemma normalised_unique a b tps : normalised a tps -> normalised b tps -> instant a tps = instant b tps -> a = b.
Proof.
  intros (Ha1 & Ha2) (Hb1 & Hb2) H. unfold instant in H. destruct a as [sa ta], b as [sb tb]; cbn in *.
  assert (sa = sb) by nia. subst. f_equal. lia.
Qed.

Lemma add_inverse t r tps : rate_ok tps -> ts_ok t tps -> ts_ok r tps ->
  exists t', add_time_offset r (instant t tps - instant r tps) tps = TOk t'
             /\ instant t' tps = instant t tps /\ normalised t' tps /\ (normalised t tps -> t' = t).
Proof.
  intros Hr Ht Hrf.
  pose proof (instant_nonneg t tps Hr Ht).
  destruct (add_ok r (instant t tps - instant r tps) tps Hr Hrf) as (t' & H1 & H2 & H3 & H4).
  { destruct Ht as (_ & _ & ?). lia. }
  exists t'. split; [exact H1|]. split; [lia|]. split; [exact H3|]. intros Hn. apply (normalised_unique _ _ tps); auto. lia.
Qed.

Lemma compare_lt a b tps : normalised a tps -> normalised b tps ->
  ts_lt a b = (instant a tps <? instant b tps).
Proof.
  intros (Ha1 & Ha2) (Hb1 & Hb2). unfold ts_lt, instant.
  destruct (secs a <? secs b) eqn:E1.
  - symmetry. apply Z.ltb_lt. nia.
  - destruct (secs a =? secs b) eqn:E2; cbn [andb].
    + assert (secs a = secs b) as -> by lia. destruct (ticks a <? ticks b) eqn:E3; symmetry; [apply Z.ltb_lt|apply Z.ltb_ge]; lia.
    + symmetry. apply Z.ltb_ge. nia.
Qed.

Lemma compare_le a b tps : normalised a tps -> normalised b tps ->
  ts_le a b = (instant a tps <=? instant b tps).
Proof.
  intros (Ha1 & Ha2) (Hb1 & Hb2). unfold ts_le, instant.
  destruct (secs a <? secs b) eqn:E1.
  - symmetry. apply Z.leb_le. nia.
  - destruct (secs a =? secs b) eqn:E2; cbn [andb].
    + assert (secs a = secs b) as -> by lia. destruct (ticks a <=? ticks b) eqn:E3; symmetry; [apply Z.leb_le|apply Z.leb_gt]; lia.
    + symmetry. apply Z.leb_gt. nia.
Qed.

(* refusal: exactly when the rate is 0 or the result would leave [0, 2^63); never UB, for all 64-bit operands *)
Definition u64 (z : Z) : Prop := 0 <= z < M64.
Definition i64 (z : Z) : Prop := - M63 <= z < M63.

Lemma add_never_ub t off tps : add_time_offset t off tps <> TUB.
Proof.
  unfold add_time_offset. destruct (tps =? 0); [discriminate|].
  destruct (_ || _ || _); discriminate.
Qed.

Lemma add_refuse t off tps : rate_ok tps -> ts_ok t tps -> i64 off ->
  (add_time_offset t off tps = TThrow <-> (instant t tps + off < 0 \/ M63 <= instant t tps + off)).
Proof.
  intros Hr Ht Ho. split.
  - intros H. destruct (Z_lt_dec (instant t tps + off) 0); [left; lia|].
    destruct (Z_le_dec M63 (instant t tps + off)); [right; lia|].
    destruct (add_ok t off tps Hr Ht) as (t' & H1 & _); [lia|]. congruence.
  - intros H. unfold add_time_offset.
    assert (tps =? 0 = false) as -> by (unfold rate_ok in Hr; lia).
    rewrite total_ticks_ok by auto. pose proof (instant_nonneg t tps Hr Ht).
    destruct Ht as (_ & _ & Hlt).
    unfold I64MAX, M63, i64 in *.
    assert ((instant t tps <? 0) || ((off <? 0) && (instant t tps + off <? 0))
          || ((0 <? off) && (9223372036854775807 - off <? instant t tps)) = true) as -> by lia.
    reflexivity.
Qed.

Lemma add_rate0 t off : add_time_offset t off 0 = TThrow.
Proof. reflexivity. Qed.
Lemma off_rate0 t r : get_time_offset t r 0 = TThrow.
Proof. reflexivity. Qed.

(* ---- block invariant: earliest <= every stored time, over every add history ---- *)
Definition bt_inv (tps : Z) (b : btime) : Prop :=
  (nitems b = 0%nat -> stored b = []) /\
  normalised (earliest b) tps /\
  Forall (fun t => normalised t tps /\ instant (earliest b) tps <= instant t tps) (stored b).

Definition ev_ok (tps : Z) (e : tev) : Prop :=
  match ev_ts e with Some t => normalised t tps | None => True end.

Lemma bt_inv_init tps : 1 <= tps -> bt_inv tps bt_init.
Proof. intros H. unfold bt_inv, bt_init, normalised; cbn. repeat split; auto; lia. Qed.

Lemma bt_add_inv tps b e : bt_inv tps b -> ev_ok tps e -> bt_inv tps (bt_add b e).
Proof.
  intros (H0 & Hn & HF) He. unfold bt_add, ev_ok in *.
  destruct (ev_ts e) as [t|] eqn:Et.
  - destruct (Nat.eqb (nitems b) 0) eqn:E0; cbn [orb].
    + apply Nat.eqb_eq in E0. specialize (H0 E0). unfold bt_inv; cbn [earliest nitems stored]. rewrite H0.
      split; [|split; auto].
      * destruct (ev_filled e || ev_store_time e) eqn:Ep; [discriminate|].
        intros _. destruct (ev_store_time e); [destruct (ev_filled e); discriminate|reflexivity].
      * destruct (ev_store_time e); constructor; auto. split; auto. lia.
    + apply Nat.eqb_neq in E0.
      destruct (ts_lt t (earliest b)) eqn:El; unfold bt_inv; cbn [earliest nitems stored].
      * rewrite (compare_lt _ _ tps) in El by auto. apply Z.ltb_lt in El.
        split; [destruct (ev_filled e || ev_store_time e); intros; lia|]. split; auto.
        assert (HF' : Forall (fun t0 => normalised t0 tps /\ instant t tps <= instant t0 tps) (stored b)).
        { eapply Forall_impl; [|exact HF]. cbn. intros a [? ?]. split; auto. lia. }
        destruct (ev_store_time e); auto. constructor; auto. split; auto. lia.
      * rewrite (compare_lt _ _ tps) in El by auto. apply Z.ltb_ge in El.
        split; [destruct (ev_filled e || ev_store_time e); intros; lia|]. split; auto.
        destruct (ev_store_time e); auto.
  - unfold bt_inv; cbn [earliest nitems stored]. rewrite orb_false_r.
    split; [|split; auto]. destruct (ev_filled e); auto. intros; lia.
Qed.

Lemma bt_history tps : 1 <= tps -> forall evs b, bt_inv tps b -> Forall (ev_ok tps) evs ->
  bt_inv tps (fold_left bt_add evs b).
Proof.
  intros Ht. induction evs as [|e evs IH]; intros b Hb He; cbn [fold_left]; auto.
  inversion He; subst. apply IH; auto. apply bt_add_inv; auto.
Qed.
