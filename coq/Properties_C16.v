(* Properties_C16.v — C16: output failures are reported, never swallowed, and rotation recovers from them.
   Failure model (coq/Writer.v): the operating system accepts a bounded number of further bytes on an output; a write that does
   not fit is short, later ones are rejected.  The model follows the code as it is: descriptor outputs check the result of every
   write(2); named outputs go through a std::ofstream whose state nobody checks.  For descriptor outputs the detection half of
   the property is proved; for named outputs and for recovery under persistent failure the property is REFUTED on the faithful
   model - these are genuine defects of CZ-NIC/c-dns recorded as known findings (known_findings.json).  Only statements here. *)
Require Import Base Writer WriterProofs.
Local Open Scope N_scope.

(* descriptor outputs: over every history of writes and rotations and every byte budget per output, an output that lost bytes
   had, while it was open, a call that threw; in particular the loss is known before the rotation that closes it returns *)
Theorem C16_detect_fd : forall calls budget,
  Forall (fun seg => lost (fst seg) = true -> In Threw (snd seg)) (fd_segments (fout_new budget) calls []).
Proof. intros calls budget. apply fd_no_silent_loss; cbn; [discriminate|lia]. Qed.
Print Assumptions C16_detect_fd.

(* the very call whose write(2) was short or rejected throws *)
Theorem C16_detect_fd_same_call : forall o bs, let '(o', oc) := fd_write o bs in
  (oc = Done -> stored o' = stored o ++ bs /\ intended o' = intended o ++ bs) /\
  (length (stored o) = length (intended o) -> lost o' = true -> oc = Threw).
Proof. exact fd_write_detects. Qed.
Print Assumptions C16_detect_fd_same_call.

(* after a transient failure the rotation goes through: when the staged bytes fit into the old output, the encoder ends up on a
   fresh, healthy output with nothing staged *)
Theorem C16_recover_transient : forall cur staged budget, N.of_nat (length staged) <= room cur ->
  enc_rotate_fd cur staged budget = (fout_new budget, [], Done).
Proof.
  intros cur staged budget H. unfold enc_rotate_fd. destruct staged as [|b r]; [reflexivity|].
  unfold fd_write. assert (N.of_nat (length (b :: r)) <=? room cur = true) as -> by lia. reflexivity.
Qed.
Print Assumptions C16_recover_transient.

(* KNOWN FINDING (named outputs): a named output can lose bytes while every call, the closing rotation included, returns normally *)
Theorem C16_named_refuted : exists budget calls,
  let '(closed, last, ocs) := named_calls (mkNout (fout_new budget) false) calls in
  Forall (fun oc => oc = Done) ocs /\ exists o, In o closed /\ lost o = true.
Proof.
  exists 4, [CWrite [1; 2; 3]; CWrite [4; 5; 6]; CRotate 100]. cbn. split; [repeat constructor|].
  eexists. split; [left; reflexivity|reflexivity].
Qed.
Print Assumptions C16_named_refuted.

(* KNOWN FINDING (recovery): while the old output keeps rejecting data, rotate_output to a healthy destination throws and does
   not rotate, because the encoder flushes its staging buffer into the OLD output first - for every old output without room *)
Theorem C16_recover_persistent_refuted : forall cur staged budget, staged <> [] -> room cur < N.of_nat (length staged) ->
  exists cur', enc_rotate_fd cur staged budget = (cur', staged, Threw) /\ room cur' = 0.
Proof.
  intros cur staged budget Hne Hr. unfold enc_rotate_fd. destruct staged as [|b r]; [congruence|].
  unfold fd_write. assert (N.of_nat (length (b :: r)) <=? room cur = false) as -> by lia. eexists. split; reflexivity.
Qed.
Print Assumptions C16_recover_persistent_refuted.

Example C16_nonvacuous :
  let '(closed, last, ocs) := fd_calls (fout_new 4) [CWrite [1; 2; 3]; CWrite [4; 5; 6]; CRotate 100; CWrite [7]] in
  ocs = [Done; Threw; Done; Done] /\ map stored closed = [[1; 2; 3; 4]] /\ stored last = [7].
Proof. vm_compute. repeat split. Qed.
