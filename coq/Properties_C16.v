(* Properties_C16.v — C16: output failures are reported, never swallowed, and rotation recovers from them.
   Failure model (coq/Writer.v): the operating system accepts a bounded number of further bytes on an output; a write that does
   not fit is short, later ones are rejected.  The model follows the code as it is: descriptor outputs check the result of every
   write(2); named outputs go through a std::ofstream whose state nobody checks.  For descriptor outputs the detection half of
   the property is proved; for named outputs and for recovery under persistent failure the property is REFUTED on the faithful
   model - these are genuine defects of CZ-NIC/c-dns recorded as known findings (known_findings.json).  Only statements here. *)
Require Import Base Cbor EncoderModel DecoderModel Schema Block Exporter Writer WriterProofs BlockRead FileProofs ExporterIO ExporterIOProofs ExporterFaults ExporterFaultsProofs.
Local Open Scope N_scope.

(* descriptor outputs: over every history of writes and rotations and every byte budget per output, an output that lost bytes
   had, while it was open, a call that threw; in particular the loss is known before the rotation that closes it returns *)
Theorem C16_detect_fd : forall calls budget,
  Forall (fun seg => lost (fst seg) = true -> In Threw (snd seg)) (fd_segments (fout_new budget) calls []).
Proof. intros calls budget. apply fd_no_silent_loss; cbn; [discriminate|lia]. Qed.
Print Assumptions C16_detect_fd.

(* the very call whose write(2) was short or rejected throws *)
Theorem C16_detect_fd_same_call : forall o bs, let '(o', oc) := fd_write o bs in
  (oc = Done -> stored o' = stored o ++ bs /\ intended o' = intended o ++ bs) /\
  (length (stored o) = length (intended o) -> lost o' = true -> oc = Threw).
Proof. exact fd_write_detects. Qed.
Print Assumptions C16_detect_fd_same_call.

(* after a transient failure the rotation goes through: when the staged bytes fit into the old output, the encoder ends up on a
   fresh, healthy output with nothing staged *)
Theorem C16_recover_transient : forall cur staged budget, N.of_nat (length staged) <= room cur ->
  enc_rotate_fd cur staged budget = (fout_new budget, [], Done).
Proof.
  intros cur staged budget H. unfold enc_rotate_fd. destruct staged as [|b r]; [reflexivity|].
  unfold fd_write. assert (N.of_nat (length (b :: r)) <=? room cur = true) as -> by lia. reflexivity.
Qed.
Print Assumptions C16_recover_transient.

(* KNOWN FINDING (named outputs): a named output can lose bytes while every call, the closing rotation included, returns normally *)
Theorem C16_named_refuted : exists budget calls,
  let '(closed, last, ocs) := named_calls (mkNout (fout_new budget) false) calls in
  Forall (fun oc => oc = Done) ocs /\ exists o, In o closed /\ lost o = true.
Proof.
  exists 4, [CWrite [1; 2; 3]; CWrite [4; 5; 6]; CRotate 100]. cbn. split; [repeat constructor|].
  eexists. split; [left; reflexivity|reflexivity].
Qed.
Print Assumptions C16_named_refuted.

(* KNOWN FINDING (recovery): while the old output keeps rejecting data, rotate_output to a healthy destination throws and does
   not rotate, because the encoder flushes its staging buffer into the OLD output first - for every old output without room *)
Theorem C16_recover_persistent_refuted : forall cur staged budget, staged <> [] -> room cur < N.of_nat (length staged) ->
  exists cur', enc_rotate_fd cur staged budget = (cur', staged, Threw) /\ room cur' = 0.
Proof.
  intros cur staged budget Hne Hr. unfold enc_rotate_fd. destruct staged as [|b r]; [congruence|].
  unfold fd_write. assert (N.of_nat (length (b :: r)) <=? room cur = false) as -> by lia. eexists. split; reflexivity.
Qed.
Print Assumptions C16_recover_persistent_refuted.

(* ---------- the same for whole EXPORTER histories (coq/ExporterFaults.v: every API call of an exporter on a descriptor, the operating system
   answering the successive write(2) calls of the scenario as it likes - accept, cut short, reject, once or from some point on; compared call by
   call with the real stack under fault injection) ---------- *)

(* reported: over every history and every behaviour of the operating system, an output that a rotation closed (returning normally) and that
   lost bytes had an API call that threw while it was open - rotate_output never returns for a lossy output whose loss was not reported *)
Theorem C16_exporter_reported : forall pre plan ops,
  let s := fst (frun (fx_new pre plan) ops) in
  (d_lost (f_cur s) = true -> f_threw s = true) /\ Forall (fun ot => d_lost (fst ot) = true -> snd ot = true) (f_closed s).
Proof. exact faults_reported. Qed.
Print Assumptions C16_exporter_reported.

(* retained: an exception out of a buffering call or write_block() leaves the block - with the record just submitted - buffered, counts
   nothing as written and closes nothing; only the staging buffer differs *)
Theorem C16_exporter_retains : forall s o s1 n, (forall e, o <> XRot e) -> fstep s o = (s1, Threw, n) ->
  exists ef, f_x s1 = set_enc (pre_write (f_x s) o) ef /\ f_threw s1 = true /\ f_closed s1 = f_closed s.
Proof. exact fault_retains. Qed.
Print Assumptions C16_exporter_retains.
Theorem C16_exporter_retains_rotation : forall s e s1 n, fstep s (XRot e) = (s1, Threw, n) ->
  f_closed s1 = f_closed s /\ f_threw s1 = true /\
  exists ef, f_x s1 = set_enc (f_x s) ef \/ (e = true /\ f_x s1 = set_enc (fst (write_block (f_x s))) ef).
Proof. exact fault_retains_rotation. Qed.
Print Assumptions C16_exporter_retains_rotation.

(* recovery after a transient failure: the call threw, the operating system accepts everything from then on. rotate_output(healthy
   destination, false) returns normally, the following write_block() returns normally, and the new output - closed by destruction - holds,
   with nothing lost, exactly the complete C-DNS file of the failed block, which the reader reads back *)
Theorem C16_exporter_recovers : forall s o s1 n, (forall e, o <> XRot e) -> fstep s o = (s1, Threw, n) -> healthy (f_os s1) ->
  let b := x_blk (pre_write (f_x s) o) in
  let pre := preamble_val (f_x s) in
  typed_pre pre -> typed_blk b -> blk_params_ok (params_of pre) b -> good_blk b ->
  exists s2 r2 s3 r3,
    fstep s1 (XRot false) = (s2, Done, r2) /\ x_blk (f_x s2) = b /\ f_cur s2 = dout_new /\
    fstep s2 XWb = (s3, Done, r3) /\
    fdestroy s3 = mkDout (file_bytes pre [b]) (file_bytes pre [b]) /\
    forall g, (length (file_bytes pre [b]) <= g)%nat -> run (read_file g) (file_bytes pre [b]) = (inl (pre, [rb_of b]), []).
Proof.
  intros s o s1 n Hn H Hh b pre Tp Tb Pb Gb.
  destruct (recovery_after_fault s o s1 n Hn H Hh Tp Tb) as (s2 & r2 & s3 & r3 & H1 & H2 & H3 & H4 & H5).
  exists s2, r2, s3, r3. repeat (split; [assumption|]).
  intros g Hg. apply (read_file_spec pre [b] g Tp); [discriminate| |exact Hg].
  constructor; [|constructor]. split; [exact Tb|split; [exact Pb|exact Gb]].
Qed.
Print Assumptions C16_exporter_recovers.

(* KNOWN FINDING (persistent-failure-no-recovery) for exporter histories: while the operating system rejects every write and something is
   staged, rotate_output throws whatever the destination - the staged bytes go to the OLD output first - and leaves everything as it was *)
Theorem C16_exporter_persistent_refuted : forall s, os_plan (f_os s) = [] -> os_rest (f_os s) = Some 0 -> buf (x_enc (f_x s)) <> [] ->
  exists s1, fstep s (XRot false) = (s1, Threw, 0) /\ f_closed s1 = f_closed s /\ os_plan (f_os s1) = [] /\ os_rest (f_os s1) = Some 0 /\
             buf (x_enc (f_x s1)) <> [] /\ x_blk (f_x s1) = x_blk (f_x s).
Proof. exact persistent_failure_no_recovery. Qed.
Print Assumptions C16_exporter_persistent_refuted.

(* consistency of the two models: when the operating system accepts everything, the exporter under faults IS the fault-free exporter - every
   call returns normally with the count [xstep] returns and leaves [xstep]'s state - and what the descriptors hold is what the fault-free
   theory says the outputs are (the open one: what the encoder has handed over; the closed ones: [x_closed]).  So every theorem about
   [xrun] (C01, C02, C10, C12, C13) speaks about the runs of this model on a healthy system *)
Theorem C16_healthy_is_fault_free : forall s o, healthy (f_os s) ->
  exists cur' closed', fstep s o = (mkFx (fst (xstep (f_x s) o)) (f_os s) cur' (match o with XRot _ => false | _ => f_threw s end) closed', Done, snd (xstep (f_x s) o)).
Proof. exact fstep_healthy. Qed.
Print Assumptions C16_healthy_is_fault_free.
Theorem C16_healthy_outputs : forall s o, healthy (f_os s) -> d_ok (f_x s) (f_cur s) ->
  let s' := fst (fst (fstep s o)) in
  d_ok (f_x s') (f_cur s') /\
  map (fun ot => d_stored (fst ot)) (f_closed s') =
    firstn (length (x_closed (f_x s')) - length (x_closed (f_x s))) (x_closed (f_x s')) ++ map (fun ot => d_stored (fst ot)) (f_closed s).
Proof. exact fstep_healthy_outputs. Qed.
Print Assumptions C16_healthy_outputs.

(* non-vacuity: a record with a 3000-byte name (its block spans two staging buffers); the first write(2) of the scenario is rejected once:
   write_block() throws, the rotation and the second write_block() return, one output is closed with the loss reported, and the recovery
   output is a complete file of one block with nothing lost.  (With a block smaller than the staging buffer the first write(2) only happens
   in rotate_output, which is then the call that throws.) *)
Example C16_exporter_nonvacuous :
  let pre := VR [Some (VN 1); Some (VN 0); None; Some (VL [VR [Some (VR [Some (VN 1000); Some (VN 10);
                 Some (VR [Some (VN 262143); Some (VN 131071); Some (VN 3); Some (VN 3)]); Some (VL []); Some (VL []);
                 None; None; None; None; None; None; None]); None]])] in
  let q := XQr ([Some (VL [VN 5; VN 1]); None; Some (VN 53)] ++ repeat None 20 ++ [Some (VS (repeat 97 3000%nat))]) None in
  let '(s, ocs) := frun (fx_new pre (mkOs [Some 0] None)) [q; XWb; XRot false; XWb] in
  ocs = [(Done, 0); (Threw, 0); (Done, 0); (Done, 3072)] /\ map snd (f_closed s) = [true] /\
  length (d_stored (fdestroy s)) = 3073%nat /\ d_lost (fdestroy s) = false /\
  (match fst (run (read_file 5000) (d_stored (fdestroy s))) with inl (_, bs) => length bs | _ => 99%nat end) = 1%nat.
Proof. vm_compute. repeat split. Qed.

Example C16_nonvacuous :
  let '(closed, last, ocs) := fd_calls (fout_new 4) [CWrite [1; 2; 3]; CWrite [4; 5; 6]; CRotate 100; CWrite [7]] in
  ocs = [Done; Threw; Done; Done] /\ map stored closed = [[1; 2; 3; 4]] /\ stored last = [7].
Proof. vm_compute. repeat split. Qed.
