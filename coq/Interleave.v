(* Interleave.v — C20: threads that each work on their own instances.  A thread is a state machine over its private state;
   a step of thread t reads and writes component t of the global state and nothing else.  Whatever the schedule, every thread
   ends in the state, and produces the outputs, of its own sequential run. *)
Require Import Base.

Section Conc.
  Variable St Out : Type.
  Variable step : nat -> St -> St * Out.                  (* step of thread t on its private state *)

  Definition gstate := nat -> St.
  Definition gupd (g : gstate) (t : nat) (s : St) : gstate := fun u => if Nat.eqb u t then s else g u.

  (* one scheduled step: thread t moves, its output is tagged with t *)
  Definition gstep (g : gstate) (t : nat) : gstate * (nat * Out) :=
    let '(s', o) := step t (g t) in (gupd g t s', (t, o)).
  Fixpoint grun (g : gstate) (sched : list nat) : gstate * list (nat * Out) :=
    match sched with
    | [] => (g, [])
    | t :: r => let '(g1, o) := gstep g t in let '(g2, os) := grun g1 r in (g2, o :: os)
    end.

  (* the sequential run of thread t: k steps from its initial state *)
  Fixpoint seq_run (t : nat) (s : St) (k : nat) : St * list Out :=
    match k with
    | O => (s, [])
    | S k' => let '(s1, o) := step t s in let '(s2, os) := seq_run t s1 k' in (s2, o :: os)
    end.

  Definition count (t : nat) (sched : list nat) : nat := length (filter (Nat.eqb t) sched).
  Definition outputs_of_thread (t : nat) (os : list (nat * Out)) : list Out := map snd (filter (fun p => Nat.eqb t (fst p)) os).

  Theorem schedule_independent : forall sched g t,
    fst (grun g sched) t = fst (seq_run t (g t) (count t sched)) /\
    outputs_of_thread t (snd (grun g sched)) = snd (seq_run t (g t) (count t sched)).
  Proof.
    induction sched as [|u sched IH]; intros g t; cbn [grun count filter length seq_run]; [split; reflexivity|].
    unfold gstep. destruct (step u (g u)) as [s' o] eqn:E.
    specialize (IH (gupd g u s') t). destruct (grun (gupd g u s') sched) as [g2 os]. cbn [fst snd] in *.
    unfold outputs_of_thread in *. cbn [filter fst].
    destruct (Nat.eqb t u) eqn:Etu.
    - apply Nat.eqb_eq in Etu. subst u. cbn [length seq_run map snd]. rewrite E.
      unfold gupd in IH. rewrite Nat.eqb_refl in IH. unfold count in IH.
      destruct (seq_run t s' (length (filter (Nat.eqb t) sched))) as [s2 os2]. cbn [fst snd] in *.
      destruct IH as [H1 H2]. split; [exact H1|]. rewrite H2. reflexivity.
    - unfold gupd in IH. rewrite Etu in IH. exact IH.
  Qed.
End Conc.
