(* Properties_timestamp.v — obligations over Gen_timestamp.v, which translator/timestamp.py regenerates from /repo's current src/timestamp.cpp
   and timestamp.h (clang AST, with the C++ type of every arithmetic node) on every run. *)
Require Import List ZArith String Bool. Import ListNotations.
Require Import Base Timestamp Gen_timestamp.

Theorem FT_timestamp_recognised : gen_timestamp_unrecognised = [].
Proof. reflexivity. Qed.
Print Assumptions FT_timestamp_recognised.

(* the translation of the code IS the hand-written model: which products and sums are unsigned (wrapping), where the reinterpretation as
   int64_t happens, which subtraction and comparisons are signed, the shape and the constant of the overflow guard, the two orderings *)
Theorem FT_timestamp_ops :
  g_ts_lt = ts_lt /\ g_ts_le = ts_le /\ g_get_time_offset = get_time_offset /\ g_add_time_offset = add_time_offset.
Proof. repeat (split; [reflexivity|]). reflexivity. Qed.
Print Assumptions FT_timestamp_ops.
