(* Properties_C15.v — C15: a named output becomes visible under its final name only when complete.
   The writer is a generator of operating-system events ([named_trace]); [fs_run] gives the events a file-system meaning
   (open truncates/creates, write appends, rename replaces atomically).  A crash at any instant = any PREFIX of the trace.
   Atomicity of rename and "handed to the OS" are this semantics (trusted), not the kernel's.  Only statements here. *)
Require Import Base Exporter Writer WriterProofs FileProofs ExporterIO ExporterIOProofs ExporterFiles.
Local Open Scope N_scope.

(* for every scenario (any writes in any chunking, any rotations - also back onto a name used before or onto a file that existed
   before -, with or without destruction at the end), every initial file system and EVERY prefix of the trace: a file found under a
   final name is either the one that was there before, or the complete data of an output that has been closed *)
Theorem C15_prefix : forall (f0 : fs) n0 ops destroyed k n c,
  fs_run f0 (firstn k (named_trace n0 ops destroyed)) (Final n) = Some c ->
  f0 (Final n) = Some c \/ In (n, c) (outputs_of n0 [] ops destroyed).
Proof. intros f0 n0 ops destroyed k n c. apply named_prefix_ok. Qed.
Print Assumptions C15_prefix.

(* while an output is produced all data goes to '<name><suffix>.part' and nowhere else *)
Theorem C15_only_part_written : forall n0 ops destroyed,
  Forall (fun e => match e with EWrite (Part _) _ => True | EWrite _ _ => False | _ => True end) (named_trace n0 ops destroyed).
Proof.
  intros n0 ops destroyed. unfold named_trace. constructor; [exact I|]. revert n0.
  induction ops as [|o ops IH]; intros cur; cbn [run_steps].
  - destruct destroyed; repeat constructor.
  - destruct o as [bs|n]; cbn [named_step app]; repeat (constructor; [exact I|]); apply IH.
Qed.
Print Assumptions C15_only_part_written.

(* with a compressing writer on top, the complete data of an output is one complete compressed stream (trailer included):
   composing C15_prefix with C14_one_stream_per_output *)
Theorem C15_compressed : forall (cstate : Type) cinit crun cfinish (f0 : fs) n0 ops destroyed k n c,
  fs_run f0 (firstn k (named_trace n0 (czip cstate cinit crun cfinish cinit ops destroyed) destroyed)) (Final n) = Some c ->
  f0 (Final n) = Some c \/ exists chunks, In (n, chunks) (chunks_of n0 [] ops destroyed) /\ c = cstream cstate crun cfinish cinit chunks.
Proof.
  intros cstate cinit crun cfinish f0 n0 ops destroyed k n c H. apply named_prefix_ok in H. destruct H as [H|H]; [left; exact H|right].
  rewrite (czip_outputs cstate cinit crun cfinish) in H.
  assert (Hm : In (n, c) (map (fun nc => (fst nc, cstream cstate crun cfinish cinit (snd nc))) (chunks_of n0 [] ops destroyed))).
  { destruct (chunks_of n0 [] ops destroyed) as [|[m cs] r]; exact H. }
  apply in_map_iff in Hm. destruct Hm as ([m cs] & Heq & Hin). inversion Heq; subst. exists cs. auto.
Qed.
Print Assumptions C15_compressed.

(* the whole stack, for exporter histories: a crash at ANY instant of ANY history of a named exporter leaves under a final name the file that
   was there before, or one of the exporter's outputs, complete *)
Theorem C15_exporter : forall (f0 : fs) pre ops ids n0 k n c, let x := xrun (x_new pre) ops in
  fs_run f0 (firstn k (named_trace n0 (run_wops (x_new pre) ops ids ++ destroy_wops x) true)) (Final n) = Some c ->
  f0 (Final n) = Some c \/ In c (x_closed x) \/ c = destroy x.
Proof. exact exporter_named_prefix. Qed.
Print Assumptions C15_exporter.

(* ... and, for admissible histories, such an output is a complete C-DNS file: the reader reads it to the end and obtains exactly the blocks
   written to it (an output closed without a block is the empty file) *)
Theorem C15_exporter_files : forall (f0 : fs) pre ops ids n0 k n c, typed_pre pre -> adm0 pre ops -> typed_x (xrun (x_new pre) ops) ->
  let x := xrun (x_new pre) ops in
  fs_run f0 (firstn k (named_trace n0 (run_wops (x_new pre) ops ids ++ destroy_wops x) true)) (Final n) = Some c ->
  f0 (Final n) = Some c \/ exists p bs, c = file_bytes p bs /\ reads_back (p, bs).
Proof. exact exporter_named_files. Qed.
Print Assumptions C15_exporter_files.

(* ... and with compression: a crash at any instant of any history of a named gzip / xz exporter leaves under a final name the older file, or
   one complete compressed stream (whatever codec satisfies codec_ok) that decompresses to one of the exporter's outputs *)
Theorem C15_exporter_compressed : forall (cstate : Type) cinit crun cfinish decompress,
  (forall chunks, decompress (cstream cstate crun cfinish cinit chunks) = Some (concat chunks)) ->
  forall (f0 : fs) pre ops ids n0 k n c, let x := xrun (x_new pre) ops in
  fs_run f0 (firstn k (named_trace n0 (czip cstate cinit crun cfinish cinit (run_wops (x_new pre) ops ids ++ destroy_wops x) true) true)) (Final n) = Some c ->
  f0 (Final n) = Some c \/ exists p, (In p (x_closed x) \/ p = destroy x) /\ decompress c = Some p.
Proof. intros cstate cinit crun cfinish decompress Hc f0 pre ops ids n0 k n c. apply (exporter_named_compressed_prefix cstate cinit crun cfinish decompress Hc). Qed.
Print Assumptions C15_exporter_compressed.

Example C15_nonvacuous :
  let f0 : fs := fun p => match p with Final 2 => Some [9; 9] | _ => None end in
  let tr := named_trace 1 [WWrite [1; 2]; WRotate 2; WWrite [3]] true in
  length tr = 8%nat /\
  fs_run f0 (firstn 5 tr) (Final 1) = Some [1; 2] /\ fs_run f0 (firstn 7 tr) (Final 2) = Some [9; 9] /\ fs_run f0 tr (Final 2) = Some [3] /\
  fs_run f0 (firstn 3 tr) (Final 1) = None.
Proof. vm_compute. repeat split. Qed.
