(* ExporterFiles.v — the whole stack for one exporter history: exporter (Exporter.v) -> encoder chunks -> output writer (Writer.v) ->
   file-system events, composed with what the reader makes of each output (FileProofs.history_outputs). *)
Require Import Base Cbor EncoderModel DecoderModel Schema Timestamp Block Exporter Writer WriterProofs FileProofs ExporterIO ExporterIOProofs.
Local Open Scope N_scope.

(* crash at ANY instant of ANY admissible exporter history on named outputs: a file found under a final name is the file that was there
   before the exporter touched the name, or the complete C-DNS file of one output - which the reader reads to the end, obtaining exactly the
   blocks written to that output (an output closed without a block is the empty file) *)
Theorem exporter_named_files (f0 : fs) pre ops ids n0 k n c : typed_pre pre -> adm0 pre ops -> typed_x (xrun (x_new pre) ops) ->
  let x := xrun (x_new pre) ops in
  fs_run f0 (firstn k (named_trace n0 (run_wops (x_new pre) ops ids ++ destroy_wops x) true)) (Final n) = Some c ->
  f0 (Final n) = Some c \/ exists p bs, c = file_bytes p bs /\ reads_back (p, bs).
Proof.
  intros Tp A T x H. apply exporter_named_prefix in H. destruct H as [H|H]; [left; exact H|right].
  destruct (history_outputs pre ops Tp A T) as (last & cur & closed & Hcl & Hd & _ & Hrb). unfold x in *. cbv zeta in Hcl, Hd.
  destruct H as [H|H].
  - rewrite Hcl in H. apply in_map_iff in H. destruct H as ([p bs] & <- & Hin). exists p, bs. split; [reflexivity|].
    apply Forall_inv_tail in Hrb. rewrite Forall_forall in Hrb. apply Hrb. exact Hin.
  - exists last, cur. split; [rewrite H; exact Hd|]. apply Forall_inv in Hrb. exact Hrb.
Qed.
