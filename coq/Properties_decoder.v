(* Properties_decoder.v — obligations over Gen_decoder.v, which translator/decoder.py regenerates from /repo's current src/cdns_decoder.cpp
   (clang AST) on every run: the head-level read operations of CdnsDecoder TRANSLATED into programs of the decoder monad. *)
Require Import List NArith ZArith String Bool. Import ListNotations.
Require Import Base Cbor DecoderModel Gen_decoder.

(* every method body had the shape its translation was written for, and the four functions with loops (read_to_buffer, read_string, skip_item
   with the frames it pushes, read_array) are, statement for statement, what DecoderModel.v was written after *)
Theorem FT_decoder_recognised : gen_decoder_unrecognised = [].
Proof. reflexivity. Qed.
Print Assumptions FT_decoder_recognised.

(* the translation of the code IS the hand-written model: masks, the major type each operation insists on, the bounds on the additional
   information in every guard, the simple values of false / true, the break code, the clamping of the signed reads *)
Theorem FT_decoder_ops :
  g_read_int = read_int /\ g_peek_type = peek_type /\ g_read_type = read_type /\
  g_read_unsigned = read_unsigned /\ g_read_negative = read_negative /\ g_read_integer = read_integer /\
  g_read_bool = read_bool /\ g_read_break = read_break /\
  g_read_array_start = read_array_start /\ g_read_map_start = read_map_start /\
  g_read_bytestring = read_bytestring /\ g_read_textstring = read_textstring.
Proof. repeat (split; [reflexivity|]). reflexivity. Qed.
Print Assumptions FT_decoder_ops.
