(* Cbor.v — the RFC 8949 encoding grammar as an inductive type, written independently of the code
   (specification side).  An [item] records *how* a data item is encoded: head width, definite or
   indefinite length, chunking.  [ser] is its byte serialisation, [wf] says the encoding is well formed. *)
Require Import Base.
Local Open Scope N_scope.

Inductive width := W0 | W1 | W2 | W4 | W8.
Definition wbytes (w : width) : nat :=
  match w with W0 => 0 | W1 => 1 | W2 => 2 | W4 => 4 | W8 => 8 end%nat.
(* additional information of a head of width w carrying argument n *)
Definition wai (w : width) (n : N) : N :=
  match w with W0 => n | W1 => 24 | W2 => 25 | W4 => 26 | W8 => 27 end.
Definition wfits (w : width) (n : N) : Prop :=
  match w with W0 => n < 24 | _ => n < 256 ^ N.of_nat (wbytes w) end.
Definition wfitsb (w : width) (n : N) : bool :=
  match w with W0 => n <? 24 | _ => n <? 256 ^ N.of_nat (wbytes w) end.

(* the eight major types, with their code in the top three bits *)
Inductive major := MU | MN | MB | MT | MA | MM | MTag | M7.
Definition mcode (m : major) : N :=
  match m with MU => 0 | MN => 32 | MB => 64 | MT => 96 | MA => 128 | MM => 160 | MTag => 192 | M7 => 224 end.
Definition majors : list major := [MU; MN; MB; MT; MA; MM; MTag; M7].

Definition head (m : major) (w : width) (n : N) : list N :=
  (mcode m + wai w n) :: be (wbytes w) n.

Inductive item :=
| IInt (neg : bool) (w : width) (n : N)                   (* major 0 / 1; value n or -1-n *)
| IStr (text : bool) (w : width) (bs : list N)            (* major 2 / 3, definite length *)
| IStrIndef (text : bool) (chunks : list (width * list N))(* 0x5f / 0x7f chunks 0xff *)
| ICont (map : bool) (w : width) (xs : list item)         (* major 4 / 5 definite; a map lists key,value,key,value.. *)
| IContIndef (map : bool) (xs : list item)                (* 0x9f / 0xbf items 0xff *)
| ITag (w : width) (t : N) (x : item)                     (* major 6: tag number + content *)
| ISeven (w : width) (n : N).                             (* major 7: simple values (W0, W1), floats (W2, W4, W8) *)

Definition mint (neg : bool) := if neg then MN else MU.
Definition mstr (text : bool) := if text then MT else MB.
Definition mcont (map : bool) := if map then MM else MA.

(* number of entries announced by the head of a definite container *)
Definition cnt (map : bool) (xs : list item) : N :=
  if map then N.of_nat (length xs) / 2 else N.of_nat (length xs).

Definition ser_chunk (m : major) (c : width * list N) : list N :=
  head m (fst c) (N.of_nat (length (snd c))) ++ snd c.

Fixpoint ser (x : item) : list N :=
  match x with
  | IInt neg w n => head (mint neg) w n
  | IStr text w bs => head (mstr text) w (N.of_nat (length bs)) ++ bs
  | IStrIndef text chunks => (mcode (mstr text) + 31) :: flat_map (ser_chunk (mstr text)) chunks ++ [255]
  | ICont map w xs => head (mcont map) w (cnt map xs) ++ flat_map ser xs
  | IContIndef map xs => (mcode (mcont map) + 31) :: flat_map ser xs ++ [255]
  | ITag w t x => head MTag w t ++ ser x
  | ISeven w n => head M7 w n
  end.

Definition wf_chunk (c : width * list N) : Prop := wfits (fst c) (N.of_nat (length (snd c))).

Fixpoint wf (x : item) : Prop :=
  match x with
  | IInt _ w n => wfits w n
  | IStr _ w bs => wfits w (N.of_nat (length bs))
  | IStrIndef _ chunks => Forall wf_chunk chunks
  | ICont map w xs =>
      wfits w (cnt map xs) /\ (map = true -> Nat.even (length xs) = true) /\
      (fix all l := match l with [] => True | y :: l' => wf y /\ all l' end) xs
  | IContIndef map xs =>
      (map = true -> Nat.even (length xs) = true) /\
      (fix all l := match l with [] => True | y :: l' => wf y /\ all l' end) xs
  | ITag w t x => wfits w t /\ wf x
  | ISeven w n => wfits w n
  end.
Definition wfl := (fix all (l : list item) := match l with [] => True | y :: l' => wf y /\ all l' end).

(* number of heads in an item: the fuel [skip] needs *)
Fixpoint isize (x : item) : nat :=
  match x with
  | ICont _ _ xs => S (fold_right (fun y a => isize y + a) 0 xs)
  | IContIndef _ xs => S (fold_right (fun y a => isize y + a) 0 xs)
  | ITag _ _ x => S (isize x)
  | _ => 1
  end%nat.
Definition szl (xs : list item) : nat := fold_right (fun y a => isize y + a)%nat 0%nat xs.

(* the abstract value of a string item (chunks concatenated) *)
Definition chunks_val (chunks : list (width * list N)) : list N := flat_map snd chunks.

(* nested induction principle *)
Section ItemInd.
  Variable P : item -> Prop.
  Hypothesis HInt : forall neg w n, P (IInt neg w n).
  Hypothesis HStr : forall t w bs, P (IStr t w bs).
  Hypothesis HStrI : forall t cs, P (IStrIndef t cs).
  Hypothesis HCont : forall m w xs, Forall P xs -> P (ICont m w xs).
  Hypothesis HContI : forall m xs, Forall P xs -> P (IContIndef m xs).
  Hypothesis HTag : forall w t x, P x -> P (ITag w t x).
  Hypothesis HSeven : forall w n, P (ISeven w n).
  Fixpoint item_ind' (x : item) : P x :=
    match x with
    | IInt neg w n => HInt neg w n
    | IStr t w bs => HStr t w bs
    | IStrIndef t cs => HStrI t cs
    | ICont m w xs => HCont m w xs
        ((fix go l : Forall P l := match l with [] => Forall_nil P | y :: l' => Forall_cons y (item_ind' y) (go l') end) xs)
    | IContIndef m xs => HContI m xs
        ((fix go l : Forall P l := match l with [] => Forall_nil P | y :: l' => Forall_cons y (item_ind' y) (go l') end) xs)
    | ITag w t x => HTag w t x (item_ind' x)
    | ISeven w n => HSeven w n
    end.
End ItemInd.
