(* Reencode.v — C08: what it means for an item to be AN encoding (not the writer's canonical one) of a value under a
   descriptor, and the proof that the reader returns that value for every such encoding: any head widths, definite or
   indefinite arrays / maps / strings, chunking, any order of map members, extra members with unknown keys carrying arbitrary
   well-formed items. *)
Require Import Base Cbor EncoderModel DecoderModel DecoderProofs Schema SchemaProofs.
Local Open Scope N_scope.

(* an integer item and the value read_integer assigns to it (within the int64 range) *)
Definition int_enc (x : item) (z : Z) : Prop :=
  exists neg w n, x = IInt neg w n /\ wfits w n /\ n < two63 /\ z = (if neg then -1 - Z.of_N n else Z.of_N n)%Z.
(* a map KEY: any integer item at all; outside the int64 range read_integer returns the nearest end of the range - which no structure
   defines as a key, so such a member is an unknown member like any other *)
Definition key_enc (x : item) (z : Z) : Prop :=
  exists neg w n, x = IInt neg w n /\ wfits w n /\ z = (if neg then neg_of n else clamp_i64 n).
Definition uint_enc (x : item) (n : N) : Prop := exists w, x = IInt false w n /\ wfits w n.
Definition str_enc (text : bool) (x : item) (bs : list N) : Prop :=
  (exists w, x = IStr text w bs /\ wfits w (N.of_nat (length bs))) \/
  (exists cs, x = IStrIndef text cs /\ Forall wf_chunk cs /\ bs = chunks_val cs).
(* an array item with the given members, definite with any head width or indefinite *)
Definition arr_enc (x : item) (xs : list item) : Prop :=
  (exists w, x = ICont false w xs /\ wfits w (N.of_nat (length xs))) \/ x = IContIndef false xs.
Definition flat_entries (es : list entry) : list item := flat_map (fun e => [e_kx e; e_vx e]) es.
Definition map_enc (x : item) (es : list entry) : Prop :=
  (exists w, x = ICont true w (flat_entries es) /\ wfits w (N.of_nat (length es))) \/ x = IContIndef true (flat_entries es).

Fixpoint enc_of (t : ty) (x : item) (v : val) {struct t} : Prop :=
  match t with
  | TU bits => exists n, uint_enc x n /\ v = VN (n mod 2 ^ bits)
  | TI => exists z, int_enc x z /\ v = VZ z
  | TBool => exists b : bool, x = ISeven W0 (if b then 21 else 20) /\ v = VB b
  | TText => exists bs, str_enc true x bs /\ v = VS bs
  | TBytes => exists bs, str_enc false x bs /\ v = VS bs
  | TTime => exists xs s k, arr_enc x xs /\ Forall2 uint_enc xs [s; k] /\ v = VL [VN s; VN k]
  | TArr e => exists xs vs, arr_enc x xs /\ Forall2 (enc_of e) xs vs /\ v = VL vs
  | TIdx => exists xs ns, arr_enc x xs /\ Forall2 uint_enc xs ns /\ v = VL (map (fun n => VN (n mod 2 ^ 32)) ns)
  | TMap _ accs fs => exists es, map_enc x es /\ Forall (fun e => key_enc (e_kx e) (e_key e) /\ fenc fs O (e_key e) (e_vx e) (e_upd e)) es /\
                            mand_ok fs (fold_left (apply_e accs) es (init_rec fs)) = true /\
                            v = VR (fill_always fs (fold_left (apply_e accs) es (init_rec fs)))
  end
(* the member a key denotes: a known key must carry an encoding of a value of that member's type, an unknown key any well-formed item *)
with fenc (fs : fields) (i : nat) (key : Z) (vx : item) (upd : option (nat * val)) {struct fs} : Prop :=
  match fs with
  | FNil => upd = None /\ wf vx
  | FCons k _ t r => if (key =? k)%Z then exists v', upd = Some (i, v') /\ enc_of t vx v' else fenc r (S i) key vx upd
  end.

(* ---------- indefinite-length loops ---------- *)
Lemma arr_loop_indef rd : forall xs vs g racc rest, Forall2 (reads rd) xs vs -> Forall wf xs -> (length xs < g)%nat ->
  forall n, run (arr_loop rd g n true racc) (flat_map ser xs ++ 255 :: rest) = (inl (rev racc ++ vs), rest).
Proof.
  induction xs as [|x xs IH]; intros vs g racc rest HF Hw Hg n; inversion HF as [|? v ? vs' Hx HF']; subst.
  - destruct g as [|g]; [cbn in Hg; lia|]. cbn [arr_loop]. rewrite andb_false_r. cbn [flat_map app].
    rewrite run_bind. cbn [run peek_type]. replace (255 =? 255) with true by reflexivity.
    rewrite run_bind, read_break_spec. cbn [run]. rewrite frev_rev, app_nil_r. reflexivity.
  - destruct g as [|g]; [cbn in Hg; lia|]. inversion Hw as [|? ? Hwx Hwxs]; subst.
    cbn [arr_loop]. rewrite andb_false_r. cbn [flat_map]. rewrite <- app_assoc.
    destruct (first_byte_not_break x Hwx) as (b & r & Hb & Hne & _).
    rewrite run_bind. specialize (Hx (flat_map ser xs ++ 255 :: rest)). rewrite Hb in *. cbn [app] in *.
    assert (Hpk : run peek_type (b :: r ++ flat_map ser xs ++ 255 :: rest) = (inl (Some (major_of b)), b :: r ++ flat_map ser xs ++ 255 :: rest)).
    { cbn. assert (b =? 255 = false) as -> by lia. reflexivity. }
    rewrite Hpk. rewrite run_bind, Hx. rewrite (IH vs') by (auto; cbn in Hg; lia). cbn [rev]. rewrite <- app_assoc. reflexivity.
Qed.

Lemma int_enc_first x z : int_enc x z -> wf x /\ exists b r, ser x = b :: r /\ b <> 255.
Proof.
  intros (neg & w & n & -> & Hf & _ & _). split; [exact Hf|]. cbn [ser]. unfold head. eexists _, _. split; [reflexivity|].
  pose proof (wai_lt w n Hf). destruct neg; cbn [mint mcode]; lia.
Qed.
Lemma int_enc_reads x z rest : int_enc x z -> run read_integer (ser x ++ rest) = (inl z, rest).
Proof.
  intros (neg & w & n & -> & Hf & Hn & ->). rewrite read_integer_spec by auto.
  destruct neg; [rewrite neg_of_small|rewrite clamp_i64_small]; auto.
Qed.
Lemma int_enc_key x z : int_enc x z -> key_enc x z.
Proof.
  intros (neg & w & n & -> & Hf & Hn & ->). exists neg, w, n. repeat split; auto.
  destruct neg; [rewrite neg_of_small|rewrite clamp_i64_small]; auto.
Qed.
Lemma key_enc_first x z : key_enc x z -> wf x /\ exists b r, ser x = b :: r /\ b <> 255.
Proof.
  intros (neg & w & n & -> & Hf & _). split; [exact Hf|]. cbn [ser]. unfold head. eexists _, _. split; [reflexivity|].
  pose proof (wai_lt w n Hf). destruct neg; cbn [mint mcode]; lia.
Qed.
Lemma key_enc_reads x z rest : key_enc x z -> run read_integer (ser x ++ rest) = (inl z, rest).
Proof. intros (neg & w & n & -> & Hf & ->). apply read_integer_spec. exact Hf. Qed.

Lemma map_loop_indef accs rdk sk : forall es g rec rest, Forall (entry_ok rdk sk) es ->
  Forall (fun e => exists b r, ser (e_kx e) = b :: r /\ b <> 255) es -> (length es < g)%nat ->
  forall n, run (map_loop accs rdk sk g n true rec) (flat_map ser_entry es ++ 255 :: rest) = (inl (fold_left (apply_e accs) es rec), rest).
Proof.
  induction es as [|e es IH]; intros g rec rest HF Hb Hg n; inversion HF as [|? ? He HF']; subst.
  - destruct g as [|g]; [cbn in Hg; lia|]. cbn [map_loop]. rewrite andb_false_r. cbn [flat_map app].
    rewrite run_bind. cbn [run peek_type]. replace (255 =? 255) with true by reflexivity.
    rewrite run_bind, read_break_spec. reflexivity.
  - destruct g as [|g]; [cbn in Hg; lia|]. inversion Hb as [|? ? Hbe Hbes]; subst.
    cbn [map_loop]. rewrite andb_false_r. cbn [flat_map]. unfold ser_entry at 1. rewrite <- !app_assoc.
    destruct Hbe as (b & r & Hs & Hne). destruct He as [Hk Hv].
    rewrite run_bind.
    assert (Hpk : run peek_type (ser (e_kx e) ++ ser (e_vx e) ++ flat_map ser_entry es ++ 255 :: rest)
                  = (inl (Some (major_of b)), ser (e_kx e) ++ ser (e_vx e) ++ flat_map ser_entry es ++ 255 :: rest)).
    { rewrite Hs. cbn. assert (b =? 255 = false) as -> by lia. reflexivity. }
    rewrite Hpk. rewrite run_bind, Hk. cbn [fold_left]. unfold apply_e at 2.
    destruct (rdk (e_key e)) as [[i rd]|]; destruct (e_upd e) as [[j v]|]; try contradiction.
    + destruct Hv as [-> Hv]. rewrite run_bind, Hv. apply IH; auto. cbn in Hg; lia.
    + rewrite run_bind, Hv. apply IH; auto. cbn in Hg; lia.
Qed.

(* ---------- every encoding reads as its value ---------- *)
Lemma uint_enc_reads x n rest : uint_enc x n -> run read_unsigned (ser x ++ rest) = (inl n, rest).
Proof. intros (w & -> & Hf). apply read_unsigned_spec. exact Hf. Qed.
Lemma uint_enc_wf x n : uint_enc x n -> wf x.
Proof. intros (w & -> & Hf). exact Hf. Qed.

Lemma str_enc_reads text x bs g rest : str_enc text x bs -> (length (ser x) <= g)%nat ->
  run (read_xstring (mstr text) g) (ser x ++ rest) = (inl bs, rest).
Proof.
  intros [(w & -> & Hf)|(cs & -> & Hw & ->)] Hg.
  - apply read_xstring_def; auto. cbn [ser] in Hg. rewrite app_length in Hg. lia.
  - apply read_xstring_indef; auto. cbn [ser] in Hg. cbn [length] in Hg. rewrite app_length in Hg. cbn [length] in Hg.
    pose proof (chunks_len_le (mstr text) cs). lia.
Qed.

Lemma flat_entries_ser es : flat_map ser (flat_entries es) = flat_map ser_entry es.
Proof.
  induction es as [|e es IH]; [reflexivity|]. unfold flat_entries in *. cbn [flat_map app]. rewrite IH.
  unfold ser_entry at 2. rewrite <- app_assoc. reflexivity.
Qed.
Lemma flat_entries_length es : length (flat_entries es) = (2 * length es)%nat.
Proof. induction es as [|e es IH]; [reflexivity|]. unfold flat_entries in *. cbn [flat_map app length]. rewrite IH. lia. Qed.


Lemma run_bind_assoc {A B C} (p : prog A) (q : A -> prog B) (r : B -> prog C) inp :
  run (bind p (fun a => bind (q a) r)) inp = run (bind (bind p q) r) inp.
Proof.
  rewrite (run_bind (bind p q) r), !run_bind. destruct (run p inp) as [[a|e] r1]; [|reflexivity].
  rewrite run_bind. reflexivity.
Qed.

Lemma peek_uint x n rest : uint_enc x n -> run peek_type (ser x ++ rest) = (inl (Some MU), ser x ++ rest).
Proof. intros (w & -> & Hf). cbn [ser mint]. apply peek_head. exact Hf. Qed.

Lemma wfl_of_Forall xs : Forall wf xs -> wfl xs.
Proof. induction 1; cbn; auto. Qed.
Lemma Forall2_reads_wf (P : item -> val -> Prop) rd xs vs g :
  Forall2 P xs vs -> (forall x v, In x xs -> P x v -> wf x /\ ((length (ser x) < g)%nat -> reads rd x v)) ->
  (length (flat_map ser xs) < g)%nat -> Forall2 (reads rd) xs vs /\ Forall wf xs.
Proof.
  induction 1 as [|x v xs vs Hx HF IH]; intros Hall Hg; [split; constructor|].
  cbn [flat_map] in Hg. rewrite app_length in Hg.
  destruct (Hall x v (or_introl eq_refl) Hx) as [Hw Hr].
  destruct IH as [H1 H2]; [intros y w Hy; apply Hall; right; exact Hy|lia|].
  split; constructor; auto. apply Hr. lia.
Qed.

Lemma arr_enc_reads rd x xs vs g rest racc0 : arr_enc x xs -> Forall2 (reads rd) xs vs -> Forall wf xs -> (length (ser x) < g)%nat ->
  racc0 = [] ->
  run (st <- read_array_start ;; arr_loop rd g (fst st) (snd st) racc0) (ser x ++ rest) = (inl vs, rest) /\ wf x.
Proof.
  intros [(w & -> & Hf)| -> ] HF Hw Hg ->.
  - cbn [ser mcont] in *. unfold cnt in *. rewrite app_length in Hg. split.
    + rewrite <- app_assoc, run_bind. unfold read_array_start. rewrite read_xstart_def by auto. cbn [fst snd].
      rewrite (arr_loop_def rd xs vs); auto. pose proof (length_le_flat xs). lia.
    + cbn [wf]. unfold cnt. split; [exact Hf|]. split; [discriminate|]. apply wfl_of_Forall. exact Hw.
  - cbn [ser mcont app] in *. cbn [length] in Hg. rewrite app_length in Hg. cbn [length] in Hg. split.
    + rewrite run_bind. unfold read_array_start. rewrite <- app_assoc. cbn [app]. rewrite read_xstart_indef by auto. cbn [fst snd].
      rewrite (arr_loop_indef rd xs vs); auto. pose proof (length_le_flat xs). lia.
    + cbn [wf]. split; [discriminate|]. apply wfl_of_Forall. exact Hw.
Qed.

Lemma fold_left_length_entries es : length (flat_map ser_entry es) = length (flat_map ser (flat_entries es)).
Proof. rewrite flat_entries_ser. reflexivity. Qed.

Lemma even_double n : Nat.even (2 * n) = true.
Proof. rewrite Nat.even_mul. reflexivity. Qed.

Theorem reencode_reads :
  (forall t x v, desc_ok t = true -> enc_of t x v ->
     wf x /\ forall g rest, (length (ser x) < g)%nat -> run (read_val g t) (ser x ++ rest) = (inl v, rest)) /\
  (forall fs g i key vx upd, fields_ok fs = true -> fenc fs i key vx upd -> (length (ser vx) < g)%nat ->
     wf vx /\ match find_field g fs i key, upd with
              | Some (j, rd), Some (j', v') => j = j' /\ reads rd vx v'
              | None, None => True
              | _, _ => False
              end).
Proof.
  apply ty_fields_ind.
  - (* TU *) intros bits x v _ (n & Hu & ->). split; [eapply uint_enc_wf; eauto|]. intros g rest Hg.
    cbn [read_val]. rewrite run_bind, (uint_enc_reads x n) by auto. reflexivity.
  - (* TI *) intros x v _ (z & Hi & ->). split; [apply (int_enc_first x z Hi)|]. intros g rest Hg.
    cbn [read_val]. rewrite run_bind, (int_enc_reads x z) by auto. reflexivity.
  - (* TBool *) intros x v _ (b & -> & ->). split; [cbn; destruct b; lia|]. intros g rest Hg.
    cbn [read_val]. rewrite run_bind, read_bool_spec. reflexivity.
  - (* TText *) intros x v _ (bs & Hs & ->). split.
    + destruct Hs as [(w & -> & Hf)|(cs & -> & Hw & _)]; [exact Hf|exact Hw].
    + intros g rest Hg. cbn [read_val]. rewrite run_bind. unfold read_textstring. change MT with (mstr true).
      rewrite (str_enc_reads true x bs) by (auto; lia). reflexivity.
  - (* TBytes *) intros x v _ (bs & Hs & ->). split.
    + destruct Hs as [(w & -> & Hf)|(cs & -> & Hw & _)]; [exact Hf|exact Hw].
    + intros g rest Hg. cbn [read_val]. rewrite run_bind. unfold read_bytestring. change MB with (mstr false).
      rewrite (str_enc_reads false x bs) by (auto; lia). reflexivity.
  - (* TTime *) intros x v _ (xs & s & k & Ha & HF & ->).
    inversion HF as [|x1 ? xs1 ? H1 HF1]; subst. inversion HF1 as [|x2 ? xs2 ? H2 HF2]; subst. inversion HF2; subst.
    assert (Hw1 := uint_enc_wf _ _ H1). assert (Hw2 := uint_enc_wf _ _ H2).
    destruct Ha as [(w & -> & Hf)| -> ].
    + split; [cbn [wf]; unfold cnt; cbn [length] in *; repeat split; auto; discriminate|].
      intros g rest Hg. cbn [read_val ser mcont flat_map]. unfold cnt. cbn [length] in *. change (N.of_nat 2) with 2 in *.
      unfold read_time. rewrite <- !app_assoc, run_bind. unfold read_array_start. rewrite read_xstart_def by auto.
      replace (2 =? 0) with false by reflexivity. rewrite run_bind, (uint_enc_reads x1 s) by auto.
      replace (2 =? 1) with false by reflexivity. cbn [app]. rewrite run_bind, (uint_enc_reads x2 k) by auto. reflexivity.
    + split; [cbn [wf]; repeat split; auto; discriminate|].
      intros g rest Hg. cbn [read_val ser mcont flat_map app]. unfold read_time.
      rewrite run_bind. unfold read_array_start. rewrite <- !app_assoc. cbn [app]. rewrite read_xstart_indef by auto.
      rewrite run_bind, (peek_uint x1 s) by auto. rewrite run_bind, (uint_enc_reads x1 s) by auto.
      rewrite run_bind, (peek_uint x2 k) by auto. rewrite run_bind, (uint_enc_reads x2 k) by auto.
      rewrite run_bind. cbn [run peek_type]. replace (255 =? 255) with true by reflexivity.
      rewrite run_bind, read_break_spec. reflexivity.
  - (* TArr *) intros e IH x v Hd (xs & vs & Ha & HF & ->). cbn [desc_ok] in Hd.
    assert (Hlen : forall g, (length (ser x) < g)%nat -> (length (flat_map ser xs) < g)%nat).
    { intros g Hg. destruct Ha as [(w & -> & _)| -> ]; cbn [ser] in Hg; [rewrite app_length in Hg; lia|].
      cbn [length] in Hg. rewrite app_length in Hg. lia. }
    assert (Hwf : Forall wf xs).
    { clear Hlen Ha. induction HF as [|y w ys ws Hy _ IHl]; constructor; auto. apply (IH y w Hd Hy). }
    split.
    + destruct Ha as [(w & -> & Hf)| -> ]; cbn [wf]; unfold cnt; repeat split; auto; try discriminate; apply wfl_of_Forall; auto.
    + intros g rest Hg. cbn [read_val]. unfold read_arr.
      assert (HR : Forall2 (reads (read_val g e)) xs vs).
      { specialize (Hlen g Hg). clear Ha Hg Hwf. induction HF as [|y w ys ws Hy _ IHl]; constructor.
        - intros rest'. apply (IH y w Hd Hy). cbn [flat_map] in Hlen. rewrite app_length in Hlen. lia.
        - apply IHl. cbn [flat_map] in Hlen. rewrite app_length in Hlen. lia. }
      destruct (arr_enc_reads (read_val g e) x xs vs g rest [] Ha HR Hwf Hg eq_refl) as [Hrun _].
      rewrite (run_bind_assoc read_array_start (fun st => arr_loop (read_val g e) g (fst st) (snd st) []) (fun xs0 => Ret (VL xs0))).
      rewrite run_bind, Hrun. reflexivity.
  - (* TIdx *) intros x v _ (xs & ns & Ha & HF & ->).
    set (rd := v0 <- read_unsigned ;; Ret (VN (v0 mod 2 ^ 32))).
    assert (HR : Forall2 (reads rd) xs (map (fun n => VN (n mod 2 ^ 32)) ns) /\ Forall wf xs).
    { clear Ha. induction HF as [|y n ys ns' Hy _ IHl]; [split; constructor|]. destruct IHl as [I1 I2]. split; constructor; auto.
      - intros rest'. unfold rd. rewrite run_bind, (uint_enc_reads y n) by auto. reflexivity.
      - eapply uint_enc_wf; eauto. }
    destruct HR as [HR Hwf]. split.
    + destruct Ha as [(w & -> & Hf)| -> ]; cbn [wf]; unfold cnt; repeat split; auto; try discriminate; apply wfl_of_Forall; auto.
    + intros g rest Hg. cbn [read_val]. unfold read_idx.
      destruct (arr_enc_reads rd x xs _ g rest [] Ha HR Hwf Hg eq_refl) as [Hrun _].
      assert (Hres : forall st : N * bool,
                run (Reserve (reserve_req (fst st)) (xs0 <- arr_loop rd g (fst st) (snd st) [] ;; Ret (VL xs0)))
                = run (xs0 <- arr_loop rd g (fst st) (snd st) [] ;; Ret (VL xs0))) by reflexivity.
      rewrite run_bind. rewrite run_bind in Hrun. destruct (run read_array_start (ser x ++ rest)) as [[st|er] r1]; [|discriminate].
      rewrite Hres, run_bind, Hrun. reflexivity.
  - (* TMap *) intros sk accs fs IH x v Hd (es & Hm & HF & Hmand & ->).
    cbn [desc_ok] in Hd. apply andb_true_iff in Hd. destruct Hd as [Hd Hfo]. apply andb_true_iff in Hd. destruct Hd as [Hnd Hfl].
    assert (Hlen : forall g, (length (ser x) < g)%nat -> (length (flat_map ser_entry es) < g)%nat).
    { intros g Hg. rewrite fold_left_length_entries. destruct Hm as [(w & -> & _)| -> ]; cbn [ser] in Hg; [rewrite app_length in Hg; lia|].
      cbn [length] in Hg. rewrite app_length in Hg. lia. }
    assert (Hwfl : wfl (flat_entries es)).
    { apply wfl_of_Forall. clear Hm Hmand Hlen. unfold flat_entries. induction HF as [|e es' [Hk Hv] _ IHl]; [constructor|].
      cbn [flat_map app]. constructor; [apply (key_enc_first _ _ Hk)|]. constructor; [|exact IHl].
      apply (IH (S (length (ser (e_vx e)))) 0%nat (e_key e) (e_vx e) (e_upd e) Hfo Hv). lia. }
    split.
    + destruct Hm as [(w & -> & Hf)| -> ]; cbn [wf]; unfold cnt; rewrite flat_entries_length.
      * split; [|split; [intros _; apply even_double|exact Hwfl]].
        rewrite Nat2N.inj_mul. change (N.of_nat 2) with 2. rewrite N.mul_comm, N.div_mul by lia. exact Hf.
      * split; [intros _; apply even_double|exact Hwfl].
    + intros g rest Hg. cbn [read_val]. specialize (Hlen g Hg).
      assert (Hok : Forall (entry_ok (find_field g fs 0) (skip_item g)) es /\ Forall (fun e => exists b r, ser (e_kx e) = b :: r /\ b <> 255) es).
      { clear Hm Hmand Hg Hwfl. induction HF as [|e es' [Hk Hv] _ IHl]; [split; constructor|].
        cbn [flat_map] in Hlen. rewrite app_length in Hlen. unfold ser_entry at 1 in Hlen. rewrite app_length in Hlen.
        destruct IHl as [I1 I2]; [lia|]. split; constructor; auto.
        - unfold entry_ok. split; [intros rest'; apply key_enc_reads; exact Hk|].
          destruct (IH g 0%nat (e_key e) (e_vx e) (e_upd e) Hfo Hv) as [Hwv Hmatch]; [lia|].
          destruct (find_field g fs 0 (e_key e)) as [[j rd]|]; destruct (e_upd e) as [[j' v']|]; try contradiction; auto.
          intros rest'. apply skip_item_spec; auto. lia.
        - apply (key_enc_first _ _ Hk). }
      destruct Hok as [Hok Hfirst]. pose proof (length_entries_le es) as Hle.
      rewrite run_bind. unfold read_map_start.
      destruct Hm as [(w & -> & Hf)| -> ].
      * cbn [ser mcont]. unfold cnt. rewrite flat_entries_length, Nat2N.inj_mul. change (N.of_nat 2) with 2.
        rewrite N.mul_comm, N.div_mul by lia. rewrite <- app_assoc, read_xstart_def by auto. cbn [fst snd].
        rewrite run_bind, flat_entries_ser, map_loop_def by (auto; lia). rewrite Hmand. reflexivity.
      * cbn [ser mcont app]. rewrite <- app_assoc. cbn [app]. rewrite read_xstart_indef by auto. cbn [fst snd].
        rewrite run_bind, flat_entries_ser, map_loop_indef by (auto; lia). rewrite Hmand. reflexivity.
  - (* FNil *) intros g i key vx upd _ [-> Hw] _. split; [exact Hw|]. cbn. exact I.
  - (* FCons *) intros k p t IHt r IHr g i key vx upd Hd H Hg.
    cbn [fields_ok] in Hd. apply andb_true_iff in Hd. destruct Hd as [Hdt Hdr].
    cbn [fenc find_field] in *. destruct (key =? k)%Z.
    + destruct H as (v' & -> & He). destruct (IHt vx v' Hdt He) as [Hw Hr]. split; [exact Hw|]. split; [reflexivity|].
      intros rest. apply Hr. exact Hg.
    + apply IHr; auto.
Qed.

(* ---------- the value does not depend on the order of the members, nor on members with unknown keys ---------- *)
Require Import Permutation.

Definition known_slots (es : list entry) : list nat :=
  flat_map (fun e => match e_upd e with Some (i, _) => [i] | None => [] end) es.

Lemma set_nth_comm {A} : forall (l : list A) i j x y, i <> j -> set_nth i x (set_nth j y l) = set_nth j y (set_nth i x l).
Proof.
  induction l as [|a l IH]; intros i j x y Hne.
  - destruct i, j; reflexivity.
  - destruct i as [|i], j as [|j]; cbn [set_nth]; try reflexivity; [congruence|]. f_equal. apply IH. congruence.
Qed.

Lemma nth_set_nth_neq {A} : forall (l : list A) i j y d, i <> j -> nth i (set_nth j y l) d = nth i l d.
Proof.
  induction l as [|a l IH]; intros i j y d Hne.
  - destruct j; reflexivity.
  - destruct i as [|i], j as [|j]; cbn [set_nth nth]; try reflexivity; [congruence|]. apply IH. congruence.
Qed.

Lemma apply_e_comm accs r a b : (forall i v j w, e_upd a = Some (i, v) -> e_upd b = Some (j, w) -> i <> j) ->
  apply_e accs (apply_e accs r a) b = apply_e accs (apply_e accs r b) a.
Proof.
  intros H. unfold apply_e. destruct (e_upd a) as [[i v]|], (e_upd b) as [[j w]|]; try reflexivity.
  assert (Hne : i <> j) by (apply (H i v j w eq_refl eq_refl)).
  rewrite (nth_set_nth_neq r j i) by congruence. rewrite (nth_set_nth_neq r i j) by congruence.
  apply set_nth_comm. congruence.
Qed.

Theorem fold_apply_perm accs : forall es es', Permutation es es' -> NoDup (known_slots es) ->
  forall r, fold_left (apply_e accs) es r = fold_left (apply_e accs) es' r.
Proof.
  induction 1 as [|e l l' Hp IH|a b l|l l' l'' H1 IH1 H2 IH2]; intros Hnd r.
  - reflexivity.
  - cbn [fold_left]. apply IH. unfold known_slots in *. cbn [flat_map] in Hnd.
    clear -Hnd. induction (match e_upd e with Some (i, _) => [i] | None => [] end) as [|x xs IHx]; [exact Hnd|].
    inversion Hnd; subst. apply IHx. assumption.
  - cbn [fold_left]. f_equal. apply apply_e_comm. intros i v j w Hb Ha.
    unfold known_slots in Hnd. cbn [flat_map] in Hnd. rewrite Ha, Hb in Hnd. cbn [app] in Hnd.
    inversion Hnd as [|? ? Hni _]; subst. intros ->. apply Hni. left. reflexivity.
  - rewrite IH1 by exact Hnd. apply IH2. eapply Permutation_NoDup; [|exact Hnd].
    unfold known_slots. apply Permutation_flat_map. exact H1.
Qed.

Theorem fold_apply_unknown accs : forall es1 e es2 r, e_upd e = None ->
  fold_left (apply_e accs) (es1 ++ e :: es2) r = fold_left (apply_e accs) (es1 ++ es2) r.
Proof.
  intros es1 e es2 r He. rewrite !fold_left_app. cbn [fold_left]. unfold apply_e at 2. rewrite He. reflexivity.
Qed.

(* the writer's own output is one of the encodings of the value (so C09 is the special case of C08 for canonical encodings) *)
Lemma int_item_enc z : (- Z.of_N two63 <= z < Z.of_N two63)%Z -> int_enc (int_item z) z.
Proof.
  intros H. unfold int_item, int_enc. destruct (Z.ltb_spec z 0).
  - exists true, (pw (Z.to_N (-1 - z))), (Z.to_N (-1 - z)). repeat split; [apply pw_fits; unfold two63, two64 in *; lia|unfold two63 in *; lia|lia].
  - exists false, (pw (Z.to_N z)), (Z.to_N z). repeat split; [apply pw_fits; unfold two63, two64 in *; lia|unfold two63 in *; lia|lia].
Qed.

Lemma flat_entries_of fs : forall vs j, flat_entries (entries_of j fs vs) = tree_fields fs vs.
Proof.
  induction fs as [|k p t r IH]; intros vs j; [reflexivity|]. destruct vs as [|v vs]; [reflexivity|].
  cbn [entries_of tree_fields]. unfold flat_entries in *. rewrite flat_map_app, IH. f_equal.
  destruct v as [x|]; [|reflexivity]. destruct (present p (Some x)); reflexivity.
Qed.
Lemma entries_keys fs : forall vs j e, In e (entries_of j fs vs) -> In (e_key e) (fkeys fs).
Proof.
  induction fs as [|k p t r IH]; intros vs j e H; [destruct vs; contradiction|]. destruct vs as [|v vs]; [contradiction|].
  cbn [entries_of fkeys] in *. apply in_app_or in H. destruct H as [H|H]; [|right; eapply IH; eauto].
  destruct v as [x|]; [|contradiction]. destruct (present p (Some x)); [|contradiction]. destruct H as [<-|[]]. left. reflexivity.
Qed.

(* the writer's canonical tree is one of the encodings of the value: C09 is the special case of C08 for the exporter's own output *)
Theorem canonical_enc :
  (forall t v, desc_ok t = true -> has_ty t v -> enc_of t (tree_of t v) v) /\
  (forall fs sk vs, fields_ok fs = true -> fields_ty sk fs vs -> NoDup (fkeys fs) -> forall i,
     Forall (fun e => key_enc (e_kx e) (e_key e) /\ fenc fs i (e_key e) (e_vx e) (e_upd e)) (entries_of i fs vs)).
Proof.
  apply ty_fields_ind.
  - intros bits [n|z|b|bs|xs|fs] _ H; try contradiction. cbn [has_ty] in H. destruct H as [Hn Hb]. cbn [enc_of tree_of].
    assert (Hn64 : n < two64). { unfold two64. destruct Hb as [ -> | [ -> | [ -> | -> ] ] ]; cbn in Hn; lia. }
    exists n. split; [exists (pw n); split; [reflexivity|apply pw_fits; exact Hn64]|]. rewrite N.mod_small by exact Hn. reflexivity.
  - intros [n|z|b|bs|xs|fs] _ H; try contradiction. cbn [has_ty] in H. cbn [enc_of tree_of]. exists z. split; [apply int_item_enc; exact H|reflexivity].
  - intros [n|z|b|bs|xs|fs] _ H; try contradiction. cbn [enc_of tree_of]. exists b. split; reflexivity.
  - intros [n|z|b|bs|xs|fs] _ H; try contradiction. cbn [has_ty] in H. cbn [enc_of tree_of]. exists bs. split; [|reflexivity].
    left. exists (pw (N.of_nat (length bs))). split; [reflexivity|apply pw_fits; apply H].
  - intros [n|z|b|bs|xs|fs] _ H; try contradiction. cbn [has_ty] in H. cbn [enc_of tree_of]. exists bs. split; [|reflexivity].
    left. exists (pw (N.of_nat (length bs))). split; [reflexivity|apply pw_fits; apply H].
  - intros [n|z|b|bs|xs|fs] _ H; try contradiction.
    destruct xs as [|[s| | | | |] [|[k| | | | |] [|? ?]]]; try contradiction. cbn [has_ty] in H. destruct H as [Hs Hk].
    cbn [enc_of tree_of]. exists [uint_item s; uint_item k], s, k. split; [left; exists W0; split; [reflexivity|cbn; lia]|]. split; [|reflexivity].
    constructor; [exists (pw s); split; [reflexivity|apply pw_fits; exact Hs]|]. constructor; [exists (pw k); split; [reflexivity|apply pw_fits; exact Hk]|constructor].
  - intros e IH [n|z|b|bs|xs|fs] Hd H; try contradiction. cbn [has_ty] in H. destruct H as [Hl H]. apply all_Forall in H.
    cbn [enc_of tree_of]. exists (map (tree_of e) xs), xs. split; [left; exists (pw (N.of_nat (length xs))); split; [reflexivity|rewrite map_length; apply pw_fits; exact Hl]|].
    split; [|reflexivity]. clear Hl. induction H as [|x xs Hx _ IHl]; cbn [map]; constructor; auto.
  - intros [n|z|b|bs|xs|fs] _ H; try contradiction. cbn [has_ty] in H. destruct H as [Hl H]. apply all_Forall in H.
    cbn [enc_of tree_of].
    exists (map (fun x => match x with VN n => uint_item n | _ => ISeven W0 0 end) xs), (map (fun x => match x with VN n => n | _ => 0 end) xs).
    split; [left; exists (pw (N.of_nat (length xs))); split; [reflexivity|rewrite map_length; apply pw_fits; exact Hl]|].
    split.
    + clear Hl. induction H as [|x xs Hx _ IHl]; cbn [map]; constructor; auto. destruct x; try contradiction.
      exists (pw n). split; [reflexivity|apply pw_fits; unfold two64; cbn in Hx; lia].
    + f_equal. clear Hl. induction H as [|x xs Hx _ IHl]; cbn [map]; [reflexivity|]. rewrite <- IHl. f_equal. destruct x; try contradiction.
      rewrite N.mod_small by exact Hx. reflexivity.
  - intros sk accs fs IH [n|z|b|bs|xs|vs] Hd H; try contradiction. cbn [has_ty] in H.
    cbn [desc_ok] in Hd. apply andb_true_iff in Hd. destruct Hd as [Hd Hfo]. apply andb_true_iff in Hd. destruct Hd as [Hnd Hfl].
    cbn [enc_of tree_of]. exists (entries_of 0 fs vs). split; [|split; [|split]].
    + left. exists (pw (count_present fs vs)). rewrite flat_entries_of. split; [reflexivity|]. rewrite entries_length. apply pw_fits.
      pose proof (count_le_flen fs vs). unfold two64. lia.
    + apply (IH sk); auto. apply nodupb_NoDup. exact Hnd.
    + pose proof (entries_fold accs sk fs vs [] H) as Hf. cbn [length app] in Hf. rewrite Hf. apply (mand_ok_ty sk fs vs H).
    + pose proof (entries_fold accs sk fs vs [] H) as Hf. cbn [length app] in Hf. rewrite Hf. rewrite (proj2 (mand_ok_ty sk fs vs H)). reflexivity.
  - intros sk vs _ H _ i. destruct vs; constructor.
  - intros k p t IHt r IHr sk vs Hd H Hnd i. destruct vs as [|v vs]; [contradiction|].
    cbn [fields_ty] in H. destruct H as (Hk & Hv & Hr). cbn [fields_ok] in Hd. apply andb_true_iff in Hd. destruct Hd as [Hdt Hdr].
    cbn [fkeys] in Hnd. inversion Hnd as [|? ? Hni Hnd']; subst.
    cbn [entries_of]. apply Forall_app. split.
    + destruct v as [x|]; [|constructor]. destruct (present p (Some x)) eqn:Hp; [|constructor]. constructor; [|constructor].
      cbn [e_kx e_key e_vx e_upd]. split; [apply int_enc_key; apply int_item_enc; unfold two63; destruct sk; lia|].
      cbn [fenc]. rewrite Z.eqb_refl. exists x. split; [reflexivity|]. apply IHt; auto.
      destruct p; try tauto. destruct x; try contradiction. exact Hv.
    + specialize (IHr sk vs Hdr Hr Hnd' (S i)). rewrite Forall_forall in *. intros e He. destruct (IHr e He) as [A B]. split; [exact A|].
      cbn [fenc]. assert ((e_key e =? k)%Z = false) as ->; [|exact B].
      apply Z.eqb_neq. intros E. apply Hni. rewrite <- E. eapply entries_keys; eauto.
Qed.
