(* Properties_C17.v — C17: timestamp offsets are exact, invertible and never negative within a block. *)
Require Import Base Timestamp TimestampProofs.
Require Import Cbor EncoderModel DecoderModel Schema Block BlockProofs Exporter ExporterProofs E2ESpec BlockRead FileProofs.
Local Open Scope Z_scope.

(* offset of one timestamp from another = exact signed tick difference *)
Theorem C17_offset_exact : forall t r tps, rate_ok tps -> ts_ok t tps -> ts_ok r tps ->
  get_time_offset t r tps = TOk (instant t tps - instant r tps).
Proof. exact offset_exact. Qed.
Print Assumptions C17_offset_exact.

(* adding that offset back to the reference reproduces the instant, in normalised form (the original
   timestamp itself when it was normalised) *)
Theorem C17_add_inverse : forall t r tps, rate_ok tps -> ts_ok t tps -> ts_ok r tps ->
  exists t', add_time_offset r (instant t tps - instant r tps) tps = TOk t'
             /\ instant t' tps = instant t tps /\ normalised t' tps /\ (normalised t tps -> t' = t).
Proof. exact add_inverse. Qed.
Print Assumptions C17_add_inverse.

Theorem C17_compare_lt : forall a b tps, normalised a tps -> normalised b tps ->
  ts_lt a b = (instant a tps <? instant b tps).
Proof. exact compare_lt. Qed.
Print Assumptions C17_compare_lt.
Theorem C17_compare_le : forall a b tps, normalised a tps -> normalised b tps ->
  ts_le a b = (instant a tps <=? instant b tps).
Proof. exact compare_le. Qed.
Print Assumptions C17_compare_le.

(* refusal: for every int64 offset (INT64_MIN included) the call throws exactly when the result would lie
   before the epoch (or beyond the int64 tick range); at rate 0 always; it never executes undefined
   arithmetic; a throwing call returns no new state (the model is functional, the timestamp is unchanged) *)
Theorem C17_refuse : forall t off tps, rate_ok tps -> ts_ok t tps -> i64 off ->
  (add_time_offset t off tps = TThrow <-> (instant t tps + off < 0 \/ M63 <= instant t tps + off)).
Proof. exact add_refuse. Qed.
Print Assumptions C17_refuse.
Theorem C17_rate0 : forall t r off, add_time_offset t off 0 = TThrow /\ get_time_offset t r 0 = TThrow.
Proof. intros; split; [apply add_rate0|apply off_rate0]. Qed.
Print Assumptions C17_rate0.
Theorem C17_no_ub : forall t off tps, add_time_offset t off tps <> TUB.
Proof. exact add_never_ub. Qed.
Print Assumptions C17_no_ub.

(* every block the library builds: after any history of add calls (timed and untimed records in any order,
   stored or not) the earliest time is not later than any stored record time *)
Theorem C17_block : forall tps, 1 <= tps -> forall evs, Forall (ev_ok tps) evs ->
  bt_inv tps (fold_left bt_add evs bt_init).
Proof. intros tps H evs He. apply bt_history; auto. apply bt_inv_init; auto. Qed.
Print Assumptions C17_block.

(* hence every stored offset is non-negative and recovers its record time exactly *)
Theorem C17_block_offsets : forall tps, rate_ok tps -> forall evs, Forall (ev_ok tps) evs ->
  let b := fold_left bt_add evs bt_init in
  ts_ok (earliest b) tps ->
  Forall (fun t => ts_ok t tps ->
            exists d, get_time_offset t (earliest b) tps = TOk d /\ 0 <= d /\
                      add_time_offset (earliest b) d tps = TOk t) (stored b).
Proof.
  intros tps Hr evs He b Hek.
  assert (Hi : bt_inv tps b) by (apply C17_block; auto; unfold rate_ok in Hr; lia).
  destruct Hi as (_ & _ & HF). eapply Forall_impl; [|exact HF]. cbn.
  intros t [Hn Hle] Ht. exists (instant t tps - instant (earliest b) tps).
  split; [apply offset_exact; auto|]. split; [lia|].
  destruct (add_inverse t (earliest b) tps Hr Ht Hek) as (t' & H1 & _ & _ & H4).
  rewrite H1, (H4 Hn). reflexivity.
Qed.
Print Assumptions C17_block_offsets.

(* THE BLOCKS THE EXPORTER BUILDS (not an abstraction of them): over every admissible API history every block — written or still
   buffered — satisfies [good_blk]: its earliest time is a normalised in-range instant not later than any stored query/response or
   malformed-message time ([time_inv]), whatever the interleaving of timed / untimed / unstorable records and hint settings *)
Theorem C17_blocks_of_histories : forall ops x hn, good_inv x -> adm x hn ops -> good_inv (xrun x ops).
Proof. exact xrun_good. Qed.
Print Assumptions C17_blocks_of_histories.
(* ... hence, in such a block, writing each record time as an offset from the earliest time (as CdnsBlock::write does, through the
   uint64 cast) and adding it back (as CdnsBlockRead::read does, through the int64 reinterpretation) returns every item unchanged:
   all offsets are non-negative and every record time is recovered exactly *)
Theorem C17_block_offsets_roundtrip : forall b, time_inv b ->
  resolve_all (b_earliest b) (bp_tps (b_bp b)) (map (conv_item (b_earliest b) (bp_tps (b_bp b))) (b_qrs b)) = Some (b_qrs b) /\
  resolve_all (b_earliest b) (bp_tps (b_bp b)) (map (conv_item (b_earliest b) (bp_tps (b_bp b))) (b_mms b)) = Some (b_mms b).
Proof.
  intros b (H1 & H2 & H3 & Hq & Hm). split; apply resolve_all_conv; auto.
Qed.
Print Assumptions C17_block_offsets_roundtrip.

Example C17_nonvacuous :
  rate_ok 1000000 /\ ts_ok (mkTs 1600000000 999999) 1000000 /\ i64 (- M63) /\
  add_time_offset (mkTs 10 5) (- M63) 1000000 = TThrow /\
  add_time_offset (mkTs 10 5) (-10000005) 1000000 = TOk (mkTs 0 0) /\
  get_time_offset (mkTs 1600000000 999999) (mkTs 1599999999 0) 1000000 = TOk 1999999.
Proof. unfold rate_ok, ts_ok, i64, instant, M63; cbn. repeat split; try lia; reflexivity. Qed.
