(* Exporter.v — executable model of CDNS::CdnsExporter and CDNS::CdnsReader (src/cdns.{h,cpp}) on top of the block
   model (Block.v), the schema interpreters (Schema.v), the encoder model and the decoder programs.
   An output is the byte stream its encoder produced until it was closed.  No proofs here. *)
Require Import Base Cbor EncoderModel DecoderModel Schema Timestamp Block.
Local Open Scope N_scope.

(* ------------------------------------------------------------------------------------------------ exporter *)
Record exporter := mkX {
  x_major : option val; x_minor : option val; x_private : option val;     (* FilePreamble versions *)
  x_params : list val;                    (* m_file_preamble.m_block_parameters *)
  x_blk : blk;                            (* m_block *)
  x_active : N;                           (* m_active_block_parameters *)
  x_written : N;                          (* m_blocks_written *)
  x_enc : enc;                            (* m_encoder: staging buffer + what it handed to the current output *)
  x_closed : list (list N);               (* outputs closed by rotation, newest first *)
  x_done : list blk }.                    (* ghost: the blocks written so far, oldest first (not used by any operation) *)

Definition preamble_val (x : exporter) : val := VR [x_major x; x_minor x; x_private x; Some (VL (x_params x))].
Definition nth_bp (ps : list val) (i : N) : bparams := bp_of_val (nth (N.to_nat i) ps (VR [])).

Definition x_new (pre : val) : exporter :=
  match pre with
  | VR [ma; mi; pv; Some (VL ps)] => mkX ma mi pv ps (blk_new (nth_bp ps 0) 0) 0 0 enc_init [] []
  | _ => mkX None None None [] (blk_new (mkBp 0 0 0 0 0 0) 0) 0 0 enc_init [] []
  end.

(* run encoder operations, summing the returned byte counts *)
Definition enc_run (e : enc) (ops : list eop) : enc * N :=
  let '(e', rs) := eruns e ops in (e', fold_left N.add rs 0).

Definition cdns_text : list N := [67; 45; 68; 78; 83].      (* "C-DNS" *)
Definition header_ops (x : exporter) : list eop :=
  [OArr 3; OText cdns_text] ++ write_val FilePreamble (preamble_val x) ++ [OIndefArr].

Definition with_enc (x : exporter) (e : enc) (w : N) : exporter :=
  mkX (x_major x) (x_minor x) (x_private x) (x_params x) (x_blk x) (x_active x) w e (x_closed x) (x_done x).
Definition with_blk (x : exporter) (b : blk) : exporter :=
  mkX (x_major x) (x_minor x) (x_private x) (x_params x) b (x_active x) (x_written x) (x_enc x) (x_closed x) (x_done x).

(* write_block(CdnsBlock&) *)
Definition write_block_ext (x : exporter) (b : blk) : exporter * N :=
  if item_count b =? 0 then (x, 0) else
  let ops := (if x_written x =? 0 then header_ops x else []) ++ write_val Block (blk_val b) in
  let '(e', r) := enc_run (x_enc x) ops in
  let x' := with_enc x e' (x_written x + 1) in
  (mkX (x_major x') (x_minor x') (x_private x') (x_params x') (x_blk x') (x_active x') (x_written x') (x_enc x') (x_closed x') (x_done x ++ [b]), r).

(* write_block(): the buffered block, then clear() and set_block_parameters(active) *)
Definition write_block (x : exporter) : exporter * N :=
  let '(x1, r) := write_block_ext x (x_blk x) in
  let b := blk_clear (x_blk x1) in
  let '(b', _) := blk_set_bp b (nth_bp (x_params x1) (x_active x1)) (x_active x1) in
  (with_blk x1 b', r).

Definition buffer (add : blk -> blk * bool) (x : exporter) : exporter * N :=
  let '(b', full) := add (x_blk x) in
  let x1 := with_blk x b' in
  if full then write_block x1 else (x1, 0).
Definition buffer_qr (gr : list (option val)) (st : option val) := buffer (add_qr gr st).
Definition buffer_aec (ga : list (option val)) (st : option val) := buffer (add_aec ga st).
Definition buffer_mm (gm : list (option val)) (st : option val) := buffer (add_mm gm st).

(* rotate_output(out, export_current_block) *)
Definition rotate (export : bool) (x : exporter) : exporter * N :=
  let '(x1, r1) := if export then write_block x else (x, 0) in
  let '(e2, r2) := if 0 <? x_written x1 then enc_run (x_enc x1) [OBreak] else (x_enc x1, 0) in
  let out := stream (flush e2) in
  (mkX (x_major x1) (x_minor x1) (x_private x1) (x_params x1) (x_blk x1) (x_active x1) 0 enc_init (out :: x_closed x1) (x_done x1),
   r1 + r2).

(* ~CdnsExporter(): the closing break when at least one block was written; the buffered block is NOT written *)
Definition destroy (x : exporter) : list N :=
  let '(e2, _) := if 0 <? x_written x then enc_run (x_enc x) [OBreak] else (x_enc x, 0) in
  stream (flush e2).

Definition add_block_parameters (bp : val) (x : exporter) : exporter * N :=
  (mkX (x_major x) (x_minor x) (x_private x) (x_params x ++ [bp]) (x_blk x) (x_active x) (x_written x) (x_enc x) (x_closed x) (x_done x),
   N.of_nat (length (x_params x))).
Definition set_active (i : N) (x : exporter) : exporter * bool :=
  if N.of_nat (length (x_params x)) <=? i then (x, false)
  else (mkX (x_major x) (x_minor x) (x_private x) (x_params x) (x_blk x) i (x_written x) (x_enc x) (x_closed x) (x_done x), true).

(* ------------------------------------------------------------------------------------------------ reader *)
Definition upper (b : N) : N := if (97 <=? b) && (b <=? 122) then b - 32 else b.

(* CdnsReader::read_file_header *)
Definition read_file_header (g : nat) : prog (val * (N * bool)) :=
  st <- read_array_start ;;
  if negb (fst st =? 3) && negb (snd st) then Throw EDec else
  id <- read_textstring g ;;
  if negb (list_eqb N.eqb (map upper id) cdns_text) then Throw EDec else
  pre <- read_val g FilePreamble ;;
  bl <- read_array_start ;;
  Ret (pre, bl).

(* a block as the reader holds it after CdnsBlockRead::read: record times resolved to absolute timestamps *)
Record rblock := mkRb { r_earliest : val; r_bpi : option val; r_bp : bparams; r_stats : option val; r_tables : list (option val);
                        r_qrs : list val; r_aecs : list (val * N); r_mms : list val }.

Definition params_of (pre : val) : list val := match pre with VR [_; _; _; Some (VL ps)] => ps | _ => [] end.

(* qr.time_offset = earliest; qr.time_offset->add_time_offset(offset, tps) *)
Definition resolve_time (earliest : ts) (tps : N) (it : val) : option val :=
  match it with
  | VR (Some (VN off) :: rest) =>
      match add_time_offset earliest (DecoderModel.to_i64 off) (Z.of_N tps) with
      | TOk t => Some (VR (Some (ts_val t) :: rest))
      | _ => None
      end
  | _ => Some it
  end.
Fixpoint resolve_all (earliest : ts) (tps : N) (l : list val) : option (list val) :=
  match l with
  | [] => Some []
  | it :: l' => match resolve_time earliest tps it, resolve_all earliest tps l' with
                | Some a, Some b => Some (a :: b) | _, _ => None end
  end.
(* m_address_event_counts[tmp] += count with the count removed from the key *)
Fixpoint aec_merge (l : list (val * N)) (k : val) (c : N) : list (val * N) :=
  match l with
  | [] => [(k, c)]
  | (k', c') :: l' => if val_eqb k' k then (k', (c' + c) mod two64) :: l' else (k', c') :: aec_merge l' k c
  end.
Definition aec_key (a : val) : val * N :=
  match a with VR [t; c; i; f; Some (VN n)] => (VR [t; c; i; f; Some (VN 0)], n) | _ => (a, 0) end.
Definition lst (o : option val) : list val := match o with Some (VL l) => l | _ => [] end.

Definition block_of_val (params : list val) (v : val) : prog rblock :=
  match v with
  | VR [Some (VR [Some et; bpi]); stats; tbs; qrs; aecs; mms] =>
      match params with [] => Throw EDec | _ =>
      let idx := match bpi with Some (VN i) => i | _ => 0 end in
      if N.of_nat (length params) <=? idx then Throw EDec else
      let bp := nth_bp params idx in
      match ts_of_val et with
      | None => Throw EDec
      | Some e =>
        match resolve_all e (bp_tps bp) (lst qrs), resolve_all e (bp_tps bp) (lst mms) with
        | Some q, Some m =>
            Ret (mkRb et bpi bp stats (match tbs with Some (VR l) => l | _ => [] end) q
                      (fold_left (fun acc a => let '(k, c) := aec_key a in aec_merge acc k c) (lst aecs) []) m)
        | _, _ => Throw ERun
        end
      end end
  | _ => Throw EDec
  end.

Definition read_block_body (g : nat) (params : list val) : prog rblock :=
  v <- read_val g Block ;; block_of_val params v.

(* CdnsReader state: blocks_count, blocks_read, indef *)
Record rstate := mkRs { rs_pre : val; rs_count : N; rs_read : N; rs_indef : bool }.
Definition reader_open (g : nat) : prog rstate :=
  h <- read_file_header g ;; Ret (mkRs (fst h) (fst (snd h)) 0 (snd (snd h))).
(* read_block(eof): None = eof *)
Definition reader_next (g : nat) (s : rstate) : prog (option rblock * rstate) :=
  if rs_indef s then
    pk <- peek_type ;;
    match pk with
    | None => read_break ;;; Ret (None, mkRs (rs_pre s) (rs_read s) (rs_read s) false)
    | Some _ => b <- read_block_body g (params_of (rs_pre s)) ;; Ret (Some b, mkRs (rs_pre s) (rs_count s) (rs_read s + 1) true)
    end
  else if rs_read s =? rs_count s then Ret (None, s)
  else b <- read_block_body g (params_of (rs_pre s)) ;; Ret (Some b, mkRs (rs_pre s) (rs_count s) (rs_read s + 1) false).

Fixpoint read_blocks (g : nat) (fuel : nat) (s : rstate) (racc : list rblock) : prog (list rblock) :=
  match fuel with
  | O => Throw EFuel
  | S f => r <- reader_next g s ;;
           match fst r with
           | None => Ret (frev racc)
           | Some b => read_blocks g f (snd r) (b :: racc)
           end
  end.
Definition read_file (g : nat) : prog (val * list rblock) :=
  s <- reader_open g ;; bs <- read_blocks g g s [] ;; Ret (rs_pre s, bs).

(* ------------------------------------------------------------------------------------------------ generic records back *)
(* the n-th element of a list for a binary index: the bounds check comes first, so that an index of 2^31 read from a malformed file is
   refused without ever being turned into a unary number (the executable model met such indices: one integer of a file at a boundary) *)
Definition nthN {A} (l : list A) (n : N) : option A := if N.of_nat (length l) <=? n then None else nth_error l (N.to_nat n).
Lemma nthN_spec {A} (l : list A) (n : N) : nthN l n = nth_error l (N.to_nat n).
Proof.
  unfold nthN. destruct (N.leb_spec (N.of_nat (length l)) n) as [H|H]; [|reflexivity].
  symmetry. apply nth_error_None. lia.
Qed.
Definition tl_get (tbs : list (option val)) (i : nat) (ix : option val) : option (option val) :=
  (* Some None: member absent; None: index out of range (std::runtime_error) *)
  match ix with
  | None => Some None
  | Some (VN n) => match nthN (lst (nth_o tbs i)) n with Some v => Some (Some v) | None => None end
  | Some _ => None
  end.
Definition obind {A B} (o : option A) (f : A -> option B) : option B := match o with Some a => f a | None => None end.
Notation "x <~ o ;; k" := (obind o (fun x => k)) (at level 61, o at next level, right associativity).
Definition fields_of (o : option val) : list (option val) := match o with Some (VR l) => l | _ => [] end.

Fixpoint gen_qs (tbs : list (option val)) (ixs : list val) : option (list val) :=
  match ixs with
  | [] => Some []
  | ix :: r =>
      q <~ tl_get tbs 5 (Some ix) ;;
      let qf := fields_of q in
      nm <~ tl_get tbs 2 (nth_o qf 0) ;; ct <~ tl_get tbs 1 (nth_o qf 1) ;;
      rest <~ gen_qs tbs r ;; Some (VR [nm; ct; None; None] :: rest)
  end.
Fixpoint gen_rrs (tbs : list (option val)) (ixs : list val) : option (list val) :=
  match ixs with
  | [] => Some []
  | ix :: r =>
      q <~ tl_get tbs 7 (Some ix) ;;
      let qf := fields_of q in
      nm <~ tl_get tbs 2 (nth_o qf 0) ;; ct <~ tl_get tbs 1 (nth_o qf 1) ;; rd <~ tl_get tbs 2 (nth_o qf 3) ;;
      rest <~ gen_rrs tbs r ;; Some (VR [nm; ct; nth_o qf 2; rd] :: rest)
  end.
Definition gen_qlist (tbs : list (option val)) (ix : option val) : option (option val) :=
  match ix with
  | None => Some None
  | Some _ => l <~ tl_get tbs 4 ix ;; qs <~ gen_qs tbs (lst l) ;; Some (Some (VL qs))
  end.
Definition gen_rrlist (tbs : list (option val)) (ix : option val) : option (option val) :=
  match ix with
  | None => Some None
  | Some _ => l <~ tl_get tbs 6 ix ;; rs <~ gen_rrs tbs (lst l) ;; Some (Some (VL rs))
  end.

(* read_generic_qr *)
Definition gen_qr (tbs : list (option val)) (it : val) : option val :=
  let s := nth_o (fields_of (Some it)) in
  g1 <~ tl_get tbs 0 (s 1%nat) ;;
  sg <~ tl_get tbs 3 (s 4%nat) ;;
  let q := nth_o (fields_of sg) in
  g4 <~ tl_get tbs 0 (q 0%nat) ;; g12 <~ tl_get tbs 1 (q 8%nat) ;; g19 <~ tl_get tbs 2 (q 15%nat) ;;
  g23 <~ tl_get tbs 2 (s 7%nat) ;;
  let rp := nth_o (fields_of (s 10%nat)) in
  g26 <~ tl_get tbs 2 (rp 0%nat) ;;
  let qe := nth_o (fields_of (s 11%nat)) in
  g28 <~ gen_qlist tbs (qe 0%nat) ;; g29 <~ gen_rrlist tbs (qe 1%nat) ;; g30 <~ gen_rrlist tbs (qe 2%nat) ;; g31 <~ gen_rrlist tbs (qe 3%nat) ;;
  let re := nth_o (fields_of (s 12%nat)) in
  g32 <~ gen_qlist tbs (re 0%nat) ;; g33 <~ gen_rrlist tbs (re 1%nat) ;; g34 <~ gen_rrlist tbs (re 2%nat) ;; g35 <~ gen_rrlist tbs (re 3%nat) ;;
  Some (VR [s 0%nat; g1; s 2%nat; s 3%nat; g4; q 1%nat; q 2%nat; q 3%nat; q 4%nat; q 5%nat; q 6%nat; q 7%nat; g12; q 9%nat; narrow16 (q 10%nat);
            q 11%nat; q 12%nat; q 13%nat; q 14%nat; g19; q 16%nat; s 5%nat; s 6%nat; g23; s 8%nat; s 9%nat; g26; rp 1%nat;
            g28; g29; g30; g31; g32; g33; g34; g35; s 13%nat; s 14%nat; s 15%nat]).

(* read_generic_aec *)
Definition gen_aec (tbs : list (option val)) (kc : val * N) : option val :=
  let k := nth_o (fields_of (Some (fst kc))) in
  ip <~ tl_get tbs 0 (k 2%nat) ;;
  match ip with Some _ => Some (VR [k 0%nat; k 1%nat; k 3%nat; ip; Some (VN (snd kc))]) | None => None end.

(* read_generic_mm *)
Definition gen_mm (tbs : list (option val)) (it : val) : option val :=
  let s := nth_o (fields_of (Some it)) in
  g1 <~ tl_get tbs 0 (s 1%nat) ;;
  md <~ tl_get tbs 8 (s 3%nat) ;;
  let d := nth_o (fields_of md) in
  g3 <~ tl_get tbs 0 (d 0%nat) ;;
  Some (VR [s 0%nat; g1; s 2%nat; g3; d 1%nat; d 2%nat; d 3%nat]).

(* ------------------------------------------------------------------------------------------------ the API as an alphabet *)
Inductive xop :=
| XQr (gr : list (option val)) (st : option val)
| XAec (ga : list (option val)) (st : option val)
| XMm (gm : list (option val)) (st : option val)
| XWb
| XRot (export : bool)
| XAddBp (bp : val)
| XSetBp (i : N).
Definition xstep (x : exporter) (o : xop) : exporter * N :=
  match o with
  | XQr gr st => buffer_qr gr st x
  | XAec ga st => buffer_aec ga st x
  | XMm gm st => buffer_mm gm st x
  | XWb => write_block x
  | XRot e => rotate e x
  | XAddBp bp => add_block_parameters bp x
  | XSetBp i => let '(x', b) := set_active i x in (x', if b then 1 else 0)
  end.
Definition xrun (x : exporter) (ops : list xop) : exporter := fold_left (fun x o => fst (xstep x o)) ops x.

(* ------------------------------------------------------------------------------------------------ blocks as values
   A block read from a file is a CdnsBlock like any other (CdnsBlockRead derives from it): same tables, items with
   absolute times, address-event map.  Copy-construction, move-construction and assignment copy the value. *)
Definition tbs_of_tables (tb : tables) : list (option val) :=
  [Some (VL (t_ip tb)); Some (VL (t_ct tb)); Some (VL (t_nr tb)); Some (VL (t_sig tb)); Some (VL (t_qlist tb));
   Some (VL (t_qrr tb)); Some (VL (t_rrlist tb)); Some (VL (t_rr tb)); Some (VL (t_mmd tb))].
Definition tables_of_tbs (l : list (option val)) : tables :=
  mkTables (lst (nth_o l 0)) (lst (nth_o l 1)) (lst (nth_o l 2)) (lst (nth_o l 3)) (lst (nth_o l 4))
           (lst (nth_o l 5)) (lst (nth_o l 6)) (lst (nth_o l 7)) (lst (nth_o l 8)).
Definition blk_of_rb (rb : rblock) : blk :=
  mkBlk (match ts_of_val (r_earliest rb) with Some t => t | None => ts0 end) (vn (r_bpi rb)) (r_bp rb) (r_stats rb)
        (tables_of_tbs (r_tables rb)) (r_qrs rb) (r_aecs rb) (r_mms rb).
