(* FileProofs.v — the bytes of every output of an exporter history, and what the file reader makes of them.
   Part A: framing.  Over every admissible history each closed output is, byte for byte,
        header(preamble at the time) ++ the serialisations of the blocks written to it ++ break      (or nothing at all),
   the blocks of the closed outputs followed by those of the open one are exactly the blocks written, in order. *)
Require Import Base Cbor SpecEnc EncoderModel EncoderProofs DecoderModel DecoderProofs Schema SchemaProofs
               Timestamp TimestampProofs Block BlockProofs Exporter ExporterProofs E2ESpec BlockRead.
Local Open Scope N_scope.

Lemma desc_ok_Block : desc_ok Schema.Block = true. Proof. vm_compute. reflexivity. Qed.
Lemma desc_ok_FilePreamble : desc_ok FilePreamble = true. Proof. vm_compute. reflexivity. Qed.

Definition typed_blk (b : blk) : Prop := has_ty Schema.Block (blk_val b).
Definition typed_pre (pre : val) : Prop := has_ty FilePreamble pre.
Definition blk_bytes (b : blk) : list N := ser (tree_of Schema.Block (blk_val b)).
Definition hdr_bytes (pre : val) : list N := [131; 101; 67; 45; 68; 78; 83] ++ ser (tree_of FilePreamble pre) ++ [159].
Definition file_bytes (pre : val) (bs : list blk) : list N :=
  match bs with [] => [] | _ => hdr_bytes pre ++ flat_map blk_bytes bs ++ [255] end.

Lemma bytes_of_app a b : bytes_of (a ++ b) = bytes_of a ++ bytes_of b.
Proof. unfold bytes_of. apply flat_map_app. Qed.

Lemma header_spec x : typed_pre (preamble_val x) ->
  bytes_of (header_ops x) = hdr_bytes (preamble_val x) /\ Forall in_range (header_ops x).
Proof.
  intros Ht. unfold header_ops, hdr_bytes. split.
  - rewrite !bytes_of_app. rewrite (proj1 write_is_tree _ _ Ht). reflexivity.
  - apply Forall_app. split.
    + constructor; [cbn; unfold two64; lia|]. constructor; [|constructor]. cbn [in_range]. split; [cbn; unfold two64; lia|].
      unfold cdns_text, bytes_ok. repeat (constructor; [unfold byte_ok; lia|]). constructor.
    + apply Forall_app. split; [apply (proj1 write_in_range); auto; apply desc_ok_FilePreamble|repeat constructor].
Qed.
Lemma block_spec b : typed_blk b ->
  bytes_of (write_val Schema.Block (blk_val b)) = blk_bytes b /\ Forall in_range (write_val Schema.Block (blk_val b)).
Proof.
  intros Ht. split; [apply (proj1 write_is_tree); auto|apply (proj1 write_in_range); auto; apply desc_ok_Block].
Qed.

(* ---------- the invariant.  Ghosts: [hn] = number of parameter sets in the header of the open output (meaningful once it holds
   a block), [cur] = the blocks in the open output, [closed] = (preamble, blocks) of every closed output, newest first *)
Definition hdr_pre (x : exporter) (hn : N) : val :=
  VR [x_major x; x_minor x; x_private x; Some (VL (firstn (N.to_nat hn) (x_params x)))].
Record framed (x : exporter) (hn : N) (cur : list blk) (closed : list (val * list blk)) : Prop := {
  fr_done : x_done x = flat_map snd (rev closed) ++ cur;
  fr_written : x_written x = N.of_nat (length cur);
  fr_stream : stream (x_enc x) = match cur with [] => [] | _ => hdr_bytes (hdr_pre x hn) ++ flat_map blk_bytes cur end;
  fr_encinv : inv (x_enc x);
  fr_closed : x_closed x = map (fun pb => file_bytes (fst pb) (snd pb)) closed;
  fr_closed_typed : Forall (fun pb => snd pb <> [] -> typed_pre (fst pb)) closed;
  fr_active : x_active x < N.of_nat (length (x_params x));
  fr_blk : blk_params_ok (x_params x) (x_blk x);
  fr_hn : cur <> [] -> 0 < hn <= N.of_nat (length (x_params x)) /\ x_active x < hn /\ b_bpi (x_blk x) < hn;
  fr_cur : Forall (blk_params_ok (firstn (N.to_nat hn) (x_params x))) cur;
  fr_closed_params : Forall (fun pb => Forall (blk_params_ok (params_of (fst pb))) (snd pb)) closed }.

(* admissible calls (the documented caller duty: "If some Blocks were already written to current output, the new Block
   parameters will be written only to the next rotated output"): while the open output holds a block, only parameter sets that
   are in its header are activated.  [hn_next]: the header of an output is written with its first block. *)
Definition adm1 (x : exporter) (hn : N) (o : xop) : Prop :=
  match o with XSetBp i => x_written x = 0 \/ i < hn \/ N.of_nat (length (x_params x)) <= i | _ => True end.
(* ... and record times are within the representable range of the parameters in force ([adm1_time], BlockRead.v) *)
Fixpoint adm (x : exporter) (hn : N) (ops : list xop) : Prop :=
  match ops with [] => True | o :: r => adm1 x hn o /\ adm1_time x o /\ adm (fst (xstep x o)) (hn_next x hn) r end.
(* every block and every header the history wrote is within the value ranges of the format *)
Definition typed_x (x : exporter) : Prop := Forall typed_blk (x_done x) /\ typed_pre (preamble_val x).

Lemma nth_bp_app ps more i : i < N.of_nat (length ps) -> nth_bp (ps ++ more) i = nth_bp ps i.
Proof. intros H. unfold nth_bp. rewrite app_nth1 by lia. reflexivity. Qed.
Lemma blk_params_firstn ps n b : blk_params_ok ps b -> b_bpi b < n -> n <= N.of_nat (length ps) ->
  blk_params_ok (firstn (N.to_nat n) ps) b.
Proof.
  intros [H1 H2] Hb Hn. unfold blk_params_ok. rewrite firstn_length, Nat.min_l by lia. split; [lia|].
  rewrite H2. rewrite <- (firstn_skipn (N.to_nat n) ps) at 1. apply nth_bp_app. rewrite firstn_length, Nat.min_l by lia. lia.
Qed.
Lemma hdr_pre_all x : hdr_pre x (N.of_nat (length (x_params x))) = preamble_val x.
Proof. unfold hdr_pre, preamble_val. rewrite Nat2N.id, firstn_all. reflexivity. Qed.

Lemma framed_nil_hn x hn hn' closed : framed x hn [] closed -> framed x hn' [] closed.
Proof. intros F. destruct F. constructor; auto. intros H. contradiction. Qed.
Lemma hn_next_cur x hn cur closed : framed x hn cur closed -> cur <> [] -> hn_next x hn = hn.
Proof. intros F H. unfold hn_next. rewrite (fr_written _ _ _ _ F). destruct cur; [contradiction|]. cbn [length]. assert (N.of_nat (S (length cur)) =? 0 = false) as -> by lia. reflexivity. Qed.
Lemma hn_next_nil x hn closed : framed x hn [] closed -> hn_next x hn = N.of_nat (length (x_params x)).
Proof. intros F. unfold hn_next. rewrite (fr_written _ _ _ _ F). reflexivity. Qed.
Lemma framed_next x hn cur closed : framed x hn cur closed -> framed x (hn_next x hn) cur closed.
Proof.
  intros F. destruct cur as [|c cur]; [eapply framed_nil_hn; eauto|]. rewrite (hn_next_cur _ _ _ _ F); [exact F|discriminate].
Qed.

(* write_block_ext *)
Lemma write_block_ext_framed x b hn cur closed : framed x hn cur closed ->
  (item_count b <> 0 -> typed_blk b /\ typed_pre (hdr_pre x (hn_next x hn)) /\ blk_params_ok (x_params x) b /\ (cur <> [] -> b_bpi b < hn)) ->
  let x' := fst (write_block_ext x b) in
  framed x' (hn_next x hn) (if item_count b =? 0 then cur else cur ++ [b]) closed /\ x_blk x' = x_blk x
  /\ x_params x' = x_params x /\ x_active x' = x_active x /\ x_major x' = x_major x /\ x_minor x' = x_minor x /\ x_private x' = x_private x.
Proof.
  intros F Hb. unfold write_block_ext. destruct (item_count b =? 0) eqn:E; cbn [fst]; [split; [apply framed_next; exact F|repeat split; reflexivity]|].
  apply N.eqb_neq in E. destruct (Hb E) as (Tb & Tp & Pb & Pn).
  destruct (block_spec b Tb) as [Bb Rb].
  set (ops := (if x_written x =? 0 then header_ops x else []) ++ write_val Schema.Block (blk_val b)).
  assert (Hh : x_written x = 0 -> bytes_of (header_ops x) = hdr_bytes (hdr_pre x (hn_next x hn)) /\ Forall in_range (header_ops x)).
  { intros W. unfold hn_next in *. rewrite W in *. cbn [N.eqb] in *. rewrite hdr_pre_all in *. apply header_spec. exact Tp. }
  assert (Ro : Forall in_range ops).
  { unfold ops. apply Forall_app. split; auto. destruct (x_written x =? 0) eqn:W; auto. apply Hh. lia. }
  pose proof (enc_run_spec (x_enc x) ops (fr_encinv _ _ _ _ F) Ro) as (Hs & _ & Hi).
  destruct (enc_run (x_enc x) ops) as [e' r]. cbn [fst snd] in *.
  split; [|repeat split; reflexivity].
  pose proof (fr_active _ _ _ _ F) as Hact. pose proof (fr_blk _ _ _ _ F) as Hblk.
  constructor; cbn [x_done x_written x_enc x_closed x_active x_params x_blk x_major x_minor x_private with_enc]; try apply F.
  - rewrite (fr_done _ _ _ _ F), <- app_assoc. reflexivity.
  - rewrite (fr_written _ _ _ _ F), app_length. cbn [length]. lia.
  - rewrite Hs, (fr_stream _ _ _ _ F). unfold ops. rewrite bytes_of_app, Bb.
    change (hdr_pre _ (hn_next x hn)) with (hdr_pre x (hn_next x hn)).
    destruct cur as [|c cur]; cbn [app].
    + assert (W : x_written x = 0) by (rewrite (fr_written _ _ _ _ F); reflexivity). rewrite W. cbn [N.eqb].
      rewrite (proj1 (Hh W)). cbn [flat_map]. rewrite app_nil_r. reflexivity.
    + rewrite (hn_next_cur _ _ _ _ F) by discriminate. rewrite (fr_written _ _ _ _ F). cbn [length].
      assert (N.of_nat (S (length cur)) =? 0 = false) as -> by lia. cbn [bytes_of flat_map app].
      rewrite !flat_map_app. cbn [flat_map]. rewrite app_nil_r, <- !app_assoc. reflexivity.
  - exact Hi.
  - intros _. destruct cur as [|c cur].
    + rewrite (hn_next_nil _ _ _ F). destruct Hblk as [Hb1 _]. lia.
    + rewrite (hn_next_cur _ _ _ _ F) by discriminate. apply (fr_hn _ _ _ _ F). discriminate.
  - apply Forall_app. split.
    + destruct cur as [|c cur]; [constructor|]. rewrite (hn_next_cur _ _ _ _ F) by discriminate. apply F.
    + constructor; [|constructor]. destruct cur as [|c cur].
      * rewrite (hn_next_nil _ _ _ F). apply blk_params_firstn; auto; [apply Pb|lia].
      * rewrite (hn_next_cur _ _ _ _ F) by discriminate. apply blk_params_firstn; auto; [apply Pn; discriminate|].
        apply (fr_hn _ _ _ _ F). discriminate.
Qed.

Lemma with_blk_framed x b' hn cur closed : framed x hn cur closed -> blk_params_ok (x_params x) b' -> (cur <> [] -> b_bpi b' < hn) ->
  framed (with_blk x b') hn cur closed.
Proof.
  intros F Hb Hn. destruct F. constructor; cbn [with_blk x_done x_written x_enc x_closed x_active x_params x_blk]; auto.
  intros Hc. destruct (fr_hn0 Hc) as (A & B & C). auto.
Qed.

Lemma write_block_framed x hn cur closed : framed x hn cur closed ->
  (item_count (x_blk x) <> 0 -> typed_blk (x_blk x) /\ typed_pre (hdr_pre x (hn_next x hn))) ->
  framed (fst (write_block x)) (hn_next x hn) (if item_count (x_blk x) =? 0 then cur else cur ++ [x_blk x]) closed
  /\ preamble_val (fst (write_block x)) = preamble_val x.
Proof.
  intros F Hb. unfold write_block.
  assert (Hb' : item_count (x_blk x) <> 0 -> typed_blk (x_blk x) /\ typed_pre (hdr_pre x (hn_next x hn)) /\
                blk_params_ok (x_params x) (x_blk x) /\ (cur <> [] -> b_bpi (x_blk x) < hn)).
  { intros H. destruct (Hb H) as [Ht Tp]. split; [exact Ht|]. split; [exact Tp|]. split; [apply F|]. intros Hc. apply (fr_hn _ _ _ _ F Hc). }
  pose proof (write_block_ext_framed x (x_blk x) hn cur closed F Hb') as (F1 & Hblk & Hps & Hact & Hma & Hmi & Hpv).
  destruct (write_block_ext x (x_blk x)) as [x1 r]. cbn [fst] in *.
  unfold blk_set_bp. rewrite item_count_clear. cbn [N.ltb N.compare fst].
  split; [|unfold preamble_val; cbn [with_blk x_major x_minor x_private x_params]; rewrite Hma, Hmi, Hpv, Hps; reflexivity].
  apply with_blk_framed; auto.
  - unfold blk_params_ok. cbn [b_bpi b_bp]. split; [apply F1|reflexivity].
  - cbn [b_bpi]. intros Hc. apply (fr_hn _ _ _ _ F1 Hc).
Qed.

Lemma write_block_done_pre x :
  x_done (fst (write_block x)) = (if item_count (x_blk x) =? 0 then x_done x else x_done x ++ [x_blk x]) /\
  preamble_val (fst (write_block x)) = preamble_val x.
Proof.
  split; [apply write_block_fields|]. unfold write_block, write_block_ext.
  destruct (item_count (x_blk x) =? 0); [destruct (blk_set_bp _ _ _); reflexivity|].
  destruct (enc_run _ _). destruct (blk_set_bp _ _ _). reflexivity.
Qed.

Lemma typed_pre_prefix ma mi pv ps more : ps <> [] -> typed_pre (VR [ma; mi; pv; Some (VL (ps ++ more))]) -> typed_pre (VR [ma; mi; pv; Some (VL ps)]).
Proof.
  intros Hne. unfold typed_pre, FilePreamble, S_. cbn [mk_fields has_ty fields_ty].
  intros (H0 & A & H1 & B & H2 & C & H3 & (D & Dn) & E).
  split; [exact H0|]. split; [exact A|]. split; [exact H1|]. split; [exact B|]. split; [exact H2|]. split; [exact C|].
  split; [exact H3|]. split; [|exact E]. split.
  - cbn [has_ty] in D |- *. destruct D as [Dl Da]. split.
    + rewrite app_length in Dl. lia.
    + clear -Da. induction ps as [|p ps IH]; [exact I|]. cbn [app] in Da. destruct Da as [Dp Da]. split; [exact Dp|apply IH; exact Da].
  - intros Heq. inversion Heq. contradiction.
Qed.
Lemma typed_hdr_pre x n : 0 < n -> x_params x <> [] -> typed_pre (preamble_val x) -> typed_pre (hdr_pre x n).
Proof.
  intros Hn Hne T. unfold hdr_pre, preamble_val in *. rewrite <- (firstn_skipn (N.to_nat n) (x_params x)) in T.
  eapply typed_pre_prefix; [|exact T]. destruct (x_params x) as [|p ps]; [contradiction|].
  destruct (N.to_nat n) eqn:E; [lia|]. discriminate.
Qed.
Lemma framed_params_nonempty x hn cur closed : framed x hn cur closed -> x_params x <> [].
Proof. intros F E. pose proof (fr_active _ _ _ _ F) as H. rewrite E in H. cbn in H. lia. Qed.
Lemma hn_next_pos x hn cur closed : framed x hn cur closed -> 0 < hn_next x hn.
Proof.
  intros F. destruct cur as [|c cur].
  - rewrite (hn_next_nil _ _ _ F). pose proof (fr_active _ _ _ _ F). lia.
  - rewrite (hn_next_cur _ _ _ _ F) by discriminate. apply (fr_hn _ _ _ _ F). discriminate.
Qed.

Lemma typed_write_block x hn cur closed : framed x hn cur closed -> typed_x (fst (write_block x)) ->
  item_count (x_blk x) <> 0 -> typed_blk (x_blk x) /\ typed_pre (hdr_pre x (hn_next x hn)).
Proof.
  intros F [Td Tp] H. destruct (write_block_done_pre x) as [Hd Hp]. rewrite Hd in Td. rewrite Hp in Tp.
  apply N.eqb_neq in H. rewrite H in Td. apply Forall_app in Td. destruct Td as [_ Td]. inversion Td; subst. split; auto.
  apply typed_hdr_pre; auto; [eapply hn_next_pos; eauto|eapply framed_params_nonempty; eauto].
Qed.

Lemma buffer_framed add x hn cur closed : framed x hn cur closed ->
  (forall b, b_bpi (fst (add b)) = b_bpi b /\ b_bp (fst (add b)) = b_bp b) ->
  typed_x (fst (buffer add x)) ->
  exists cur', framed (fst (buffer add x)) (hn_next x hn) cur' closed.
Proof.
  intros F Hadd T. unfold buffer in *. destruct (add (x_blk x)) as [b' f] eqn:E.
  destruct (Hadd (x_blk x)) as [A1 A2]. rewrite E in A1, A2. cbn [fst] in *.
  assert (Hb : blk_params_ok (x_params x) b').
  { destruct (fr_blk _ _ _ _ F) as [H1 H2]. unfold blk_params_ok. rewrite A1, A2. auto. }
  assert (Hn : cur <> [] -> b_bpi b' < hn) by (intros Hc; rewrite A1; apply (fr_hn _ _ _ _ F Hc)).
  pose proof (with_blk_framed x b' hn cur closed F Hb Hn) as F1. destruct f.
  - destruct (write_block_framed (with_blk x b') hn cur closed F1) as [F2 _]; [apply (typed_write_block _ _ _ _ F1); auto|].
    eexists. exact F2.
  - exists cur. apply (framed_next _ _ _ _ F1).
Qed.

Lemma add_qr_bp gr st b : b_bpi (fst (add_qr gr st b)) = b_bpi b /\ b_bp (fst (add_qr gr st b)) = b_bp b.
Proof. unfold add_qr. destruct (build_qr _ _ _). split; reflexivity. Qed.
Lemma add_aec_bp ga st b : b_bpi (fst (add_aec ga st b)) = b_bpi b /\ b_bp (fst (add_aec ga st b)) = b_bp b.
Proof. unfold add_aec. destruct (negb _); [split; reflexivity|]. destruct (add_to _ _ _). split; reflexivity. Qed.
Lemma add_mm_bp gm st b : b_bpi (fst (add_mm gm st b)) = b_bpi b /\ b_bp (fst (add_mm gm st b)) = b_bp b.
Proof. unfold add_mm. destruct (negb _); [split; reflexivity|]. destruct (build_mm _ _). split; reflexivity. Qed.

(* closing the current output *)
Lemma close_out x hn cur closed : framed x hn cur closed ->
  stream (flush (fst (if 0 <? x_written x then enc_run (x_enc x) [OBreak] else (x_enc x, 0)))) = file_bytes (hdr_pre x hn) cur.
Proof.
  intros F. rewrite stream_flush, (fr_written _ _ _ _ F). destruct cur as [|c cur].
  - cbn [length N.of_nat N.ltb N.compare fst]. rewrite (fr_stream _ _ _ _ F). reflexivity.
  - assert (0 <? N.of_nat (length (c :: cur)) = true) as -> by (cbn [length]; lia).
    pose proof (enc_run_spec (x_enc x) [OBreak] (fr_encinv _ _ _ _ F)) as H. destruct H as (Hs & _); [repeat constructor|].
    rewrite Hs, (fr_stream _ _ _ _ F). unfold file_bytes. rewrite <- app_assoc. reflexivity.
Qed.
Lemma close_framed x hn hn' cur closed : framed x hn cur closed -> (cur <> [] -> typed_pre (hdr_pre x hn)) ->
  let '(e2, r2) := if 0 <? x_written x then enc_run (x_enc x) [OBreak] else (x_enc x, 0) in
  framed (mkX (x_major x) (x_minor x) (x_private x) (x_params x) (x_blk x) (x_active x) 0 enc_init (stream (flush e2) :: x_closed x) (x_done x))
         hn' [] ((hdr_pre x hn, cur) :: closed).
Proof.
  intros F Tp. pose proof (close_out x hn cur closed F) as Hout.
  destruct (if 0 <? x_written x then _ else _) as [e2 r2]. cbn [fst] in Hout.
  destruct F. constructor; cbn [x_done x_written x_enc x_closed x_active x_params x_blk]; auto.
  - cbn [rev]. rewrite flat_map_app. cbn [flat_map snd]. rewrite !app_nil_r. exact fr_done0.
  - apply inv_init.
  - cbn [map fst snd]. rewrite Hout, fr_closed0. reflexivity.
  - intros H. contradiction.
Qed.

Theorem xstep_framed x o hn cur closed : framed x hn cur closed -> adm1 x hn o -> typed_x (fst (xstep x o)) ->
  exists cur' closed', framed (fst (xstep x o)) (hn_next x hn) cur' closed'.
Proof.
  intros F A T. destruct o as [gr st|ga st|gm st| |e|bp|i]; cbn [xstep] in *.
  - destruct (buffer_framed (add_qr gr st) x hn cur closed F (add_qr_bp gr st) T) as [c' F']. eauto.
  - destruct (buffer_framed (add_aec ga st) x hn cur closed F (add_aec_bp ga st) T) as [c' F']. eauto.
  - destruct (buffer_framed (add_mm gm st) x hn cur closed F (add_mm_bp gm st) T) as [c' F']. eauto.
  - destruct (write_block_framed x hn cur closed F) as [F2 _]; [apply (typed_write_block _ _ _ _ F); exact T|]. eauto.
  - unfold rotate in *. destruct e.
    + pose proof (write_block_framed x hn cur closed F) as W. pose proof (write_block_done_pre x) as [Hd Hp].
      destruct (write_block x) as [x1 r1] eqn:E. cbn [fst] in *.
      assert (T1 : typed_x x1).
      { destruct (if 0 <? x_written x1 then _ else _) as [e2 r2]. cbn [fst] in T. exact T. }
      destruct W as [F1 _]; [apply (typed_write_block _ _ _ _ F); rewrite E; exact T1|].
      assert (Tc : (if item_count (x_blk x) =? 0 then cur else cur ++ [x_blk x]) <> [] -> typed_pre (hdr_pre x1 (hn_next x hn))).
      { intros Hc. apply typed_hdr_pre; [|eapply framed_params_nonempty; eauto|apply T1]. apply (fr_hn _ _ _ _ F1 Hc). }
      pose proof (close_framed x1 _ (hn_next x hn) _ closed F1 Tc) as C.
      destruct (if 0 <? x_written x1 then _ else _) as [e2 r2]. cbn [fst]. eauto.
    + assert (T1 : typed_x x).
      { destruct (if 0 <? x_written x then _ else _) as [e2 r2]. cbn [fst] in T. exact T. }
      assert (Tc : cur <> [] -> typed_pre (hdr_pre x hn)).
      { intros Hc. apply typed_hdr_pre; [|eapply framed_params_nonempty; eauto|apply T1]. apply (fr_hn _ _ _ _ F Hc). }
      pose proof (close_framed x hn (hn_next x hn) cur closed F Tc) as C.
      destruct (if 0 <? x_written x then _ else _) as [e2 r2]. cbn [fst]. eauto.
  - exists cur, closed. cbn [add_block_parameters fst]. apply framed_next in F.
    assert (Hnx : hn_next x hn = hn_next x hn) by reflexivity. set (h := hn_next x hn) in *. clearbody h.
    destruct F.
    assert (Hfn : cur <> [] -> firstn (N.to_nat h) (x_params x ++ [bp]) = firstn (N.to_nat h) (x_params x)).
    { intros Hc. destruct (fr_hn0 Hc) as ((_ & Hle) & _). rewrite firstn_app. replace (N.to_nat h - length (x_params x))%nat with 0%nat by lia.
      cbn [firstn]. apply app_nil_r. }
    constructor; cbn [x_done x_written x_enc x_closed x_active x_params x_blk]; auto.
    + rewrite fr_stream0. destruct cur as [|c cur]; [reflexivity|]. unfold hdr_pre. cbn [x_major x_minor x_private x_params].
      rewrite Hfn by discriminate. reflexivity.
    + rewrite app_length. lia.
    + destruct fr_blk0 as [H1 H2]. split; [rewrite app_length; lia|]. rewrite nth_bp_app; auto.
    + intros Hc. destruct (fr_hn0 Hc) as ((A1 & A2) & B & C). rewrite app_length. repeat split; auto; lia.
    + destruct cur as [|c cur]; [constructor|]. rewrite Hfn by discriminate. exact fr_cur0.
  - exists cur, closed. cbn [adm1] in A. unfold set_active. destruct (N.of_nat (length (x_params x)) <=? i) eqn:E; cbn [fst]; [apply framed_next; exact F|].
    pose proof (framed_next _ _ _ _ F) as F'.
    assert (Hi : cur <> [] -> i < hn_next x hn).
    { intros Hc. rewrite (hn_next_cur _ _ _ _ F Hc). destruct A as [A|[A|A]]; [|exact A|lia].
      pose proof (fr_written _ _ _ _ F) as W. destruct cur; [contradiction|]. cbn [length] in W. lia. }
    destruct F'. constructor; cbn [x_done x_written x_enc x_closed x_active x_params x_blk]; auto; [lia|].
    intros Hc. destruct (fr_hn0 Hc) as (A1 & B & C). auto.
Qed.

(* =====================================================================================================================
   Part B: reading.  The file reader, run on the bytes of an output, returns the preamble and exactly the blocks written. *)
Lemma read_header_spec pre g rest : typed_pre pre -> (length (hdr_bytes pre) <= g)%nat ->
  run (read_file_header g) (hdr_bytes pre ++ rest) = (inl (pre, (0, true)), rest).
Proof.
  intros Tp Hg. unfold hdr_bytes in *. rewrite <- !app_assoc. cbn [app]. rewrite !app_length in Hg. cbn [length] in Hg.
  unfold read_file_header. rewrite run_bind.
  change (131 :: ?r) with (head MA W0 3 ++ r). unfold read_array_start. rewrite read_xstart_def by (cbn; lia).
  cbn [fst snd N.eqb Pos.eqb negb andb].
  rewrite run_bind.
  match goal with |- context [run (read_textstring g) ?inp] =>
    change inp with (ser (IStr true W0 cdns_text) ++ (ser (tree_of FilePreamble pre) ++ 159 :: rest)) end.
  unfold read_textstring. change MT with (mstr true). rewrite read_xstring_def by (cbn; lia).
  replace (negb (list_eqb N.eqb (map upper cdns_text) cdns_text)) with false by reflexivity.
  rewrite run_bind. rewrite (proj1 read_roundtrip FilePreamble pre desc_ok_FilePreamble Tp) by lia.
  rewrite run_bind. change (159 :: rest) with ((mcode MA + 31) :: rest). rewrite read_xstart_indef by auto. reflexivity.
Qed.

(* one block *)
Lemma read_block_spec ps b g rest : typed_blk b -> blk_params_ok ps b -> good_blk b -> (length (blk_bytes b) <= g)%nat ->
  run (read_block_body g ps) (blk_bytes b ++ rest) = (inl (rb_of b), rest).
Proof.
  intros Tb Pb Gb Hg. unfold read_block_body, blk_bytes in *. rewrite run_bind.
  rewrite (proj1 read_roundtrip Schema.Block (blk_val b) desc_ok_Block Tb) by lia.
  rewrite (proj1 (block_of_val_spec ps b Pb Gb)). reflexivity.
Qed.

Lemma blk_bytes_peek b rest : typed_blk b -> exists m, run peek_type (blk_bytes b ++ rest) = (inl (Some m), blk_bytes b ++ rest).
Proof.
  intros Tb. pose proof (proj1 tree_wf Schema.Block (blk_val b) desc_ok_Block Tb) as Hw.
  destruct (first_byte_not_break _ Hw) as (c & r & Hs & Hc & _). unfold blk_bytes. rewrite Hs. cbn [app].
  eexists. cbn [run peek_type]. assert (c =? 255 = false) as -> by lia. reflexivity.
Qed.
Lemma blk_bytes_nonempty b : typed_blk b -> (1 <= length (blk_bytes b))%nat.
Proof. intros _. apply ser_nonempty. Qed.

Lemma read_blocks_spec pre g : forall bs fuel s racc,
  rs_pre s = pre -> rs_indef s = true ->
  Forall typed_blk bs -> Forall (blk_params_ok (params_of pre)) bs -> Forall good_blk bs ->
  (length bs < fuel)%nat -> (length (flat_map blk_bytes bs) <= g)%nat ->
  run (read_blocks g fuel s racc) (flat_map blk_bytes bs ++ [255]) = (inl (rev racc ++ map rb_of bs), []).
Proof.
  induction bs as [|b bs IH]; intros fuel s racc Hp Hi Ht Hpar Hgd Hf Hg; (destruct fuel as [|fuel]; [cbn [length] in Hf; lia|]).
  - cbn [flat_map app read_blocks]. rewrite run_bind. unfold reader_next. rewrite Hi. rewrite run_bind.
    cbn [run peek_type N.eqb Pos.eqb]. cbn. rewrite frev_rev, app_nil_r. reflexivity.
  - cbn [flat_map read_blocks]. rewrite <- app_assoc. rewrite run_bind. unfold reader_next. rewrite Hi. rewrite run_bind.
    inversion Ht; subst. inversion Hpar; subst. inversion Hgd; subst.
    destruct (blk_bytes_peek b (flat_map blk_bytes bs ++ [255])) as [m Hpk]; auto. rewrite Hpk.
    rewrite run_bind. cbn [flat_map] in Hg. rewrite app_length in Hg.
    rewrite read_block_spec by (auto; lia). cbn [run fst snd].
    rewrite IH; auto; try lia.
    + cbn [rev map]. rewrite <- app_assoc. reflexivity.
    + cbn [length] in Hf. lia.
Qed.

Definition readable (pre : val) (b : blk) : Prop := typed_blk b /\ blk_params_ok (params_of pre) b /\ good_blk b.

Theorem read_file_spec pre bs g : typed_pre pre -> bs <> [] -> Forall (readable pre) bs ->
  (length (file_bytes pre bs) <= g)%nat ->
  run (read_file g) (file_bytes pre bs) = (inl (pre, map rb_of bs), []).
Proof.
  intros Tp Hne Hr Hg. unfold file_bytes in *. destruct bs as [|b0 bs0]; [contradiction|]. set (bs := b0 :: bs0) in *.
  rewrite !app_length in Hg. unfold read_file. rewrite run_bind. unfold reader_open. rewrite run_bind.
  rewrite read_header_spec by (auto; lia). cbn [run fst snd]. rewrite run_bind.
  assert (Hl : (length bs <= length (flat_map blk_bytes bs))%nat).
  { clear -Hr. induction bs as [|b bs IH]; cbn [flat_map length]; [lia|]. rewrite app_length. inversion Hr; subst.
    pose proof (blk_bytes_nonempty b (proj1 H1)). specialize (IH H2). lia. }
  assert (T : Forall typed_blk bs) by (eapply Forall_impl; [|exact Hr]; intros b H; apply H).
  assert (P : Forall (blk_params_ok (params_of pre)) bs) by (eapply Forall_impl; [|exact Hr]; intros b H; apply H).
  assert (G : Forall good_blk bs) by (eapply Forall_impl; [|exact Hr]; intros b H; apply H).
  assert (L1 : (length bs < g)%nat) by (cbn [length] in Hg; lia).
  assert (L2 : (length (flat_map blk_bytes bs) <= g)%nat) by lia.
  rewrite (read_blocks_spec pre g bs g (mkRs pre 0 0 true) [] eq_refl eq_refl T P G L1 L2). reflexivity.
Qed.

(* =====================================================================================================================
   Part C: whole histories. *)
Lemma xstep_mono x o : exists l l', x_done (fst (xstep x o)) = x_done x ++ l /\ x_params (fst (xstep x o)) = x_params x ++ l' /\
  x_major (fst (xstep x o)) = x_major x /\ x_minor (fst (xstep x o)) = x_minor x /\ x_private (fst (xstep x o)) = x_private x.
Proof.
  assert (Hwe : forall y b, exists l, x_done (fst (write_block_ext y b)) = x_done y ++ l /\ x_params (fst (write_block_ext y b)) = x_params y /\
    x_major (fst (write_block_ext y b)) = x_major y /\ x_minor (fst (write_block_ext y b)) = x_minor y /\ x_private (fst (write_block_ext y b)) = x_private y).
  { intros y b. unfold write_block_ext. destruct (item_count b =? 0); [exists []; rewrite app_nil_r; auto|].
    destruct (enc_run _ _). cbn [fst x_done x_params x_major x_minor x_private with_enc]. eexists. repeat split; reflexivity. }
  assert (Hwb : forall y, exists l, x_done (fst (write_block y)) = x_done y ++ l /\ x_params (fst (write_block y)) = x_params y /\
    x_major (fst (write_block y)) = x_major y /\ x_minor (fst (write_block y)) = x_minor y /\ x_private (fst (write_block y)) = x_private y).
  { intros y. unfold write_block. destruct (Hwe y (x_blk y)) as (l & H). destruct (write_block_ext y (x_blk y)) as [y1 r]. cbn [fst] in *.
    destruct (blk_set_bp _ _ _). exists l. exact H. }
  assert (Hbuf : forall add y, exists l, x_done (fst (buffer add y)) = x_done y ++ l /\ x_params (fst (buffer add y)) = x_params y /\
    x_major (fst (buffer add y)) = x_major y /\ x_minor (fst (buffer add y)) = x_minor y /\ x_private (fst (buffer add y)) = x_private y).
  { intros add y. unfold buffer. destruct (add (x_blk y)) as [b' f]. destruct f; [apply (Hwb (with_blk y b'))|].
    exists []. rewrite app_nil_r. auto. }
  destruct o as [gr st|ga st|gm st| |e|bp|i]; cbn [xstep].
  - destruct (Hbuf (add_qr gr st) x) as (l & H1 & H2 & H3). exists l, []. rewrite app_nil_r. auto.
  - destruct (Hbuf (add_aec ga st) x) as (l & H1 & H2 & H3). exists l, []. rewrite app_nil_r. auto.
  - destruct (Hbuf (add_mm gm st) x) as (l & H1 & H2 & H3). exists l, []. rewrite app_nil_r. auto.
  - destruct (Hwb x) as (l & H1 & H2 & H3). exists l, []. rewrite app_nil_r. auto.
  - unfold rotate. destruct e.
    + destruct (Hwb x) as (l & H1 & H2 & H3). destruct (write_block x) as [x1 r1]. cbn [fst] in *.
      destruct (if 0 <? x_written x1 then _ else _). cbn [fst x_done x_params x_major x_minor x_private]. exists l, []. rewrite app_nil_r. auto.
    + destruct (if 0 <? x_written x then _ else _). cbn [fst x_done x_params x_major x_minor x_private]. exists [], []. rewrite !app_nil_r. auto.
  - cbn [add_block_parameters fst x_done x_params x_major x_minor x_private]. exists [], [bp]. rewrite app_nil_r. auto.
  - unfold set_active. destruct (_ <=? _); cbn [fst x_done x_params x_major x_minor x_private]; exists [], []; rewrite !app_nil_r; auto.
Qed.

Lemma typed_x_back x o : x_params x <> [] -> typed_x (fst (xstep x o)) -> typed_x x.
Proof.
  intros Hne [Td Tp]. destruct (xstep_mono x o) as (l & l' & H1 & H2 & H3 & H4 & H5). split.
  - rewrite H1 in Td. apply Forall_app in Td. apply Td.
  - unfold preamble_val in *. rewrite H2, H3, H4, H5 in Tp. eapply typed_pre_prefix; eauto.
Qed.
Lemma params_nonempty_step x o : x_params x <> [] -> x_params (fst (xstep x o)) <> [].
Proof. intros Hne. destruct (xstep_mono x o) as (l & l' & _ & H2 & _). rewrite H2. destruct (x_params x); [contradiction|discriminate]. Qed.
Lemma typed_x_run_back ops : forall x, x_params x <> [] -> typed_x (xrun x ops) -> typed_x x.
Proof.
  induction ops as [|o ops IH]; intros x Hne T; cbn [xrun fold_left] in *; auto.
  apply (typed_x_back x o Hne). apply IH; auto. apply params_nonempty_step. exact Hne.
Qed.

Theorem xrun_framed ops : forall x hn cur closed, framed x hn cur closed -> adm x hn ops -> typed_x (xrun x ops) ->
  exists hn' cur' closed', framed (xrun x ops) hn' cur' closed'.
Proof.
  induction ops as [|o ops IH]; intros x hn cur closed F A T; cbn [xrun fold_left adm] in *; [eauto|].
  destruct A as (A1 & _ & A).
  assert (T1 : typed_x (fst (xstep x o))).
  { apply (typed_x_run_back ops); auto. apply params_nonempty_step. eapply framed_params_nonempty; eauto. }
  destruct (xstep_framed x o hn cur closed F A1 T1) as (c1 & cl1 & F1). eapply IH; eauto.
Qed.
Theorem xrun_good ops : forall x hn, good_inv x -> adm x hn ops -> good_inv (xrun x ops).
Proof.
  induction ops as [|o ops IH]; intros x hn G A; cbn [xrun fold_left adm] in *; auto.
  destruct A as (_ & A2 & A). eapply IH; eauto. apply xstep_good; auto.
Qed.

Lemma typed_pre_shape pre : typed_pre pre -> exists ma mi pv ps, pre = VR [ma; mi; pv; Some (VL ps)] /\ ps <> [].
Proof.
  unfold typed_pre, FilePreamble, S_. cbn [mk_fields].
  destruct pre as [n|z|b|bs|xs|vs]; cbn [has_ty]; try contradiction.
  destruct vs as [|ma vs]; cbn [fields_ty]; [contradiction|]. intros (_ & _ & H).
  destruct vs as [|mi vs]; cbn [fields_ty] in H; [contradiction|]. destruct H as (_ & _ & H).
  destruct vs as [|pv vs]; cbn [fields_ty] in H; [contradiction|]. destruct H as (_ & _ & H).
  destruct vs as [|pp vs]; cbn [fields_ty] in H; [contradiction|]. destruct H as (_ & Hp & H).
  destruct vs as [|? ?]; cbn [fields_ty] in H; [|contradiction].
  destruct pp as [x|]; [|contradiction]. destruct Hp as [Hx Hn].
  destruct x as [n|z|b|bs|ps|fs]; cbn [has_ty] in Hx; try contradiction.
  exists ma, mi, pv, ps. split; [reflexivity|]. intros ->. apply Hn. reflexivity.
Qed.

Lemma x_new_framed pre : typed_pre pre -> framed (x_new pre) 0 [] [] /\ preamble_val (x_new pre) = pre.
Proof.
  intros Tp. destruct (typed_pre_shape pre Tp) as (ma & mi & pv & ps & -> & Hne). split; [|reflexivity].
  assert (Hl : 0 < N.of_nat (length ps)) by (destruct ps; [contradiction|cbn [length]; lia]).
  unfold x_new. constructor; cbn [x_done x_written x_enc x_closed x_active x_params x_blk]; auto.
  - apply inv_init.
  - unfold blk_params_ok, blk_new. cbn [b_bpi b_bp]. auto.
  - intros H. contradiction.
Qed.

Lemma close_bytes x hn cur closed : framed x hn cur closed -> destroy x = file_bytes (hdr_pre x hn) cur.
Proof.
  intros F. unfold destroy. pose proof (close_out x hn cur closed F) as Hout.
  destruct (if 0 <? x_written x then _ else _) as [e2 r2]. exact Hout.
Qed.

Lemma map_blk_of_rb ps bs : Forall (blk_params_ok ps) bs -> Forall good_blk bs -> map blk_of_rb (map rb_of bs) = bs.
Proof.
  intros Hp Hg. induction bs as [|b bs IH]; [reflexivity|]. inversion Hp; subst. inversion Hg; subst. cbn [map].
  rewrite (proj2 (block_of_val_spec ps b H1 H3)), IH; auto.
Qed.

(* an output as the model sees it: the preamble in force when it was closed and the blocks written to it *)
Definition reads_back (pb : val * list blk) : Prop :=
  snd pb <> [] -> forall g, (length (file_bytes (fst pb) (snd pb)) <= g)%nat ->
    run (read_file g) (file_bytes (fst pb) (snd pb)) = (inl (fst pb, map rb_of (snd pb)), []) /\
    map blk_of_rb (map rb_of (snd pb)) = snd pb.

(* admissible histories from a fresh exporter *)
Definition adm0 (pre : val) (ops : list xop) : Prop := adm (x_new pre) 0 ops.

Theorem history_outputs pre ops : typed_pre pre -> adm0 pre ops -> typed_x (xrun (x_new pre) ops) ->
  let x := xrun (x_new pre) ops in
  exists (last : val) cur closed,
    x_closed x = map (fun pb => file_bytes (fst pb) (snd pb)) closed /\
    destroy x = file_bytes last cur /\
    x_done x = flat_map snd (rev closed) ++ cur /\
    Forall reads_back ((last, cur) :: closed).
Proof.
  intros Tp A T x. destruct (x_new_framed pre Tp) as [F0 _].
  destruct (xrun_framed ops (x_new pre) 0 [] [] F0 A T) as (hn & cur & closed & F). fold x in F.
  pose proof (xrun_good ops (x_new pre) 0 (x_new_good pre) A) as G. fold x in G. unfold good_inv in G.
  exists (hdr_pre x hn), cur, closed. split; [apply F|]. split; [eapply close_bytes; eauto|]. split; [apply F|].
  destruct T as [Td Tpx]. fold x in Td, Tpx. rewrite (fr_done _ _ _ _ F) in Td. apply Forall_app in Td. destruct Td as [Tcl Tcur].
  pose proof (Forall_inv_tail G) as Gd. rewrite (fr_done _ _ _ _ F) in Gd. apply Forall_app in Gd. destruct Gd as [Gcl Gcur].
  assert (Hone : forall p bs, (bs <> [] -> typed_pre p) -> Forall typed_blk bs -> Forall (blk_params_ok (params_of p)) bs -> Forall good_blk bs ->
                 reads_back (p, bs)).
  { intros p bs Hp Ht Hpar Hg Hne g Hlen. cbn [fst snd] in *. split; [|eapply map_blk_of_rb; eauto].
    apply read_file_spec; auto. rewrite Forall_forall in *. intros b Hb. split; [apply Ht; auto|split; [apply Hpar; auto|apply Hg; auto]]. }
  constructor.
  - apply Hone; auto; [|exact (fr_cur _ _ _ _ F)].
    intros Hc. apply typed_hdr_pre; auto; [apply (fr_hn _ _ _ _ F Hc)|eapply framed_params_nonempty; eauto].
  - pose proof (fr_closed_typed _ _ _ _ F) as Hct. pose proof (fr_closed_params _ _ _ _ F) as Hcp.
    rewrite Forall_forall in *. intros [p bs] Hin.
    assert (Hsub : forall b, In b bs -> In b (flat_map snd (rev closed))).
    { intros b Hb. apply in_flat_map. exists (p, bs). split; [rewrite <- in_rev; exact Hin|exact Hb]. }
    apply Hone.
    + exact (Hct _ Hin).
    + rewrite Forall_forall. intros b Hb. apply Tcl. auto.
    + exact (Hcp _ Hin).
    + rewrite Forall_forall. intros b Hb. apply Gcl. auto.
Qed.

(* =====================================================================================================================
   Part D: a non-empty output is exactly one well-formed CBOR data item: the 3-element file array *)
Definition file_tree (pre : val) (bs : list blk) : item :=
  ICont false W0 [IStr true W0 cdns_text; tree_of FilePreamble pre; IContIndef false (map (fun b => tree_of Schema.Block (blk_val b)) bs)].
Theorem file_is_one_item pre bs : bs <> [] -> typed_pre pre -> Forall typed_blk bs ->
  file_bytes pre bs = ser (file_tree pre bs) /\ wf (file_tree pre bs).
Proof.
  intros Hne Tp Tb. split.
  - assert (Hfm : forall l, flat_map ser (map (fun b => tree_of Schema.Block (blk_val b)) l) = flat_map blk_bytes l).
    { induction l as [|b l IH]; cbn [map flat_map]; [reflexivity|]. rewrite IH. reflexivity. }
    unfold file_bytes, file_tree, hdr_bytes. destruct bs as [|b0 bs0]; [contradiction|].
    cbn [ser flat_map]. rewrite Hfm, app_nil_r.
    change (head (mcont false) W0 (cnt false _)) with [131].
    change (head (mstr true) W0 (N.of_nat (length cdns_text)) ++ cdns_text) with [101; 67; 45; 68; 78; 83].
    change (mcode (mcont false) + 31) with 159.
    cbn [flat_map app]. rewrite <- !app_assoc. reflexivity.
  - unfold file_tree. cbn [wf cnt length]. split; [cbn; lia|]. split; [discriminate|]. split; [cbn; lia|].
    split; [apply (proj1 tree_wf); auto; apply desc_ok_FilePreamble|]. split; [|exact I]. split; [discriminate|].
    induction Tb as [|b bs Hb _ IH]; cbn [map]; [exact I|]. split; [apply (proj1 tree_wf); auto; apply desc_ok_Block|].
    destruct bs; [exact I|apply IH; discriminate].
Qed.
