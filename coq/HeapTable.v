(* HeapTable.v — reference-level model of CDNS::BlockTable (src/block_table.h), for C19.
   The value-level model of Block.v cannot express what goes wrong when a table is copied: in the C++ the
   index (unordered_map<KeyRef<K>, index_t>) holds REFERENCES to the items stored in the deque.  Here items live
   in heap cells; a table is the list of its own cells (items_, in order) and the list of the cells its index
   keys refer to (position k = the key of entry k).  Dereferencing a freed cell is the distinguished outcome UAF.
   Copy construction / assignment follow the code after the fix (user-defined copy operations that rebuild the
   index over the copied items); [copy_shallow] is the implicit member-wise copy the class had before. *)
Require Import Base Cbor Schema Block BlockProofs.
Local Open Scope N_scope.

Definition heap := list (option val).               (* address = position; None = freed *)
Definition deref (h : heap) (a : N) : option val := match nth_error h (N.to_nat a) with Some c => c | None => None end.
Record htable := mkHT { cells : list N; keys : list N }.

Inductive fres := Found (i : N) | NotFound | UAF.
Fixpoint hfind_from (i : N) (h : heap) (ks : list N) (v : val) : fres :=
  match ks with
  | [] => NotFound
  | a :: r => match deref h a with
              | Some x => if val_eqb x v then Found i else hfind_from (i + 1) h r v
              | None => UAF
              end
  end.
Definition hfind (h : heap) (t : htable) (v : val) : fres := hfind_from 0 h (keys t) v.

(* BlockTable::add *)
Definition hadd (h : heap) (t : htable) (v : val) : heap * htable * fres :=
  match hfind h t v with
  | Found i => (h, t, Found i)
  | UAF => (h, t, UAF)
  | NotFound => let a := N.of_nat (length h) in
                (h ++ [Some v], mkHT (cells t ++ [a]) (keys t ++ [a]), Found (N.of_nat (length (cells t))))
  end.

(* copying the items: fresh cells holding the same values *)
Fixpoint copy_cells (h : heap) (cs : list N) : heap * list N :=
  match cs with
  | [] => (h, [])
  | a :: r => let h1 := h ++ [deref h a] in
              let '(h2, r') := copy_cells h1 r in (h2, N.of_nat (length h) :: r')
  end.
Definition copy_fixed (h : heap) (t : htable) : heap * htable :=
  let '(h', cs) := copy_cells h (cells t) in (h', mkHT cs cs).          (* index rebuilt over the copied items *)
Definition copy_shallow (h : heap) (t : htable) : heap * htable :=
  let '(h', cs) := copy_cells h (cells t) in (h', mkHT cs (keys t)).    (* index copied: keys still refer to the source *)

(* destruction frees the table's own cells *)
Fixpoint free_cells (h : heap) (cs : list N) : heap :=
  match cs with
  | [] => h
  | a :: r => free_cells (firstn (N.to_nat a) h ++ None :: skipn (S (N.to_nat a)) h) r
  end.
Definition hdestroy (h : heap) (t : htable) : heap := free_cells h (cells t).

(* the invariant: every key refers into the table's own, live storage *)
Definition live (h : heap) (cs : list N) : Prop := forall a, In a cs -> deref h a <> None.
Definition own_refs (h : heap) (t : htable) : Prop := keys t = cells t /\ live h (cells t).
Definition values (h : heap) (t : htable) : list val := map (fun a => match deref h a with Some x => x | None => VN 0 end) (cells t).

Lemma deref_app h x a : a < N.of_nat (length h) -> deref (h ++ x) a = deref h a.
Proof. intros H. unfold deref. rewrite nth_error_app1 by lia. reflexivity. Qed.
Lemma deref_new h x : deref (h ++ [x]) (N.of_nat (length h)) = x.
Proof. unfold deref. rewrite Nat2N.id, nth_error_app2, Nat.sub_diag by lia. reflexivity. Qed.
Lemma deref_lt h a : deref h a <> None -> a < N.of_nat (length h).
Proof.
  unfold deref. intros H. destruct (nth_error h (N.to_nat a)) eqn:E; [|congruence].
  assert (nth_error h (N.to_nat a) <> None) by congruence. apply nth_error_Some in H0. lia.
Qed.

(* under the invariant, find on the reference-level table is find on its values: it never touches freed memory *)
Lemma hfind_from_refines h v : forall ks i, live h ks ->
  hfind_from i h ks v = match tfind_from i (map (fun a => match deref h a with Some x => x | None => VN 0 end) ks) v with
                        | Some j => Found j | None => NotFound end.
Proof.
  induction ks as [|a r IH]; intros i Hl; cbn [hfind_from map tfind_from]; [reflexivity|].
  assert (Ha : deref h a <> None) by (apply Hl; left; reflexivity).
  destruct (deref h a) as [x|]; [|congruence]. destruct (val_eqb x v); [reflexivity|].
  apply IH. intros b Hb. apply Hl. right. exact Hb.
Qed.
Theorem hfind_refines h t v : own_refs h t ->
  hfind h t v = match tfind (values h t) v with Some j => Found j | None => NotFound end.
Proof. intros [Hk Hl]. unfold hfind, tfind, values. rewrite Hk. apply hfind_from_refines. exact Hl. Qed.

(* add keeps the invariant and refines the value-level add *)
Lemma live_app h x cs : live h cs -> live (h ++ [x]) cs.
Proof. intros Hl a Ha. rewrite deref_app; [apply Hl; exact Ha|]. apply deref_lt. apply Hl. exact Ha. Qed.
Lemma values_app h x t : live h (cells t) -> values (h ++ [x]) t = values h t.
Proof.
  intros Hl. unfold values. apply map_ext_in. intros a Ha. rewrite deref_app; [reflexivity|]. apply deref_lt. apply Hl. exact Ha.
Qed.

Theorem hadd_refines h t v : own_refs h t ->
  let '(h', t', r) := hadd h t v in
  own_refs h' t' /\ values h' t' = fst (tadd (values h t) v) /\ r = Found (snd (tadd (values h t) v)).
Proof.
  intros Ho. pose proof (hfind_refines h t v Ho) as Hf. unfold hadd, tadd. rewrite Hf.
  destruct (tfind (values h t) v) as [j|] eqn:E; cbn [fst snd]; [auto|].
  destruct Ho as [Hk Hl]. split; [|split].
  - split; cbn [keys cells]; [rewrite Hk; reflexivity|].
    intros a Ha. apply in_app_or in Ha. destruct Ha as [Ha|[<-|[]]].
    + exact (live_app h (Some v) (cells t) Hl a Ha).
    + rewrite deref_new. discriminate.
  - unfold values at 1. cbn [cells]. rewrite map_app. cbn [map]. rewrite deref_new.
    f_equal. fold (values (h ++ [Some v]) t). apply values_app. exact Hl.
  - unfold values. rewrite map_length. reflexivity.
Qed.

(* copying: fresh live cells with the same values; the source's cells are untouched *)
Lemma copy_cells_spec : forall cs h, live h cs ->
  let '(h', cs') := copy_cells h cs in
  (exists ext, h' = h ++ ext) /\ live h' cs' /\
  map (fun a => deref h' a) cs' = map (fun a => deref h a) cs /\
  (forall a, In a cs' -> N.of_nat (length h) <= a).
Proof.
  induction cs as [|a r IH]; intros h Hl; cbn [copy_cells].
  - split; [exists []; rewrite app_nil_r; reflexivity|]. split; [intros a []|]. split; [reflexivity|intros a []].
  - assert (Hl1 : live (h ++ [deref h a]) r). { apply live_app. intros b Hb. apply Hl. right. exact Hb. }
    specialize (IH (h ++ [deref h a]) Hl1). destruct (copy_cells (h ++ [deref h a]) r) as [h2 r'].
    destruct IH as ((ext & ->) & Hlive & Hmap & Hge).
    split; [exists ([deref h a] ++ ext); rewrite app_assoc; reflexivity|].
    assert (Hnew : deref ((h ++ [deref h a]) ++ ext) (N.of_nat (length h)) = deref h a).
    { rewrite deref_app by (rewrite app_length; cbn; lia). apply deref_new. }
    split; [|split].
    + intros b [<-|Hb]; [rewrite Hnew; apply Hl; left; reflexivity|apply Hlive; exact Hb].
    + cbn [map]. rewrite Hnew. f_equal. rewrite Hmap. apply map_ext_in. intros b Hb.
      apply deref_app. apply deref_lt. apply Hl. right. exact Hb.
    + intros b [<-|Hb]; [lia|]. specialize (Hge b Hb). rewrite app_length in Hge. cbn in Hge. lia.
Qed.

Theorem copy_fixed_spec h t : own_refs h t ->
  let '(h', t') := copy_fixed h t in
  own_refs h' t' /\ values h' t' = values h t /\ own_refs h' t /\ values h' t = values h t /\
  (forall a, In a (cells t') -> ~ In a (cells t)).
Proof.
  intros [Hk Hl]. unfold copy_fixed. pose proof (copy_cells_spec (cells t) h Hl) as H.
  destruct (copy_cells h (cells t)) as [h' cs]. destruct H as ((ext & ->) & Hlive & Hmap & Hge).
  split; [split; [reflexivity|exact Hlive]|]. split.
  - unfold values. cbn [cells].
    assert (Hm : forall (f : option val -> val) (l1 l2 : list N) (g1 g2 : N -> option val), map g1 l1 = map g2 l2 ->
                 map (fun a => f (g1 a)) l1 = map (fun a => f (g2 a)) l2).
    { intros f l1. induction l1 as [|x l1 IHl]; intros l2 g1 g2 E; destruct l2; cbn in *; try discriminate; auto.
      inversion E as [[E1 E2]]. rewrite E1. f_equal. apply IHl. exact E2. }
    exact (Hm (fun o => match o with Some x => x | None => VN 0 end) cs (cells t) _ _ Hmap).
  - assert (Hsrc : forall a, In a (cells t) -> deref (h ++ ext) a = deref h a).
    { intros a Ha. apply deref_app. apply deref_lt. apply Hl. exact Ha. }
    split; [split; [exact Hk|intros a Ha; rewrite Hsrc by exact Ha; apply Hl; exact Ha]|]. split.
    + unfold values. apply map_ext_in. intros a Ha. rewrite Hsrc by exact Ha. reflexivity.
    + intros a Ha Hin. specialize (Hge a Ha). pose proof (deref_lt h a (Hl a Hin)). lia.
Qed.

(* freeing other cells leaves a table's cells alone *)
Lemma set_none_other : forall (h : heap) (i j : nat), i <> j ->
  match nth_error (firstn i h ++ None :: skipn (S i) h) j with Some c => c | None => None end
  = match nth_error h j with Some c => c | None => None end.
Proof.
  induction h as [|c h IH]; intros i j Hne.
  - rewrite firstn_nil, skipn_nil. cbn [app]. destruct j as [|[|j]]; reflexivity.
  - destruct i as [|i].
    + cbn [firstn skipn app]. destruct j as [|j]; [congruence|reflexivity].
    + cbn [firstn skipn app]. destruct j as [|j]; [reflexivity|]. cbn [nth_error]. apply IH. congruence.
Qed.
Lemma deref_free1 h a b : a <> b -> deref (firstn (N.to_nat a) h ++ None :: skipn (S (N.to_nat a)) h) b = deref h b.
Proof. intros Hne. unfold deref. apply set_none_other. lia. Qed.
Lemma deref_free : forall cs h b, ~ In b cs -> deref (free_cells h cs) b = deref h b.
Proof.
  induction cs as [|a r IH]; intros h b Hn; cbn [free_cells]; [reflexivity|].
  rewrite IH by (intros H; apply Hn; right; exact H). apply deref_free1. intros ->. apply Hn. left. reflexivity.
Qed.

Theorem destroy_other h t t2 : own_refs h t -> (forall a, In a (cells t) -> ~ In a (cells t2)) ->
  own_refs (hdestroy h t2) t /\ values (hdestroy h t2) t = values h t.
Proof.
  intros [Hk Hl] Hd. unfold hdestroy. split.
  - split; [exact Hk|]. intros a Ha. rewrite deref_free by (apply Hd; exact Ha). apply Hl. exact Ha.
  - unfold values. apply map_ext_in. intros a Ha. rewrite deref_free by (apply Hd; exact Ha). reflexivity.
Qed.
