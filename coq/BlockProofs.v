(* BlockProofs.v — lemmas about the block tables and the block builder of Block.v. *)
Require Import Base Cbor EncoderModel DecoderModel Schema Timestamp Block.
Local Open Scope N_scope.

(* ---------- structural equality decides Leibniz equality ---------- *)
Section ValInd.
  Variable P : val -> Prop.
  Hypothesis HN : forall n, P (VN n).
  Hypothesis HZ : forall z, P (VZ z).
  Hypothesis HB : forall b, P (VB b).
  Hypothesis HS : forall s, P (VS s).
  Hypothesis HL : forall xs, Forall P xs -> P (VL xs).
  Hypothesis HR : forall fs, Forall (fun o => match o with Some v => P v | None => True end) fs -> P (VR fs).
  Fixpoint val_ind' (v : val) : P v :=
    match v with
    | VN n => HN n | VZ z => HZ z | VB b => HB b | VS s => HS s
    | VL xs => HL xs ((fix go l : Forall P l :=
                         match l with [] => Forall_nil P | y :: l' => Forall_cons y (val_ind' y) (go l') end) xs)
    | VR fs => HR fs ((fix go l : Forall (fun o => match o with Some v => P v | None => True end) l :=
                         match l with
                         | [] => Forall_nil _
                         | Some y :: l' => Forall_cons (Some y) (val_ind' y) (go l')
                         | None :: l' => Forall_cons None I (go l')
                         end) fs)
    end.
End ValInd.

Lemma list_eqb_N_eq : forall a b, list_eqb N.eqb a b = true <-> a = b.
Proof.
  induction a as [|x a IH]; destruct b as [|y b]; cbn; split; intros H; try discriminate; auto.
  - apply andb_true_iff in H. destruct H as [H1 H2]. apply N.eqb_eq in H1. apply IH in H2. subst. reflexivity.
  - inversion H; subst. rewrite N.eqb_refl. apply IH. reflexivity.
Qed.

Lemma val_eqb_eq : forall a b, val_eqb a b = true <-> a = b.
Proof.
  induction a as [n|z|b0|s|xs IH|fs IH] using val_ind'; intros b; destruct b as [n'|z'|b'|s'|xs'|fs']; cbn [val_eqb];
    try (split; intros H; discriminate).
  - rewrite N.eqb_eq. split; intros H; [subst|inversion H]; reflexivity.
  - rewrite Z.eqb_eq. split; intros H; [subst|inversion H]; reflexivity.
  - rewrite Bool.eqb_true_iff. split; intros H; [subst|inversion H]; reflexivity.
  - rewrite list_eqb_N_eq. split; intros H; [subst|inversion H]; reflexivity.
  - revert xs'. induction IH as [|x xs Hx _ IHl]; intros xs'; destruct xs' as [|y ys]; try (split; intros H; discriminate); [tauto|].
    split; intros H.
    + apply andb_true_iff in H. destruct H as [H1 H2]. apply Hx in H1. apply IHl in H2. inversion H2. subst. reflexivity.
    + inversion H; subst. apply andb_true_iff. split; [apply Hx; reflexivity|apply IHl; reflexivity].
  - revert fs'. induction IH as [|x fs Hx _ IHl]; intros fs'; destruct fs' as [|y ys]; try (split; intros H; discriminate); [tauto| |].
    + destruct x; split; intros H; discriminate.
    + destruct x as [x|], y as [y|]; try (split; intros H; discriminate).
      * split; intros H.
        -- apply andb_true_iff in H. destruct H as [H1 H2]. apply Hx in H1. apply IHl in H2. inversion H2. subst. reflexivity.
        -- inversion H; subst. apply andb_true_iff. split; [apply Hx; reflexivity|apply IHl; reflexivity].
      * split; intros H.
        -- apply IHl in H. inversion H. subst. reflexivity.
        -- inversion H; subst. apply IHl. reflexivity.
Qed.

Lemma val_eqb_refl a : val_eqb a a = true.
Proof. apply val_eqb_eq. reflexivity. Qed.
Lemma val_eqb_neq a b : val_eqb a b = false <-> a <> b.
Proof.
  split; intros H.
  - intros E. apply val_eqb_eq in E. congruence.
  - destruct (val_eqb a b) eqn:E; auto. apply val_eqb_eq in E. contradiction.
Qed.

(* ---------- one table ---------- *)
Lemma tfind_from_spec : forall t i v,
  match tfind_from i t v with
  | Some j => exists k, j = i + N.of_nat k /\ nth_error t k = Some v
  | None => ~ In v t
  end.
Proof.
  induction t as [|x t IH]; intros i v; cbn [tfind_from].
  - intros [].
  - destruct (val_eqb x v) eqn:E.
    + apply val_eqb_eq in E. subst. exists 0%nat. split; [cbn; lia|reflexivity].
    + apply val_eqb_neq in E. specialize (IH (i + 1) v). destruct (tfind_from (i + 1) t v) as [j|].
      * destruct IH as (k & -> & Hk). exists (S k). split; [lia|exact Hk].
      * intros [H|H]; [congruence|contradiction].
Qed.

(* adding a value returns the index of an entry equal to it *)
Lemma tadd_get t v : nth_error (fst (tadd t v)) (N.to_nat (snd (tadd t v))) = Some v.
Proof.
  unfold tadd, tfind. pose proof (tfind_from_spec t 0 v) as H. destruct (tfind_from 0 t v) as [j|]; cbn [fst snd].
  - destruct H as (k & -> & Hk). rewrite N.add_0_l, Nat2N.id. exact Hk.
  - rewrite Nat2N.id, nth_error_app2, Nat.sub_diag by lia. reflexivity.
Qed.

(* the table only grows at its end: every earlier index keeps denoting the same value *)
Lemma tadd_prefix t v : exists suf, fst (tadd t v) = t ++ suf.
Proof.
  unfold tadd. destruct (tfind t v); cbn [fst]; [exists []; rewrite app_nil_r; reflexivity|exists [v]; reflexivity].
Qed.

(* adding an equal value again returns the same index and does not grow the table *)
Lemma tadd_idempotent t v : let '(t', ix) := tadd t v in tadd t' v = (t', ix).
Proof.
  unfold tadd, tfind. pose proof (tfind_from_spec t 0 v) as H.
  destruct (tfind_from 0 t v) as [j|] eqn:E.
  - rewrite E. reflexivity.
  - assert (Hf : forall t0 i, ~ In v t0 -> tfind_from i (t0 ++ [v]) v = Some (i + N.of_nat (length t0))).
    { induction t0 as [|x t0 IH]; intros i Hn; cbn [tfind_from app length].
      - rewrite val_eqb_refl. f_equal. cbn. lia.
      - assert (val_eqb x v = false) as -> by (apply val_eqb_neq; intros ->; apply Hn; left; reflexivity).
        rewrite IH by (intros Hi; apply Hn; right; exact Hi). f_equal. lia. }
    rewrite Hf by exact H. reflexivity.
Qed.

(* no table ever contains two equal entries *)
Lemma tadd_nodup t v : NoDup t -> NoDup (fst (tadd t v)).
Proof.
  intros Hn. unfold tadd, tfind. pose proof (tfind_from_spec t 0 v) as H.
  destruct (tfind_from 0 t v); cbn [fst]; auto.
  clear -Hn H. induction t as [|x t IH]; cbn [app]; [constructor; [intros []|constructor]|].
  inversion Hn as [|? ? Hni Hn']; subst. constructor.
  - intros Hi. apply in_app_or in Hi. destruct Hi as [Hi|[->|[]]]; [contradiction|]. apply H. left. reflexivity.
  - apply IH; auto. intros Hi. apply H. right. exact Hi.
Qed.

(* distinct values get distinct indices: an index determines its value *)
Lemma nodup_index_injective (t : list val) i j a :
  NoDup t -> nth_error t i = Some a -> nth_error t j = Some a -> i = j.
Proof.
  intros Hn Hi Hj. rewrite NoDup_nth_error in Hn. apply Hn; [|congruence].
  apply nth_error_Some. congruence.
Qed.

Lemma tadd_index_lt t v : snd (tadd t v) < N.of_nat (length (fst (tadd t v))).
Proof.
  pose proof (tadd_get t v) as H. assert (nth_error (fst (tadd t v)) (N.to_nat (snd (tadd t v))) <> None) by congruence.
  apply nth_error_Some in H0. lia.
Qed.

(* ---------- the nine tables of a block ---------- *)
Definition all_tids : list tid := [T_ip; T_ct; T_nr; T_sig; T_qlist; T_qrr; T_rrlist; T_rr; T_mmd].
Definition tb_nodup (tb : tables) : Prop := forall i, NoDup (tget tb i).
Definition tb_ext (tb tb' : tables) : Prop := forall i, exists suf, tget tb' i = tget tb i ++ suf.
Definition tb_good (tb tb' : tables) : Prop := (tb_nodup tb -> tb_nodup tb') /\ tb_ext tb tb'.

Lemma tb_ext_refl tb : tb_ext tb tb.
Proof. intros i. exists []. rewrite app_nil_r. reflexivity. Qed.
Lemma tb_ext_trans a b c : tb_ext a b -> tb_ext b c -> tb_ext a c.
Proof. intros H1 H2 i. destruct (H1 i) as [s1 E1]. destruct (H2 i) as [s2 E2]. exists (s1 ++ s2). rewrite E2, E1, app_assoc. reflexivity. Qed.
Lemma tb_good_refl tb : tb_good tb tb.
Proof. split; auto. apply tb_ext_refl. Qed.
Lemma tb_good_trans a b c : tb_good a b -> tb_good b c -> tb_good a c.
Proof. intros [N1 E1] [N2 E2]. split; auto. eapply tb_ext_trans; eauto. Qed.

Lemma tget_tset tb i l j : tget (tset tb i l) j = if match i, j with
  | T_ip, T_ip | T_ct, T_ct | T_nr, T_nr | T_sig, T_sig | T_qlist, T_qlist | T_qrr, T_qrr | T_rrlist, T_rrlist | T_rr, T_rr | T_mmd, T_mmd => true
  | _, _ => false end then l else tget tb j.
Proof. destruct i, j; reflexivity. Qed.

Lemma add_to_good tb i v : tb_good tb (fst (add_to tb i v)).
Proof.
  unfold add_to. destruct (tadd (tget tb i) v) as [l ix] eqn:E. cbn [fst].
  assert (Hl : l = fst (tadd (tget tb i) v)) by (rewrite E; reflexivity).
  split.
  - intros Hn j. rewrite tget_tset. destruct i, j; try exact (Hn _); subst l; apply tadd_nodup; exact (Hn _).
  - intros j. rewrite tget_tset. destruct (tadd_prefix (tget tb i) v) as [suf Hs]. rewrite <- Hl in Hs.
    destruct i, j; try (exists []; rewrite app_nil_r; reflexivity); exists suf; exact Hs.
Qed.

(* the index returned by add_to denotes the value in the new tables, and stays valid in every extension *)
Lemma add_to_get tb i v : nth_error (tget (fst (add_to tb i v)) i) (N.to_nat (snd (add_to tb i v))) = Some v.
Proof.
  unfold add_to. destruct (tadd (tget tb i) v) as [l ix] eqn:E. cbn [fst snd]. rewrite tget_tset.
  pose proof (tadd_get (tget tb i) v) as H. rewrite E in H. cbn [fst snd] in H. destruct i; exact H.
Qed.
Lemma ext_keeps tb tb' i k v : tb_ext tb tb' -> nth_error (tget tb i) k = Some v -> nth_error (tget tb' i) k = Some v.
Proof.
  intros He Hk. destruct (He i) as [suf ->]. rewrite nth_error_app1; auto. apply nth_error_Some. congruence.
Qed.

Lemma via_good tb i ov : tb_good tb (fst (via tb i ov)).
Proof.
  unfold via. destruct ov as [v|]; [|apply tb_good_refl].
  pose proof (add_to_good tb i v). destruct (add_to tb i v). exact H.
Qed.

Lemma add_questions_good : forall gl tb racc, tb_good tb (fst (add_questions tb gl racc)).
Proof.
  induction gl as [|g gl IH]; intros tb racc; cbn [add_questions]; [apply tb_good_refl|].
  pose proof (add_to_good tb T_nr (oval (rr_name g))) as H1. destruct (add_to tb T_nr (oval (rr_name g))) as [tb1 ni]. cbn [fst] in H1.
  pose proof (add_to_good tb1 T_ct (oval (rr_ct g))) as H2. destruct (add_to tb1 T_ct (oval (rr_ct g))) as [tb2 ci]. cbn [fst] in H2.
  pose proof (add_to_good tb2 T_qrr (VR [Some (VN ni); Some (VN ci)])) as H3.
  destruct (add_to tb2 T_qrr (VR [Some (VN ni); Some (VN ci)])) as [tb3 qi]. cbn [fst] in H3.
  eapply tb_good_trans; [|apply IH]. eapply tb_good_trans; [exact H1|]. eapply tb_good_trans; eauto.
Qed.
Lemma add_generic_qlist_good tb gl : tb_good tb (fst (add_generic_qlist tb gl)).
Proof.
  unfold add_generic_qlist. pose proof (add_questions_good gl tb []) as H. destruct (add_questions tb gl []) as [tb1 ixs]. cbn [fst] in H.
  eapply tb_good_trans; [exact H|]. apply add_to_good.
Qed.
Lemma add_rrs_good hrr : forall gl tb racc, tb_good tb (fst (add_rrs hrr tb gl racc)).
Proof.
  induction gl as [|g gl IH]; intros tb racc; cbn [add_rrs]; [apply tb_good_refl|].
  pose proof (add_to_good tb T_nr (oval (rr_name g))) as H1. destruct (add_to tb T_nr (oval (rr_name g))) as [tb1 ni]. cbn [fst] in H1.
  pose proof (add_to_good tb1 T_ct (oval (rr_ct g))) as H2. destruct (add_to tb1 T_ct (oval (rr_ct g))) as [tb2 ci]. cbn [fst] in H2.
  pose proof (via_good tb2 T_nr (bit hrr 1 (rr_rdata g))) as H3. destruct (via tb2 T_nr (bit hrr 1 (rr_rdata g))) as [tb3 rd]. cbn [fst] in H3.
  pose proof (add_to_good tb3 T_rr (VR [Some (VN ni); Some (VN ci); bit hrr 0 (rr_ttl g); rd])) as H4.
  destruct (add_to tb3 T_rr (VR [Some (VN ni); Some (VN ci); bit hrr 0 (rr_ttl g); rd])) as [tb4 ri]. cbn [fst] in H4.
  eapply tb_good_trans; [|apply IH]. eapply tb_good_trans; [exact H1|]. eapply tb_good_trans; [exact H2|]. eapply tb_good_trans; eauto.
Qed.
Lemma add_generic_rrlist_good hrr tb gl : tb_good tb (fst (add_generic_rrlist hrr tb gl)).
Proof.
  unfold add_generic_rrlist. pose proof (add_rrs_good hrr gl tb []) as H. destruct (add_rrs hrr tb gl []) as [tb1 ixs]. cbn [fst] in H.
  eapply tb_good_trans; [exact H|]. apply add_to_good.
Qed.
Lemma via_qlist_good tb h b ov : tb_good tb (fst (via_qlist tb h b ov)).
Proof.
  unfold via_qlist. destruct (N.testbit h b); [|apply tb_good_refl]. destruct (section ov) as [gl|]; [|apply tb_good_refl].
  pose proof (add_generic_qlist_good tb gl). destruct (add_generic_qlist tb gl). exact H.
Qed.
Lemma via_rrlist_good hrr tb h b ov : tb_good tb (fst (via_rrlist hrr tb h b ov)).
Proof.
  unfold via_rrlist. destruct (N.testbit h b); [|apply tb_good_refl]. destruct (section ov) as [gl|]; [|apply tb_good_refl].
  pose proof (add_generic_rrlist_good hrr tb gl). destruct (add_generic_rrlist hrr tb gl). exact H.
Qed.

Ltac step_good H f :=
  pose proof f as H; match type of H with tb_good _ (fst ?e) => destruct e; cbn [fst] in H end.

Lemma build_qr_good bp gr tb : tb_good tb (fst (build_qr bp gr tb)).
Proof.
  unfold build_qr.
  step_good H1 (via_good tb T_ip (bit (h_qr bp) 1 (nth_o gr 1))).
  match goal with |- context [if N.testbit (h_qr bp) 4 then ?a else ?b] =>
    assert (H2 : tb_good t (fst (if N.testbit (h_qr bp) 4 then a else b))) end.
  { destruct (N.testbit (h_qr bp) 4); [|apply tb_good_refl].
    step_good Ha (via_good t T_ip (bit (h_sig bp) 0 (nth_o gr 4))).
    step_good Hb (via_good t0 T_ct (bit (h_sig bp) 8 (nth_o gr 12))).
    step_good Hc (via_good t1 T_nr (bit (h_sig bp) 15 (nth_o gr 19))).
    match goal with |- context [if filled ?s then _ else _] => destruct (filled s) end.
    - match goal with |- context [add_to ?tb ?i ?v] => step_good Hd (add_to_good tb i v) end.
      cbn [fst]. eapply tb_good_trans; [exact Ha|]. eapply tb_good_trans; [exact Hb|]. eapply tb_good_trans; eauto.
    - cbn [fst]. eapply tb_good_trans; [exact Ha|]. eapply tb_good_trans; eauto. }
  match goal with |- context [let '(_, _) := ?e in _] => destruct e as [tb2 s4] end. cbn [fst] in H2.
  step_good H3 (via_good tb2 T_nr (bit (h_qr bp) 7 (nth_o gr 23))).
  match goal with |- context [if N.testbit (h_qr bp) 10 then ?a else ?b] =>
    assert (H4 : tb_good t0 (fst (if N.testbit (h_qr bp) 10 then a else b))) end.
  { destruct (N.testbit (h_qr bp) 10); [|apply tb_good_refl].
    step_good Ha (via_good t0 T_nr (nth_o gr 26)).
    match goal with |- context [if filled ?s then _ else _] => destruct (filled s) end; exact Ha. }
  match goal with |- context [let '(_, _) := ?e in _] => destruct e as [tb4 s10] end. cbn [fst] in H4.
  step_good H5 (via_qlist_good tb4 (h_qr bp) 11 (nth_o gr 28)).
  step_good H6 (via_rrlist_good (h_rr bp) t1 (h_qr bp) 12 (nth_o gr 29)).
  step_good H7 (via_rrlist_good (h_rr bp) t2 (h_qr bp) 13 (nth_o gr 30)).
  step_good H8 (via_rrlist_good (h_rr bp) t3 (h_qr bp) 14 (nth_o gr 31)).
  step_good H9 (via_qlist_good t4 (h_qr bp) 11 (nth_o gr 32)).
  step_good H10 (via_rrlist_good (h_rr bp) t5 (h_qr bp) 15 (nth_o gr 33)).
  step_good H11 (via_rrlist_good (h_rr bp) t6 (h_qr bp) 16 (nth_o gr 34)).
  step_good H12 (via_rrlist_good (h_rr bp) t7 (h_qr bp) 17 (nth_o gr 35)).
  cbn [fst].
  repeat (eapply tb_good_trans; [eassumption|]). apply tb_good_refl.
Qed.

Lemma build_mm_good gm tb : tb_good tb (fst (build_mm gm tb)).
Proof.
  unfold build_mm.
  step_good H1 (via_good tb T_ip (nth_o gm 1)).
  step_good H2 (via_good t T_ip (nth_o gm 3)).
  match goal with |- context [if filled ?s then _ else _] => destruct (filled s) end.
  - match goal with |- context [add_to ?tb ?i ?v] => step_good H3 (add_to_good tb i v) end.
    cbn [fst]. eapply tb_good_trans; [exact H1|]. eapply tb_good_trans; eauto.
  - cbn [fst]. eapply tb_good_trans; eauto.
Qed.

(* ---------- storage hints: a member whose bit is clear is absent from the item ---------- *)
Lemma via_none tb i : via tb i None = (tb, None).
Proof. reflexivity. Qed.
Lemma bit_off h b ov : N.testbit h b = false -> bit h b ov = None.
Proof. unfold bit. intros ->. reflexivity. Qed.

(* the simple members of the query/response item and the hint bit that guards each: (slot, bit) *)
Definition qr_slot_bits : list (nat * N) :=
  [(0%nat, 0); (1%nat, 1); (2%nat, 2); (3%nat, 3); (4%nat, 4); (5%nat, 5); (6%nat, 6); (7%nat, 7); (8%nat, 8); (9%nat, 9); (10%nat, 10)].

Lemma build_qr_absent bp gr tb slot b : In (slot, b) qr_slot_bits -> N.testbit (h_qr bp) b = false ->
  nth slot (snd (build_qr bp gr tb)) None = None.
Proof.
  intros Hin Hb. unfold build_qr.
  repeat match goal with |- context [let '(_, _) := ?e in _] => destruct e eqn:? end.
  cbn [snd]. unfold qr_slot_bits in Hin. cbn [In] in Hin.
  repeat (destruct Hin as [Hin|Hin]; [inversion Hin; subst; clear Hin|]); try contradiction; cbn [nth].
  - apply bit_off; auto.
  - rewrite bit_off in Heqp by auto. rewrite via_none in Heqp. inversion Heqp. reflexivity.
  - apply bit_off; auto.
  - apply bit_off; auto.
  - rewrite Hb in Heqp0. inversion Heqp0. reflexivity.
  - apply bit_off; auto.
  - apply bit_off; auto.
  - rewrite bit_off in Heqp1 by auto. rewrite via_none in Heqp1. inversion Heqp1. reflexivity.
  - apply bit_off; auto.
  - apply bit_off; auto.
  - rewrite Hb in Heqp2. inversion Heqp2. reflexivity.
Qed.

(* address events and malformed messages are stored only when their bit is set *)
Lemma add_aec_off ga st b : N.testbit (h_other (b_bp b)) 1 = false -> add_aec ga st b = (b, false).
Proof. intros H. unfold add_aec. rewrite H. reflexivity. Qed.
Lemma add_mm_off gm st b : N.testbit (h_other (b_bp b)) 0 = false -> add_mm gm st b = (b, false).
Proof. intros H. unfold add_mm. rewrite H. reflexivity. Qed.
