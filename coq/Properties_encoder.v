(* Properties_encoder.v — obligations over Gen_encoder.v, which translator/encoder.py regenerates from /repo's current src/cdns_encoder.cpp
   (clang AST) on every run: CdnsEncoder::write_int and the 16 public write operations TRANSLATED into Gallina. *)
Require Import List NArith ZArith String. Import ListNotations.
Require Import Base EncoderModel Gen_encoder.

(* every method body had one of the shapes the translator knows (and write_string / flush_buffer / update_buffer are, statement for
   statement, the loops EncoderModel.v was written after) *)
Theorem FT_encoder_recognised : gen_encoder_unrecognised = [].
Proof. reflexivity. Qed.
Print Assumptions FT_encoder_recognised.

(* the translation of the code IS the hand-written model: head bytes, thresholds and room tests of write_int; flush guard, major type and
   operand of every write operation (the negative branch of the signed overloads: ~value) *)
Theorem FT_encoder_ops :
  g_write_int = write_int /\
  g_array_start = write_array_start /\ g_map_start = write_map_start /\
  g_indef_array_start = write_indef_array_start /\ g_indef_map_start = write_indef_map_start /\ g_break = write_break /\
  g_bytestring = write_bytestring /\ g_textstring = write_textstring /\ g_bool = write_bool /\
  g_u8 = write_u8 /\ g_u16 = write_u16 /\ g_u32 = write_u32 /\ g_u64 = write_u64 /\
  g_i8 = write_i8 /\ g_i16 = write_i16 /\ g_i32 = write_i32 /\ g_i64 = write_i64.
Proof. repeat (split; [reflexivity|]). reflexivity. Qed.
Print Assumptions FT_encoder_ops.
