(* Properties_tables.v — obligations over Gen_tables.v, which translator/tables.py regenerates from /repo's current src/block_table.h and block.h
   (clang AST) on every run: the bodies of the de-duplicating table and of the block's table interface and copy operations, in canonical
   form. What the models were written after:
     BlockTable::add = look the key up, append only when it is not there, the index either way (Block.add_to; C11: HeapTable.t_add);
     add_value / record_last_key = append and enter the new last index under the item's key; find = the index map; operator[] = bounds-checked;
     operator= / the copy constructor = copy the items and REBUILD the index over the own items (defect F11: a member-wise copy left the
     index pointing into the source - HeapTable.v / HeapWorld.v model tables as cells to state this);
     CdnsBlock::add_* = BlockTable::add for the five value tables, find + add_value on a wrapped string / index list for the four others;
     get_* = bounds check then the entry; clear = earliest time, statistics, all nine tables and the three item containers; set_block_parameters
     refuses a block that holds items; CdnsBlock::operator= copies every member (tables through their own operator=), the move operations and
     CdnsBlockRead's operations delegate to it and rewind the reading cursors (Cursor.v).
   The kernel compares the texts (see Properties_exporter.v for what such a pin does and does not claim). *)
Require Import List String. Import ListNotations. Open Scope string_scope.
Require Import Gen_tables.

Definition table_bodies_expected : list (string * string) := [
  ("BlockTable::ctor",
   "");
  ("BlockTable::ctor",
   "fcall(rebuild_indexes)");
  ("BlockTable::operator=",
   "if(ne(?CXXThisExpr,addr(rhs)),{fcall(member(indexes_,clear));assign(items_,member(rhs,items_));fcall(rebuild_indexes)});return(deref(?CXXThisExpr))");
  ("BlockTable::find",
   "decl(find=fcall(member(indexes_,find),?CXXUnresolvedConstructExpr));if(ne(find,fcall(member(indexes_,end))),{assign(index,member(find,second));return(true)},return(false))");
  ("BlockTable::add_value",
   "fcall(member(items_,push_back),val);return(fcall(record_last_key))");
  ("BlockTable::add",
   "decl(key=fcall(member(val,key)));decl(res);if(lnot(fcall(find,key,res)),assign(res,fcall(member(this,add_value),val)));return(res)");
  ("BlockTable::clear",
   "fcall(member(items_,clear));fcall(member(indexes_,clear))");
  ("BlockTable::operator[]",
   "if(lt(pos,fcall(member(items_,size))),return(index(items_,pos)));throw");
  ("BlockTable::size",
   "return(fcall(member(items_,size)))");
  ("BlockTable::record_last_key",
   "decl(res=fcall(member(items_,size)));sub_assign(res,1);assign(index(indexes_,?CXXUnresolvedConstructExpr),res);return(res)");
  ("BlockTable::rebuild_indexes",
   "fcall(member(indexes_,clear));decl(pos=0);foreach(item,items_,assign(index(indexes_,?CXXUnresolvedConstructExpr),postinc(pos)))");
  ("CdnsBlock::ctor",
   "");
  ("CdnsBlock::ctor",
   "opcall(operator=,member(m_block_preamble,block_parameters_index),bp_index)");
  ("CdnsBlock::dtor",
   "call(clear)");
  ("CdnsBlock::ctor",
   "opcall(operator=,deref(?CXXThisExpr),copy)");
  ("CdnsBlock::operator=",
   "if(ne(?CXXThisExpr,addr(rhs)),{opcall(operator=,m_block_preamble,member(rhs,m_block_preamble));opcall(operator=,m_block_statistics,member(rhs,m_block_statistics));opcall(operator=,m_ip_address,member(rhs,m_ip_address));opcall(operator=,m_classtype,member(rhs,m_classtype));opcall(operator=,m_name_rdata,member(rhs,m_name_rdata));opcall(operator=,m_qr_sig,member(rhs,m_qr_sig));opcall(operator=,m_qlist,member(rhs,m_qlist));opcall(operator=,m_qrr,member(rhs,m_qrr));opcall(operator=,m_rrlist,member(rhs,m_rrlist));opcall(operator=,m_rr,member(rhs,m_rr));opcall(operator=,m_malformed_message_data,member(rhs,m_malformed_message_data));opcall(operator=,m_query_responses,member(rhs,m_query_responses));opcall(operator=,m_address_event_counts,member(rhs,m_address_event_counts));opcall(operator=,m_malformed_messages,member(rhs,m_malformed_messages));opcall(operator=,m_block_parameters,member(rhs,m_block_parameters))});return(deref(?CXXThisExpr))");
  ("CdnsBlock::operator=",
   "if(ne(?CXXThisExpr,addr(rhs)),opcall(operator=,deref(?CXXThisExpr),rhs));return(deref(?CXXThisExpr))");
  ("CdnsBlock::add_ip_address",
   "decl(ret);if(lnot(call(member(m_ip_address,find),?CXXReinterpretCastExpr,ret)),{decl(tmp=?CXXConstructExpr);opcall(operator=,member(tmp,data),address);assign(ret,call(member(m_ip_address,add_value),fcall(move,tmp)))});return(ret)");
  ("CdnsBlock::get_ip_address",
   "if(ge(index,call(member(m_ip_address,size))),throw);return(member(opcall(operator[],m_ip_address,index),data))");
  ("CdnsBlock::add_classtype",
   "return(call(member(m_classtype,add),classtype))");
  ("CdnsBlock::get_classtype",
   "if(ge(index,call(member(m_classtype,size))),throw);return(opcall(operator[],m_classtype,index))");
  ("CdnsBlock::add_name_rdata",
   "decl(ret);if(lnot(call(member(m_name_rdata,find),?CXXReinterpretCastExpr,ret)),{decl(tmp=?CXXConstructExpr);opcall(operator=,member(tmp,data),nrd);assign(ret,call(member(m_name_rdata,add_value),fcall(move,tmp)))});return(ret)");
  ("CdnsBlock::get_name_rdata",
   "if(ge(index,call(member(m_name_rdata,size))),throw);return(member(opcall(operator[],m_name_rdata,index),data))");
  ("CdnsBlock::add_qr_signature",
   "return(call(member(m_qr_sig,add),qr_sig))");
  ("CdnsBlock::get_qr_signature",
   "if(ge(index,call(member(m_qr_sig,size))),throw);return(opcall(operator[],m_qr_sig,index))");
  ("CdnsBlock::add_question_list",
   "decl(ret);if(lnot(call(member(m_qlist,find),?CXXReinterpretCastExpr,ret)),{decl(tmp=?CXXConstructExpr);opcall(operator=,member(tmp,list),qlist);assign(ret,call(member(m_qlist,add_value),fcall(move,tmp)))});return(ret)");
  ("CdnsBlock::get_question_list",
   "if(ge(index,call(member(m_qlist,size))),throw);return(member(opcall(operator[],m_qlist,index),list))");
  ("CdnsBlock::add_question",
   "return(call(member(m_qrr,add),qrr))");
  ("CdnsBlock::get_question",
   "if(ge(index,call(member(m_qrr,size))),throw);return(opcall(operator[],m_qrr,index))");
  ("CdnsBlock::add_rr_list",
   "decl(ret);if(lnot(call(member(m_rrlist,find),?CXXReinterpretCastExpr,ret)),{decl(tmp=?CXXConstructExpr);opcall(operator=,member(tmp,list),rrlist);assign(ret,call(member(m_rrlist,add_value),fcall(move,tmp)))});return(ret)");
  ("CdnsBlock::get_rr_list",
   "if(ge(index,call(member(m_rrlist,size))),throw);return(member(opcall(operator[],m_rrlist,index),list))");
  ("CdnsBlock::add_rr",
   "return(call(member(m_rr,add),rr))");
  ("CdnsBlock::get_rr",
   "if(ge(index,call(member(m_rr,size))),throw);return(opcall(operator[],m_rr,index))");
  ("CdnsBlock::add_malformed_message_data",
   "return(call(member(m_malformed_message_data,add),mmd))");
  ("CdnsBlock::get_malformed_message_data",
   "if(ge(index,call(member(m_malformed_message_data,size))),throw);return(opcall(operator[],m_malformed_message_data,index))");
  ("CdnsBlock::get_qr_count",
   "return(call(member(m_query_responses,size)))");
  ("CdnsBlock::get_aec_count",
   "return(call(member(m_address_event_counts,size)))");
  ("CdnsBlock::get_mm_count",
   "return(call(member(m_malformed_messages,size)))");
  ("CdnsBlock::set_block_parameters",
   "if(gt(call(get_item_count),0),return(false));opcall(operator=,m_block_parameters,bp);opcall(operator=,member(m_block_preamble,block_parameters_index),index);return(true)");
  ("CdnsBlock::clear",
   "opcall(operator=,member(m_block_preamble,earliest_time),?CXXConstructExpr);if(call(member(m_block_statistics,operator bool)),opcall(operator=,m_block_statistics,none));call(member(m_ip_address,clear));call(member(m_classtype,clear));call(member(m_name_rdata,clear));call(member(m_qr_sig,clear));call(member(m_qlist,clear));call(member(m_qrr,clear));call(member(m_rrlist,clear));call(member(m_rr,clear));call(member(m_malformed_message_data,clear));call(member(m_query_responses,clear));call(member(m_address_event_counts,clear));call(member(m_malformed_messages,clear))");
  ("CdnsBlockRead::ctor",
   "");
  ("CdnsBlockRead::ctor",
   "call(read,dec,block_parameters)");
  ("CdnsBlockRead::ctor",
   "opcall(operator=,deref(?CXXThisExpr),copy)");
  ("CdnsBlockRead::operator=",
   "if(ne(?CXXThisExpr,addr(rhs)),{call(operator=,rhs);assign(m_qr_read,0);opcall(operator=,m_aec_read,call(member(m_address_event_counts,begin)));assign(m_mm_read,0)});return(deref(?CXXThisExpr))");
  ("CdnsBlockRead::operator=",
   "if(ne(?CXXThisExpr,addr(rhs)),opcall(operator=,deref(?CXXThisExpr),rhs));return(deref(?CXXThisExpr))")].

Theorem FT_table_bodies : gen_table_bodies = table_bodies_expected.
Proof. reflexivity. Qed.
Print Assumptions FT_table_bodies.
