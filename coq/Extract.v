(* Extract.v — extraction of the executable model to OCaml (ExtrOcamlBasic only: bool, option, unit, list,
   prod, sumbool, sumor mapped to OCaml's; N, Z, positive, nat stay the extracted inductive types). *)
Require Import Base EncoderModel.
Require Extraction.
Require Import ExtrOcamlBasic.
Extraction Blacklist String List Nat Int.
Extraction "model.ml"
  N.add N.mul N.sub N.div_eucl N.compare N.of_nat N.to_nat Z.of_N Z.to_N Z.opp
  enc_init estep eruns stream flush.
