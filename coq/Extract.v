(* Extract.v — extraction of the executable model to OCaml (ExtrOcamlBasic only: bool, option, unit, list,
   prod, sumbool, sumor mapped to OCaml's; N, Z, positive, nat stay the extracted inductive types). *)
Require Import Base Cbor EncoderModel Timestamp DecoderModel Schema Block Exporter Writer Merge E2ESpec ExporterIO ExporterFaults.
Require Extraction.
Require Import ExtrOcamlBasic.
Extraction Blacklist String List Nat Int.
Extraction "model.ml"
  N.add N.mul N.sub N.div_eucl N.compare N.of_nat N.to_nat Z.of_N Z.to_N Z.opp
  Z.compare
  enc_init estep eruns stream flush
  get_time_offset add_time_offset ts_lt ts_le bt_init bt_add
  mcode DEC_BUFFER_SIZE run run_phys phys_init logical peek_type read_unsigned read_negative read_integer read_bool
  read_bytestring read_textstring read_array_start read_map_start read_break skip_item
  write_val read_val write_struct has_ty StorageHints StorageParameters CollectionParameters BlockParameters FilePreamble ClassType
  QueryResponseSignature Question RR MalformedMessageData ResponseProcessingData QueryResponseExtended BlockPreamble
  BlockStatistics QueryResponse AddressEventCount MalformedMessage BlockTables Schema.Block
  val_eqb tadd add_qr add_aec add_mm blk_val blk_new item_count x_new write_block write_block_ext buffer_qr buffer_aec buffer_mm rotate destroy
  add_block_parameters set_active reader_open reader_next read_file gen_qr gen_aec gen_mm
  add_to blk_clear blk_of_rb tbs_of_tables bp_of_val xstep xrun
  named_trace fd_trace czip outputs_of fd_calls named_calls fout_new enc_rotate_fd lost
  merge_bytes merge_run itemcount_blocks itemcount_total
  exp_qr exp_mm exp_aec log_qr log_mm log_aec log_aec_keys count_key dkey dec_total okey_eqb has_tyb typed_xb admb merge_okb qr_guard add_qr_item add_mm_item add_aec_item run_wops destroy_wops fstep fx_new fdestroy.
