(* Extract.v — extraction of the executable model to OCaml (ExtrOcamlBasic only: bool, option, unit, list,
   prod, sumbool, sumor mapped to OCaml's; N, Z, positive, nat stay the extracted inductive types). *)
Require Import Base EncoderModel Timestamp.
Require Extraction.
Require Import ExtrOcamlBasic.
Extraction Blacklist String List Nat Int.
Extraction "model.ml"
  N.add N.mul N.sub N.div_eucl N.compare N.of_nat N.to_nat Z.of_N Z.to_N Z.opp
  Z.compare
  enc_init estep eruns stream flush
  get_time_offset add_time_offset ts_lt ts_le bt_init bt_add.
