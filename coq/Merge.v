(* Merge.v — model of the two command-line tools of C18: cdns-merge (src/bin/cdns_merge.cpp: two passes over the inputs, the
   first collecting the block parameters of the inputs it accepts, the second copying their blocks through a CdnsExporter) and
   cdns-itemcount (src/bin/cdns_itemcount.cpp).  An input is what the reader gets out of a file: nothing (the header cannot be
   read), or a preamble and the blocks read before the end of the file or the first error.  No proofs here. *)
Require Import Base Cbor EncoderModel DecoderModel Schema Timestamp Block Exporter.
Local Open Scope N_scope.

Inductive minput := MBad (name : N) | MFile (name : N) (pre : val) (blocks : list rblock).
Definition in_name (i : minput) : N := match i with MBad n => n | MFile n _ _ => n end.

Definition oval_eqb (a b : option val) : bool :=
  match a, b with None, None => true | Some x, Some y => val_eqb x y | _, _ => false end.
Definition version_of (pre : val) : option val * option val * option val :=
  match pre with VR [a; b; c; _] => (a, b, c) | _ => (None, None, None) end.
Definition same_version (p q : val) : bool :=
  let '(a, b, c) := version_of p in let '(a', b', c') := version_of q in oval_eqb a a' && oval_eqb b b' && oval_eqb c c'.

(* pass 1: the merged preamble (versions of the first readable input, parameter sets of all accepted inputs appended) and, per
   accepted input name, where its parameter sets start (block_indexes[input][i] = offset + i; a later registration of the same
   name replaces the earlier one) *)
Record pass1 := mkP1 { p_pre : option val; p_params : list val; p_off : list (N * N) }.
Definition p1_step (s : pass1) (i : minput) : pass1 :=
  match i with
  | MBad _ => s
  | MFile name pre _ =>
      match p_pre s with
      | None => mkP1 (Some pre) (params_of pre) ((name, 0) :: p_off s)
      | Some first =>
          if same_version pre first
          then mkP1 (Some first) (p_params s ++ params_of pre) ((name, N.of_nat (length (p_params s))) :: p_off s)
          else s
      end
  end.
Definition run_pass1 (ins : list minput) : pass1 := fold_left p1_step ins (mkP1 None [] []).
Fixpoint lookup_off (l : list (N * N)) (name : N) : option N :=
  match l with [] => None | (n, o) :: r => if n =? name then Some o else lookup_off r name end.

Definition default_preamble : val :=      (* FilePreamble(): version 1.0, private version 1, one default BlockParameters *)
  VR [Some (VN 1); Some (VN 0); Some (VN 1);
      Some (VL [VR [Some (VR [Some (VN 1000000); Some (VN 10000); Some (VR [Some (VN 262143); Some (VN 131071); Some (VN 3); Some (VN 3)]);
                              Some (VL [VN 0; VN 1; VN 2; VN 4; VN 5]); Some (VL []); None; None; None; None; None; None; None]); None]])].

Definition merged_preamble (s : pass1) : val :=
  match p_pre s with
  | Some (VR [a; b; c; _]) => VR [a; b; c; Some (VL (p_params s))]
  | _ => default_preamble
  end.

(* pass 2: the blocks of every registered input, in argument order, with the parameter index shifted *)
Definition remap (off : N) (rb : rblock) : blk :=
  let b := blk_of_rb rb in mkBlk (b_earliest b) (off + b_bpi b) (b_bp b) (b_stats b) (b_tb b) (b_qrs b) (b_aecs b) (b_mms b).
Definition p2_step (offs : list (N * N)) (x : exporter) (i : minput) : exporter :=
  match i with
  | MBad _ => x
  | MFile name _ blocks =>
      match lookup_off offs name with
      | None => x                                   (* not accepted in pass 1: contributes nothing *)
      | Some off => fold_left (fun x rb => fst (write_block_ext x (remap off rb))) blocks x
      end
  end.
Definition merge_run (ins : list minput) : exporter :=
  let s := run_pass1 ins in
  fold_left (p2_step (p_off s)) ins (x_new (merged_preamble s)).
Definition merge_bytes (ins : list minput) : list N := destroy (merge_run ins).

(* what the specification says the output holds *)
Definition merge_spec (ins : list minput) : list blk :=
  let offs := p_off (run_pass1 ins) in
  flat_map (fun i => match i with
                     | MBad _ => []
                     | MFile name _ blocks =>
                         match lookup_off offs name with
                         | None => []
                         | Some off => filter (fun b => negb (item_count b =? 0)) (map (remap off) blocks)
                         end
                     end) ins.

(* cdns-itemcount: totals and per-block triples *)
Definition count_triple (rb : rblock) : N * N * N :=
  (N.of_nat (length (r_qrs rb)), N.of_nat (length (r_aecs rb)), N.of_nat (length (r_mms rb))).
Definition itemcount_blocks (blocks : list rblock) : list (N * N * N) := map count_triple blocks.
Definition itemcount_total (blocks : list rblock) : N * N * N :=
  fold_left (fun '(a, b, c) rb => let '(x, y, z) := count_triple rb in (a + x, b + y, c + z)) blocks (0, 0, 0).
