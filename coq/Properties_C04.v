(* Properties_C04.v — C04: storage hints are honoured: nothing the configuration excludes reaches the file.
   [build_qr bp gr tb] is the item (and the table insertions) add_question_response_record derives from a generic
   record under the block parameters in force.  Only statements live here. *)
Require Import Base Cbor EncoderModel Schema Block BlockProofs Exporter ExporterProofs E2ESpec BlockDecode ViewProofs Reachable.
Local Open Scope N_scope.

(* a member of the query/response item whose hint bit is cleared is absent from the stored item — for every hint mask,
   every record and every table state (slots 0..10 = time offset .. response processing data, bits 0..10) *)
Theorem C04_absent : forall bp gr tb slot b, In (slot, b) qr_slot_bits -> N.testbit (h_qr bp) b = false ->
  nth slot (snd (build_qr bp gr tb)) None = None.
Proof. exact build_qr_absent. Qed.
Print Assumptions C04_absent.

(* with the whole query/response hint word and the signature bit cleared nothing is inserted into any table *)
Theorem C04_no_insert_sections : forall tb h b ov hrr, N.testbit h b = false ->
  via_qlist tb h b ov = (tb, None) /\ via_rrlist hrr tb h b ov = (tb, None).
Proof. intros tb h b ov hrr H. unfold via_qlist, via_rrlist. rewrite H. split; reflexivity. Qed.
Print Assumptions C04_no_insert_sections.
Theorem C04_no_insert_member : forall tb i h b ov, N.testbit h b = false -> via tb i (bit h b ov) = (tb, None).
Proof. intros tb i h b ov H. rewrite bit_off by exact H. reflexivity. Qed.
Print Assumptions C04_no_insert_member.

(* address events and malformed messages are stored only when their hint bit is set: otherwise the call changes
   nothing in the block (no item, no table entry, no statistics) and reports that no block was written *)
Theorem C04_other_aec : forall ga st x, N.testbit (h_other (b_bp (x_blk x))) 1 = false -> buffer_aec ga st x = (x, 0).
Proof.
  intros ga st x H. unfold buffer_aec, buffer. rewrite add_aec_off by exact H. destruct x; reflexivity.
Qed.
Print Assumptions C04_other_aec.
Theorem C04_other_mm : forall gm st x, N.testbit (h_other (b_bp (x_blk x))) 0 = false -> buffer_mm gm st x = (x, 0).
Proof.
  intros gm st x H. unfold buffer_mm, buffer. rewrite add_mm_off by exact H. destruct x; reflexivity.
Qed.
Print Assumptions C04_other_mm.
(* ... and the same through the DIRECT interface of a block (add_address_event_count(const AddressEventCount&),
   add_malformed_message(const MalformedMessage&)): with the bit cleared the call changes nothing and reports "not full" *)
Theorem C04_other_direct : forall item st b,
  (N.testbit (h_other (b_bp b)) 1 = false -> add_aec_item item st b = (b, false)) /\
  (N.testbit (h_other (b_bp b)) 0 = false -> add_mm_item item st b = (b, false)).
Proof. intros item st b. split; intros H; [unfold add_aec_item|unfold add_mm_item]; rewrite H; reflexivity. Qed.
Print Assumptions C04_other_direct.

(* the preamble written to the file states the parameter sets of the exporter, member for member *)
Theorem C04_preamble : forall x, exists rest, header_ops x = OArr 3 :: OText cdns_text :: write_val FilePreamble (preamble_val x) ++ rest.
Proof. intros x. exists [OIndefArr]. reflexivity. Qed.
Print Assumptions C04_preamble.

(* ON THE READING SIDE, ALL 39 MEMBERS.  Whatever a reader decodes for a stored query/response item — in the block's tables as they are
   when the block is written, i.e. after any later insertions — has no value in any member whose hint is cleared ([qr_guard]: the
   query/response bit of the member; for the 17 signature members bit 4 AND their signature-hint bit; sections 11..17): not in the
   item, not through any table index.  Resource records returned in a section carry a TTL / RDATA only under the RR hints. *)
Theorem C04_never_returned : forall bp gr tb tb' l i, tb_ext (fst (build_qr bp gr tb)) tb' ->
  gen_qr (tbs_of_tables tb') (VR (snd (build_qr bp gr tb))) = Some (VR l) -> qr_guard bp i = false -> nth i l None = None.
Proof. exact decoded_respects_hints. Qed.
Print Assumptions C04_never_returned.
Theorem C04_rr_hints : forall hrr g,
  exp_rr hrr g = VR [Some (oval (rr_name g)); Some (oval (rr_ct g)); (if N.testbit hrr 0 then rr_ttl g else None);
                     (if N.testbit hrr 1 then rr_rdata g else None)].
Proof. exact exp_rr_hints. Qed.
Print Assumptions C04_rr_hints.

(* "... so every table entry in every block is reachable from some stored item": over every history (no hypothesis at all), in every block
   written and in the one still buffered, every entry of each of the nine tables is reached from a stored query/response, address-event or
   malformed-message item through the indices items and entries store ([reach]: Reachable.v).  In particular nothing a cleared hint
   excludes is left behind in a table by a record that was otherwise stored or dropped. *)
Theorem C04_every_entry_reachable : forall pre ops,
  Forall (fun b => forall t i, i < N.of_nat (length (tget (b_tb b) t)) -> reach b t i)
         (x_blk (xrun (x_new pre) ops) :: x_done (xrun (x_new pre) ops)).
Proof. exact history_entries_reachable. Qed.
Print Assumptions C04_every_entry_reachable.

(* the statement is not empty: a block holding an address no item refers to (what seed C04-1 produced) is not covered, and a block built from
   one query/response with a question has entries in five tables, all reachable *)
Example C04_reachable_nonvacuous :
  (let b := mkBlk ts0 0 (mkBp 1000 10 262143 131071 3 3) None (tset tables_empty T_ip [VS [10; 0; 0; 1]]) [] [] [] in ~ covered b) /\
  (let b := fst (add_qr ([Some (VL [VN 5; VN 1]); Some (VS [10; 0; 0; 1]); Some (VN 53)] ++ repeat None 25 ++
                         [Some (VL [VR [Some (VS [3; 119; 119; 119; 0]); Some (VR [Some (VN 1); Some (VN 1)])]])]) None
                        (blk_new (mkBp 1000 10 262143 131071 3 3) 0)) in
   map (fun t => length (tget (b_tb b) t)) all_tids = [1; 1; 1; 0; 1; 1; 0; 0; 0]%nat).
Proof.
  split.
  - cbv zeta. intros C. destruct (C T_ip 0) as [H|H]; [cbn; lia|cbn in H; exact H|cbn in H; exact H].
  - vm_compute. reflexivity.
Qed.

(* over whole histories: a record is stored iff at least one enabled member is present, and what is returned for it is the
   hint-filtered record (C01_end_to_end); a malformed message contributes nothing unless its hint bit is set *)
Theorem C04_log_respects_hints : forall bp gr gm,
  (new_qr bp gr = if filled (exp_qr bp gr) then [VR (exp_qr bp gr)] else []) /\
  (N.testbit (h_other bp) 0 = false -> new_mm bp gm = []) /\
  (forall ga k, N.testbit (h_other bp) 1 = false -> new_aec bp ga k = 0).
Proof.
  intros bp gr gm. split; [reflexivity|]. split.
  - intros H. unfold new_mm. rewrite H. reflexivity.
  - intros ga k H. unfold new_aec. rewrite H. reflexivity.
Qed.
Print Assumptions C04_log_respects_hints.

Example C04_nonvacuous :
  let bp := mkBp 1000 10 (262143 - 4) 131071 3 3 in      (* client_port bit cleared *)
  let gr := [Some (VL [VN 5; VN 1]); Some (VS [10; 0; 0; 1]); Some (VN 53); Some (VN 7)] in
  N.testbit (h_qr bp) 2 = false /\ nth 2 (snd (build_qr bp gr tables_empty)) None = None /\
  nth 3 (snd (build_qr bp gr tables_empty)) None = Some (VN 7) /\ t_ip (fst (build_qr bp gr tables_empty)) = [VS [10; 0; 0; 1]].
Proof. vm_compute. repeat split. Qed.
