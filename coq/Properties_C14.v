(* Properties_C14.v — C14: compression is transparent: decompressing any output gives the plain output.
   The compressors are external code: a Section variable with one recorded hypothesis ([codec_ok]: a run of compress calls
   followed by finish yields one stream that decompresses to the concatenation of the input).  What is proved is the writers'
   discipline around them, for every sequence of writes in any chunking and every rotation pattern.  Only statements here. *)
Require Import Base Exporter Writer WriterProofs ExporterIO ExporterIOProofs.
Local Open Scope N_scope.

Section C14.
  Variable cstate : Type.
  Variable cinit : cstate.
  Variable crun : cstate -> list N -> cstate * list N.
  Variable cfinish : cstate -> list N.
  Variable decompress : list N -> option (list N).
  Hypothesis codec_ok : forall chunks, decompress (cstream cstate crun cfinish cinit chunks) = Some (concat chunks).

  (* output by output (closed by rotation or by destruction), what the inner writer of a gzip / xz writer receives
     decompresses to exactly what the uncompressed writer receives for the same calls; same outputs, same order *)
  Theorem C14_transparent : forall destroyed ops cur,
    Forall2 (fun zo po => fst zo = fst po /\ decompress (snd zo) = Some (snd po))
            (outputs_of cur [] (czip cstate cinit crun cfinish cinit ops destroyed) destroyed)
            (outputs_of cur [] ops destroyed).
  Proof. exact (czip_transparent cstate cinit crun cfinish decompress codec_ok). Qed.

  (* each output is ONE complete stream: the compressor is re-initialised after every rotation and finished before it *)
  Theorem C14_one_stream_per_output : forall destroyed ops cur,
    outputs_of cur [] (czip cstate cinit crun cfinish cinit ops destroyed) destroyed =
    map (fun nc => (fst nc, cstream cstate crun cfinish cinit (snd nc))) (chunks_of cur [] ops destroyed).
  Proof.
    intros destroyed ops cur. rewrite (czip_outputs cstate cinit crun cfinish). destruct (chunks_of cur [] ops destroyed) as [|[n cs] r]; reflexivity.
  Qed.
End C14.
Print Assumptions C14_transparent.
Print Assumptions C14_one_stream_per_output.

(* the same for an exporter on top: whatever codec satisfies codec_ok, what the inner writer of a gzip / xz exporter receives decompresses,
   output by output, to the outputs of the exporter model (closed outputs oldest first, then what destruction closes) *)
Theorem C14_exporter_outputs : forall (cstate : Type) cinit crun cfinish decompress,
  (forall chunks, decompress (cstream cstate crun cfinish cinit chunks) = Some (concat chunks)) ->
  forall pre ops ids cur, let x := xrun (x_new pre) ops in
  Forall2 (fun zo p => decompress (snd zo) = Some p)
          (outputs_of cur [] (czip cstate cinit crun cfinish cinit (run_wops (x_new pre) ops ids ++ destroy_wops x) true) true)
          (rev (x_closed x) ++ [destroy x]).
Proof. exact exporter_compressed. Qed.
Print Assumptions C14_exporter_outputs.

(* non-vacuity: the identity codec with a one-byte trailer satisfies the hypothesis *)
Example C14_nonvacuous :
  let crun := fun (s : unit) (bs : list N) => (tt, bs) in
  let cfinish := fun (_ : unit) => [255] in
  outputs_of 1 [] (czip unit tt crun cfinish tt [WWrite [1; 2]; WRotate 2; WWrite [3]] true) true = [(1, [1; 2; 255]); (2, [3; 255])].
Proof. reflexivity. Qed.
