(* Properties_hash.v — obligations over Gen_hash.v, which translator/hashes.py regenerates from the clang AST of /repo/src/block.h:
   the types used as keys of the de-duplicating block tables and of the address-event map.
     (1) a hash reads only members that operator== compares  ==>  equal keys have equal hashes (whatever the mixing function is),
         the contract std::unordered_map needs for a look-up of an equal key to hit — without it a table gets two equal entries;
     (2) operator== compares every data member ==> distinct values are never merged (the value-level table model of Block.v
         compares whole values: [val_eqb]).
   All by computation over the generated lists, plus one generic lemma. *)
Require Import Base Gen_hash.
Require Import String.
Local Open Scope string_scope.

Definition mem_str (s : string) (l : list string) : bool := existsb (String.eqb s) l.
Definition subset (a b : list string) : bool := forallb (fun s => mem_str s b) a.

Theorem FH_hash_within_equality : forallb (fun t => subset (snd (snd (snd (snd t)))) (fst (snd (snd t)))) gen_key_types = true.
Proof. vm_compute. reflexivity. Qed.
Print Assumptions FH_hash_within_equality.

Theorem FH_equality_covers_every_member :
  forallb (fun t => subset (fst (snd t)) (fst (snd (snd t))) && subset (fst (snd (snd t))) (fst (snd t))) gen_key_types = true.
Proof. vm_compute. reflexivity. Qed.
Print Assumptions FH_equality_covers_every_member.

(* the eight key types are all there, and the two without a hash_value overload (hashed over their object bytes) are the two
   whose members are two fixed-width integers *)
Theorem FH_key_types :
  map fst gen_key_types = ["ClassType"; "QueryResponseSignature"; "Question"; "RR"; "MalformedMessageData"; "AddressEventCount"; "StringItem"; "IndexListItem"] /\
  map fst (filter (fun t => negb (fst (snd (snd (snd t))))) gen_key_types) = ["ClassType"; "Question"].
Proof. vm_compute. split; reflexivity. Qed.
Print Assumptions FH_key_types.

(* why (1) is the right obligation: a key is an assignment of values to member names, equality compares the members [eqm], the hash
   is ANY function of the values of the members [hm] (here: CRC32 folds); if hm is within eqm, equal keys hash equally *)
Section HashContract.
  Variable V : Type.
  Variable mix : list V -> nat.
  Definition key := string -> V.
  Definition key_eq (eqm : list string) (a b : key) : Prop := forall m, In m eqm -> a m = b m.
  Definition key_hash (hm : list string) (a : key) : nat := mix (map a hm).
  Theorem FH_equal_keys_hash_equally : forall eqm hm a b, subset hm eqm = true -> key_eq eqm a b -> key_hash hm a = key_hash hm b.
  Proof.
    intros eqm hm a b Hs He. unfold key_hash. f_equal. apply map_ext_in. intros m Hm. apply He.
    unfold subset in Hs. rewrite forallb_forall in Hs. specialize (Hs m Hm). unfold mem_str in Hs. apply existsb_exists in Hs.
    destruct Hs as (x & Hx & E). apply String.eqb_eq in E. subst. exact Hx.
  Qed.
End HashContract.
Print Assumptions FH_equal_keys_hash_equally.

(* ---------- value semantics of the classes whose members refer into their own storage (C19) ----------
   BlockTable's look-up index holds references into its item container: a member-wise (implicit or defaulted) copy or move would leave the
   new object's index pointing into the SOURCE (defect F11 was exactly that).  Every copy operation of BlockTable and of the two block
   classes must therefore be written out; a move operation is written out or not declared at all (the copy is then used), never
   member-wise. *)
Definition written_out (s : string) : bool := String.eqb s "user".
Definition move_safe (s : string) : bool := String.eqb s "user" || String.eqb s "none" || String.eqb s "deleted".
Theorem FH_copies_are_written_out :
  forallb (fun c => let '(cc, mc, ca, ma) := snd c in written_out cc && written_out ca && move_safe mc && move_safe ma) gen_special_members = true
  /\ map fst gen_special_members = ["BlockTable"; "CdnsBlock"; "CdnsBlockRead"].
Proof. vm_compute. split; reflexivity. Qed.
Print Assumptions FH_copies_are_written_out.
