(* TypeCheck.v — executable deciders for the hypotheses of the end-to-end theorems, with their soundness:
   [has_tyb] decides [has_ty] (values within the ranges of the format), [admb] decides admissibility of a history.
   They make the hypotheses checkable by computation: in Examples here, and by the harness on every generated history. *)
Require Import Base Cbor EncoderModel DecoderModel Schema SchemaProofs Timestamp TimestampProofs Block BlockProofs Exporter ExporterProofs E2ESpec BlockRead FileProofs.
Local Open Scope N_scope.

Lemma bytes_okb bs : forallb (fun b => b <? 256) bs = true -> bytes_ok bs.
Proof. intros H. rewrite forallb_forall in H. apply Forall_forall. intros b Hb. specialize (H b Hb). unfold byte_ok. lia. Qed.

Lemma has_tyb_sound :
  (forall t v, has_tyb t v = true -> has_ty t v) /\
  (forall fs sk vs, fields_tyb sk fs vs = true -> fields_ty sk fs vs).
Proof.
  apply ty_fields_ind.
  - intros bits [n|z|b|bs|xs|fs] H; cbn [has_tyb] in H; try discriminate. cbn [has_ty].
    apply andb_true_iff in H. destruct H as [H1 H2]. split; [apply N.ltb_lt; exact H1|].
    apply orb_true_iff in H2. destruct H2 as [H2|H2]; [|right; right; right; apply N.eqb_eq; exact H2].
    apply orb_true_iff in H2. destruct H2 as [H2|H2]; [|right; right; left; apply N.eqb_eq; exact H2].
    apply orb_true_iff in H2. destruct H2 as [H2|H2]; [left|right; left]; apply N.eqb_eq; exact H2.
  - intros [n|z|b|bs|xs|fs] H; cbn [has_tyb] in H; try discriminate. cbn [has_ty]. lia.
  - intros [n|z|b|bs|xs|fs] H; cbn [has_tyb] in H; try discriminate. exact I.
  - intros [n|z|b|bs|xs|fs] H; cbn [has_tyb] in H; try discriminate. cbn [has_ty]. apply andb_true_iff in H. destruct H as [H1 H2].
    split; [lia|apply bytes_okb; auto].
  - intros [n|z|b|bs|xs|fs] H; cbn [has_tyb] in H; try discriminate. cbn [has_ty]. apply andb_true_iff in H. destruct H as [H1 H2].
    split; [lia|apply bytes_okb; auto].
  - intros [n|z|b|bs|xs|fs] H; cbn [has_tyb] in H; try discriminate.
    destruct xs as [|[s| | | | |] [|[k| | | | |] [|? ?]]]; try discriminate. cbn [has_ty]. lia.
  - intros e IH [n|z|b|bs|xs|fs] H; cbn [has_tyb] in H; try discriminate. cbn [has_ty]. apply andb_true_iff in H. destruct H as [H1 H2].
    split; [lia|]. clear H1. induction xs as [|x xs IHl]; [exact I|]. apply andb_true_iff in H2. destruct H2 as [Hx Hr].
    split; [apply IH; exact Hx|apply IHl; exact Hr].
  - intros [n|z|b|bs|xs|fs] H; cbn [has_tyb] in H; try discriminate. cbn [has_ty]. apply andb_true_iff in H. destruct H as [H1 H2].
    split; [lia|]. clear H1. induction xs as [|x xs IHl]; [exact I|]. apply andb_true_iff in H2. destruct H2 as [Hx Hr].
    split; [|apply IHl; exact Hr]. destruct x; try discriminate. apply N.ltb_lt. exact Hx.
  - intros sk fs IH [n|z|b|bs|xs|vs] H; cbn [has_tyb] in H; try discriminate. cbn [has_ty]. apply IH. exact H.
  - intros sk [|? ?] H; cbn [fields_tyb] in H; try discriminate. exact I.
  - intros k p t IHt r IHr sk [|v vs] H; cbn [fields_tyb] in H; try discriminate. cbn [fields_ty].
    apply andb_true_iff in H. destruct H as [H Hr]. apply andb_true_iff in H. destruct H as [Hk Hv].
    split; [destruct sk; lia|]. split; [|apply IHr; exact Hr].
    destruct p, v as [x|]; try discriminate; auto.
    + apply andb_true_iff in Hv. destruct Hv as [Hv Hn]. split; auto. intros ->. discriminate.
    + destruct x; try discriminate. apply IHt. exact Hv.
Qed.

Lemma typed_xb_sound x : typed_xb x = true -> typed_x x.
Proof.
  unfold typed_xb, typed_x. intros H. apply andb_true_iff in H. destruct H as [H1 H2]. split.
  - rewrite forallb_forall in H1. apply Forall_forall. intros b Hb. apply (proj1 has_tyb_sound). apply H1. exact Hb.
  - apply (proj1 has_tyb_sound). exact H2.
Qed.

Lemma good_timeb_sound tps ov : good_timeb tps ov = true -> good_time tps ov.
Proof.
  destruct ov as [tv|]; [|intros _; exact I]. cbn [good_timeb good_time].
  destruct tv as [| | | |[|[s| | | | |] [|[k| | | | |] [|? ?]]]|]; try discriminate. intros H.
  split; [unfold rate_ok; lia|]. exists (mkTs (Z.of_N s) (Z.of_N k)). split; [reflexivity|].
  unfold normalised, ts_ok, instant. cbn [secs ticks]. lia.
Qed.

Lemma admb_sound ops : forall x hn, admb x hn ops = true -> adm x hn ops.
Proof.
  induction ops as [|o ops IH]; intros x hn H; cbn [admb adm] in *; [exact I|].
  apply andb_true_iff in H. destruct H as [H1 H2]. split; [|split; [|apply IH; exact H2]].
  - destruct o; cbn [adm1 adm1b] in *; auto. lia.
  - destruct o; cbn [adm1_time adm1b] in *; auto; apply good_timeb_sound; exact H1.
Qed.
