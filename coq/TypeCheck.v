(* TypeCheck.v — executable deciders for the hypotheses of the end-to-end theorems, with their soundness:
   [has_tyb] decides [has_ty] (values within the ranges of the format), [admb] decides admissibility of a history.
   They make the hypotheses checkable by computation: in Examples here, and by the harness on every generated history. *)
Require Import Base Cbor EncoderModel DecoderModel Schema SchemaProofs Timestamp TimestampProofs Block BlockProofs Exporter ExporterProofs Merge E2ESpec BlockRead FileProofs MergeFile.
Local Open Scope N_scope.

Lemma bytes_okb bs : forallb (fun b => b <? 256) bs = true -> bytes_ok bs.
Proof. intros H. rewrite forallb_forall in H. apply Forall_forall. intros b Hb. specialize (H b Hb). unfold byte_ok. lia. Qed.

Lemma has_tyb_sound :
  (forall t v, has_tyb t v = true -> has_ty t v) /\
  (forall fs sk vs, fields_tyb sk fs vs = true -> fields_ty sk fs vs).
Proof.
  apply ty_fields_ind.
  - intros bits [n|z|b|bs|xs|fs] H; cbn [has_tyb] in H; try discriminate. cbn [has_ty].
    apply andb_true_iff in H. destruct H as [H1 H2]. split; [apply N.ltb_lt; exact H1|].
    apply orb_true_iff in H2. destruct H2 as [H2|H2]; [|right; right; right; apply N.eqb_eq; exact H2].
    apply orb_true_iff in H2. destruct H2 as [H2|H2]; [|right; right; left; apply N.eqb_eq; exact H2].
    apply orb_true_iff in H2. destruct H2 as [H2|H2]; [left|right; left]; apply N.eqb_eq; exact H2.
  - intros [n|z|b|bs|xs|fs] H; cbn [has_tyb] in H; try discriminate. cbn [has_ty]. lia.
  - intros [n|z|b|bs|xs|fs] H; cbn [has_tyb] in H; try discriminate. exact I.
  - intros [n|z|b|bs|xs|fs] H; cbn [has_tyb] in H; try discriminate. cbn [has_ty]. apply andb_true_iff in H. destruct H as [H1 H2].
    split; [lia|apply bytes_okb; auto].
  - intros [n|z|b|bs|xs|fs] H; cbn [has_tyb] in H; try discriminate. cbn [has_ty]. apply andb_true_iff in H. destruct H as [H1 H2].
    split; [lia|apply bytes_okb; auto].
  - intros [n|z|b|bs|xs|fs] H; cbn [has_tyb] in H; try discriminate.
    destruct xs as [|[s| | | | |] [|[k| | | | |] [|? ?]]]; try discriminate. cbn [has_ty]. lia.
  - intros e IH [n|z|b|bs|xs|fs] H; cbn [has_tyb] in H; try discriminate. cbn [has_ty]. apply andb_true_iff in H. destruct H as [H1 H2].
    split; [lia|]. clear H1. induction xs as [|x xs IHl]; [exact I|]. apply andb_true_iff in H2. destruct H2 as [Hx Hr].
    split; [apply IH; exact Hx|apply IHl; exact Hr].
  - intros [n|z|b|bs|xs|fs] H; cbn [has_tyb] in H; try discriminate. cbn [has_ty]. apply andb_true_iff in H. destruct H as [H1 H2].
    split; [lia|]. clear H1. induction xs as [|x xs IHl]; [exact I|]. apply andb_true_iff in H2. destruct H2 as [Hx Hr].
    split; [|apply IHl; exact Hr]. destruct x; try discriminate. apply N.ltb_lt. exact Hx.
  - intros sk accs fs IH [n|z|b|bs|xs|vs] H; cbn [has_tyb] in H; try discriminate. cbn [has_ty]. apply IH. exact H.
  - intros sk [|? ?] H; cbn [fields_tyb] in H; try discriminate. exact I.
  - intros k p t IHt r IHr sk [|v vs] H; cbn [fields_tyb] in H; try discriminate. cbn [fields_ty].
    apply andb_true_iff in H. destruct H as [H Hr]. apply andb_true_iff in H. destruct H as [Hk Hv].
    split; [destruct sk; lia|]. split; [|apply IHr; exact Hr].
    destruct p, v as [x|]; try discriminate; auto.
    + apply andb_true_iff in Hv. destruct Hv as [Hv Hn]. split; auto. intros ->. discriminate.
    + destruct x; try discriminate. apply IHt. exact Hv.
Qed.

Lemma typed_xb_sound x : typed_xb x = true -> typed_x x.
Proof.
  unfold typed_xb, typed_x. intros H. apply andb_true_iff in H. destruct H as [H1 H2]. split.
  - rewrite forallb_forall in H1. apply Forall_forall. intros b Hb. apply (proj1 has_tyb_sound). apply H1. exact Hb.
  - apply (proj1 has_tyb_sound). exact H2.
Qed.

Lemma good_timeb_sound tps ov : good_timeb tps ov = true -> good_time tps ov.
Proof.
  destruct ov as [tv|]; [|intros _; exact I]. cbn [good_timeb good_time].
  destruct tv as [| | | |[|[s| | | | |] [|[k| | | | |] [|? ?]]]|]; try discriminate. intros H.
  split; [unfold rate_ok; lia|]. exists (mkTs (Z.of_N s) (Z.of_N k)). split; [reflexivity|].
  unfold normalised, ts_ok, instant. cbn [secs ticks]. lia.
Qed.

Lemma admb_sound ops : forall x hn, admb x hn ops = true -> adm x hn ops.
Proof.
  induction ops as [|o ops IH]; intros x hn H; cbn [admb adm] in *; [exact I|].
  apply andb_true_iff in H. destruct H as [H1 H2]. split; [|split; [|apply IH; exact H2]].
  - destruct o; cbn [adm1 adm1b] in *; auto. lia.
  - destruct o; cbn [adm1_time adm1b] in *; auto; apply good_timeb_sound; exact H1.
Qed.

(* ---------- deciders for the block invariants and for the hypotheses of the merged-file theorem ---------- *)
Lemma item_time_okb_sound e tps it : item_time_okb e tps it = true -> item_time_ok e tps it.
Proof.
  destruct it as [| | | | |[|[tv|] rest]]; cbn [item_time_okb item_time_ok]; auto. intros H.
  apply andb_true_iff in H. destruct H as [Hr H]. destruct (ts_of_val tv) as [t|]; [|discriminate].
  unfold rate_okb, normalisedb, ts_okb, instantz in *. split; [unfold rate_ok; lia|]. exists t. split; [reflexivity|].
  unfold normalised, ts_ok, instant. lia.
Qed.
Lemma forallb_Forall {A} (f : A -> bool) (P : A -> Prop) l : (forall a, f a = true -> P a) -> forallb f l = true -> Forall P l.
Proof. intros H Hf. rewrite forallb_forall in Hf. apply Forall_forall. intros a Ha. apply H. apply Hf. exact Ha. Qed.
Lemma time_invb_sound b : time_invb b = true -> time_inv b.
Proof.
  unfold time_invb, time_inv. intros H. repeat (apply andb_true_iff in H; destruct H as [H ?]).
  split; [lia|]. split; [lia|]. split.
  - intros Hr. assert (rate_okb (tps_of b) = true) as Hb by (unfold rate_okb, rate_ok in *; lia). rewrite Hb in *.
    unfold normalisedb, ts_okb, instantz, normalised, ts_ok, instant in *. lia.
  - split; eapply forallb_Forall; eauto; intros a; apply item_time_okb_sound.
Qed.
Lemma nodup_valb_sound l : nodup_valb l = true -> NoDup l.
Proof.
  induction l as [|k r IH]; cbn [nodup_valb]; intros H; constructor.
  - apply andb_true_iff in H. destruct H as [H _]. apply negb_true_iff in H. intros Hin.
    assert (existsb (val_eqb k) r = true); [|congruence]. apply existsb_exists. exists k. split; auto. apply val_eqb_refl.
  - apply IH. apply andb_true_iff in H. tauto.
Qed.
Lemma aec_invb_sound l : aec_invb l = true -> aec_inv l.
Proof.
  unfold aec_invb, aec_inv. intros H. apply andb_true_iff in H. destruct H as [H1 H2]. split; [|apply nodup_valb_sound; exact H2].
  eapply forallb_Forall; [|exact H1]. intros [k c]. cbn [fst]. unfold aec_shapeb, aec_shape.
  destruct k as [| | | | |[|a [|b0 [|c0 [|d [|[[[|p]| | | | |]|] [|? ?]]]]]]]; try discriminate. intros _. eauto.
Qed.
Lemma good_blkb_sound b : good_blkb b = true -> good_blk b.
Proof. unfold good_blkb, good_blk. intros H. apply andb_true_iff in H. destruct H. split; [apply time_invb_sound|apply aec_invb_sound]; auto. Qed.
Lemma blk_params_okb_sound ps b : blk_params_okb ps b = true -> blk_params_ok ps b.
Proof.
  unfold blk_params_okb, blk_params_ok, bparams_eqb. intros H. apply andb_true_iff in H. destruct H as [H1 H2]. split; [lia|].
  repeat (apply andb_true_iff in H2; destruct H2 as [H2 ?]).
  destruct (b_bp b) as [a1 a2 a3 a4 a5 a6], (nth_bp ps (b_bpi b)) as [c1 c2 c3 c4 c5 c6]. cbn in *. f_equal; lia.
Qed.
Lemma merge_okb_sound ins : merge_okb ins = true -> merge_ok ins.
Proof.
  unfold merge_okb, merge_ok. intros H. apply andb_true_iff in H. destruct H as [H1 H2]. split; [apply (proj1 has_tyb_sound); exact H1|].
  eapply forallb_Forall; [|exact H2]. intros b Hb Hne. cbv beta in Hb. rewrite Hne in Hb.
  apply andb_true_iff in Hb. destruct Hb as [Hb G]. apply andb_true_iff in Hb. destruct Hb as [T P].
  split; [apply (proj1 has_tyb_sound); exact T|]. split; [apply blk_params_okb_sound; exact P|apply good_blkb_sound; exact G].
Qed.
