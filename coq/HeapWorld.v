(* HeapWorld.v — C19 over arbitrary operation sequences: any number of block tables in one heap (items in cells, index keys = references),
   created, filled (de-duplicating adds), looked up, copied and destroyed in any order.  Every history refines the history of independent
   lists of values - a copy is complete, its later life is independent of its source's and of the source's destruction - and no lookup ever
   touches freed memory. *)
Require Import Base Cbor Schema Block BlockProofs HeapTable.
Local Open Scope N_scope.

Inductive wop := WNew | WAdd (i : nat) (v : val) | WFind (i : nat) (v : val) | WCopy (i : nat) | WDestroy (i : nat).

(* ---------- the reference level ---------- *)
Record world := mkW { w_heap : heap; w_tabs : list (option htable) }.
Definition tab (w : world) (i : nat) : option htable := match nth_error (w_tabs w) i with Some (Some t) => Some t | _ => None end.
Fixpoint set_nth_o {A} (i : nat) (x : A) (l : list A) : list A :=
  match i, l with O, _ :: r => x :: r | S i', a :: r => a :: set_nth_o i' x r | _, [] => [] end.

Definition wstep (w : world) (o : wop) : world * option fres :=
  match o with
  | WNew => (mkW (w_heap w) (w_tabs w ++ [Some (mkHT [] [])]), None)
  | WAdd i v => match tab w i with
                | Some t => let '(h', t', r) := hadd (w_heap w) t v in (mkW h' (set_nth_o i (Some t') (w_tabs w)), Some r)
                | None => (w, None)
                end
  | WFind i v => match tab w i with Some t => (w, Some (hfind (w_heap w) t v)) | None => (w, None) end
  | WCopy i => match tab w i with
               | Some t => let '(h', t') := copy_fixed (w_heap w) t in (mkW h' (w_tabs w ++ [Some t']), None)
               | None => (w, None)
               end
  | WDestroy i => match tab w i with
                  | Some t => (mkW (hdestroy (w_heap w) t) (set_nth_o i None (w_tabs w)), None)
                  | None => (w, None)
                  end
  end.

(* ---------- the value level: independent lists ---------- *)
Definition spec := list (option (list val)).
Definition stab (s : spec) (i : nat) : option (list val) := match nth_error s i with Some (Some l) => Some l | _ => None end.
Definition sstep (s : spec) (o : wop) : spec * option fres :=
  match o with
  | WNew => (s ++ [Some []], None)
  | WAdd i v => match stab s i with
                | Some l => (set_nth_o i (Some (fst (tadd l v))) s, Some (Found (snd (tadd l v))))
                | None => (s, None)
                end
  | WFind i v => match stab s i with
                 | Some l => (s, Some (match tfind l v with Some j => Found j | None => NotFound end))
                 | None => (s, None)
                 end
  | WCopy i => match stab s i with Some l => (s ++ [Some l], None) | None => (s, None) end
  | WDestroy i => match stab s i with Some _ => (set_nth_o i None s, None) | None => (s, None) end
  end.

Definition abs (w : world) : spec := map (option_map (values (w_heap w))) (w_tabs w).

(* ---------- the invariant: every table owns live cells, and no two tables share a cell ---------- *)
Definition winv (w : world) : Prop :=
  (forall i t, tab w i = Some t -> own_refs (w_heap w) t) /\
  (forall i j t1 t2, i <> j -> tab w i = Some t1 -> tab w j = Some t2 -> forall a, In a (cells t1) -> ~ In a (cells t2)).

Lemma cells_lt h t : own_refs h t -> forall a, In a (cells t) -> a < N.of_nat (length h).
Proof. intros [_ Hl] a Ha. apply deref_lt. apply Hl. exact Ha. Qed.
Lemma ext_keeps h e t : own_refs h t -> own_refs (h ++ e) t /\ values (h ++ e) t = values h t.
Proof.
  intros Ho. pose proof (cells_lt h t Ho) as Hlt. destruct Ho as [Hk Hl]. split.
  - split; [exact Hk|]. intros a Ha. rewrite deref_app by (apply Hlt; exact Ha). apply Hl. exact Ha.
  - unfold values. apply map_ext_in. intros a Ha. rewrite deref_app by (apply Hlt; exact Ha). reflexivity.
Qed.

Lemma nth_set_same {A} : forall (l : list A) i x, (i < length l)%nat -> nth_error (set_nth_o i x l) i = Some x.
Proof. induction l as [|a l IH]; intros [|i] x H; cbn in *; try lia; [reflexivity|apply IH; lia]. Qed.
Lemma nth_set_other {A} : forall (l : list A) i j x, i <> j -> nth_error (set_nth_o i x l) j = nth_error l j.
Proof. induction l as [|a l IH]; intros [|i] [|j] x H; cbn; try reflexivity; try congruence. apply IH. congruence. Qed.
Lemma map_set_nth {A B} (f : A -> B) : forall (l : list A) i x, map f (set_nth_o i x l) = set_nth_o i (f x) (map f l).
Proof. induction l as [|a l IH]; intros [|i] x; cbn; try reflexivity. rewrite IH. reflexivity. Qed.
Lemma tab_lt w i t : tab w i = Some t -> (i < length (w_tabs w))%nat.
Proof. unfold tab. intros H. apply nth_error_Some. destruct (nth_error (w_tabs w) i); congruence. Qed.
Lemma stab_abs w i : stab (abs w) i = option_map (values (w_heap w)) (tab w i).
Proof. unfold stab, tab, abs. rewrite nth_error_map. destruct (nth_error (w_tabs w) i) as [[t|]|]; reflexivity. Qed.

Lemma hadd_ext h t v : own_refs h t -> exists e, fst (fst (hadd h t v)) = h ++ e /\
  forall a, In a (cells (snd (fst (hadd h t v)))) -> In a (cells t) \/ N.of_nat (length h) <= a.
Proof.
  intros Ho. unfold hadd. destruct (hfind h t v).
  - exists []. cbn. rewrite app_nil_r. split; auto.
  - exists [Some v]. cbn. split; [reflexivity|]. intros a Ha. apply in_app_or in Ha. destruct Ha as [Ha|[<-|[]]]; [left; exact Ha|right; lia].
  - exists []. cbn. rewrite app_nil_r. split; auto.
Qed.

(* values of the other tables, and their ownership, survive whatever is appended to the heap *)
Lemma abs_ext_other h e ts i x : (forall j t, j <> i -> nth_error ts j = Some (Some t) -> own_refs h t) ->
  map (option_map (values (h ++ e))) (set_nth_o i x ts) = set_nth_o i (option_map (values (h ++ e)) x) (map (option_map (values h)) ts).
Proof.
  revert i. induction ts as [|a ts IH]; intros [|i] H; cbn [set_nth_o map]; try reflexivity.
  - f_equal. apply map_ext_in_iff. intros [t|] Hin; [|reflexivity]. cbn [option_map]. f_equal.
    apply In_nth_error in Hin. destruct Hin as [k Hk]. apply (ext_keeps h e t). apply (H (S k)); [discriminate|exact Hk].
  - f_equal.
    + destruct a as [t|]; [|reflexivity]. cbn [option_map]. f_equal. apply (ext_keeps h e t). apply (H O); [discriminate|reflexivity].
    + apply IH. intros j t Hj Hn. apply (H (S j)); [congruence|exact Hn].
Qed.
Lemma abs_ext_all h e ts : (forall j t, nth_error ts j = Some (Some t) -> own_refs h t) ->
  map (option_map (values (h ++ e))) ts = map (option_map (values h)) ts.
Proof.
  intros H. apply map_ext_in_iff. intros [t|] Hin; [|reflexivity]. cbn [option_map]. f_equal.
  apply In_nth_error in Hin. destruct Hin as [k Hk]. apply (ext_keeps h e t). apply (H k). exact Hk.
Qed.

Lemma tab_nth w i t : tab w i = Some t <-> nth_error (w_tabs w) i = Some (Some t).
Proof. unfold tab. destruct (nth_error (w_tabs w) i) as [[x|]|]; split; intros H; congruence. Qed.

(* ---------- one step: the invariant is kept, the value level is followed, nothing freed is touched ---------- *)
Theorem wstep_refines w o : winv w ->
  winv (fst (wstep w o)) /\ abs (fst (wstep w o)) = fst (sstep (abs w) o) /\ snd (wstep w o) = snd (sstep (abs w) o).
Proof.
  intros [Hown Hdis]. destruct o as [|i v|i v|i|i]; cbn [wstep sstep].
  - (* new *) cbn [fst snd]. split; [|split; [unfold abs; cbn [w_heap w_tabs]; rewrite map_app; reflexivity|reflexivity]].
    split.
    + intros i t Ht. apply tab_nth in Ht. cbn [w_tabs w_heap] in *. destruct (Nat.lt_ge_cases i (length (w_tabs w))) as [Hl|Hl].
      * rewrite nth_error_app1 in Ht by exact Hl. apply (Hown i). apply tab_nth. exact Ht.
      * rewrite nth_error_app2 in Ht by exact Hl. destruct (i - length (w_tabs w))%nat as [|[|k]]; cbn in Ht; try discriminate.
        inversion Ht; subst. split; [reflexivity|intros a []].
    + intros i j t1 t2 Hij H1 H2 a Ha. apply tab_nth in H1. apply tab_nth in H2. cbn [w_tabs] in *.
      destruct (Nat.lt_ge_cases i (length (w_tabs w))) as [Hl1|Hl1]; destruct (Nat.lt_ge_cases j (length (w_tabs w))) as [Hl2|Hl2].
      * rewrite nth_error_app1 in H1, H2 by assumption. apply (Hdis i j t1 t2 Hij); [apply tab_nth; exact H1|apply tab_nth; exact H2|exact Ha].
      * rewrite nth_error_app2 in H2 by exact Hl2. destruct (j - length (w_tabs w))%nat as [|[|k]]; cbn in H2; try discriminate. inversion H2; subst. intros [].
      * rewrite nth_error_app2 in H1 by exact Hl1. destruct (i - length (w_tabs w))%nat as [|[|k]]; cbn in H1; try discriminate. inversion H1; subst. destruct Ha.
      * rewrite nth_error_app2 in H1 by exact Hl1. destruct (i - length (w_tabs w))%nat as [|[|k]]; cbn in H1; try discriminate. inversion H1; subst. destruct Ha.
  - (* add *) rewrite stab_abs. destruct (tab w i) as [t|] eqn:Et; cbn [option_map]; [|cbn [fst snd]; split; [split; assumption|split; reflexivity]].
    pose proof (Hown i t Et) as Ho. pose proof (hadd_refines (w_heap w) t v Ho) as Hr. destruct (hadd_ext (w_heap w) t v Ho) as (e & He & Hcells).
    destruct (hadd (w_heap w) t v) as [[h' t'] r]. cbn [fst snd] in *. destruct Hr as (Ho' & Hv' & ->). subst h'.
    pose proof (tab_lt w i t Et) as Hlt.
    split; [|split; [|reflexivity]].
    + split.
      * intros j t2 Hj. apply tab_nth in Hj. cbn [w_tabs w_heap] in *. destruct (Nat.eq_dec i j) as [<-|Hne].
        -- rewrite nth_set_same in Hj by exact Hlt. inversion Hj; subst. exact Ho'.
        -- rewrite nth_set_other in Hj by exact Hne. apply ext_keeps. apply (Hown j). apply tab_nth. exact Hj.
      * intros j k t1 t2 Hjk H1 H2 a Ha. apply tab_nth in H1. apply tab_nth in H2. cbn [w_tabs] in *.
        destruct (Nat.eq_dec i j) as [<-|Hnj]; destruct (Nat.eq_dec i k) as [<-|Hnk]; try congruence.
        -- rewrite nth_set_same in H1 by exact Hlt. rewrite nth_set_other in H2 by exact Hnk. inversion H1; subst.
           assert (Hk : tab w k = Some t2) by (apply tab_nth; exact H2).
           destruct (Hcells a Ha) as [Hin|Hge]; [apply (Hdis i k t t2 Hjk Et Hk a Hin)|].
           intros Hin2. pose proof (cells_lt _ _ (Hown k t2 Hk) a Hin2). lia.
        -- rewrite nth_set_other in H1 by exact Hnj. rewrite nth_set_same in H2 by exact Hlt. inversion H2; subst.
           assert (Hj : tab w j = Some t1) by (apply tab_nth; exact H1).
           intros Hin2. destruct (Hcells a Hin2) as [Hin|Hge]; [apply (Hdis j i t1 t Hjk Hj Et a Ha Hin)|].
           pose proof (cells_lt _ _ (Hown j t1 Hj) a Ha). lia.
        -- rewrite nth_set_other in H1 by exact Hnj. rewrite nth_set_other in H2 by exact Hnk.
           apply (Hdis j k t1 t2 Hjk); [apply tab_nth; exact H1|apply tab_nth; exact H2|exact Ha].
    + unfold abs. cbn [w_heap w_tabs]. rewrite abs_ext_other.
      * cbn [option_map]. rewrite Hv'. reflexivity.
      * intros j t2 Hj Hn. apply (Hown j). apply tab_nth. exact Hn.
  - (* find *) rewrite stab_abs. destruct (tab w i) as [t|] eqn:Et; cbn [option_map fst snd]; [|split; [split; assumption|split; reflexivity]].
    split; [split; assumption|]. split; [reflexivity|]. rewrite (hfind_refines _ _ v (Hown i t Et)). reflexivity.
  - (* copy *) rewrite stab_abs. destruct (tab w i) as [t|] eqn:Et; cbn [option_map]; [|cbn [fst snd]; split; [split; assumption|split; reflexivity]].
    pose proof (Hown i t Et) as Ho. pose proof (copy_fixed_spec (w_heap w) t Ho) as Hc.
    assert (Hext : exists e, fst (copy_fixed (w_heap w) t) = w_heap w ++ e /\ forall a, In a (cells (snd (copy_fixed (w_heap w) t))) -> N.of_nat (length (w_heap w)) <= a).
    { unfold copy_fixed. pose proof (copy_cells_spec (cells t) (w_heap w) (proj2 Ho)) as Hs.
      destruct (copy_cells (w_heap w) (cells t)) as [h' cs]. destruct Hs as ((e & ->) & _ & _ & Hge). exists e. cbn. split; [reflexivity|exact Hge]. }
    destruct (copy_fixed (w_heap w) t) as [h' t']. cbn [fst snd] in *. destruct Hext as (e & -> & Hge). destruct Hc as (Ho' & Hv' & _ & _ & _).
    split; [|split; [|reflexivity]].
    + split.
      * intros j t2 Hj. apply tab_nth in Hj. cbn [w_tabs w_heap] in *. destruct (Nat.lt_ge_cases j (length (w_tabs w))) as [Hl|Hl].
        -- rewrite nth_error_app1 in Hj by exact Hl. apply ext_keeps. apply (Hown j). apply tab_nth. exact Hj.
        -- rewrite nth_error_app2 in Hj by exact Hl. destruct (j - length (w_tabs w))%nat as [|[|k]]; cbn in Hj; try discriminate. inversion Hj; subst. exact Ho'.
      * intros j k t1 t2 Hjk H1 H2 a Ha. apply tab_nth in H1. apply tab_nth in H2. cbn [w_tabs] in *.
        destruct (Nat.lt_ge_cases j (length (w_tabs w))) as [Hl1|Hl1]; destruct (Nat.lt_ge_cases k (length (w_tabs w))) as [Hl2|Hl2].
        -- rewrite nth_error_app1 in H1, H2 by assumption. apply (Hdis j k t1 t2 Hjk); [apply tab_nth; exact H1|apply tab_nth; exact H2|exact Ha].
        -- rewrite nth_error_app1 in H1 by exact Hl1. rewrite nth_error_app2 in H2 by exact Hl2.
           destruct (k - length (w_tabs w))%nat as [|[|k']]; cbn in H2; try discriminate. inversion H2; subst.
           intros Hin2. pose proof (Hge a Hin2). pose proof (cells_lt _ _ (Hown j t1 (proj2 (tab_nth w j t1) H1)) a Ha). lia.
        -- rewrite nth_error_app2 in H1 by exact Hl1. rewrite nth_error_app1 in H2 by exact Hl2.
           destruct (j - length (w_tabs w))%nat as [|[|k']]; cbn in H1; try discriminate. inversion H1; subst.
           intros Hin2. pose proof (Hge a Ha). pose proof (cells_lt _ _ (Hown k t2 (proj2 (tab_nth w k t2) H2)) a Hin2). lia.
        -- rewrite nth_error_app2 in H1 by exact Hl1. rewrite nth_error_app2 in H2 by exact Hl2.
           destruct (j - length (w_tabs w))%nat as [|[|j']] eqn:Ej; cbn in H1; try discriminate.
           destruct (k - length (w_tabs w))%nat as [|[|k']] eqn:Ek; cbn in H2; try discriminate. lia.
    + unfold abs. cbn [w_heap w_tabs]. rewrite map_app. cbn [map option_map]. rewrite Hv'. f_equal.
      apply abs_ext_all. intros j t2 Hn. apply (Hown j). apply tab_nth. exact Hn.
  - (* destroy *) rewrite stab_abs. destruct (tab w i) as [t|] eqn:Et; cbn [option_map fst snd]; [|split; [split; assumption|split; reflexivity]].
    pose proof (tab_lt w i t Et) as Hlt.
    assert (Hothers : forall j t2, j <> i -> tab w j = Some t2 -> own_refs (hdestroy (w_heap w) t) t2 /\ values (hdestroy (w_heap w) t) t2 = values (w_heap w) t2).
    { intros j t2 Hne Hj. apply destroy_other; [apply (Hown j); exact Hj|]. intros a Ha. apply (Hdis j i t2 t Hne Hj Et a Ha). }
    split; [|split; [|reflexivity]].
    + split.
      * intros j t2 Hj. apply tab_nth in Hj. cbn [w_tabs w_heap] in *. destruct (Nat.eq_dec i j) as [<-|Hne].
        -- rewrite nth_set_same in Hj by exact Hlt. discriminate.
        -- rewrite nth_set_other in Hj by exact Hne. apply (Hothers j); [congruence|apply tab_nth; exact Hj].
      * intros j k t1 t2 Hjk H1 H2 a Ha. apply tab_nth in H1. apply tab_nth in H2. cbn [w_tabs] in *.
        destruct (Nat.eq_dec i j) as [<-|Hnj]; [rewrite nth_set_same in H1 by exact Hlt; discriminate|].
        destruct (Nat.eq_dec i k) as [<-|Hnk]; [rewrite nth_set_same in H2 by exact Hlt; discriminate|].
        rewrite nth_set_other in H1 by exact Hnj. rewrite nth_set_other in H2 by exact Hnk.
        apply (Hdis j k t1 t2 Hjk); [apply tab_nth; exact H1|apply tab_nth; exact H2|exact Ha].
    + unfold abs. cbn [w_heap w_tabs].
      assert (Hm : map (option_map (values (hdestroy (w_heap w) t))) (set_nth_o i None (w_tabs w)) = set_nth_o i None (map (option_map (values (w_heap w))) (w_tabs w))).
      { clear -Hothers. revert i Hothers. unfold tab. generalize (w_tabs w) as ts. intros ts. induction ts as [|a ts IH]; intros [|i] Ho; cbn [set_nth_o map]; try reflexivity.
        - f_equal. apply map_ext_in_iff. intros [t2|] Hin; [|reflexivity]. cbn [option_map]. f_equal.
          apply In_nth_error in Hin. destruct Hin as [k Hk]. apply (Ho (S k) t2); [discriminate|]. cbn [nth_error]. rewrite Hk. reflexivity.
        - f_equal.
          + destruct a as [t2|]; [|reflexivity]. cbn [option_map]. f_equal. apply (Ho O t2); [discriminate|reflexivity].
          + apply IH. intros j t2 Hj Hn. apply (Ho (S j) t2); [congruence|exact Hn]. }
      exact Hm.
Qed.

(* ---------- histories ---------- *)
Fixpoint wrun (w : world) (ops : list wop) : world * list (option fres) :=
  match ops with [] => (w, []) | o :: r => let '(w1, x) := wstep w o in let '(w2, xs) := wrun w1 r in (w2, x :: xs) end.
Fixpoint srun (s : spec) (ops : list wop) : spec * list (option fres) :=
  match ops with [] => (s, []) | o :: r => let '(s1, x) := sstep s o in let '(s2, xs) := srun s1 r in (s2, x :: xs) end.

Theorem wrun_refines : forall ops w, winv w ->
  winv (fst (wrun w ops)) /\ abs (fst (wrun w ops)) = fst (srun (abs w) ops) /\ snd (wrun w ops) = snd (srun (abs w) ops).
Proof.
  induction ops as [|op ops IH]; intros w Hw.
  - cbn [wrun srun fst snd]. split; [exact Hw|split; reflexivity].
  - cbn [wrun srun]. destruct (wstep_refines w op Hw) as (Hw1 & Ha1 & Ho1).
    destruct (wstep w op) as [w1 x]. destruct (sstep (abs w) op) as [s1 y]. cbn [fst snd] in *. subst.
    destruct (IH w1 Hw1) as (Hw2 & Ha2 & Ho2). destruct (wrun w1 ops) as [w2 xs]. destruct (srun (abs w1) ops) as [s2 ys]. cbn [fst snd] in *.
    split; [exact Hw2|]. split; [exact Ha2|]. f_equal. exact Ho2.
Qed.

Lemma srun_no_uaf : forall ops s, ~ In (Some UAF) (snd (srun s ops)).
Proof.
  induction ops as [|op ops IH]; intros s; cbn [srun]; [intros []|].
  destruct (sstep s op) as [s1 y] eqn:E. specialize (IH s1). destruct (srun s1 ops) as [s2 ys]. cbn [snd] in *. intros [H|H]; [|exact (IH H)].
  subst y. destruct op as [|i v|i v|i|i]; cbn [sstep] in E.
  - inversion E.
  - destruct (stab s i); inversion E.
  - destruct (stab s i) as [l|]; inversion E. destruct (tfind l v); discriminate.
  - destruct (stab s i); inversion E.
  - destruct (stab s i); inversion E.
Qed.

Definition w0 : world := mkW [] [].
Lemma w0_inv : winv w0.
Proof. split; [intros i t H|intros i j t1 t2 _ H]; unfold tab, w0 in H; cbn in H; destruct i; discriminate. Qed.

(* every history from nothing: results and contents are those of independent lists of values, and no lookup or add touches freed memory *)
Theorem world_refines ops : snd (wrun w0 ops) = snd (srun [] ops) /\ abs (fst (wrun w0 ops)) = fst (srun [] ops) /\ ~ In (Some UAF) (snd (wrun w0 ops)).
Proof.
  destruct (wrun_refines ops w0 w0_inv) as (_ & Ha & Ho). change (abs w0) with (@nil (option (list val))) in *.
  split; [exact Ho|]. split; [exact Ha|]. rewrite Ho. apply srun_no_uaf.
Qed.
