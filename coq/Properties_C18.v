(* Properties_C18.v — C18: cdns-merge preserves every block and record; cdns-itemcount counts are true.
   An input is what the reader gets out of a file ([minput]: unreadable, or a preamble and the blocks read before the end of the
   file or the first error); [merge_run] follows the two passes of src/bin/cdns_merge.cpp.  Only statements here. *)
Require Import Base Cbor Schema Block BlockProofs Exporter ExporterProofs Merge MergeProofs DecoderModel E2ESpec BlockRead FileProofs MergeFile TypeCheck.
Local Open Scope N_scope.

(* the blocks written are, in argument order, exactly the non-empty blocks of every accepted input (for an input that becomes
   unreadable part-way: the blocks before the error), and nothing else; inputs that were not accepted contribute nothing *)
Theorem C18_merge_blocks : forall ins, x_done (merge_run ins) = merge_spec ins.
Proof. exact merge_blocks. Qed.
Print Assumptions C18_merge_blocks.

(* each copied block keeps all its records, address-event counts, statistics, tables and its earliest time unchanged; only
   its parameter index is shifted by the offset of its input *)
Theorem C18_block_content : forall off rb, let b := blk_of_rb rb in
  b_qrs (remap off rb) = b_qrs b /\ b_aecs (remap off rb) = b_aecs b /\ b_mms (remap off rb) = b_mms b /\
  b_stats (remap off rb) = b_stats b /\ b_tb (remap off rb) = b_tb b /\ b_earliest (remap off rb) = b_earliest b /\
  b_bp (remap off rb) = b_bp b /\ b_bpi (remap off rb) = off + b_bpi b.
Proof. exact remap_content. Qed.
Print Assumptions C18_block_content.

(* ... and at that shifted index the merged preamble holds a parameter set equal to the one the block had in its source *)
Theorem C18_params_preserved : forall ins name off, lookup_off (p_off (run_pass1 ins)) name = Some off ->
  exists pre blocks, In (MFile name pre blocks) ins /\
    forall i p, nth_error (params_of pre) i = Some p -> nth_error (p_params (run_pass1 ins)) (N.to_nat off + i) = Some p.
Proof. exact merge_params. Qed.
Print Assumptions C18_params_preserved.

(* inputs whose version differs from the first readable input's, or that cannot be opened as C-DNS, are not registered and
   contribute nothing *)
Theorem C18_rejected_contribute_nothing : forall ins name pre blocks, lookup_off (p_off (run_pass1 ins)) name = None ->
  spec_of (p_off (run_pass1 ins)) (MFile name pre blocks) = [] /\ spec_of (p_off (run_pass1 ins)) (MBad name) = [].
Proof. exact merge_rejected. Qed.
Print Assumptions C18_rejected_contribute_nothing.
Theorem C18_version_mismatch_not_registered : forall s name pre blocks first, p_pre s = Some first -> same_version pre first = false ->
  p1_step s (MFile name pre blocks) = s.
Proof. intros s name pre blocks first Hf Hv. cbn [p1_step]. rewrite Hf, Hv. reflexivity. Qed.
Print Assumptions C18_version_mismatch_not_registered.

(* cdns-itemcount: the three totals are the sums of the per-block triples, which are the lengths of the three item arrays *)
Theorem C18_itemcount : forall blocks,
  itemcount_total blocks = fold_left (fun '(a, b, c) '(x, y, z) => (a + x, b + y, c + z)) (itemcount_blocks blocks) (0, 0, 0) /\
  itemcount_blocks blocks = map (fun rb => (N.of_nat (length (r_qrs rb)), N.of_nat (length (r_aecs rb)), N.of_nat (length (r_mms rb)))) blocks.
Proof. intros blocks. split; [apply itemcount_total_sum|reflexivity]. Qed.
Print Assumptions C18_itemcount.

(* THE MERGED FILE.  When the merged preamble is within the ranges of the format and every non-empty block handed to the exporter in
   the second pass is too, refers to a parameter set of the merged preamble with the parameters it was built under, and satisfies the
   block invariants (record times not before the block's earliest time, address-event keys distinct — what every block read from an
   exporter-produced file satisfies), the bytes cdns-merge writes are header(merged preamble) ++ the blocks of the specification ++
   break — or nothing when no block qualifies — and the file reader returns exactly that preamble and those blocks from them. *)
Theorem C18_merged_file : forall ins, merge_ok ins ->
  let pre := merged_preamble (run_pass1 ins) in
  merge_bytes ins = file_bytes pre (merge_spec ins) /\ reads_back (pre, merge_spec ins).
Proof. exact merge_file. Qed.
Print Assumptions C18_merged_file.

(* the hypotheses are decidable; they hold for inputs that an exporter produced and the reader read (here: the same one-block file
   given twice, with an unreadable input in between) *)
Theorem C18_merged_file_hypotheses_decidable : forall ins, merge_okb ins = true -> merge_ok ins.
Proof. exact merge_okb_sound. Qed.
Print Assumptions C18_merged_file_hypotheses_decidable.
Example C18_merged_file_nonvacuous :
  let pre := VR [Some (VN 1); Some (VN 0); None; Some (VL [VR [Some (VR [Some (VN 1000); Some (VN 10);
                 Some (VR [Some (VN 262143); Some (VN 131071); Some (VN 3); Some (VN 3)]); Some (VL []); Some (VL []);
                 None; None; None; None; None; None; None]); None]])] in
  let gr := [Some (VL [VN 5; VN 1]); Some (VS [10; 0; 0; 1]); Some (VN 53)] in
  let ga := [Some (VN 1); None; None; Some (VS [10; 0; 0; 1])] in
  let x1 := fst (buffer_aec ga None (fst (buffer_qr gr None (x_new pre)))) in
  let out := destroy (fst (write_block x1)) in
  match run (read_file 400) out with
  | (inl (p, rbs), []) =>
      let ins := [MFile 1 p rbs; MBad 2; MFile 3 p rbs] in
      merge_okb ins = true /\ length (merge_spec ins) = 2%nat /\ (0 < length (merge_bytes ins))%nat
  | _ => False
  end.
Proof. vm_compute. repeat split. lia. Qed.

Example C18_nonvacuous :
  let pre1 := VR [Some (VN 1); Some (VN 0); None; Some (VL [VR []])] in
  let pre2 := VR [Some (VN 1); Some (VN 7); None; Some (VL [VR []; VR []])] in
  let s := run_pass1 [MBad 0; MFile 1 pre1 []; MFile 2 pre2 []; MFile 3 pre1 []] in
  lookup_off (p_off s) 1 = Some 0 /\ lookup_off (p_off s) 2 = None /\ lookup_off (p_off s) 3 = Some 1 /\ length (p_params s) = 2%nat.
Proof. vm_compute. repeat split. Qed.
