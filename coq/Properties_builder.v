(* Properties_builder.v — obligations over Gen_builder.v, which translator/builder.py regenerates from /repo's current src/block.cpp and
   interface.h (clang AST) on every run: which storage-hint bit guards which member of a generic record in the block builder.
   FT_qr_hints (Properties_format.v) proves that the specification function exp_qr - the right-hand side of the end-to-end theorem, what an
   application may expect back under given hints - is the table "generic member i is governed by mask enumerator X (inside the test of
   enumerator Y)". Here that very table, position by position, is checked against the guards the code has. *)
Require Import List String Bool Arith. Import ListNotations. Open Scope string_scope.
Require Import Gen_builder.

(* the members of GenericQueryResponse in declaration order: the positions [g i] of exp_qr, of FT_qr_hints and of the drivers *)
Theorem FT_generic_members :
  gen_generic_qr_members =
  ["ts"; "client_ip"; "client_port"; "transaction_id"; "server_ip"; "server_port"; "qr_transport_flags"; "qr_type"; "qr_sig_flags"; "query_opcode";
   "qr_dns_flags"; "query_rcode"; "query_classtype"; "query_qdcount"; "query_ancount"; "query_nscount"; "query_arcount"; "query_edns_version";
   "query_udp_size"; "query_opt_rdata"; "response_rcode"; "client_hoplimit"; "response_delay"; "query_name"; "query_size"; "response_size";
   "bailiwick"; "processing_flags"; "query_questions"; "query_answers"; "query_authority"; "query_additional"; "response_questions";
   "response_answers"; "response_authority"; "response_additional"; "asn"; "country_code"; "round_trip_time"].
Proof. reflexivity. Qed.
Print Assumptions FT_generic_members.

(* position i -> (enumerator of the enclosing hint test, hint variable, enumerator, shape of the condition): the table of FT_qr_hints.
   S e = inside `if (qr_hints & qr_signature_index)`, tested against the signature hints; Q e = tested against the query/response hints;
   sections also insist on a non-empty list; the two response-processing members sit inside the test of their common bit; the last three
   members are not governed by any hint *)
Definition Qh (e : string) := ("", "qr_hints", e, "land(HINT,M)").
Definition Sh (e : string) := ("qr_signature_index", "qr_sig_hints", e, "land(HINT,M)").
Definition Sec (e : string) := ("", "qr_hints", e, "land(land(HINT,M),M not empty)").
Definition qr_guard_spec : list (string * string * string * string) :=
  [Qh "time_offset"; Qh "client_address_index"; Qh "client_port"; Qh "transaction_id";
   Sh "server_address_index"; Sh "server_port"; Sh "qr_transport_flags"; Sh "qr_type"; Sh "qr_sig_flags"; Sh "query_opcode"; Sh "qr_dns_flags";
   Sh "query_rcode"; Sh "query_classtype_index"; Sh "query_qdcount"; Sh "query_ancount"; Sh "query_nscount"; Sh "query_arcount";
   Sh "query_edns_version"; Sh "query_udp_size"; Sh "query_opt_rdata_index"; Sh "response_rcode";
   Qh "client_hoplimit"; Qh "response_delay"; Qh "query_name_index"; Qh "query_size"; Qh "response_size";
   ("response_processing_data", "", "", "M"); ("response_processing_data", "", "", "M");
   Sec "query_question_sections"; Sec "query_answer_sections"; Sec "query_authority_sections"; Sec "query_additional_sections";
   Sec "query_question_sections"; Sec "response_answer_sections"; Sec "response_authority_sections"; Sec "response_additional_sections";
   ("", "", "", "M"); ("", "", "", "M"); ("", "", "", "M")].

Definition is_guard_shape (s : string) : bool := String.eqb s "land(HINT,M)" || String.eqb s "land(land(HINT,M),M not empty)" || String.eqb s "M".
(* the guard rows of one function that ask for the presence of member m *)
Definition rows_for (f m : string) : list (string * string * string * string) :=
  flat_map (fun r => match r with (f', (outer, hv, en, m', shape)) =>
                       if String.eqb f f' && String.eqb m m' && is_guard_shape shape then [(outer, hv, en, shape)] else [] end) gen_builder_guards.
Definition q4_eqb (a b : string * string * string * string) : bool :=
  match a, b with (a1, a2, a3, a4), (b1, b2, b3, b4) => String.eqb a1 b1 && String.eqb a2 b2 && String.eqb a3 b3 && String.eqb a4 b4 end.
Fixpoint guards_ok (ms : list string) (spec : list (string * string * string * string)) : bool :=
  match ms, spec with
  | [], [] => true
  | m :: ms', s :: spec' => (match rows_for "qr" m with [r] => q4_eqb r s | _ => false end) && guards_ok ms' spec'
  | _, _ => false
  end.
(* the rows of a function, whole *)
Definition rows_of (f : string) := filter (fun r => String.eqb f (fst r)) gen_builder_guards.
Definition hint_only (f : string) : list (string * string) :=
  flat_map (fun r => match r with (f', (outer, hv, en, m, shape)) => if String.eqb f f' && String.eqb m "" then [(en, shape)] else [] end) gen_builder_guards.

(* the earliest-time rule of a function: the test on the record's time that is not a storage guard *)
Definition earliest_rule (f : string) : list string :=
  flat_map (fun r => match r with (f', (_, _, _, m, shape)) => if String.eqb f f' && String.eqb m "ts" && negb (is_guard_shape shape) then [shape] else [] end) gen_builder_guards.
Definition earliest_expected (g : string) : string :=
  "land(M,lor(land(eq(call(member(m_query_responses,size)),0),eq(call(member(m_malformed_messages,size)),0)),opcall(operator<,opcall(operator*,member(" ++ g ++ ",ts)),member(m_block_preamble,earliest_time))))".

(* every member of the generic query/response is guarded in the code exactly as the specification table says (one guard each); the only
   other tests of the function are the two enclosing hint tests and the earliest-time rule (the record has a time, and the block holds no query/response and no malformed message yet or the time is earlier than the earliest so far - for query/responses and malformed messages alike); address events and malformed messages - generic
   and direct overloads alike - begin by refusing the item when their bit is cleared; TTL and RDATA of resource records are governed by the
   RR hints *)
Theorem FT_builder_guards :
  guards_ok gen_generic_qr_members qr_guard_spec &&
  Nat.eqb (List.length (rows_of "qr")) 42 &&
  (match hint_only "qr" with [("qr_signature_index", "HINT"); ("response_processing_data", "HINT")] => true | _ => false end) &&
  (match hint_only "aec", hint_only "aec-direct" with [("address_event_counts", "lnot(HINT)")], [("address_event_counts", "lnot(HINT)")] => true | _, _ => false end) &&
  (match hint_only "mm", hint_only "mm-direct" with [("malformed_messages", "lnot(HINT)")], [("malformed_messages", "lnot(HINT)")] => true | _, _ => false end) &&
  (match earliest_rule "qr", earliest_rule "mm" with [a], [b] => String.eqb a (earliest_expected "gr") && String.eqb b (earliest_expected "gmm") | _, _ => false end) &&
  (match rows_of "rrlist" with
   | [(_, ("", "rr_hints", "ttl", "ttl", "land(HINT,M)")); (_, ("", "rr_hints", "rdata_index", "rdata", "land(HINT,M)"))] => true | _ => false end) = true.
Proof. vm_compute. reflexivity. Qed.
Print Assumptions FT_builder_guards.

(* ---------- how the record accessors fill a generic record (Gen_genread.v, translator/genread.py) ----------
   Exporter.gen_qr / gen_aec / gen_mm / gen_qs / gen_rrs were written after these rows: which table a stored index is resolved in
   (get_ip_address = table 0, get_classtype = 1, get_name_rdata = 2, get_qr_signature = 3, get_question_list = 4, get_question = 5,
   get_rr_list = 6, get_rr = 7, get_malformed_message_data = 8: the positions of tl_get), under which presence test, and which members are
   copied as they are *)
Require Import Gen_genread.
Definition generic_readers_expected : list (string * (string * string * string)) := [
  ("qr", ("ts", "", "qr.time_offset"));
  ("qr", ("client_ip", "qr.client_address_index", "get_ip_address(deref(qr.client_address_index))"));
  ("qr", ("client_port", "", "qr.client_port"));
  ("qr", ("transaction_id", "", "qr.transaction_id"));
  ("qr", ("server_ip", "qr.qr_signature_index & get_qr_signature(deref(qr.qr_signature_index)).server_address_index", "get_ip_address(deref(get_qr_signature(deref(qr.qr_signature_index)).server_address_index))"));
  ("qr", ("server_port", "qr.qr_signature_index", "get_qr_signature(deref(qr.qr_signature_index)).server_port"));
  ("qr", ("qr_transport_flags", "qr.qr_signature_index", "get_qr_signature(deref(qr.qr_signature_index)).qr_transport_flags"));
  ("qr", ("qr_type", "qr.qr_signature_index", "get_qr_signature(deref(qr.qr_signature_index)).qr_type"));
  ("qr", ("qr_sig_flags", "qr.qr_signature_index", "get_qr_signature(deref(qr.qr_signature_index)).qr_sig_flags"));
  ("qr", ("query_opcode", "qr.qr_signature_index", "get_qr_signature(deref(qr.qr_signature_index)).query_opcode"));
  ("qr", ("qr_dns_flags", "qr.qr_signature_index", "get_qr_signature(deref(qr.qr_signature_index)).qr_dns_flags"));
  ("qr", ("query_rcode", "qr.qr_signature_index", "get_qr_signature(deref(qr.qr_signature_index)).query_rcode"));
  ("qr", ("query_classtype", "qr.qr_signature_index & get_qr_signature(deref(qr.qr_signature_index)).query_classtype_index", "get_classtype(deref(get_qr_signature(deref(qr.qr_signature_index)).query_classtype_index))"));
  ("qr", ("query_qdcount", "qr.qr_signature_index", "get_qr_signature(deref(qr.qr_signature_index)).query_qdcount"));
  ("qr", ("query_ancount", "qr.qr_signature_index", "get_qr_signature(deref(qr.qr_signature_index)).query_ancount"));
  ("qr", ("query_nscount", "qr.qr_signature_index", "get_qr_signature(deref(qr.qr_signature_index)).query_nscount"));
  ("qr", ("query_arcount", "qr.qr_signature_index", "get_qr_signature(deref(qr.qr_signature_index)).query_arcount"));
  ("qr", ("query_edns_version", "qr.qr_signature_index", "get_qr_signature(deref(qr.qr_signature_index)).query_edns_version"));
  ("qr", ("query_udp_size", "qr.qr_signature_index", "get_qr_signature(deref(qr.qr_signature_index)).query_udp_size"));
  ("qr", ("query_opt_rdata", "qr.qr_signature_index & get_qr_signature(deref(qr.qr_signature_index)).query_opt_rdata_index", "get_name_rdata(deref(get_qr_signature(deref(qr.qr_signature_index)).query_opt_rdata_index))"));
  ("qr", ("response_rcode", "qr.qr_signature_index", "get_qr_signature(deref(qr.qr_signature_index)).response_rcode"));
  ("qr", ("client_hoplimit", "", "qr.client_hoplimit"));
  ("qr", ("response_delay", "", "qr.response_delay"));
  ("qr", ("query_name", "qr.query_name_index", "get_name_rdata(deref(qr.query_name_index))"));
  ("qr", ("query_size", "", "qr.query_size"));
  ("qr", ("response_size", "", "qr.response_size"));
  ("qr", ("bailiwick", "qr.response_processing_data & qr.response_processing_data->bailiwick_index", "get_name_rdata(deref(qr.response_processing_data->bailiwick_index))"));
  ("qr", ("processing_flags", "qr.response_processing_data", "qr.response_processing_data->processing_flags"));
  ("qr", ("query_questions", "qr.query_extended & qr.query_extended->question_index", "fill_generic_q_list(get_question_list(deref(qr.query_extended->question_index)))"));
  ("qr", ("query_answers", "qr.query_extended & qr.query_extended->answer_index", "fill_generic_rr_list(get_rr_list(deref(qr.query_extended->answer_index)))"));
  ("qr", ("query_authority", "qr.query_extended & qr.query_extended->authority_index", "fill_generic_rr_list(get_rr_list(deref(qr.query_extended->authority_index)))"));
  ("qr", ("query_additional", "qr.query_extended & qr.query_extended->additional_index", "fill_generic_rr_list(get_rr_list(deref(qr.query_extended->additional_index)))"));
  ("qr", ("response_questions", "qr.response_extended & qr.response_extended->question_index", "fill_generic_q_list(get_question_list(deref(qr.response_extended->question_index)))"));
  ("qr", ("response_answers", "qr.response_extended & qr.response_extended->answer_index", "fill_generic_rr_list(get_rr_list(deref(qr.response_extended->answer_index)))"));
  ("qr", ("response_authority", "qr.response_extended & qr.response_extended->authority_index", "fill_generic_rr_list(get_rr_list(deref(qr.response_extended->authority_index)))"));
  ("qr", ("response_additional", "qr.response_extended & qr.response_extended->additional_index", "fill_generic_rr_list(get_rr_list(deref(qr.response_extended->additional_index)))"));
  ("qr", ("asn", "", "qr.asn"));
  ("qr", ("country_code", "", "qr.country_code"));
  ("qr", ("round_trip_time", "", "qr.round_trip_time"));
  ("aec", ("ae_type", "", "aec.ae_type"));
  ("aec", ("ae_code", "", "aec.ae_code"));
  ("aec", ("ae_transport_flags", "", "aec.ae_transport_flags"));
  ("aec", ("ip_address", "", "get_ip_address(aec.ae_address_index)"));
  ("aec", ("ae_count", "", "aec.ae_count"));
  ("mm", ("ts", "", "mm.time_offset"));
  ("mm", ("client_ip", "mm.client_address_index", "get_ip_address(deref(mm.client_address_index))"));
  ("mm", ("client_port", "", "mm.client_port"));
  ("mm", ("server_ip", "mm.message_data_index & get_malformed_message_data(deref(mm.message_data_index)).server_address_index", "get_ip_address(deref(get_malformed_message_data(deref(mm.message_data_index)).server_address_index))"));
  ("mm", ("server_port", "mm.message_data_index", "get_malformed_message_data(deref(mm.message_data_index)).server_port"));
  ("mm", ("mm_transport_flags", "mm.message_data_index", "get_malformed_message_data(deref(mm.message_data_index)).mm_transport_flags"));
  ("mm", ("mm_payload", "mm.message_data_index", "get_malformed_message_data(deref(mm.message_data_index)).mm_payload"));
  ("qlist", ("name", "for each", "get_name_rdata(get_question(elem).name_index)"));
  ("qlist", ("classtype", "for each", "get_classtype(get_question(elem).classtype_index)"));
  ("rrlist", ("name", "for each", "get_name_rdata(get_rr(elem).name_index)"));
  ("rrlist", ("classtype", "for each", "get_classtype(get_rr(elem).classtype_index)"));
  ("rrlist", ("ttl", "for each", "get_rr(elem).ttl"));
  ("rrlist", ("rdata", "for each & get_rr(elem).rdata_index", "get_name_rdata(deref(get_rr(elem).rdata_index))"))].

(* the accessors are what the model was written after; and read_generic_qr fills every member of the generic query/response exactly once,
   in declaration order *)
Theorem FT_generic_readers :
  gen_generic_readers = generic_readers_expected /\
  map (fun r => fst (fst (snd r))) (filter (fun r => String.eqb (fst r) "qr") gen_generic_readers) = gen_generic_qr_members.
Proof. split; reflexivity. Qed.
Print Assumptions FT_generic_readers.
