(* Properties_exporter.v — obligations over Gen_exporter.v, which translator/exporter.py regenerates from /repo's current src/cdns.h, cdns.cpp,
   cdns_encoder.h and block.h (clang AST) on every run: the bodies of the functions that make up the exporter's control flow, printed in
   canonical form. The models of coq/Exporter.v, ExporterIO.v and Block.v were written after exactly these statements (each entry names the
   definition it corresponds to); the kernel compares the texts. A body that changes - harmlessly or not - leaves FT_exporter_bodies unproved
   until model and expectation have been looked at again; whether a property fails is then for the correspondence run to find out. *)
Require Import List String. Import ListNotations. Open Scope string_scope.
Require Import Gen_exporter.

Definition exporter_bodies_expected : list (string * string) := [
  (* Exporter.buffer_qr = buffer (add_qr gr st): add to the buffered block; iff that reports `full`, write_block() *)
  ("CdnsExporter::buffer_qr",
   "decl(written=0);if(call(member(m_block,add_question_response_record),qr,stats),assign(written,call(write_block)));return(written)");
  (* Exporter.buffer_aec = buffer (add_aec ga st) *)
  ("CdnsExporter::buffer_aec",
   "decl(written=0);if(call(member(m_block,add_address_event_count),aec,stats),assign(written,call(write_block)));return(written)");
  (* Exporter.buffer_mm = buffer (add_mm gm st) *)
  ("CdnsExporter::buffer_mm",
   "decl(written=0);if(call(member(m_block,add_malformed_message),mm,stats),assign(written,call(write_block)));return(written)");
  (* Exporter.write_block: write_block_ext on the buffered block, then blk_clear and blk_set_bp (parameters of the ACTIVE set, active index) *)
  ("CdnsExporter::write_block",
   "decl(written=call(write_block,m_block));call(member(m_block,clear));call(member(m_block,set_block_parameters),call(member(m_file_preamble,get_block_parameters),m_active_block_parameters),m_active_block_parameters);return(written)");
  (* Exporter.write_block_ext: nothing for a block without items; the file header iff no block was written to this output yet; the block; the counter *)
  ("CdnsExporter::write_block(block)",
   "if(eq(call(member(block,get_item_count)),0),return(0));decl(written=0);if(eq(m_blocks_written,0),add_assign(written,call(write_file_header)));add_assign(written,call(member(block,write),m_encoder));postinc(m_blocks_written);return(written)");
  (* Exporter.header_ops: array of 3, the text 'C-DNS', the preamble, the start of the indefinite array of blocks *)
  ("CdnsExporter::write_file_header",
   "decl(written=0);add_assign(written,call(member(m_encoder,write_array_start),fcall(get_map_index,file_size)));add_assign(written,call(member(m_encoder,write_textstring),?CXXConstructExpr));add_assign(written,call(member(m_file_preamble,write),m_encoder));add_assign(written,call(member(m_encoder,write_indef_array_start)));return(written)");
  (* Exporter.rotate: write_block() iff exporting; the break iff a block was written to this output; the encoder's rotation (flush, then the writer's); the counter reset *)
  ("CdnsExporter::rotate_output",
   "decl(written=0);if(export_current_block,add_assign(written,call(write_block)));if(gt(m_blocks_written,0),add_assign(written,call(member(m_encoder,write_break))));fcall(member(m_encoder,rotate_output),out);assign(m_blocks_written,0);return(written)");
  (* Exporter.destroy: the break iff a block was written; the buffered block is NOT written; a failure is printed, not thrown *)
  ("CdnsExporter::~CdnsExporter",
   "try(if(gt(m_blocks_written,0),call(member(m_encoder,write_break))),catch(opcall(operator<<,opcall(operator<<,opcall(operator<<,cerr,str(""Couldn't write end break to output: "")),call(member(e,what))),endl)))");
  (* Exporter.add_block_parameters: appended to the preamble's sets, the new index returned *)
  ("CdnsExporter::add_block_parameters",
   "return(call(member(m_file_preamble,add_block_parameters),bp))");
  (* Exporter.set_active: refused for an index that is not in the preamble, else recorded (takes effect at the next write_block()) *)
  ("CdnsExporter::set_active_block_parameters",
   "if(ge(index,call(member(m_file_preamble,block_parameters_size))),return(false));assign(m_active_block_parameters,index);return(true)");
  (* ExporterIO.rotate_enc / the encoder part of Exporter.rotate: the staging buffer is flushed into the OLD output, then the writer rotates *)
  ("CdnsEncoder::rotate_output",
   "call(flush_buffer);fcall(member(opcall(operator->,m_cos),rotate_output),out)");
  (* Block.blk_full: any of the three item containers has reached max_block_items (>=) *)
  ("CdnsBlock::full",
   "return(lor(lor(ge(call(member(m_query_responses,size)),member(member(m_block_parameters,storage_parameters),max_block_items)),ge(call(member(m_address_event_counts,size)),member(member(m_block_parameters,storage_parameters),max_block_items))),ge(call(member(m_malformed_messages,size)),member(member(m_block_parameters,storage_parameters),max_block_items))))");
  (* Block.item_count: query/responses + address-event keys + malformed messages *)
  ("CdnsBlock::get_item_count",
   "return(add(add(call(member(m_query_responses,size)),call(member(m_address_event_counts,size))),call(member(m_malformed_messages,size))))")].

Theorem FT_exporter_bodies : gen_exporter_bodies = exporter_bodies_expected.
Proof. reflexivity. Qed.
Print Assumptions FT_exporter_bodies.
