(* ExporterIO.v — the calls the exporter's encoder makes on its output writer (CdnsEncoder::flush_buffer -> m_cos->write, and
   CdnsEncoder::rotate_output -> flush_buffer(); m_cos->rotate_output(value)), derived from the chunk structure the encoder model
   already records: one [WWrite] per flushed staging buffer, [WRotate] last in a rotation.  Executable, no proofs here. *)
Require Import Base Cbor EncoderModel DecoderModel Schema Timestamp Block Exporter Writer.
Local Open Scope N_scope.

(* the chunks flushed between two encoder states of the same output (the encoder only ever prepends to [chunks]) *)
Definition new_chunks (e e' : enc) : list (list N) := rev (firstn (length (chunks e') - length (chunks e)) (chunks e')).

(* the encoder state right after the flush that closes the current output (rotation or destruction), mirroring [rotate] / [destroy] *)
Definition closing_enc (x1 : exporter) : enc :=
  flush (fst (if 0 <? x_written x1 then enc_run (x_enc x1) [OBreak] else (x_enc x1, 0))).
Definition rotate_enc (export : bool) (x : exporter) : enc :=
  closing_enc (fst (if export then write_block x else (x, 0))).

(* writer calls of one API call; [id] names the output a rotation switches to *)
Definition step_wops (x : exporter) (o : xop) (id : N) : list wop :=
  match o with
  | XRot e => map WWrite (new_chunks (x_enc x) (rotate_enc e x)) ++ [WRotate id]
  | _ => map WWrite (new_chunks (x_enc x) (x_enc (fst (xstep x o))))
  end.
(* a history; rotations go to the outputs named by [ids] in turn (the name is reused when the list runs out) *)
Fixpoint run_wops (x : exporter) (ops : list xop) (ids : list N) : list wop :=
  match ops with
  | [] => []
  | o :: r =>
      let id := hd 0 ids in
      step_wops x o id ++ run_wops (fst (xstep x o)) r (match o with XRot _ => tl ids | _ => ids end)
  end.
(* ~CdnsExporter: the closing break and the last flush (the writer's own destruction follows: [destroyed := true] in Writer.v) *)
Definition destroy_wops (x : exporter) : list wop := map WWrite (new_chunks (x_enc x) (closing_enc x)).
