(* Properties_C06.v — C06: the CBOR encoder emits the RFC 8949 shortest form, independent of buffer position.
   Only property statements live here; each is closed by [exact] of a lemma proved elsewhere. *)
Require Import Base SpecEnc EncoderModel EncoderProofs.
Local Open Scope N_scope.

(* One call: any of the 18 public write operations, any argument in the operand type's range, any buffer
   fill level 0..BUFFER_SIZE (the invariant [inv]): the logical output stream grows by exactly the RFC 8949
   preferred encoding, the return value is its length, and the invariant is kept. *)
Theorem C06_op : forall (o : eop) (e : enc),
  inv e -> in_range o ->
  let '(e', r) := estep e o in
  stream e' = stream e ++ spec_enc o /\ r = N.of_nat (length (spec_enc o)) /\ inv e'.
Proof. exact estep_spec. Qed.
Print Assumptions C06_op.

(* Any call sequence from any reachable state: concatenation in call order, whatever the flush points. *)
Theorem C06_sequence : forall (ops : list eop) (e : enc),
  inv e -> Forall in_range ops ->
  let '(e', rs) := eruns e ops in
  stream e' = stream e ++ flat_map spec_enc ops
  /\ rs = map (fun o => N.of_nat (length (spec_enc o))) ops
  /\ inv e'.
Proof. exact eruns_spec. Qed.
Print Assumptions C06_sequence.

(* After the final flush (destructor, rotate_output) the bytes handed to the writer are the stream. *)
Theorem C06_flushed : forall e, buf (flush e) = [] /\ concat (rev (chunks (flush e))) = stream e.
Proof. exact flush_all. Qed.
Print Assumptions C06_flushed.

(* Non-vacuity: a concrete full-buffer state meets the hypotheses and the 9-byte head is split off by a flush. *)
Example C06_nonvacuous :
  let e := mkEnc (repeat 7 2048) [] in
  inv e /\ in_range (OU64 18446744073709551615) /\
  chunks (fst (estep e (OU64 18446744073709551615))) = [repeat 7 2048] /\
  buf (fst (estep e (OU64 18446744073709551615))) = [27; 255; 255; 255; 255; 255; 255; 255; 255].
Proof. vm_compute. repeat split; congruence. Qed.
