(* MergeProofs.v — cdns-merge: the blocks written are exactly the non-empty blocks of the accepted inputs, in argument order,
   each referring to a parameter set equal to the one it had in its source file. *)
Require Import Base Cbor EncoderModel DecoderModel Schema Timestamp Block BlockProofs Exporter ExporterProofs Merge.
Local Open Scope N_scope.

(* writing a list of blocks through the exporter appends exactly the non-empty ones, in order *)
Lemma write_blocks_done : forall (bs : list blk) x,
  x_done (fold_left (fun x b => fst (write_block_ext x b)) bs x) = x_done x ++ filter (fun b => negb (item_count b =? 0)) bs.
Proof.
  induction bs as [|b bs IH]; intros x; cbn [fold_left filter]; [rewrite app_nil_r; reflexivity|].
  rewrite IH. pose proof (write_block_ext_fields x b) as (_ & Hd & _). rewrite Hd.
  destruct (item_count b =? 0); cbn [negb]; [reflexivity|rewrite <- app_assoc; reflexivity].
Qed.

Lemma fold_map {A B C} (f : C -> B -> C) (g : A -> B) (l : list A) (c : C) :
  fold_left (fun c a => f c (g a)) l c = fold_left f (map g l) c.
Proof. revert c. induction l as [|a l IH]; intros c; cbn; auto. Qed.

Lemma x_new_done pre : x_done (x_new pre) = [].
Proof. unfold x_new. destruct pre as [| | | | |[|ma [|mi [|pv [|[[| | | |ps|]|] [|? ?]]]]]]; reflexivity. Qed.

Definition spec_of (offs : list (N * N)) (i : minput) : list blk :=
  match i with
  | MBad _ => []
  | MFile name _ blocks =>
      match lookup_off offs name with
      | None => []
      | Some off => filter (fun b => negb (item_count b =? 0)) (map (remap off) blocks)
      end
  end.

Lemma pass2_done offs : forall l x, x_done (fold_left (p2_step offs) l x) = x_done x ++ flat_map (spec_of offs) l.
Proof.
  induction l as [|i l IH]; intros x; cbn [fold_left flat_map]; [rewrite app_nil_r; reflexivity|].
  rewrite IH. destruct i as [n|n pre blocks]; cbn [p2_step spec_of]; [reflexivity|].
  destruct (lookup_off offs n) as [off|]; [|reflexivity].
  rewrite (fold_map (fun x b => fst (write_block_ext x b)) (remap off)), write_blocks_done, app_assoc. reflexivity.
Qed.

Theorem merge_blocks : forall ins, x_done (merge_run ins) = merge_spec ins.
Proof.
  intros ins. unfold merge_run, merge_spec. rewrite pass2_done, x_new_done. reflexivity.
Qed.

(* every record and the statistics of a copied block are unchanged; only the parameter index is shifted *)
Lemma remap_content off rb : let b := blk_of_rb rb in
  b_qrs (remap off rb) = b_qrs b /\ b_aecs (remap off rb) = b_aecs b /\ b_mms (remap off rb) = b_mms b /\
  b_stats (remap off rb) = b_stats b /\ b_tb (remap off rb) = b_tb b /\ b_earliest (remap off rb) = b_earliest b /\
  b_bp (remap off rb) = b_bp b /\ b_bpi (remap off rb) = off + b_bpi b.
Proof. cbn. repeat split. Qed.

(* pass 1: the parameter sets of an accepted input sit, in order, at its offset in the merged preamble *)
Definition offs_ok (s : pass1) (ins : list minput) : Prop :=
  forall name off, lookup_off (p_off s) name = Some off ->
    exists pre blocks, In (MFile name pre blocks) ins /\
      (forall i p, nth_error (params_of pre) i = Some p -> nth_error (p_params s) (N.to_nat off + i) = Some p) /\
      match p_pre s with Some first => same_version pre first = true \/ pre = first | None => False end.

Lemma same_version_refl p : same_version p p = true.
Proof.
  unfold same_version. destruct (version_of p) as [[a b] c].
  assert (H : forall o, oval_eqb o o = true) by (intros [v|]; cbn; [apply val_eqb_refl|reflexivity]).
  rewrite !H. reflexivity.
Qed.

Lemma pass1_ok : forall ins done s, offs_ok s done -> (forall name off, lookup_off (p_off s) name = Some off -> p_pre s <> None) ->
  offs_ok (fold_left p1_step ins s) (done ++ ins).
Proof.
  induction ins as [|i ins IH]; intros done s Hs Hp; cbn [fold_left]; [rewrite app_nil_r; exact Hs|].
  replace (done ++ i :: ins) with ((done ++ [i]) ++ ins) by (rewrite <- app_assoc; reflexivity).
  assert (Hw : forall s', offs_ok s' done -> offs_ok s' (done ++ [i])).
  { intros s' H name off Hl. destruct (H name off Hl) as (pre & blocks & Hin & Hrest). exists pre, blocks. split; [apply in_or_app; left; exact Hin|exact Hrest]. }
  destruct i as [n|n pre blocks]; cbn [p1_step].
  - apply IH; [apply Hw; exact Hs|exact Hp].
  - destruct (p_pre s) as [first|] eqn:Ef.
    + destruct (same_version pre first) eqn:Ev.
      * apply IH.
        -- intros name off Hl. cbn [p_off p_params p_pre lookup_off] in *. destruct (N.eqb_spec n name) as [->|Hne].
           ++ inversion Hl; subst. exists pre, blocks. split; [apply in_or_app; right; left; reflexivity|]. split; [|left; exact Ev].
              intros i p Hi. rewrite Nat2N.id, nth_error_app2 by lia. replace (length (p_params s) + i - length (p_params s))%nat with i by lia. exact Hi.
           ++ destruct (Hs name off Hl) as (pre' & blocks' & Hin & Hnth & Hv). rewrite Ef in Hv. exists pre', blocks'.
              split; [apply in_or_app; left; exact Hin|]. split; [|exact Hv].
              intros i p Hi. rewrite nth_error_app1; [apply Hnth; exact Hi|]. apply nth_error_Some. rewrite (Hnth i p Hi). discriminate.
        -- intros name off _. cbn. discriminate.
      * apply IH; [apply Hw; exact Hs|intros name off _; rewrite Ef; discriminate].
    + apply IH.
      * intros name off Hl. cbn [p_off p_params p_pre lookup_off] in *. destruct (N.eqb_spec n name) as [->|Hne].
        -- inversion Hl; subst. exists pre, blocks. split; [apply in_or_app; right; left; reflexivity|]. split; [|right; reflexivity].
           intros i p Hi. cbn. exact Hi.
        -- exfalso. apply (Hp name off Hl). reflexivity.
      * intros name off _. cbn. discriminate.
Qed.

Theorem merge_params : forall ins name off, lookup_off (p_off (run_pass1 ins)) name = Some off ->
  exists pre blocks, In (MFile name pre blocks) ins /\
    forall i p, nth_error (params_of pre) i = Some p -> nth_error (p_params (run_pass1 ins)) (N.to_nat off + i) = Some p.
Proof.
  intros ins name off H. pose proof (pass1_ok ins [] (mkP1 None [] [])) as Hk. cbn [app] in Hk.
  destruct (Hk (fun n o Hl => match (eq_ind (lookup_off [] n) (fun x => match x with None => True | Some _ => False end) I _ Hl) with end)
               (fun n o Hl => match (eq_ind (lookup_off [] n) (fun x => match x with None => True | Some _ => False end) I _ Hl) with end)
               name off H) as (pre & blocks & Hin & Hnth & _).
  exists pre, blocks. auto.
Qed.

(* inputs that were not accepted contribute nothing *)
Theorem merge_rejected : forall ins name pre blocks, lookup_off (p_off (run_pass1 ins)) name = None ->
  spec_of (p_off (run_pass1 ins)) (MFile name pre blocks) = [] /\ spec_of (p_off (run_pass1 ins)) (MBad name) = [].
Proof. intros ins name pre blocks H. cbn [spec_of]. rewrite H. split; reflexivity. Qed.

(* cdns-itemcount: the totals are the sums of the per-block triples *)
Theorem itemcount_total_sum : forall blocks,
  itemcount_total blocks = fold_left (fun '(a, b, c) '(x, y, z) => (a + x, b + y, c + z)) (itemcount_blocks blocks) (0, 0, 0).
Proof.
  intros blocks. unfold itemcount_total, itemcount_blocks. generalize (0, 0, 0) as acc.
  induction blocks as [|rb blocks IH]; intros acc; cbn [fold_left map]; [reflexivity|].
  rewrite IH. destruct acc as [[a b] c]. destruct (count_triple rb) as [[x y] z]. reflexivity.
Qed.
