(* MergeFile.v — C18 at the level of files: what cdns-merge writes is a complete C-DNS file — header with the merged preamble, the
   blocks the specification lists ([merge_spec]: every non-empty block of every accepted input, in argument order, parameter index
   shifted), break — and the file reader returns exactly that preamble and those blocks from it. *)
Require Import Base Cbor SpecEnc EncoderModel EncoderProofs DecoderModel DecoderProofs Schema SchemaProofs Timestamp Block BlockProofs
               Exporter ExporterProofs E2ESpec BlockRead FileProofs Merge MergeProofs.
Local Open Scope N_scope.


Lemma write_blocks_framed : forall (bs : list blk) x hn cur closed, framed x hn cur closed ->
  (cur <> [] -> hn = N.of_nat (length (x_params x))) -> typed_pre (preamble_val x) ->
  Forall (fun b => nonempty b = true -> typed_blk b /\ blk_params_ok (x_params x) b) bs ->
  let x' := fold_left (fun x b => fst (write_block_ext x b)) bs x in
  exists hn', framed x' hn' (cur ++ filter nonempty bs) closed /\ (cur ++ filter nonempty bs <> [] -> hn' = N.of_nat (length (x_params x')))
              /\ preamble_val x' = preamble_val x.
Proof.
  induction bs as [|b bs IH]; intros x hn cur closed F Hn Tp Hb; cbn [fold_left filter].
  - rewrite app_nil_r. exists hn. auto.
  - pose proof (Forall_inv Hb) as Hb1. pose proof (Forall_inv_tail Hb) as Hbs.
    assert (Hnext : hn_next x hn = N.of_nat (length (x_params x))).
    { destruct cur as [|c cur]; [apply (hn_next_nil _ _ _ F)|]. rewrite (hn_next_cur _ _ _ _ F) by discriminate. apply Hn. discriminate. }
    assert (Hpre : item_count b <> 0 -> typed_blk b /\ typed_pre (hdr_pre x (hn_next x hn)) /\ blk_params_ok (x_params x) b /\ (cur <> [] -> b_bpi b < hn)).
    { intros Hi. assert (Hne : nonempty b = true) by (unfold nonempty; apply negb_true_iff; apply N.eqb_neq; exact Hi).
      destruct (Hb1 Hne) as [Tb Pb]. split; [exact Tb|]. split; [rewrite Hnext, hdr_pre_all; exact Tp|]. split; [exact Pb|].
      intros Hc. rewrite (Hn Hc). apply Pb. }
    pose proof (write_block_ext_framed x b hn cur closed F Hpre) as (F1 & _ & Hps & _ & Hma & Hmi & Hpv).
    set (x1 := fst (write_block_ext x b)) in *.
    assert (Hpv1 : preamble_val x1 = preamble_val x) by (unfold preamble_val; rewrite Hma, Hmi, Hpv, Hps; reflexivity).
    assert (Hnb : nonempty b = negb (item_count b =? 0)) by reflexivity. rewrite !Hnb. clear Hnb. destruct (item_count b =? 0) eqn:E; cbn [negb].
    + destruct (IH x1 (hn_next x hn) cur closed F1) as (hn' & F' & Hn' & Hp'); auto.
      * intros _. rewrite Hps. exact Hnext.
      * rewrite Hpv1. exact Tp.
      * rewrite Hps. exact Hbs.
      * exists hn'. split; [exact F'|]. split; [exact Hn'|]. rewrite Hp', Hpv1. reflexivity.
    + destruct (IH x1 (hn_next x hn) (cur ++ [b]) closed F1) as (hn' & F' & Hn' & Hp'); auto.
      * intros _. rewrite Hps. exact Hnext.
      * rewrite Hpv1. exact Tp.
      * rewrite Hps. exact Hbs.
      * exists hn'. rewrite <- app_assoc in F', Hn'. cbn [app] in F', Hn'. split; [exact F'|]. split; [exact Hn'|]. rewrite Hp', Hpv1. reflexivity.
Qed.

Lemma pass2_fold offs : forall ins x, fold_left (p2_step offs) ins x = fold_left (fun x b => fst (write_block_ext x b)) (pass2_blocks offs ins) x.
Proof.
  induction ins as [|i ins IH]; intros x; cbn [fold_left pass2_blocks flat_map]; [reflexivity|].
  rewrite fold_left_app, IH. f_equal. destruct i as [n|n pre blocks]; cbn [p2_step]; [reflexivity|].
  destruct (lookup_off offs n); [|reflexivity]. rewrite <- fold_map. reflexivity.
Qed.
Lemma pass2_spec offs ins : filter nonempty (pass2_blocks offs ins) =
  flat_map (fun i => match i with
                     | MBad _ => []
                     | MFile name _ blocks => match lookup_off offs name with None => [] | Some off => filter nonempty (map (remap off) blocks) end
                     end) ins.
Proof.
  induction ins as [|i ins IH]; cbn [pass2_blocks flat_map filter]; [reflexivity|].
  unfold pass2_blocks in *. rewrite filter_app, IH. f_equal. destruct i as [n|n pre blocks]; [reflexivity|]. destruct (lookup_off offs n); reflexivity.
Qed.

Definition merge_ok (ins : list minput) : Prop :=
  let pre := merged_preamble (run_pass1 ins) in
  typed_pre pre /\
  Forall (fun b => nonempty b = true -> typed_blk b /\ blk_params_ok (params_of pre) b /\ good_blk b) (pass2_blocks (p_off (run_pass1 ins)) ins).

Theorem merge_file ins : merge_ok ins ->
  let pre := merged_preamble (run_pass1 ins) in
  merge_bytes ins = file_bytes pre (merge_spec ins) /\ reads_back (pre, merge_spec ins).
Proof.
  intros [Tp Hb] pre. fold pre in Tp, Hb.
  destruct (x_new_framed pre Tp) as [F0 Hp0].
  assert (Hps : x_params (x_new pre) = params_of pre).
  { destruct (typed_pre_shape pre Tp) as (ma & mi & pv & ps & -> & _). reflexivity. }
  unfold merge_bytes, merge_run. fold pre. rewrite pass2_fold.
  set (bs := pass2_blocks (p_off (run_pass1 ins)) ins) in *.
  assert (Hb' : Forall (fun b => nonempty b = true -> typed_blk b /\ blk_params_ok (x_params (x_new pre)) b) bs).
  { eapply Forall_impl; [|exact Hb]. intros b H Hne. destruct (H Hne) as (A & B & _). rewrite Hps. auto. }
  destruct (write_blocks_framed bs (x_new pre) 0 [] [] F0) as (hn' & F' & Hn' & Hp'); auto; [intros H; contradiction|rewrite Hp0; exact Tp|].
  cbn [app] in F', Hn'.
  assert (Hspec : filter nonempty bs = merge_spec ins).
  { unfold bs. rewrite pass2_spec. unfold merge_spec. reflexivity. }
  rewrite Hspec in *. set (xf := fold_left (fun x b => fst (write_block_ext x b)) bs (x_new pre)) in *.
  assert (Hhdr : merge_spec ins <> [] -> hdr_pre xf hn' = pre).
  { intros Hne. rewrite (Hn' Hne), hdr_pre_all, Hp', Hp0. reflexivity. }
  split.
  - rewrite (close_bytes xf hn' _ [] F'). destruct (merge_spec ins) eqn:E; [reflexivity|]. rewrite Hhdr by discriminate. reflexivity.
  - intros Hne g Hlen. cbn [fst snd] in *. split.
    + apply read_file_spec; auto. rewrite <- Hspec. apply Forall_forall. intros b Hin. apply filter_In in Hin. destruct Hin as [Hin Hne'].
      rewrite Forall_forall in Hb. destruct (Hb b Hin Hne') as (A & B & C). split; [exact A|split; [exact B|exact C]].
    + eapply map_blk_of_rb with (ps := params_of pre).
      * rewrite <- Hspec. apply Forall_forall. intros b Hin. apply filter_In in Hin. destruct Hin as [Hin Hne'].
        rewrite Forall_forall in Hb. apply (Hb b Hin Hne').
      * rewrite <- Hspec. apply Forall_forall. intros b Hin. apply filter_In in Hin. destruct Hin as [Hin Hne'].
        rewrite Forall_forall in Hb. apply (Hb b Hin Hne').
Qed.
