(* Properties_C10.v — C10: reported byte counts equal the bytes actually produced.  Only statements live here. *)
Require Import Base Cbor SpecEnc EncoderModel EncoderProofs Schema SchemaProofs Block Exporter ExporterProofs Properties_C09
               E2ESpec BlockRead FileProofs SizeProofs.
Local Open Scope N_scope.

(* every encoder call returns the number of bytes it appended (all 18 operations, every fill level) *)
Theorem C10_encoder_call : forall o e, inv e -> in_range o ->
  N.of_nat (length (stream (fst (estep e o)))) = N.of_nat (length (stream e)) + snd (estep e o).
Proof.
  intros o e Hi Hr. pose proof (estep_spec o e Hi Hr) as H. destruct (estep e o) as [e' r]. destruct H as (Hs & Hrr & _).
  cbn [fst snd]. rewrite Hs, app_length, Hrr. lia.
Qed.
Print Assumptions C10_encoder_call.

(* every run of encoder calls returns, in total, the number of bytes by which the stream grew *)
Theorem C10_encoder_run : forall e ops, inv e -> Forall in_range ops ->
  N.of_nat (length (stream (fst (enc_run e ops)))) = N.of_nat (length (stream e)) + snd (enc_run e ops).
Proof.
  intros e ops Hi Hr. destruct (enc_run_spec e ops Hi Hr) as (Hs & Hn & _). rewrite Hs, app_length, Hn. lia.
Qed.
Print Assumptions C10_encoder_run.

(* every serialisation call (X::write of each of the structures) returns the number of bytes it appended *)
Theorem C10_struct_write : forall t, In t all_descriptors -> forall v, has_ty t v ->
  snd (write_struct t v) = N.of_nat (length (fst (write_struct t v))).
Proof.
  intros t Hin v Ht.
  assert (Hd : desc_ok t = true). { pose proof C09_descriptors_ok as H. rewrite forallb_forall in H. apply H. exact Hin. }
  rewrite (write_struct_spec t v Hd Ht). reflexivity.
Qed.
Print Assumptions C10_struct_write.

(* outputs: while an output is open, a write_block call returns the number of bytes by which the output grew (file
   header on the first block included) provided the operations it issues are within their operand ranges — which holds
   for well-typed preamble / block values ([write_in_range]); closing by rotation adds the returned 1 for the break,
   closing by destruction adds one byte that no call returns *)
Theorem C10_write_block_partial : forall x b, inv (x_enc x) ->
  Forall in_range ((if x_written x =? 0 then header_ops x else []) ++ write_val Schema.Block (blk_val b)) ->
  N.of_nat (length (stream (x_enc (fst (write_block_ext x b))))) = N.of_nat (length (stream (x_enc x))) + snd (write_block_ext x b).
Proof.
  intros x b Hi Hr. unfold write_block_ext. destruct (item_count b =? 0); [cbn [fst snd]; lia|].
  pose proof (C10_encoder_run (x_enc x) _ Hi Hr) as H. destruct (enc_run (x_enc x) _) as [e' r]. cbn [fst snd x_enc with_enc] in *. exact H.
Qed.
Print Assumptions C10_write_block_partial.

(* an output that received no block: every call returned 0 for it and it holds 0 bytes *)
Theorem C10_empty_output : forall x, fresh_inv x -> x_written x = 0 -> snd (rotate false x) = 0 /\ destroy x = [].
Proof. intros x Hf Hw. pose proof (rotate_empty_output x Hf Hw) as (_ & H1 & H2). auto. Qed.
Print Assumptions C10_empty_output.

(* PER OUTPUT, OVER WHOLE HISTORIES.  Every buffer / write-block call returns the number of bytes by which the open output grew; a
   rotation returns what it still appended to the output it closes (the buffered block if exported, the closing break) and that
   output's size is the sum of everything returned since it was opened ([slen] = bytes handed to the open output so far) *)
Theorem C10_call_by_call : forall x o hn cur closed, framed x hn cur closed -> adm1 x hn o -> typed_x (fst (xstep x o)) ->
  match o with
  | XRot _ => exists out, x_closed (fst (xstep x o)) = out :: x_closed x /\ N.of_nat (length out) = slen x + snd (xstep x o)
                          /\ slen (fst (xstep x o)) = 0
  | XAddBp _ | XSetBp _ => slen (fst (xstep x o)) = slen x /\ x_closed (fst (xstep x o)) = x_closed x
  | _ => slen (fst (xstep x o)) = slen x + snd (xstep x o) /\ x_closed (fst (xstep x o)) = x_closed x
  end.
Proof. exact xstep_size. Qed.
Print Assumptions C10_call_by_call.
(* hence, for every admissible in-range history from a fresh exporter: the sizes of the outputs closed by rotation, oldest first, are
   the sums of the values returned between rotations ([sums] adds up return values only — it never looks at a byte), and the output
   closed by destruction has the last sum plus the single closing byte when it holds a block *)
Theorem C10_history : forall pre ops, typed_pre pre -> adm0 pre ops -> typed_x (xrun (x_new pre) ops) ->
  let x := xrun (x_new pre) ops in
  map (fun o => N.of_nat (length o)) (rev (x_closed x)) = fst (sums (x_new pre) 0 ops) /\
  N.of_nat (length (destroy x)) = snd (sums (x_new pre) 0 ops) + (if 0 <? x_written x then 1 else 0).
Proof. exact sizes_history. Qed.
Print Assumptions C10_history.

Example C10_nonvacuous :
  snd (write_struct FilePreamble ex_preamble) = 99 /\ length (fst (write_struct FilePreamble ex_preamble)) = 99%nat.
Proof. vm_compute. split; reflexivity. Qed.
