(* Properties_writers.v — obligations over Gen_writers.v, which translator/writers.py regenerates from /repo's current src/writer.h and
   writer.cpp (clang AST) on every run: the bodies of the output writers' functions in canonical form. The writer models of coq/Writer.v
   (event traces, file-system semantics, byte budgets, and czip: the gzip / xz wrappers around an abstract compressor) were written
   after exactly these statements; each entry names what it corresponds to, the kernel compares the texts (see Properties_exporter.v for
   what such a pin does and does not claim). *)
Require Import List String. Import ListNotations. Open Scope string_scope.
Require Import Gen_writers.

Definition writer_bodies_expected : list (string * string) := [
  (* Writer.named_trace starts with the events of open() *)
  ("Writer<std::string>::ctor",
   "call(open)");
  (* Writer.named_destroy: close() - close the .part file, rename it onto the final name *)
  ("Writer<std::string>::dtor",
   "call(close)");
  (* Writer.named_step (WWrite): the bytes go to the ofstream of the .part file; NOBODY looks at the stream state (Writer.named_write: outcome Done whatever happens - known finding named-output-silent-loss) *)
  ("Writer<std::string>::write",
   "call(member(m_out,write),p,size)");
  (* Writer.named_step (WRotate): a value of another type is ignored; close() (close + rename), take the new name, open() *)
  ("Writer<std::string>::rotate_output",
   "if(opcall(operator!=,call(member(value,type)),typeid(std::string)),return());call(close);opcall(operator=,m_value,fcall(any_cast,value));call(open)");
  (* EOpen (Part n): the file <name><extension>.part; a failure to open throws *)
  ("Writer<std::string>::open",
   "call(member(m_out,open),opcall(operator+,opcall(operator+,m_value,m_extension),str("".part"")),default);if(call(member(m_out,fail)),throw)");
  (* EClose (Part n); ERename n - and the rename's failure is printed, not thrown *)
  ("Writer<std::string>::close",
   "try(if(call(member(m_out,is_open)),{call(member(m_out,flush));call(member(m_out,close));if(fcall(rename,call(member(opcall(operator+,opcall(operator+,m_value,m_extension),str("".part"")),c_str)),call(member(opcall(operator+,m_value,m_extension),c_str))),opcall(operator<<,opcall(operator<<,cerr,str(""Couldn't rename the output file!"")),endl))}),catch(opcall(operator<<,opcall(operator<<,cerr,call(member(e,what))),endl)))");
  (* Writer.fd_trace starts with open() (fstat only: no event) *)
  ("Writer<int>::ctor",
   "call(open)");
  (* Writer.fd_destroy: EClose (Fd n) *)
  ("Writer<int>::dtor",
   "call(close)");
  (* Writer.fd_step (WWrite) / Writer.fd_write: one write(2); anything but the full count throws (the bytes the OS took stay in the output) *)
  ("Writer<int>::write",
   "decl(ret=fcall(write,m_value,p,size));if(ne(ret,cast(size)),throw)");
  (* Writer.fd_step (WRotate): a value of another type is ignored; close(), take the new descriptor, open() *)
  ("Writer<int>::rotate_output",
   "if(opcall(operator!=,call(member(value,type)),typeid(int)),return());call(close);assign(m_value,fcall(any_cast,value));call(open)");
  (* no event: fstat on the descriptor, a failure throws *)
  ("Writer<int>::open",
   "decl(buffer=?CXXConstructExpr);if(ne(fcall(fstat,m_value,addr(buffer)),0),throw)");
  (* EClose (Fd n) unless the descriptor is -1 *)
  ("Writer<int>::close",
   "if(ne(m_value,neg(1)),fcall(close,m_value))");
  (* the plain writer is the inner writer, no extension *)
  ("CborOutputWriter::ctor",
   "assign(m_writer,fcall(make_unique,value))");
  (* plain: write goes straight to the inner writer *)
  ("CborOutputWriter::write",
   "call(member(opcall(operator->,m_writer),write),p,size)");
  (* plain: rotation is the inner writer's *)
  ("CborOutputWriter::rotate_output",
   "call(member(opcall(operator->,m_writer),rotate_output),value)");
  (* Writer.czip: inner writer with the extension .gz, then open() (compressor initialised) *)
  ("GzipCborOutputWriter::ctor",
   "assign(m_writer,fcall(make_unique,value,str("".gz"")));call(open)");
  (* Writer.czip: destruction = close() (finish the stream; failures swallowed), then the inner writer's destructor *)
  ("GzipCborOutputWriter::dtor",
   "call(close)");
  (* Writer.czip on WRotate: finish the stream INTO THE OLD output (close), rotate the inner writer, initialise a fresh stream (open) *)
  ("GzipCborOutputWriter::rotate_output",
   "call(close);call(member(opcall(operator->,m_writer),rotate_output),value);call(open)");
  (* as gzip, extension .xz *)
  ("XzCborOutputWriter::ctor",
   "assign(m_writer,fcall(make_unique,value,str("".xz"")));call(open)");
  (* as gzip *)
  ("XzCborOutputWriter::dtor",
   "call(close)");
  (* as gzip *)
  ("XzCborOutputWriter::rotate_output",
   "call(close);call(member(opcall(operator->,m_writer),rotate_output),value);call(open)");
  (* Writer.czip on WWrite: feed the chunk, loop while input is left (crun of the abstract compressor) *)
  ("GzipCborOutputWriter::write",
   "assign(member(m_gzip,next_in),?CXXReinterpretCastExpr);assign(member(m_gzip,avail_in),size);while(gt(member(m_gzip,avail_in),0),call(write_gzip,size,0))");
  (* fresh deflate state, gzip wrapper (window bits 31) *)
  ("GzipCborOutputWriter::open",
   "assign(member(m_gzip,zalloc),0);assign(member(m_gzip,zfree),0);assign(member(m_gzip,opaque),0);decl(ret=fcall(deflateInit2_,addr(m_gzip),neg(1),8,31,8,0,ZLIB_VERSION,cast(?UnaryExprOrTypeTraitExpr)));if(ne(ret,0),throw)");
  (* cfinish: loop with Z_FINISH until Z_STREAM_END, release the state; an exception of the inner writer is caught and printed (known finding compressed-close-swallows-failure) *)
  ("GzipCborOutputWriter::close",
   "try(if(member(m_gzip,state),{while(ne(call(write_gzip,2048,4),1),skip);fcall(deflateEnd,addr(m_gzip))}),catch(opcall(operator<<,opcall(operator<<,cerr,call(member(e,what))),endl)))");
  (* one deflate call into a scratch buffer of bounded size (defect F13: it used to be sized by the chunk), what it produced goes to the inner writer *)
  ("GzipCborOutputWriter::write_gzip",
   "decl(size=fcall(min,add(add(in_size,div(in_size,3)),128),MAX_SCRATCH_SIZE));decl(buff);assign(member(m_gzip,next_out),buff);assign(member(m_gzip,avail_out),size);decl(ret=fcall(deflate,addr(m_gzip),action));if(lor(eq(ret,0),eq(ret,1)),call(member(opcall(operator->,m_writer),write),?CXXReinterpretCastExpr,sub(?UnaryExprOrTypeTraitExpr,member(m_gzip,avail_out))),throw);return(ret)");
  (* as gzip, LZMA_RUN *)
  ("XzCborOutputWriter::write",
   "assign(member(m_lzma,next_in),?CXXReinterpretCastExpr);assign(member(m_lzma,avail_in),size);while(gt(member(m_lzma,avail_in),0),call(write_lzma,size,LZMA_RUN))");
  (* fresh lzma stream, easy encoder preset 6, CRC64 *)
  ("XzCborOutputWriter::open",
   "opcall(operator=,m_lzma,?InitListExpr);decl(ret=fcall(lzma_easy_encoder,addr(m_lzma),6,LZMA_CHECK_CRC64));if(ne(ret,LZMA_OK),throw)");
  (* as gzip: LZMA_FINISH until LZMA_STREAM_END, lzma_end; exceptions caught and printed *)
  ("XzCborOutputWriter::close",
   "try(if(member(m_lzma,internal),{while(ne(call(write_lzma,2048,LZMA_FINISH),LZMA_STREAM_END),skip);fcall(lzma_end,addr(m_lzma))}),catch(opcall(operator<<,opcall(operator<<,cerr,call(member(e,what))),endl)))");
  (* as write_gzip *)
  ("XzCborOutputWriter::write_lzma",
   "decl(size=fcall(min,add(add(in_size,div(in_size,3)),128),MAX_SCRATCH_SIZE));decl(buff);assign(member(m_lzma,next_out),buff);assign(member(m_lzma,avail_out),size);decl(ret=fcall(lzma_code,addr(m_lzma),action));if(lor(eq(ret,LZMA_OK),eq(ret,LZMA_STREAM_END)),call(member(opcall(operator->,m_writer),write),?CXXReinterpretCastExpr,sub(?UnaryExprOrTypeTraitExpr,member(m_lzma,avail_out))),throw);return(ret)")].

Theorem FT_writer_bodies : gen_writer_bodies = writer_bodies_expected.
Proof. reflexivity. Qed.
Print Assumptions FT_writer_bodies.
