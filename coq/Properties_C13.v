(* Properties_C13.v — C13: rotation yields self-contained files and loses, repeats or reorders nothing.
   Only statements live here. *)
Require Import Base Cbor EncoderModel DecoderModel Schema Block BlockProofs Exporter ExporterProofs E2ESpec BlockDecode ViewProofs AecView BlockRead FileProofs EndToEnd Writer ExporterIO ExporterIOProofs.
Local Open Scope N_scope.

(* an output closed by a rotation receives no further bytes: later calls only put new outputs in front of it *)
Theorem C13_frozen : forall ops x, exists new, x_closed (xrun x ops) = new ++ x_closed x.
Proof.
  induction ops as [|o ops IH]; intros x; cbn [xrun fold_left]; [exists []; reflexivity|].
  destruct (IH (fst (xstep x o))) as [n1 H1]. destruct (xstep_closed x o) as [n2 H2].
  exists (n1 ++ n2). unfold xrun in H1. rewrite H1, H2, app_assoc. reflexivity.
Qed.
Print Assumptions C13_frozen.

(* rotations (with or without exporting the buffered block) neither lose, repeat nor reorder records: the sequence
   "records of all written blocks in order, then the buffered block" is untouched by a rotation; records still
   buffered at a rotation without export stay buffered and so appear in the following output *)
Theorem C13_stream : forall x e,
  all_qrs (fst (rotate e x)) = all_qrs x /\ all_mms (fst (rotate e x)) = all_mms x /\
  (forall k, aec_total (fst (rotate e x)) k = aec_total x k) /\
  (e = false -> x_blk (fst (rotate e x)) = x_blk x).
Proof.
  intros x e. pose proof (xstep_conserves_qr x (XRot e)) as H1. pose proof (xstep_conserves_mm x (XRot e)) as H2.
  cbn [xstep] in H1, H2. rewrite app_nil_r in H1, H2. repeat split; auto.
  - intros k. pose proof (xstep_conserves_aec x (XRot e) k) as H3. cbn [xstep] in H3. rewrite H3. lia.
  - intros ->. unfold rotate. destruct (if 0 <? x_written x then _ else _). reflexivity.
Qed.
Print Assumptions C13_stream.

(* an output to which no block was written is empty: nothing reaches the encoder before the first block, over every
   history, and closing such an output (by rotation or destruction) produces zero bytes and returns 0 *)
Theorem C13_empty_output : forall pre ops, let x := xrun (x_new pre) ops in x_written x = 0 ->
  hd [] (x_closed (fst (rotate false x))) = [] /\ snd (rotate false x) = 0 /\ destroy x = [].
Proof.
  intros pre ops x Hw. apply rotate_empty_output; auto. subst x. clear Hw.
  assert (H : forall ops y, fresh_inv y -> fresh_inv (xrun y ops)).
  { induction ops0 as [|o ops' IH]; intros y Hy; cbn [xrun fold_left]; auto. apply IH. apply xstep_fresh. exact Hy. }
  apply H. apply x_new_fresh.
Qed.
Print Assumptions C13_empty_output.

(* after a rotation the next output starts from scratch: block counter zero, fresh encoder, so its first block is
   preceded by a complete file header carrying every parameter set known at that moment *)
Theorem C13_restart : forall x e, x_written (fst (rotate e x)) = 0 /\ x_enc (fst (rotate e x)) = enc_init.
Proof.
  intros x e. unfold rotate. destruct e.
  - destruct (write_block x) as [x1 r1]. destruct (if 0 <? x_written x1 then _ else _). split; reflexivity.
  - destruct (if 0 <? x_written x then _ else _). split; reflexivity.
Qed.
Print Assumptions C13_restart.
Theorem C13_header_has_all_params : forall x,
  exists ops, header_ops x = [OArr 3; OText cdns_text] ++ ops ++ [OIndefArr] /\
              ops = write_val FilePreamble (VR [x_major x; x_minor x; x_private x; Some (VL (x_params x))]).
Proof. intros x. eexists. split; reflexivity. Qed.
Print Assumptions C13_header_has_all_params.

(* every output closed by a rotation is by itself a complete file: the library's reader, run on its bytes alone, returns
   the preamble in force when it was opened and exactly the blocks written to it, and consumes every byte; each of its blocks
   refers to a parameter set of that preamble; the blocks of all outputs in rotation order, then those of the open output,
   are the blocks written, in order, each once (admissible histories: a parameter set added while the output holds a block is
   activated only after the next rotation — the documented caller duty) *)
Theorem C13_outputs_self_contained : forall pre ops, typed_pre pre -> adm0 pre ops -> typed_x (xrun (x_new pre) ops) ->
  let x := xrun (x_new pre) ops in
  exists (last : val) cur closed,
    x_closed x = map (fun pb => file_bytes (fst pb) (snd pb)) closed /\
    destroy x = file_bytes last cur /\
    x_done x = flat_map snd (rev closed) ++ cur /\
    Forall reads_back ((last, cur) :: closed).
Proof. exact history_outputs. Qed.
Print Assumptions C13_outputs_self_contained.

(* the output writer underneath the exporter: the calls the exporter's encoder makes on it (one write per flushed staging buffer,
   rotate_output last in a rotation; coq/ExporterIO.v, compared call by call with the real stack's system-call trace) deliver, output by
   output and in order, exactly the closed outputs of the exporter model and then what destruction closes - nothing of one output ever
   reaches another *)
Theorem C13_writer_receives_outputs : forall pre ops ids cur, let x := xrun (x_new pre) ops in
  map snd (outputs_of cur [] (run_wops (x_new pre) ops ids ++ destroy_wops x) true) = rev (x_closed x) ++ [destroy x].
Proof. exact fresh_run_outputs. Qed.
Print Assumptions C13_writer_receives_outputs.

(* the records found by reading all outputs in rotation order are the records buffered, in order, each exactly once *)
Theorem C13_records_across_outputs : forall pre ops, typed_pre pre -> adm0 pre ops -> typed_x (xrun (x_new pre) ops) ->
  let x := xrun (x_new pre) ops in
  exists (last : val) cur closed,
    rev (x_closed x) = map (fun pb => file_bytes (fst pb) (snd pb)) (rev closed) /\
    destroy x = file_bytes last cur /\
    Forall reads_back (rev closed ++ [(last, cur)]) /\
    flat_map file_view_qr (rev closed ++ [(last, cur)]) ++ blk_view_qr (x_blk x) = map Some (log_qr (x_new pre) ops) /\
    flat_map file_view_mm (rev closed ++ [(last, cur)]) ++ blk_view_mm (x_blk x) = map Some (log_mm (x_new pre) ops) /\
    (forall k, fold_right (fun pb a => file_aec_total k pb + a) 0 (rev closed ++ [(last, cur)]) + dec_total k (blk_view_aec (x_blk x))
               = log_aec (x_new pre) ops k).
Proof. exact end_to_end. Qed.
Print Assumptions C13_records_across_outputs.

Example C13_nonvacuous :
  let pre := VR [Some (VN 1); Some (VN 0); None; Some (VL [VR [Some (VR [Some (VN 1000); Some (VN 10);
                 Some (VR [Some (VN 262143); Some (VN 131071); Some (VN 3); Some (VN 3)]); Some (VL []); Some (VL []);
                 None; None; None; None; None; None; None]); None]])] in
  let x1 := fst (buffer_qr [Some (VL [VN 5; VN 1]); None; Some (VN 53)] None (x_new pre)) in
  let x2 := fst (rotate true x1) in let x3 := fst (rotate false x2) in
  length (x_closed x3) = 2%nat /\ hd [] (x_closed x3) = [] /\ (0 < length (nth 1 (x_closed x3) []))%nat.
Proof. vm_compute. repeat split. lia. Qed.
