(* SizeProofs.v — C10 over whole histories: the byte counts the exporter's calls return add up, per output, to the size of that
   output.  [slen] = the bytes handed to the open output so far (staged or written). *)
Require Import Base Cbor SpecEnc EncoderModel EncoderProofs DecoderModel Schema SchemaProofs Timestamp Block BlockProofs
               Exporter ExporterProofs E2ESpec BlockRead FileProofs.
Local Open Scope N_scope.

Definition slen (x : exporter) : N := N.of_nat (length (stream (x_enc x))).

Lemma wbe_size x b hn cur closed : framed x hn cur closed ->
  (item_count b <> 0 -> typed_blk b /\ typed_pre (hdr_pre x (hn_next x hn))) ->
  slen (fst (write_block_ext x b)) = slen x + snd (write_block_ext x b).
Proof.
  intros F Hb. unfold write_block_ext, slen. destruct (item_count b =? 0) eqn:E; cbn [fst snd]; [lia|].
  apply N.eqb_neq in E. destruct (Hb E) as (Tb & Tp). destruct (block_spec b Tb) as [Bb Rb].
  set (ops := (if x_written x =? 0 then header_ops x else []) ++ write_val Schema.Block (blk_val b)).
  assert (Ro : Forall in_range ops).
  { unfold ops. apply Forall_app. split; auto. destruct (x_written x =? 0) eqn:W; auto.
    unfold hn_next in Tp. rewrite W in Tp. rewrite hdr_pre_all in Tp. apply header_spec. exact Tp. }
  pose proof (enc_run_spec (x_enc x) ops (fr_encinv _ _ _ _ F) Ro) as (Hs & Hr & _).
  destruct (enc_run (x_enc x) ops) as [e' r]. cbn [fst snd x_enc with_enc] in *. rewrite Hs, app_length, Hr. lia.
Qed.

Lemma wb_size x hn cur closed : framed x hn cur closed -> typed_x (fst (write_block x)) ->
  slen (fst (write_block x)) = slen x + snd (write_block x).
Proof.
  intros F T. pose proof (wbe_size x (x_blk x) hn cur closed F (typed_write_block x hn cur closed F T)) as H.
  unfold write_block. destruct (write_block_ext x (x_blk x)) as [x1 r]. destruct (blk_set_bp _ _ _). exact H.
Qed.

Lemma buffer_size add x hn cur closed : framed x hn cur closed ->
  (forall b, b_bpi (fst (add b)) = b_bpi b /\ b_bp (fst (add b)) = b_bp b) -> typed_x (fst (buffer add x)) ->
  slen (fst (buffer add x)) = slen x + snd (buffer add x).
Proof.
  intros F Hadd T. unfold buffer in *. destruct (add (x_blk x)) as [b' f] eqn:E.
  destruct (Hadd (x_blk x)) as [A1 A2]. rewrite E in A1, A2. cbn [fst] in *.
  assert (Hb : blk_params_ok (x_params x) b').
  { destruct (fr_blk _ _ _ _ F) as [H1 H2]. unfold blk_params_ok. rewrite A1, A2. auto. }
  assert (Hn : cur <> [] -> b_bpi b' < hn) by (intros Hc; rewrite A1; apply (fr_hn _ _ _ _ F Hc)).
  pose proof (with_blk_framed x b' hn cur closed F Hb Hn) as F1. destruct f.
  - apply (wb_size (with_blk x b') hn cur closed F1 T).
  - cbn [fst snd]. unfold slen. cbn [with_blk x_enc]. lia.
Qed.

(* one call: what it returns is the number of bytes by which the open output grew; a rotation returns what it still appended
   to the output it closes, whose size is then the sum of everything returned since it was opened *)
Theorem xstep_size x o hn cur closed : framed x hn cur closed -> adm1 x hn o -> typed_x (fst (xstep x o)) ->
  match o with
  | XRot _ => exists out, x_closed (fst (xstep x o)) = out :: x_closed x /\ N.of_nat (length out) = slen x + snd (xstep x o)
                          /\ slen (fst (xstep x o)) = 0
  | XAddBp _ | XSetBp _ => slen (fst (xstep x o)) = slen x /\ x_closed (fst (xstep x o)) = x_closed x
  | _ => slen (fst (xstep x o)) = slen x + snd (xstep x o) /\ x_closed (fst (xstep x o)) = x_closed x
  end.
Proof.
  intros F A T.
  assert (Hwbc : forall y, x_closed (fst (write_block y)) = x_closed y) by (intros y; apply write_block_fields).
  assert (Hbufc : forall add y, x_closed (fst (buffer add y)) = x_closed y).
  { intros add y. unfold buffer. destruct (add (x_blk y)) as [b' f]. destruct f; [rewrite Hwbc|]; reflexivity. }
  destruct o as [gr st|ga st|gm st| |e|bp|i]; cbn [xstep] in *.
  - split; [apply (buffer_size _ x hn cur closed F (add_qr_bp gr st) T)|apply Hbufc].
  - split; [apply (buffer_size _ x hn cur closed F (add_aec_bp ga st) T)|apply Hbufc].
  - split; [apply (buffer_size _ x hn cur closed F (add_mm_bp gm st) T)|apply Hbufc].
  - split; [apply (wb_size x hn cur closed F T)|apply Hwbc].
  - unfold rotate in *. destruct e.
    + pose proof (write_block_framed x hn cur closed F) as W. pose proof (wb_size x hn cur closed F) as S1. pose proof (Hwbc x) as C1.
      destruct (write_block x) as [x1 r1] eqn:E. cbn [fst snd] in *.
      assert (T1 : typed_x x1).
      { destruct (if 0 <? x_written x1 then _ else _) as [e2 r2]. cbn [fst] in T. exact T. }
      destruct W as [F1 _]; [apply (typed_write_block _ _ _ _ F); rewrite E; exact T1|]. specialize (S1 T1).
      assert (S2 : N.of_nat (length (stream (flush (fst (if 0 <? x_written x1 then enc_run (x_enc x1) [OBreak] else (x_enc x1, 0)))))) =
                   slen x1 + snd (if 0 <? x_written x1 then enc_run (x_enc x1) [OBreak] else (x_enc x1, 0))).
      { rewrite stream_flush. destruct (0 <? x_written x1); cbn [fst snd]; [|unfold slen; lia].
        pose proof (enc_run_spec (x_enc x1) [OBreak] (fr_encinv _ _ _ _ F1)) as H. destruct H as (Hs & Hr & _); [repeat constructor|].
        unfold slen. rewrite Hs, Hr, app_length. lia. }
      destruct (if 0 <? x_written x1 then _ else _) as [e2 r2]. cbn [fst snd x_closed hd tl x_enc] in *.
      eexists. split; [rewrite C1; reflexivity|]. split; [lia|reflexivity].
    + assert (S2 : N.of_nat (length (stream (flush (fst (if 0 <? x_written x then enc_run (x_enc x) [OBreak] else (x_enc x, 0)))))) =
                   slen x + snd (if 0 <? x_written x then enc_run (x_enc x) [OBreak] else (x_enc x, 0))).
      { rewrite stream_flush. destruct (0 <? x_written x); cbn [fst snd]; [|unfold slen; lia].
        pose proof (enc_run_spec (x_enc x) [OBreak] (fr_encinv _ _ _ _ F)) as H. destruct H as (Hs & Hr & _); [repeat constructor|].
        unfold slen. rewrite Hs, Hr, app_length. lia. }
      destruct (if 0 <? x_written x then _ else _) as [e2 r2]. cbn [fst snd x_closed hd tl x_enc] in *.
      eexists. split; [reflexivity|]. split; [lia|reflexivity].
  - split; reflexivity.
  - unfold set_active. destruct (_ <=? _); split; reflexivity.
Qed.

Lemma destroy_size x hn cur closed : framed x hn cur closed ->
  N.of_nat (length (destroy x)) = slen x + (if 0 <? x_written x then 1 else 0).
Proof.
  intros F. unfold destroy. destruct (0 <? x_written x).
  - pose proof (enc_run_spec (x_enc x) [OBreak] (fr_encinv _ _ _ _ F)) as H. destruct H as (Hs & Hr & _); [repeat constructor|].
    destruct (enc_run (x_enc x) [OBreak]) as [e2 r2]. cbn [fst snd] in *. rewrite stream_flush, Hs, app_length. unfold slen. change (bytes_of [OBreak]) with [255]. cbn [length]. lia.
  - rewrite stream_flush. unfold slen. lia.
Qed.

(* the sums a caller can form from the return values: one per output closed (oldest first), and the running one *)
Fixpoint sums (x : exporter) (acc : N) (ops : list xop) : list N * N :=
  match ops with
  | [] => ([], acc)
  | o :: r =>
      let '(x', ret) := xstep x o in
      match o with
      | XRot _ => let '(l, a) := sums x' 0 r in ((acc + ret) :: l, a)
      | XAddBp _ | XSetBp _ => sums x' acc r
      | _ => sums x' (acc + ret) r
      end
  end.

Theorem sizes_run ops : forall x hn cur closed, framed x hn cur closed -> adm x hn ops -> typed_x (xrun x ops) ->
  map (fun o => N.of_nat (length o)) (rev (x_closed (xrun x ops))) =
    map (fun o => N.of_nat (length o)) (rev (x_closed x)) ++ fst (sums x (slen x) ops) /\
  slen (xrun x ops) = snd (sums x (slen x) ops).
Proof.
  induction ops as [|o ops IH]; intros x hn cur closed F A T.
  - cbn [xrun fold_left sums fst snd]. rewrite app_nil_r. auto.
  - change (xrun x (o :: ops)) with (xrun (fst (xstep x o)) ops) in *. cbn [adm sums] in *. destruct A as (A1 & _ & A).
    assert (T1 : typed_x (fst (xstep x o))).
    { apply (typed_x_run_back ops); auto. apply params_nonempty_step. eapply framed_params_nonempty; eauto. }
    destruct (xstep_framed x o hn cur closed F A1 T1) as (c1 & cl1 & F1).
    pose proof (xstep_size x o hn cur closed F A1 T1) as S.
    specialize (IH _ _ _ _ F1 A T). destruct IH as [I1 I2].
    destruct (xstep x o) as [x' ret] eqn:E. cbn [fst snd] in *.
    destruct o; try (destruct S as [S1 S2]; rewrite S1, S2 in *; auto; fail).
    destruct S as (out & S1 & S2 & S3). rewrite S3 in *. destruct (sums x' 0 ops) as [l a]. cbn [fst snd] in *.
    split; [|exact I2]. rewrite I1, S1. cbn [rev]. rewrite map_app. cbn [map]. rewrite <- app_assoc. cbn [app]. rewrite S2. reflexivity.
Qed.

Theorem sizes_history pre ops : typed_pre pre -> adm0 pre ops -> typed_x (xrun (x_new pre) ops) ->
  let x := xrun (x_new pre) ops in
  map (fun o => N.of_nat (length o)) (rev (x_closed x)) = fst (sums (x_new pre) 0 ops) /\
  N.of_nat (length (destroy x)) = snd (sums (x_new pre) 0 ops) + (if 0 <? x_written x then 1 else 0).
Proof.
  intros Tp A T x. destruct (x_new_framed pre Tp) as [F0 _].
  destruct (sizes_run ops (x_new pre) 0 [] [] F0 A T) as [H1 H2]. fold x in H1, H2.
  destruct (xrun_framed ops (x_new pre) 0 [] [] F0 A T) as (hn & cur & closed & F). fold x in F.
  assert (S0 : slen (x_new pre) = 0).
  { destruct (typed_pre_shape pre Tp) as (ma & mi & pv & ps & -> & _). reflexivity. }
  assert (C0 : x_closed (x_new pre) = []).
  { destruct (typed_pre_shape pre Tp) as (ma & mi & pv & ps & -> & _). reflexivity. }
  rewrite S0, C0 in *. cbn [rev map app] in H1. split; [exact H1|].
  rewrite (destroy_size x hn cur closed F), H2. reflexivity.
Qed.

(* ---------- C12: a call returns a non-zero count exactly when it wrote a block ---------- *)
Lemma wbe_ret_zero x b hn cur closed : framed x hn cur closed ->
  (item_count b <> 0 -> typed_blk b /\ typed_pre (hdr_pre x (hn_next x hn))) ->
  (snd (write_block_ext x b) = 0 <-> item_count b = 0).
Proof.
  intros F Hb. unfold write_block_ext. destruct (item_count b =? 0) eqn:E; cbn [snd].
  - apply N.eqb_eq in E. tauto.
  - apply N.eqb_neq in E. destruct (Hb E) as (Tb & Tp). destruct (block_spec b Tb) as [Bb Rb].
    set (ops := (if x_written x =? 0 then header_ops x else []) ++ write_val Schema.Block (blk_val b)).
    assert (Ro : Forall in_range ops).
    { unfold ops. apply Forall_app. split; auto. destruct (x_written x =? 0) eqn:W; auto.
      unfold hn_next in Tp. rewrite W in Tp. rewrite hdr_pre_all in Tp. apply header_spec. exact Tp. }
    pose proof (enc_run_spec (x_enc x) ops (fr_encinv _ _ _ _ F) Ro) as (_ & Hr & _).
    destruct (enc_run (x_enc x) ops) as [e' r]. cbn [fst snd] in *. rewrite Hr. unfold ops. rewrite bytes_of_app, Bb, app_length.
    pose proof (ser_nonempty (tree_of Schema.Block (blk_val b))). unfold blk_bytes. split; [lia|tauto].
Qed.
Lemma wb_ret_zero x hn cur closed : framed x hn cur closed -> typed_x (fst (write_block x)) ->
  (snd (write_block x) = 0 <-> item_count (x_blk x) = 0).
Proof.
  intros F T. pose proof (wbe_ret_zero x (x_blk x) hn cur closed F (typed_write_block x hn cur closed F T)) as H.
  unfold write_block. destruct (write_block_ext x (x_blk x)) as [x1 r]. destruct (blk_set_bp _ _ _). exact H.
Qed.
(* buffer_qr / buffer_aec / buffer_mm and write_block: non-zero return <-> the list of written blocks grew *)
Theorem ret_nonzero_iff_written x o hn cur closed : framed x hn cur closed -> adm1 x hn o -> typed_x (fst (xstep x o)) ->
  match o with
  | XQr _ _ | XAec _ _ | XMm _ _ | XWb => snd (xstep x o) <> 0 <-> x_done (fst (xstep x o)) <> x_done x
  | _ => True
  end.
Proof.
  intros F A T.
  assert (Hwb : forall y hn cur closed, framed y hn cur closed -> typed_x (fst (write_block y)) ->
                (snd (write_block y) <> 0 <-> x_done (fst (write_block y)) <> x_done y)).
  { intros y h c cl Fy Ty. rewrite (wb_ret_zero y h c cl Fy Ty). destruct (write_block_done_pre y) as [Hd _]. rewrite Hd.
    destruct (item_count (x_blk y) =? 0) eqn:E.
    - apply N.eqb_eq in E. tauto.
    - apply N.eqb_neq in E. split; [|tauto]. intros _ Heq. rewrite <- (app_nil_r (x_done y)) in Heq at 2. apply app_inv_head in Heq. discriminate. }
  assert (Hbuf : forall add, (forall b, b_bpi (fst (add b)) = b_bpi b /\ b_bp (fst (add b)) = b_bp b) -> typed_x (fst (buffer add x)) ->
                 (snd (buffer add x) <> 0 <-> x_done (fst (buffer add x)) <> x_done x)).
  { intros add Hadd Tb. unfold buffer in *. destruct (add (x_blk x)) as [b' f] eqn:E.
    destruct (Hadd (x_blk x)) as [A1 A2]. rewrite E in A1, A2. cbn [fst] in *.
    assert (Hb : blk_params_ok (x_params x) b').
    { destruct (fr_blk _ _ _ _ F) as [H1 H2]. unfold blk_params_ok. rewrite A1, A2. auto. }
    assert (Hn : cur <> [] -> b_bpi b' < hn) by (intros Hc; rewrite A1; apply (fr_hn _ _ _ _ F Hc)).
    pose proof (with_blk_framed x b' hn cur closed F Hb Hn) as F1. destruct f.
    - apply (Hwb (with_blk x b') hn cur closed F1 Tb).
    - cbn [fst snd with_blk x_done]. tauto. }
  destruct o as [gr st|ga st|gm st| |e|bp|i]; cbn [xstep] in *; auto.
  - apply (Hbuf (add_qr gr st) (add_qr_bp gr st) T).
  - apply (Hbuf (add_aec ga st) (add_aec_bp ga st) T).
  - apply (Hbuf (add_mm gm st) (add_mm_bp gm st) T).
  - apply (Hwb x hn cur closed F T).
Qed.
