(* Properties_cursor.v — obligations over Gen_cursors.v, which translator/cursors.py regenerates from /repo's current CdnsBlockRead::read()
   and CdnsBlockRead::operator= (clang AST) on every run, and what follows from them for every history of a CdnsBlockRead object. *)
Require Import String List Arith Bool. Import ListNotations.
Require Import Cursor CursorProofs Gen_cursors.

Definition rd : list step := steps_of gen_read_steps.
Definition asg : list step := steps_of gen_assign_steps.

(* the statement lists of the code: every step is one the model knows; whenever the map's nodes have been destroyed the iterator is rewound
   before the next statement that can throw; a run that completes has rewound all three cursors after its last piece of work *)
Theorem FT_cursor_steps :
  forallb (fun s => match step_of s with Some _ => true | None => false end) (gen_read_steps ++ gen_assign_steps) &&
  steps_ok false rd && steps_ok false asg && rewound_after false false false rd && rewound_after false false false asg = true.
Proof. vm_compute. reflexivity. Qed.
Print Assumptions FT_cursor_steps.

Lemma cursor_steps_parts :
  steps_ok false rd = true /\ steps_ok false asg = true /\ rewound_after false false false rd = true /\ rewound_after false false false asg = true.
Proof.
  pose proof FT_cursor_steps as H.
  apply andb_true_iff in H as [H H4]. apply andb_true_iff in H as [H H3]. apply andb_true_iff in H as [H H2]. apply andb_true_iff in H as [_ H1]. auto.
Qed.

(* C03 (never uses freed memory), for the one place where the read side keeps an iterator: after ANY history of one CdnsBlockRead object -
   read() of arbitrary bytes, completing or throwing after any amount of work, assignment from another block, calls of the three accessors -
   read_generic_aec() compares and dereferences an iterator of the map as it is now *)
Theorem C03_iterator_never_dangles : forall ps, aec_defined (orun rd asg ps) = true.
Proof. intros ps. apply aec_defined_safe. apply cursor_never_dangles; apply cursor_steps_parts. Qed.
Print Assumptions C03_iterator_never_dangles.

(* ... and a read() or an assignment that completes leaves all three cursors at the beginning: the accessors hand out everything *)
Theorem C03_completed_read_rewinds : forall es o o', (exec rd es o = (o', true) \/ exec asg es o = (o', true)) ->
  c_qr o' = 0 /\ c_aec o' = 0 /\ c_gen o' = gen o' /\ c_mm o' = 0.
Proof. intros es o o' [H|H]; eapply completed_run_rewinds; try exact H; apply cursor_steps_parts. Qed.
Print Assumptions C03_completed_read_rewinds.

(* non-vacuity: the condition is one a statement list can fail. The order of statements before the repair (cursors rewound only at the end of
   read()) fails it, and the model exhibits the history: a block with one address event count read, then a read() that throws *)
Definition rd_before_repair : list step := [Work; Destroy; Local; Local; Work; Work; Work; Work; Work; Work; RwQr; RwAec; RwMm].
Example C03_iterator_order_matters :
  steps_ok false rd_before_repair = false /\
  aec_defined (orun rd_before_repair asg [ORead [mkEff 0 0 0 false; mkEff 0 0 0 false; mkEff 0 1 0 false]; ORead [mkEff 0 0 0 false; mkEff 0 0 0 true]]) = false /\
  aec_defined (orun rd asg [ORead [mkEff 0 0 0 false; mkEff 0 0 0 false; mkEff 0 1 0 false]; ORead [mkEff 0 0 0 false; mkEff 0 0 0 true]]) = true.
Proof. vm_compute. repeat split. Qed.
