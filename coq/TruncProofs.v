(* TruncProofs.v — C05 at the level of files: reading any proper prefix of an output returns exactly the blocks wholly contained
   in the prefix, equal to those of the full file, and then reports end of input — nothing else, nothing fabricated. *)
Require Import Base Cbor SpecEnc EncoderModel EncoderProofs DecoderModel DecoderProofs Schema SchemaProofs
               Timestamp Block BlockProofs Exporter ExporterProofs E2ESpec BlockRead FileProofs.
Local Open Scope N_scope.

(* the application's read loop: open, then read_block until it returns eof or throws; what was read so far is kept *)
Fixpoint read_collect (g fuel : nat) (s : rstate) (inp : list N) (racc : list rblock) : list rblock * (err + unit) :=
  match fuel with
  | O => (rev racc, inl EFuel)
  | S f =>
      match run (reader_next g s) inp with
      | (inr e, _) => (rev racc, inl e)
      | (inl (None, _), _) => (rev racc, inr tt)
      | (inl (Some b, s'), rest) => read_collect g f s' rest (b :: racc)
      end
  end.
Definition read_prefix (g : nat) (inp : list N) : list rblock * (err + unit) :=
  match run (reader_open g) inp with
  | (inr e, _) => ([], inl e)
  | (inl s, rest) => read_collect g g s rest []
  end.

(* the blocks wholly contained in [avail] bytes *)
Fixpoint whole (lens : list nat) (avail : nat) : nat :=
  match lens with [] => 0 | l :: r => if (l <=? avail)%nat then S (whole r (avail - l)) else 0 end%nat.

(* ---------- list splitting ---------- *)
Lemma app_split_ge {A} (a t q s : list A) : a ++ t = q ++ s -> (length a <= length q)%nat -> exists q', q = a ++ q' /\ t = q' ++ s.
Proof.
  revert q. induction a as [|x a IH]; intros q H Hl; cbn [app] in *; [exists q; auto|].
  destruct q as [|y q]; [cbn in Hl; lia|]. cbn [app length] in *. inversion H; subst. destruct (IH q H2) as (q' & -> & ->); [lia|].
  exists q'. auto.
Qed.
Lemma app_split_lt {A} (a t q s : list A) : a ++ t = q ++ s -> (length q < length a)%nat -> exists a2, a = q ++ a2 /\ a2 <> [] /\ s = a2 ++ t.
Proof.
  revert a. induction q as [|y q IH]; intros a H Hl; cbn [app] in *.
  - exists a. repeat split; auto. intros ->. cbn in Hl. lia.
  - destruct a as [|x a]; [cbn in Hl; lia|]. cbn [app length] in *. inversion H; subst. destruct (IH a H2) as (a2 & -> & Hne & ->); [lia|].
    exists a2. auto.
Qed.

(* a program that consumes exactly [a] reports end of input on every proper prefix of [a] *)
Lemma exact_prefix_end {A} (p : prog A) a v q a2 : (forall rest, run p (a ++ rest) = (inl v, rest)) -> a = q ++ a2 -> a2 <> [] ->
  fst (run p q) = inr EEnd.
Proof.
  intros Hp -> Hne. pose proof (run_prefix p q a2) as H. specialize (Hp []). rewrite app_nil_r in Hp. rewrite Hp in H.
  destruct H as [(r' & Hr & _)|H]; [|exact H]. destruct a2; [contradiction|]. destruct r'; discriminate.
Qed.
Lemma run_end_rest {A} (p : prog A) q : fst (run p q) = inr EEnd -> exists r, run p q = (inr EEnd, r).
Proof. intros H. destruct (run p q) as [res r]. cbn in H. subst. eauto. Qed.

(* ---------- one block through reader_next ---------- *)
Lemma reader_next_block pre b g s rest : rs_pre s = pre -> rs_indef s = true ->
  typed_blk b -> blk_params_ok (params_of pre) b -> good_blk b -> (length (blk_bytes b) <= g)%nat ->
  run (reader_next g s) (blk_bytes b ++ rest) = (inl (Some (rb_of b), mkRs (rs_pre s) (rs_count s) (rs_read s + 1) true), rest).
Proof.
  intros Hp Hi Tb Pb Gb Hg. unfold reader_next. rewrite Hi, run_bind.
  destruct (blk_bytes_peek b rest Tb) as [m Hpk]. rewrite Hpk, run_bind, Hp.
  rewrite read_block_spec by auto. reflexivity.
Qed.

Lemma read_collect_trunc pre g : forall bs fuel s q t racc,
  rs_pre s = pre -> rs_indef s = true ->
  Forall typed_blk bs -> Forall (blk_params_ok (params_of pre)) bs -> Forall good_blk bs ->
  (length bs < fuel)%nat -> (length (flat_map blk_bytes bs) <= g)%nat ->
  flat_map blk_bytes bs ++ [255] = q ++ t -> t <> [] ->
  read_collect g fuel s q racc = (rev racc ++ map rb_of (firstn (whole (map (fun b => length (blk_bytes b)) bs) (length q)) bs), inl EEnd).
Proof.
  induction bs as [|b bs IH]; intros fuel s q t racc Hp Hi Ht Hpar Hgd Hf Hg Heq Hne; (destruct fuel as [|fuel]; [cbn [length] in Hf; lia|]).
  - cbn [flat_map app] in Heq. destruct q as [|y q].
    + cbn [read_collect whole map firstn]. unfold reader_next. rewrite Hi, run_bind. cbn [run peek_type]. rewrite app_nil_r. reflexivity.
    + destruct q; [|discriminate]. cbn [app] in Heq. inversion Heq; subst. contradiction.
  - pose proof (Forall_inv Ht) as Tb. pose proof (Forall_inv_tail Ht) as Tbs. pose proof (Forall_inv Hpar) as Pb.
    pose proof (Forall_inv_tail Hpar) as Pbs. pose proof (Forall_inv Hgd) as Gb. pose proof (Forall_inv_tail Hgd) as Gbs.
    cbn [flat_map map whole] in *. rewrite <- app_assoc in Heq. rewrite app_length in Hg.
    destruct (length (blk_bytes b) <=? length q)%nat eqn:E.
    + apply Nat.leb_le in E. destruct (app_split_ge _ _ _ _ Heq E) as (q' & -> & Heq').
      cbn [read_collect]. rewrite (reader_next_block pre b g s q') by (auto; lia).
      rewrite (IH fuel _ q' t (rb_of b :: racc)); auto; try lia.
      * rewrite app_length. replace (length (blk_bytes b) + length q' - length (blk_bytes b))%nat with (length q') by lia.
        cbn [rev firstn map]. rewrite <- app_assoc. reflexivity.
      * cbn [length] in Hf. lia.
    + apply Nat.leb_gt in E. destruct (app_split_lt _ _ _ _ Heq E) as (a2 & Ha & Hne2 & _).
      cbn [read_collect firstn map]. rewrite app_nil_r.
      assert (Hend : fst (run (reader_next g s) q) = inr EEnd).
      { eapply exact_prefix_end; [|exact Ha|exact Hne2]. intros rest. apply (reader_next_block pre); auto; lia. }
      destruct (run_end_rest _ _ Hend) as [r ->]. reflexivity.
Qed.

Lemma reader_open_spec pre g rest : typed_pre pre -> (length (hdr_bytes pre) <= g)%nat ->
  run (reader_open g) (hdr_bytes pre ++ rest) = (inl (mkRs pre 0 0 true), rest).
Proof. intros Tp Hg. unfold reader_open. rewrite run_bind, read_header_spec by auto. reflexivity. Qed.

Theorem truncated_file pre bs g q t : typed_pre pre -> bs <> [] -> Forall (readable pre) bs ->
  (length (file_bytes pre bs) <= g)%nat -> file_bytes pre bs = q ++ t -> t <> [] ->
  read_prefix g q =
    (map rb_of (firstn (if (length (hdr_bytes pre) <=? length q)%nat
                        then whole (map (fun b => length (blk_bytes b)) bs) (length q - length (hdr_bytes pre)) else 0%nat) bs),
     inl EEnd).
Proof.
  intros Tp Hne Hr Hg Heq Hnt. unfold file_bytes in *. destruct bs as [|b0 bs0]; [contradiction|]. set (bs := b0 :: bs0) in *.
  rewrite !app_length in Hg. cbn [length] in Hg.
  assert (T : Forall typed_blk bs) by (eapply Forall_impl; [|exact Hr]; intros b H; apply H).
  assert (P : Forall (blk_params_ok (params_of pre)) bs) by (eapply Forall_impl; [|exact Hr]; intros b H; apply H).
  assert (G : Forall good_blk bs) by (eapply Forall_impl; [|exact Hr]; intros b H; apply H).
  assert (Hl : (length bs <= length (flat_map blk_bytes bs))%nat).
  { clear -T. induction bs as [|b bs IH]; cbn [flat_map length]; [lia|]. rewrite app_length. inversion T; subst.
    pose proof (blk_bytes_nonempty b H1). specialize (IH H2). lia. }
  unfold read_prefix. destruct (length (hdr_bytes pre) <=? length q)%nat eqn:E.
  - apply Nat.leb_le in E. destruct (app_split_ge _ _ _ _ Heq E) as (q' & -> & Heq').
    rewrite reader_open_spec by (auto; lia).
    rewrite (read_collect_trunc pre g bs g (mkRs pre 0 0 true) q' t [] eq_refl eq_refl T P G) by (auto; lia).
    rewrite app_length. replace (length (hdr_bytes pre) + length q' - length (hdr_bytes pre))%nat with (length q') by lia. reflexivity.
  - apply Nat.leb_gt in E. destruct (app_split_lt _ _ _ _ Heq E) as (a2 & Ha & Hne2 & _).
    assert (Hend : fst (run (reader_open g) q) = inr EEnd).
    { eapply exact_prefix_end; [|exact Ha|exact Hne2]. intros rest. apply reader_open_spec; auto. lia. }
    destruct (run_end_rest _ _ Hend) as [r ->]. reflexivity.
Qed.
