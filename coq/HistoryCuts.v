(* HistoryCuts.v — C05 for the outputs of histories: every output of every admissible in-range exporter history, cut at every point. *)
Require Import Base Cbor SpecEnc EncoderModel EncoderProofs DecoderModel DecoderProofs Schema SchemaProofs Timestamp Block BlockProofs Exporter ExporterProofs
               BlockRead FileProofs TruncProofs.
Local Open Scope N_scope.

(* the outputs of a history, with what makes each of them readable block by block *)
Definition output_ok (pb : val * list blk) : Prop := snd pb <> [] -> typed_pre (fst pb) /\ Forall (readable (fst pb)) (snd pb).

Theorem history_outputs_readable pre ops : typed_pre pre -> adm0 pre ops -> typed_x (xrun (x_new pre) ops) ->
  let x := xrun (x_new pre) ops in
  exists (last : val) cur closed,
    x_closed x = map (fun pb => file_bytes (fst pb) (snd pb)) closed /\
    destroy x = file_bytes last cur /\
    Forall output_ok ((last, cur) :: closed).
Proof.
  intros Tp A T x. destruct (x_new_framed pre Tp) as [F0 _].
  destruct (xrun_framed ops (x_new pre) 0 [] [] F0 A T) as (hn & cur & closed & F). fold x in F.
  pose proof (xrun_good ops (x_new pre) 0 (x_new_good pre) A) as G. fold x in G. unfold good_inv in G.
  exists (hdr_pre x hn), cur, closed. split; [apply F|]. split; [eapply close_bytes; eauto|].
  destruct T as [Td Tpx]. fold x in Td, Tpx. rewrite (fr_done _ _ _ _ F) in Td. apply Forall_app in Td. destruct Td as [Tcl Tcur].
  pose proof (Forall_inv_tail G) as Gd. rewrite (fr_done _ _ _ _ F) in Gd. apply Forall_app in Gd. destruct Gd as [Gcl Gcur].
  assert (Hone : forall p bs, (bs <> [] -> typed_pre p) -> Forall typed_blk bs -> Forall (blk_params_ok (params_of p)) bs -> Forall good_blk bs ->
                 output_ok (p, bs)).
  { intros p bs Hp Ht Hpar Hg Hne. cbn [fst snd] in *. split; [apply Hp; exact Hne|].
    rewrite Forall_forall in *. intros b Hb. split; [apply Ht; auto|split; [apply Hpar; auto|apply Hg; auto]]. }
  constructor.
  - apply Hone; auto; [|exact (fr_cur _ _ _ _ F)].
    intros Hc. apply typed_hdr_pre; auto; [apply (fr_hn _ _ _ _ F Hc)|eapply framed_params_nonempty; eauto].
  - pose proof (fr_closed_typed _ _ _ _ F) as Hct. pose proof (fr_closed_params _ _ _ _ F) as Hcp.
    rewrite Forall_forall in *. intros [p bs] Hin.
    assert (Hsub : forall b, In b bs -> In b (flat_map snd (rev closed))).
    { intros b Hb. apply in_flat_map. exists (p, bs). split; [rewrite <- in_rev; exact Hin|exact Hb]. }
    apply Hone.
    + exact (Hct _ Hin).
    + rewrite Forall_forall. intros b Hb. apply Tcl. auto.
    + exact (Hcp _ Hin).
    + rewrite Forall_forall. intros b Hb. apply Gcl. auto.
Qed.

(* every output of every admissible in-range history - the ones closed by rotations and the one destruction closes -, cut at EVERY point:
   the read loop on the prefix returns exactly the blocks wholly contained in it, each equal to the block of the full output, then the
   end-of-input error *)
Theorem truncated_outputs_of_histories pre ops : typed_pre pre -> adm0 pre ops -> typed_x (xrun (x_new pre) ops) ->
  let x := xrun (x_new pre) ops in
  exists (last : val) cur closed,
    x_closed x = map (fun pb => file_bytes (fst pb) (snd pb)) closed /\ destroy x = file_bytes last cur /\
    forall p bs, In (p, bs) ((last, cur) :: closed) -> bs <> [] ->
    forall g q t, (length (file_bytes p bs) <= g)%nat -> file_bytes p bs = q ++ t -> t <> [] ->
      read_prefix g q =
        (map rb_of (firstn (if (length (hdr_bytes p) <=? length q)%nat
                            then whole (map (fun b => length (blk_bytes b)) bs) (length q - length (hdr_bytes p)) else 0%nat) bs),
         inl EEnd).
Proof.
  intros Tp A T x. destruct (history_outputs_readable pre ops Tp A T) as (last & cur & closed & H1 & H2 & H3). fold x in H1, H2.
  exists last, cur, closed. split; [exact H1|]. split; [exact H2|].
  intros p bs Hin Hne g q t Hg Heq Hnt. rewrite Forall_forall in H3. destruct (H3 (p, bs) Hin Hne) as [Hp Hr]. cbn [fst snd] in *.
  apply (truncated_file p bs g q t Hp Hne Hr Hg Heq Hnt).
Qed.
