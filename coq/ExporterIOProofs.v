(* ExporterIOProofs.v — the data each output receives through those writer calls is exactly the output of the exporter model:
   for every API history, [outputs_of] (Writer.v: the concatenation of the writes while an output was open, per output in closing order)
   of the exporter's writer calls followed by destruction = the closed outputs, oldest first, then what destruction closes.
   With it the writer-level theorems (C14 transparency of compression, C15 final name only when complete, for EVERY call sequence)
   apply to the call sequences exporter histories produce. *)
Require Import Base Cbor EncoderModel EncoderProofs DecoderModel Schema Timestamp Block Exporter ExporterProofs Writer WriterProofs ExporterIO.
Local Open Scope N_scope.

(* ---------- the encoder only ever prepends to [chunks] ---------- *)
Definition cext (e e' : enc) : Prop := exists new, chunks e' = new ++ chunks e.
Lemma cext_refl e : cext e e. Proof. exists []. reflexivity. Qed.
Lemma cext_trans a b c : cext a b -> cext b c -> cext a c.
Proof. intros [n1 H1] [n2 H2]. exists (n2 ++ n1). rewrite H2, H1, app_assoc. reflexivity. Qed.
Lemma cext_flush e : cext e (flush e).
Proof. unfold flush. destruct (buf e); [apply cext_refl|]. exists [n :: l]. reflexivity. Qed.
Lemma cext_put e bs : cext e (put e bs). Proof. exists []. reflexivity. Qed.
Lemma cext_write_string : forall fuel e bs, cext e (write_string fuel e bs).
Proof.
  induction fuel as [|f IH]; intros e bs; cbn [write_string]; [apply cext_refl|].
  destruct (N.of_nat (length bs) <=? avail e); [apply cext_put|].
  eapply cext_trans; [|apply IH]. eapply cext_trans; [apply cext_put|apply cext_flush].
Qed.
Lemma cext_estep o e : cext e (fst (estep e o)).
Proof.
  assert (Hint : forall need major v, cext e (fst (op_int need major v e))).
  { intros. unfold op_int. cbn [fst]. destruct (avail e <? need); [eapply cext_trans; [apply cext_flush|apply cext_put]|apply cext_put]. }
  assert (Hfix : forall b, cext e (fst (op_fixed b e))).
  { intros. unfold op_fixed. destruct (avail e <? 1).
    - destruct (avail (flush e) <? 1); cbn [fst]; [apply cext_flush|eapply cext_trans; [apply cext_flush|apply cext_put]].
    - destruct (avail e <? 1); cbn [fst]; [apply cext_refl|apply cext_put]. }
  assert (Hstr : forall major bs, cext e (fst (op_string major bs e))).
  { intros. unfold op_string. cbn [fst]. eapply cext_trans; [|apply cext_write_string].
    destruct (avail e <? 9); [eapply cext_trans; [apply cext_flush|apply cext_put]|apply cext_put]. }
  assert (Hsint : forall need z, cext e (fst (op_sint need z e))).
  { intros. unfold op_sint. destruct (z <? 0)%Z; apply Hint. }
  destruct o; cbn [estep]; unfold write_array_start, write_map_start, write_indef_array_start, write_indef_map_start, write_break, write_bool,
    write_u8, write_u16, write_u32, write_u64, write_i8, write_i16, write_i32, write_i64, write_bytestring, write_textstring; auto.
Qed.
Lemma cext_eruns : forall ops e, cext e (fst (eruns e ops)).
Proof.
  induction ops as [|o ops IH]; intros e; cbn [eruns]; [apply cext_refl|].
  pose proof (cext_estep o e) as H1. destruct (estep e o) as [e1 r]. cbn [fst] in H1.
  pose proof (IH e1) as H2. destruct (eruns e1 ops) as [e2 rs]. cbn [fst] in *. eapply cext_trans; eauto.
Qed.
Lemma cext_enc_run e ops : cext e (fst (enc_run e ops)).
Proof. unfold enc_run. pose proof (cext_eruns ops e). destruct (eruns e ops). exact H. Qed.

(* what was handed to the writer so far: the flushed chunks, oldest first *)
Definition handed (e : enc) : list N := concat (rev (chunks e)).
Lemma new_chunks_spec e e' : cext e e' -> handed e' = handed e ++ concat (new_chunks e e').
Proof.
  intros [new H]. unfold handed, new_chunks. rewrite H, app_length.
  replace (length new + length (chunks e) - length (chunks e))%nat with (length new) by lia.
  rewrite firstn_app, firstn_all, Nat.sub_diag. cbn [firstn]. rewrite app_nil_r, rev_app_distr, concat_app. reflexivity.
Qed.
Lemma handed_flush e : handed (flush e) = stream e.
Proof. unfold handed, flush, stream. destruct (buf e) as [|b l]; [rewrite app_nil_r; reflexivity|]. cbn [chunks rev]. rewrite concat_app. cbn [concat]. rewrite app_nil_r. reflexivity. Qed.

Lemma outputs_of_writes cs : forall cur acc r d, outputs_of cur acc (map WWrite cs ++ r) d = outputs_of cur (acc ++ concat cs) r d.
Proof.
  induction cs as [|c cs IH]; intros cur acc r d; cbn [map app concat outputs_of]; [rewrite app_nil_r; reflexivity|].
  rewrite IH, app_assoc. reflexivity.
Qed.

(* every API call other than a rotation leaves the encoder an extension of what it was; a rotation's closing state too *)
Lemma cext_write_block_ext x b : cext (x_enc x) (x_enc (fst (write_block_ext x b))).
Proof.
  unfold write_block_ext. destruct (item_count b =? 0); [apply cext_refl|].
  pose proof (cext_enc_run (x_enc x) ((if x_written x =? 0 then header_ops x else []) ++ write_val Schema.Block (blk_val b))) as H.
  destruct (enc_run (x_enc x) _) as [e' r]. cbn [fst x_enc with_enc] in *. exact H.
Qed.
Lemma cext_write_block x : cext (x_enc x) (x_enc (fst (write_block x))).
Proof.
  unfold write_block. pose proof (cext_write_block_ext x (x_blk x)) as H. destruct (write_block_ext x (x_blk x)) as [x1 r]. cbn [fst] in *.
  destruct (blk_set_bp _ _ _). exact H.
Qed.
Lemma cext_buffer add x : cext (x_enc x) (x_enc (fst (buffer add x))).
Proof.
  unfold buffer. destruct (add (x_blk x)) as [b' f]. destruct f; [apply (cext_write_block (with_blk x b'))|apply cext_refl].
Qed.
Lemma cext_closing x1 : cext (x_enc x1) (closing_enc x1).
Proof.
  unfold closing_enc. destruct (0 <? x_written x1).
  - eapply cext_trans; [apply cext_enc_run|apply cext_flush].
  - cbn [fst]. apply cext_flush.
Qed.
Lemma cext_rotate_enc e x : cext (x_enc x) (rotate_enc e x).
Proof.
  unfold rotate_enc. destruct e.
  - pose proof (cext_write_block x) as H. destruct (write_block x) as [x1 r1]. cbn [fst] in *. eapply cext_trans; [exact H|apply cext_closing].
  - cbn [fst]. apply cext_closing.
Qed.
Lemma closing_bytes x1 : handed (closing_enc x1) = stream (flush (fst (if 0 <? x_written x1 then enc_run (x_enc x1) [OBreak] else (x_enc x1, 0)))).
Proof. unfold closing_enc. rewrite handed_flush, stream_flush. reflexivity. Qed.
Lemma rotate_closed e x : x_closed (fst (rotate e x)) = handed (rotate_enc e x) :: x_closed x /\ x_enc (fst (rotate e x)) = enc_init.
Proof.
  unfold rotate, rotate_enc. destruct e.
  - pose proof (write_block_fields x) as (_ & Hc & _). destruct (write_block x) as [x1 r1]. cbn [fst] in *.
    rewrite closing_bytes. destruct (if 0 <? x_written x1 then _ else _) as [e2 r2]. cbn [fst x_closed x_enc]. rewrite Hc. split; reflexivity.
  - cbn [fst]. rewrite closing_bytes. destruct (if 0 <? x_written x then _ else _) as [e2 r2]. cbn [fst x_closed x_enc]. split; reflexivity.
Qed.
Lemma destroy_bytes x : destroy x = handed (closing_enc x).
Proof. unfold destroy. rewrite closing_bytes. destruct (if 0 <? x_written x then _ else _) as [e2 r2]. reflexivity. Qed.

Lemma wb_closed y : x_closed (fst (write_block y)) = x_closed y.
Proof. apply write_block_fields. Qed.
Lemma nonrot_step x o : (forall e, o <> XRot e) ->
  cext (x_enc x) (x_enc (fst (xstep x o))) /\ x_closed (fst (xstep x o)) = x_closed x.
Proof.
  intros Hn. destruct (xstep_closed x o) as [new Hc].
  destruct o as [gr st|ga st|gm st| |e|bp|i]; cbn [xstep] in *.
  - split; [apply cext_buffer|]. unfold buffer_qr, buffer. destruct (add_qr gr st (x_blk x)) as [b' f]. destruct f; [rewrite wb_closed; reflexivity|reflexivity].
  - split; [apply cext_buffer|]. unfold buffer_aec, buffer. destruct (add_aec ga st (x_blk x)) as [b' f]. destruct f; [rewrite wb_closed; reflexivity|reflexivity].
  - split; [apply cext_buffer|]. unfold buffer_mm, buffer. destruct (add_mm gm st (x_blk x)) as [b' f]. destruct f; [rewrite wb_closed; reflexivity|reflexivity].
  - split; [apply cext_write_block|apply wb_closed].
  - exfalso. apply (Hn e). reflexivity.
  - split; [apply cext_refl|reflexivity].
  - unfold set_active. destruct (_ <=? _); split; try apply cext_refl; reflexivity.
Qed.

Lemma C13_frozen_run : forall ops x, exists new, x_closed (xrun x ops) = new ++ x_closed x.
Proof.
  induction ops as [|o ops IH]; intros x; cbn [xrun fold_left]; [exists []; reflexivity|].
  destruct (IH (fst (xstep x o))) as [n1 H1]. destruct (xstep_closed x o) as [n2 H2].
  exists (n1 ++ n2). unfold xrun in H1. rewrite H1, H2, app_assoc. reflexivity.
Qed.

(* THE LINK: the data the writer receives per output = the exporter model's outputs *)
Theorem run_wops_outputs : forall ops x ids cur,
  map snd (outputs_of cur (handed (x_enc x)) (run_wops x ops ids ++ destroy_wops (xrun x ops)) true) =
  rev (firstn (length (x_closed (xrun x ops)) - length (x_closed x)) (x_closed (xrun x ops))) ++ [destroy (xrun x ops)].
Proof.
  induction ops as [|o ops IH]; intros x ids cur.
  - cbn [run_wops xrun fold_left app]. unfold destroy_wops. rewrite <- (app_nil_r (map WWrite _)), outputs_of_writes.
    cbn [outputs_of map snd]. rewrite Nat.sub_diag. cbn [firstn rev app].
    rewrite <- (new_chunks_spec _ _ (cext_closing x)), destroy_bytes. reflexivity.
  - change (xrun x (o :: ops)) with (xrun (fst (xstep x o)) ops). cbn [run_wops]. rewrite <- app_assoc.
    destruct (C13_frozen_run ops (fst (xstep x o))) as [newr Hr].
    assert (Hnr : (forall e0, o <> XRot e0) ->
      map snd (outputs_of cur (handed (x_enc x)) (step_wops x o (hd 0 ids) ++ run_wops (fst (xstep x o)) ops (match o with XRot _ => tl ids | _ => ids end) ++
                                                  destroy_wops (xrun (fst (xstep x o)) ops)) true) =
      rev (firstn (length (x_closed (xrun (fst (xstep x o)) ops)) - length (x_closed x)) (x_closed (xrun (fst (xstep x o)) ops))) ++
      [destroy (xrun (fst (xstep x o)) ops)]).
    { intros Hn. destruct (nonrot_step x o Hn) as [Hc Hcl].
      assert (Hsw : step_wops x o (hd 0 ids) = map WWrite (new_chunks (x_enc x) (x_enc (fst (xstep x o))))).
      { destruct o; try reflexivity. exfalso. eapply Hn. reflexivity. }
      rewrite Hsw, outputs_of_writes, <- (new_chunks_spec _ _ Hc), IH, Hcl. reflexivity. }
    destruct o as [gr st|ga st|gm st| |e|bp|i]; try (apply Hnr; intros e0; discriminate). clear Hnr.
    unfold step_wops. rewrite <- app_assoc, outputs_of_writes, <- (new_chunks_spec _ _ (cext_rotate_enc e x)). cbn [app outputs_of map snd].
    destruct (rotate_closed e x) as [Hcl He]. cbn [xstep] in *.
    replace [] with (handed (x_enc (fst (rotate e x)))) at 1 by (rewrite He; reflexivity).
    rewrite IH, Hr, Hcl. rewrite !app_length. cbn [length].
    replace (length newr + S (length (x_closed x)) - S (length (x_closed x)))%nat with (length newr) by lia.
    replace (length newr + S (length (x_closed x)) - length (x_closed x))%nat with (length newr + 1)%nat by lia.
    rewrite firstn_app, firstn_all, Nat.sub_diag. cbn [firstn]. rewrite app_nil_r.
    replace (newr ++ handed (rotate_enc e x) :: x_closed x) with ((newr ++ [handed (rotate_enc e x)]) ++ x_closed x) by (rewrite <- app_assoc; reflexivity).
    assert (Hf : firstn (length newr + 1) ((newr ++ [handed (rotate_enc e x)]) ++ x_closed x) = newr ++ [handed (rotate_enc e x)]).
    { replace (length newr + 1)%nat with (length (newr ++ [handed (rotate_enc e x)])) by (rewrite app_length; cbn [length]; lia).
      rewrite firstn_app, firstn_all, Nat.sub_diag. cbn [firstn]. apply app_nil_r. }
    rewrite Hf, rev_app_distr. reflexivity.
Qed.

Lemma x_new_io pre : handed (x_enc (x_new pre)) = [] /\ x_closed (x_new pre) = [].
Proof. unfold x_new. destruct pre as [| | | | |[|ma [|mi [|pv [|[[| | | |ps|]|] [|? ?]]]]]]; split; reflexivity. Qed.

(* from a fresh exporter: the writer receives, output by output, exactly the closed outputs (oldest first) and then what destruction closes *)
Theorem fresh_run_outputs pre ops ids cur : let x := xrun (x_new pre) ops in
  map snd (outputs_of cur [] (run_wops (x_new pre) ops ids ++ destroy_wops x) true) = rev (x_closed x) ++ [destroy x].
Proof.
  intros x. destruct (x_new_io pre) as [H1 H2]. pose proof (run_wops_outputs ops (x_new pre) ids cur) as H. rewrite H1, H2 in H.
  fold x in H. rewrite H. cbn [length]. rewrite Nat.sub_0_r, firstn_all. reflexivity.
Qed.

(* crash safety of a named exporter (C15 for exporter histories): at any instant, a file under a final name is the one that was there
   before, or one of the exporter's closed outputs, or what destruction closes — complete in each case *)
Theorem exporter_named_prefix (f0 : fs) pre ops ids n0 k n c : let x := xrun (x_new pre) ops in
  fs_run f0 (firstn k (named_trace n0 (run_wops (x_new pre) ops ids ++ destroy_wops x) true)) (Final n) = Some c ->
  f0 (Final n) = Some c \/ In c (x_closed x) \/ c = destroy x.
Proof.
  intros x H. apply named_prefix_ok in H. destruct H as [H|H]; [left; exact H|right].
  assert (Hin : In c (map snd (outputs_of n0 [] (run_wops (x_new pre) ops ids ++ destroy_wops x) true))) by (apply in_map_iff; exists (n, c); auto).
  unfold x in Hin. rewrite fresh_run_outputs in Hin. apply in_app_or in Hin. destruct Hin as [Hin|[<-|[]]]; [left; apply in_rev; exact Hin|right; reflexivity].
Qed.

Section Compressed.
  Variable cstate : Type.
  Variable cinit : cstate.
  Variable crun : cstate -> list N -> cstate * list N.
  Variable cfinish : cstate -> list N.
  Variable decompress : list N -> option (list N).
  Hypothesis codec_ok : forall chunks, decompress (cstream cstate crun cfinish cinit chunks) = Some (concat chunks).
  (* a gzip / xz exporter: what its inner writer receives decompresses, output by output, to the outputs of the exporter model *)
  Theorem exporter_compressed pre ops ids cur : let x := xrun (x_new pre) ops in
    Forall2 (fun zo p => decompress (snd zo) = Some p)
            (outputs_of cur [] (czip cstate cinit crun cfinish cinit (run_wops (x_new pre) ops ids ++ destroy_wops x) true) true)
            (rev (x_closed x) ++ [destroy x]).
  Proof.
    intros x. pose proof (czip_transparent cstate cinit crun cfinish decompress codec_ok true (run_wops (x_new pre) ops ids ++ destroy_wops x) cur) as H.
    pose proof (fresh_run_outputs pre ops ids cur) as Hm. fold x in Hm. rewrite <- Hm.
    induction H as [|zo po zs ps [_ Hd] _ IH]; cbn [map]; constructor; auto.
  Qed.
  (* ... and crash safety of a named gzip / xz exporter: at any instant, a file under a final name is the one that was there before, or one
     complete compressed stream that decompresses to one of the exporter's outputs *)
  Theorem exporter_named_compressed_prefix (f0 : fs) pre ops ids n0 k n c : let x := xrun (x_new pre) ops in
    fs_run f0 (firstn k (named_trace n0 (czip cstate cinit crun cfinish cinit (run_wops (x_new pre) ops ids ++ destroy_wops x) true) true)) (Final n) = Some c ->
    f0 (Final n) = Some c \/ exists p, (In p (x_closed x) \/ p = destroy x) /\ decompress c = Some p.
  Proof.
    intros x H. apply named_prefix_ok in H. destruct H as [H|H]; [left; exact H|right].
    pose proof (czip_transparent cstate cinit crun cfinish decompress codec_ok true (run_wops (x_new pre) ops ids ++ destroy_wops x) n0) as Ht.
    pose proof (fresh_run_outputs pre ops ids n0) as Hm. fold x in Hm.
    assert (Hex : exists po, In po (outputs_of n0 [] (run_wops (x_new pre) ops ids ++ destroy_wops x) true) /\ decompress c = Some (snd po)).
    { revert H. induction Ht as [|zo po zs ps [_ Hd] _ IH]; intros Hin; [destruct Hin|].
      destruct Hin as [Heq|Hin]; [exists po; split; [left; reflexivity|rewrite Heq in Hd; exact Hd]|].
      destruct (IH Hin) as (po' & Hp & Hd'). exists po'. split; [right; exact Hp|exact Hd']. }
    destruct Hex as (po & Hin & Hd). exists (snd po). split; [|exact Hd].
    assert (Hs : In (snd po) (map snd (outputs_of n0 [] (run_wops (x_new pre) ops ids ++ destroy_wops x) true))) by (apply in_map; exact Hin).
    rewrite Hm in Hs. apply in_app_or in Hs. destruct Hs as [Hs|[<-|[]]]; [left; apply in_rev; exact Hs|right; reflexivity].
  Qed.
End Compressed.
