(* ReencodeFile.v — C08 at the level of files: EVERY re-encoding of an exporter output — the outer array and the block array each
   definite (any head width) or indefinite, the type id a definite (any width) or chunked text string, the preamble and every block
   any encoding that denotes the same value ([enc_of]: head widths, definite / indefinite containers and strings, members in any order,
   members with unknown keys carrying arbitrary items) — is read by the file reader to the same preamble and the same blocks. *)
Require Import Base Cbor SpecEnc EncoderModel EncoderProofs DecoderModel DecoderProofs Schema SchemaProofs Reencode
               Timestamp Block BlockProofs Exporter ExporterProofs E2ESpec BlockRead FileProofs.
Local Open Scope N_scope.

Definition cont (ow : option width) (xs : list item) : item :=
  match ow with Some w => ICont false w xs | None => IContIndef false xs end.
Definition tid_ok (tid : item) : Prop :=
  (exists w, tid = IStr true w cdns_text /\ wfits w 5) \/
  (exists cs, tid = IStrIndef true cs /\ Forall wf_chunk cs /\ chunks_val cs = cdns_text).
Definition file_item (oi : option width) (tid xp : item) (bi : option width) (xbs : list item) : item :=
  cont oi [tid; xp; cont bi xbs].

Lemma read_tid tid g rest : tid_ok tid -> (length (ser tid) < g)%nat -> run (read_textstring g) (ser tid ++ rest) = (inl cdns_text, rest).
Proof.
  intros [(w & -> & Hw)|(cs & -> & Hc & Hv)] Hg; unfold read_textstring; change MT with (mstr true).
  - apply read_xstring_def; auto. cbn [ser] in Hg. rewrite app_length in Hg. cbn [length cdns_text] in *. lia.
  - rewrite read_xstring_indef; auto; [rewrite Hv; reflexivity|].
    cbn [ser length] in Hg. rewrite app_length in Hg. pose proof (chunks_len_le (mstr true) cs). lia.
Qed.

Lemma enc_block_peek xb b rest : enc_of Schema.Block xb (blk_val b) ->
  exists m, run peek_type (ser xb ++ rest) = (inl (Some m), ser xb ++ rest).
Proof.
  intros He. pose proof (proj1 (proj1 reencode_reads Schema.Block xb (blk_val b) desc_ok_Block He)) as Hw.
  destruct (first_byte_not_break _ Hw) as (c & r & Hs & Hc & _). rewrite Hs. cbn [app].
  eexists. cbn [run peek_type]. assert (c =? 255 = false) as -> by lia. reflexivity.
Qed.
Lemma enc_block_read ps xb b g rest : enc_of Schema.Block xb (blk_val b) -> blk_params_ok ps b -> good_blk b -> (length (ser xb) < g)%nat ->
  run (read_block_body g ps) (ser xb ++ rest) = (inl (rb_of b), rest).
Proof.
  intros He Pb Gb Hg. unfold read_block_body. rewrite run_bind.
  rewrite (proj2 (proj1 reencode_reads Schema.Block xb (blk_val b) desc_ok_Block He)) by exact Hg.
  rewrite (proj1 (block_of_val_spec ps b Pb Gb)). reflexivity.
Qed.

(* the block loop, indefinite and definite *)
Lemma read_blocks_enc pre g (indef : bool) : forall xbs bs fuel s racc,
  rs_pre s = pre -> rs_indef s = indef -> (indef = false -> rs_count s = rs_read s + N.of_nat (length xbs)) ->
  Forall2 (fun xb b => enc_of Schema.Block xb (blk_val b)) xbs bs ->
  Forall (blk_params_ok (params_of pre)) bs -> Forall good_blk bs ->
  (length xbs < fuel)%nat -> (length (flat_map ser xbs) < g)%nat ->
  forall tail, fst (run (read_blocks g fuel s racc) (flat_map ser xbs ++ (if indef then 255 :: tail else tail))) = inl (rev racc ++ map rb_of bs).
Proof.
  induction xbs as [|xb xbs IH]; intros bs fuel s racc Hp Hi Hc HF Hpar Hgd Hf Hg tail; revert Hp Hi Hc;
    inversion HF as [|? b ? bs' He HF']; subst; intros Hp Hi Hc;
    (destruct fuel as [|fuel]; [cbn [length] in Hf; lia|]).
  - cbn [flat_map app read_blocks map]. rewrite run_bind. unfold reader_next. rewrite Hi. destruct indef.
    + rewrite run_bind. cbn [run peek_type N.eqb Pos.eqb]. cbn. rewrite frev_rev, app_nil_r. reflexivity.
    + rewrite (Hc eq_refl). cbn [length N.of_nat]. rewrite N.add_0_r, N.eqb_refl. cbn [run fst]. rewrite frev_rev, app_nil_r. reflexivity.
  - pose proof (Forall_inv Hpar) as Pb. pose proof (Forall_inv_tail Hpar) as Pbs. pose proof (Forall_inv Hgd) as Gb. pose proof (Forall_inv_tail Hgd) as Gbs.
    cbn [flat_map read_blocks map] in *. rewrite <- app_assoc. rewrite app_length in Hg. rewrite run_bind. unfold reader_next. rewrite Hi.
    destruct indef.
    + rewrite run_bind. destruct (enc_block_peek xb b (flat_map ser xbs ++ 255 :: tail) He) as [m Hpk]. rewrite Hpk.
      rewrite run_bind, Hp, (enc_block_read _ xb b) by (auto; lia). cbn [run fst snd].
      rewrite (IH bs' fuel _ (rb_of b :: racc)); auto; try (cbn [length] in Hf; lia); try discriminate.
      cbn [rev]. rewrite <- app_assoc. reflexivity.
    + specialize (Hc eq_refl). cbn [length] in Hc. assert (rs_read s =? rs_count s = false) as -> by lia.
      rewrite run_bind, Hp, (enc_block_read _ xb b) by (auto; lia). cbn [run fst snd].
      rewrite (IH bs' fuel _ (rb_of b :: racc)); auto; try (cbn [length] in Hf; lia).
      * cbn [rev]. rewrite <- app_assoc. reflexivity.
      * intros _. cbn [rs_count rs_read]. lia.
Qed.

Theorem read_file_reencoded pre bs oi tid xp bi xbs g :
  tid_ok tid -> enc_of FilePreamble xp pre ->
  Forall2 (fun xb b => enc_of Schema.Block xb (blk_val b)) xbs bs ->
  Forall (blk_params_ok (params_of pre)) bs -> Forall good_blk bs ->
  (forall w, oi = Some w -> wfits w 3) -> (forall w, bi = Some w -> wfits w (N.of_nat (length xbs))) ->
  (length (ser (file_item oi tid xp bi xbs)) < g)%nat ->
  fst (run (read_file g) (ser (file_item oi tid xp bi xbs))) = inl (pre, map rb_of bs).
Proof.
  intros Ht Hp HF Hpar Hgd Hoi Hbi Hg.
  assert (Hlen : (length (ser tid) + length (ser xp) + length (flat_map ser xbs) < g)%nat /\ (length xbs <= length (flat_map ser xbs))%nat).
  { split; [|apply length_le_flat].
    unfold file_item, cont in Hg. destruct oi, bi; cbn [ser flat_map length] in Hg; rewrite ?app_length in Hg; cbn [length] in Hg;
      rewrite ?app_length in Hg; cbn [length] in Hg; lia. }
  destruct Hlen as [Hl1 Hl2].
  (* normalise the input to: outer head ++ tid ++ xp ++ blocks head ++ blocks ++ tails *)
  assert (Hshape : exists oh bh btail otail, ser (file_item oi tid xp bi xbs) = oh ++ ser tid ++ ser xp ++ bh ++ flat_map ser xbs ++ (if bi then otail else 255 :: otail)
                   /\ (forall r, run read_array_start (oh ++ r) = (inl (match oi with Some _ => 3 | None => 0 end, match oi with Some _ => false | None => true end), r))
                   /\ (forall r, run read_array_start (bh ++ r) = (inl (match bi with Some _ => N.of_nat (length xbs) | None => 0 end, match bi with Some _ => false | None => true end), r))
                   /\ btail = otail).
  { unfold file_item, cont.
    destruct oi as [wo|], bi as [wb|]; cbn [ser flat_map cnt length mcont]; rewrite ?app_nil_r.
    - exists (head MA wo 3), (head MA wb (N.of_nat (length xbs))), [], []. rewrite ?app_nil_r. split; [reflexivity|].
      split; [intros r; apply read_xstart_def; apply Hoi; reflexivity|]. split; [intros r; apply read_xstart_def; apply Hbi; reflexivity|reflexivity].
    - exists (head MA wo 3), [mcode MA + 31], [], []. repeat (first [rewrite <- app_assoc | progress cbn [app]]). split; [reflexivity|].
      split; [intros r; apply read_xstart_def; apply Hoi; reflexivity|]. split; [intros r; apply read_xstart_indef; auto|reflexivity].
    - exists [mcode MA + 31], (head MA wb (N.of_nat (length xbs))), [255], [255]. repeat (first [rewrite <- app_assoc | progress cbn [app]]). split; [reflexivity|].
      split; [intros r; apply read_xstart_indef; auto|]. split; [intros r; apply read_xstart_def; apply Hbi; reflexivity|reflexivity].
    - exists [mcode MA + 31], [mcode MA + 31], [255], [255]. repeat (first [rewrite <- app_assoc | progress cbn [app]]). split; [reflexivity|].
      split; [intros r; apply read_xstart_indef; auto|]. split; [intros r; apply read_xstart_indef; auto|reflexivity]. }
  destruct Hshape as (oh & bh & btail & otail & -> & Hoh & Hbh & _).
  unfold read_file. rewrite run_bind. unfold reader_open. rewrite run_bind. unfold read_file_header.
  rewrite run_bind, Hoh. cbn [fst snd].
  assert ((negb ((match oi with Some _ => 3 | None => 0 end) =? 3) && negb (match oi with Some _ => false | None => true end)) = false) as -> by (destruct oi; reflexivity).
  rewrite run_bind, (read_tid tid g) by (auto; lia).
  replace (negb (list_eqb N.eqb (map upper cdns_text) cdns_text)) with false by reflexivity.
  rewrite run_bind, (proj2 (proj1 reencode_reads FilePreamble xp pre desc_ok_FilePreamble Hp)) by lia.
  rewrite run_bind, Hbh. cbn [run fst snd]. rewrite run_bind.
  pose proof (read_blocks_enc pre g (match bi with Some _ => false | None => true end) xbs bs g
                (mkRs pre (match bi with Some _ => N.of_nat (length xbs) | None => 0 end) 0 (match bi with Some _ => false | None => true end)) []
                eq_refl eq_refl) as Hrb.
  assert (Hcnt : (match bi with Some _ => false | None => true end) = false ->
                 rs_count (mkRs pre (match bi with Some _ => N.of_nat (length xbs) | None => 0 end) 0 (match bi with Some _ => false | None => true end)) =
                 rs_read (mkRs pre (match bi with Some _ => N.of_nat (length xbs) | None => 0 end) 0 (match bi with Some _ => false | None => true end)) + N.of_nat (length xbs)).
  { destruct bi; [intros _; cbn; lia|discriminate]. }
  specialize (Hrb Hcnt HF Hpar Hgd ltac:(lia) ltac:(lia) otail).
  destruct bi; cbn [rev app] in Hrb;
    (destruct (run (read_blocks g g _ []) _) as [[r|e] rest'] eqn:E; cbn [fst] in Hrb; [inversion Hrb; subst; reflexivity|discriminate]).
Qed.

(* the exporter's own output is the member of this family with a definite outer array, a definite type id, the canonical trees and an
   indefinite block array — so every other member reads to what the exporter's file reads to *)
Theorem exporter_output_in_family pre bs : bs <> [] -> typed_pre pre -> Forall typed_blk bs ->
  let xbs := map (fun b => tree_of Schema.Block (blk_val b)) bs in
  file_bytes pre bs = ser (file_item (Some W0) (IStr true W0 cdns_text) (tree_of FilePreamble pre) None xbs) /\
  tid_ok (IStr true W0 cdns_text) /\ enc_of FilePreamble (tree_of FilePreamble pre) pre /\
  Forall2 (fun xb b => enc_of Schema.Block xb (blk_val b)) xbs bs.
Proof.
  intros Hne Tp Tb xbs. split; [exact (proj1 (file_is_one_item pre bs Hne Tp Tb))|]. split; [left; exists W0; split; [reflexivity|cbn; lia]|].
  split; [apply (proj1 canonical_enc); auto; apply desc_ok_FilePreamble|].
  subst xbs. clear Hne. induction Tb as [|b bs Hb _ IH]; cbn [map]; [constructor|]. constructor; [|exact IH].
  apply (proj1 canonical_enc); auto; apply desc_ok_Block.
Qed.
