
type __ = Obj.t

val negb : bool -> bool

type nat =
| O
| S of nat

type ('a, 'b) sum =
| Inl of 'a
| Inr of 'b

val fst : ('a1 * 'a2) -> 'a1

val snd : ('a1 * 'a2) -> 'a2

val length : 'a1 list -> nat

val app : 'a1 list -> 'a1 list -> 'a1 list

type comparison =
| Eq
| Lt
| Gt

val compOpp : comparison -> comparison

val add : nat -> nat -> nat

val eqb : bool -> bool -> bool

module Nat :
 sig
  val eqb : nat -> nat -> bool
 end

val nth : nat -> 'a1 list -> 'a1 -> 'a1

val nth_error : 'a1 list -> nat -> 'a1 option

val rev : 'a1 list -> 'a1 list

val rev_append : 'a1 list -> 'a1 list -> 'a1 list

val concat : 'a1 list list -> 'a1 list

val map : ('a1 -> 'a2) -> 'a1 list -> 'a2 list

val flat_map : ('a1 -> 'a2 list) -> 'a1 list -> 'a2 list

val fold_left : ('a1 -> 'a2 -> 'a1) -> 'a2 list -> 'a1 -> 'a1

val fold_right : ('a2 -> 'a1 -> 'a1) -> 'a1 -> 'a2 list -> 'a1

val existsb : ('a1 -> bool) -> 'a1 list -> bool

val forallb : ('a1 -> bool) -> 'a1 list -> bool

val firstn : nat -> 'a1 list -> 'a1 list

val skipn : nat -> 'a1 list -> 'a1 list

type positive =
| XI of positive
| XO of positive
| XH

type n =
| N0
| Npos of positive

type z =
| Z0
| Zpos of positive
| Zneg of positive

module Pos :
 sig
  type mask =
  | IsNul
  | IsPos of positive
  | IsNeg
 end

module Coq_Pos :
 sig
  val succ : positive -> positive

  val add : positive -> positive -> positive

  val add_carry : positive -> positive -> positive

  val pred_double : positive -> positive

  val pred_N : positive -> n

  type mask = Pos.mask =
  | IsNul
  | IsPos of positive
  | IsNeg

  val succ_double_mask : mask -> mask

  val double_mask : mask -> mask

  val double_pred_mask : positive -> mask

  val sub_mask : positive -> positive -> mask

  val sub_mask_carry : positive -> positive -> mask

  val mul : positive -> positive -> positive

  val iter : ('a1 -> 'a1) -> 'a1 -> positive -> 'a1

  val pow : positive -> positive -> positive

  val compare_cont : comparison -> positive -> positive -> comparison

  val compare : positive -> positive -> comparison

  val eqb : positive -> positive -> bool

  val coq_Nsucc_double : n -> n

  val coq_Ndouble : n -> n

  val coq_lor : positive -> positive -> positive

  val coq_land : positive -> positive -> n

  val testbit : positive -> n -> bool

  val iter_op : ('a1 -> 'a1 -> 'a1) -> positive -> 'a1 -> 'a1

  val to_nat : positive -> nat

  val of_succ_nat : nat -> positive
 end

module N :
 sig
  val succ_double : n -> n

  val double : n -> n

  val add : n -> n -> n

  val sub : n -> n -> n

  val mul : n -> n -> n

  val compare : n -> n -> comparison

  val eqb : n -> n -> bool

  val leb : n -> n -> bool

  val ltb : n -> n -> bool

  val min : n -> n -> n

  val div2 : n -> n

  val pow : n -> n -> n

  val pos_div_eucl : positive -> n -> n * n

  val div_eucl : n -> n -> n * n

  val modulo : n -> n -> n

  val coq_lor : n -> n -> n

  val coq_land : n -> n -> n

  val shiftr : n -> n -> n

  val testbit : n -> n -> bool

  val to_nat : n -> nat

  val of_nat : nat -> n
 end

module Z :
 sig
  val double : z -> z

  val succ_double : z -> z

  val pred_double : z -> z

  val pos_sub : positive -> positive -> z

  val add : z -> z -> z

  val opp : z -> z

  val pred : z -> z

  val sub : z -> z -> z

  val mul : z -> z -> z

  val compare : z -> z -> comparison

  val leb : z -> z -> bool

  val ltb : z -> z -> bool

  val eqb : z -> z -> bool

  val to_N : z -> n

  val of_N : n -> z

  val pos_div_eucl : positive -> z -> z * z

  val div_eucl : z -> z -> z * z

  val div : z -> z -> z

  val modulo : z -> z -> z

  val lnot : z -> z
 end

type err =
| EEnd
| EDec
| ERun
| EOut
| EFuel

type 'a prog =
| Ret of 'a
| Throw of err
| Next of (n -> 'a prog)
| Peek of (n -> 'a prog)
| Reserve of n * 'a prog

val bind : 'a1 prog -> ('a1 -> 'a2 prog) -> 'a2 prog

val run : 'a1 prog -> n list -> ('a1, err) sum * n list

val frev : 'a1 list -> 'a1 list

val two64 : n

val two63 : n

type major =
| MU
| MN
| MB
| MT
| MA
| MM
| MTag
| M7

val mcode : major -> n

val bUFFER_SIZE : n

val t_UNSIGNED : n

val t_NEGATIVE : n

val t_BYTES : n

val t_TEXT : n

val t_ARRAY : n

val t_MAP : n

val t_SIMPLE : n

type enc = { buf : n list; chunks : n list list }

val enc_init : enc

val avail : enc -> n

val stream : enc -> n list

val flush : enc -> enc

val byte : n -> n

val write_int : n -> n -> n -> n list

val put : enc -> n list -> enc

val op_int : n -> n -> n -> enc -> enc * n

val op_fixed : n -> enc -> enc * n

val write_array_start : n -> enc -> enc * n

val write_map_start : n -> enc -> enc * n

val write_indef_array_start : enc -> enc * n

val write_indef_map_start : enc -> enc * n

val write_break : enc -> enc * n

val write_bool : bool -> enc -> enc * n

val write_u8 : n -> enc -> enc * n

val write_u16 : n -> enc -> enc * n

val write_u32 : n -> enc -> enc * n

val write_u64 : n -> enc -> enc * n

val op_sint : n -> z -> enc -> enc * n

val write_i8 : z -> enc -> enc * n

val write_i16 : z -> enc -> enc * n

val write_i32 : z -> enc -> enc * n

val write_i64 : z -> enc -> enc * n

val write_string : nat -> enc -> n list -> enc

val op_string : n -> n list -> enc -> enc * n

val write_bytestring : n list -> enc -> enc * n

val write_textstring : n list -> enc -> enc * n

type eop =
| OArr of n
| OIndefArr
| OMap of n
| OIndefMap
| OBytes of n list
| OText of n list
| OBreak
| OBool of bool
| OU8 of n
| OU16 of n
| OU32 of n
| OU64 of n
| OI8 of z
| OI16 of z
| OI32 of z
| OI64 of z

val estep : enc -> eop -> enc * n

val eruns : enc -> eop list -> enc * n list

val m64 : z

val m63 : z

val i64MAX : z

val to_i64 : z -> z

val in_i64 : z -> bool

type 'a tres =
| TOk of 'a
| TThrow
| TUB

type ts = { secs : z; ticks : z }

val total_ticks : ts -> z -> z

val get_time_offset : ts -> ts -> z -> z tres

val add_time_offset : ts -> z -> z -> ts tres

val ts_lt : ts -> ts -> bool

val ts_le : ts -> ts -> bool

type btime = { earliest : ts; nitems : nat; stored : ts list }

val bt_init : btime

type tev = { ev_ts : ts option; ev_store_time : bool; ev_filled : bool }

val bt_add : btime -> tev -> btime

val dEC_BUFFER_SIZE : n

val major_of : n -> major

val major_eqb : major -> major -> bool

val read_type : (major * n) prog

val peek_type : major option prog

val read_be : nat -> n -> n prog

val read_int : n -> n prog

val to_i0 : n -> z

val neg_of : n -> z

val bad_ai : n -> bool

val read_unsigned : n prog

val read_negative : z prog

val read_integer : z prog

val read_bool : bool prog

val read_break : unit prog

val read_bytes : nat -> n -> n list -> n list prog

val reserve_req : n -> n

val read_chunks : major -> nat -> nat -> n list -> n list prog

val read_string : major -> nat -> n -> bool -> n list prog

val read_xstring : major -> nat -> n list prog

val read_bytestring : nat -> n list prog

val read_textstring : nat -> n list prog

val read_xstart : major -> (n * bool) prog

val read_array_start : (n * bool) prog

val read_map_start : (n * bool) prog

val loop_n : unit prog -> nat -> n -> unit prog

val loop_indef : unit prog -> nat -> unit prog

val skip : nat -> nat -> unit prog

val skip_item : nat -> unit prog

type phys = { win : n list; rest : n list; eof : bool }

val ended : phys -> phys

val refill : n -> phys -> phys option

val ensure : n -> phys -> phys option

val run_phys : n -> 'a1 prog -> phys -> ('a1, err) sum * phys

val logical : phys -> n list

val phys_init : n list -> phys

type presence =
| Mand
| MandNE
| Always
| Opt
| NonEmpty

type ty =
| TU of n
| TI
| TBool
| TText
| TBytes
| TTime
| TArr of ty
| TIdx
| TMap of bool * fields
and fields =
| FNil
| FCons of z * presence * ty * fields

type val0 =
| VN of n
| VZ of z
| VB of bool
| VS of n list
| VL of val0 list
| VR of val0 option list

val op_uint : n -> n -> eop

val op_key : bool -> z -> eop

val present : presence -> val0 option -> bool

val count_present : fields -> val0 option list -> n

val write_val : ty -> val0 -> eop list

val write_fields : bool -> fields -> val0 option list -> eop list

type has_ty = __

val read_time : val0 prog

val arr_loop : val0 prog -> nat -> n -> bool -> val0 list -> val0 list prog

val read_arr : val0 prog -> nat -> val0 prog

val read_idx : nat -> val0 prog

val set_nth : nat -> 'a1 -> 'a1 list -> 'a1 list

val init_rec : fields -> val0 option list

val mand_ok : fields -> val0 option list -> bool

val zero_of : ty -> val0

val fill_always : fields -> val0 option list -> val0 option list

val map_loop :
  (z -> (nat * val0 prog) option) -> unit prog -> nat -> n -> bool -> val0
  option list -> val0 option list prog

val read_val : nat -> ty -> val0 prog

val find_field : nat -> fields -> nat -> z -> (nat * val0 prog) option

val u8 : ty

val u16 : ty

val u32 : ty

val u64 : ty

val mk_fields : ((z * presence) * ty) list -> fields

val s_ : ((z * presence) * ty) list -> ty

val storageHints : ty

val storageParameters : ty

val collectionParameters : ty

val blockParameters : ty

val filePreamble : ty

val classType : ty

val queryResponseSignature : ty

val question : ty

val rR : ty

val malformedMessageData : ty

val responseProcessingData : ty

val queryResponseExtended : ty

val blockPreamble : ty

val blockStatistics : ty

val queryResponse : ty

val addressEventCount : ty

val malformedMessage : ty

val blockTables : ty

val block : ty

val write_struct : ty -> val0 -> n list * n

val list_eqb : ('a1 -> 'a1 -> bool) -> 'a1 list -> 'a1 list -> bool

val val_eqb : val0 -> val0 -> bool

val tfind_from : n -> val0 list -> val0 -> n option

val tfind : val0 list -> val0 -> n option

val tadd : val0 list -> val0 -> val0 list * n

type tid =
| T_ip
| T_ct
| T_nr
| T_sig
| T_qlist
| T_qrr
| T_rrlist
| T_rr
| T_mmd

type tables = { t_ip : val0 list; t_ct : val0 list; t_nr : val0 list;
                t_sig : val0 list; t_qlist : val0 list; t_qrr : val0 list;
                t_rrlist : val0 list; t_rr : val0 list; t_mmd : val0 list }

val tables_empty : tables

val tget : tables -> tid -> val0 list

val tset : tables -> tid -> val0 list -> tables

val add_to : tables -> tid -> val0 -> tables * n

val via : tables -> tid -> val0 option -> tables * val0 option

type bparams = { bp_tps : n; bp_max : n; h_qr : n; h_sig : n; h_rr : 
                 n; h_other : n }

val nth_o : val0 option list -> nat -> val0 option

val vn : val0 option -> n

val bp_of_val : val0 -> bparams

val bit : n -> n -> val0 option -> val0 option

val filled : val0 option list -> bool

type blk = { b_earliest : ts; b_bpi : n; b_bp : bparams;
             b_stats : val0 option; b_tb : tables; b_qrs : val0 list;
             b_aecs : (val0 * n) list; b_mms : val0 list }

val ts0 : ts

val blk_new : bparams -> n -> blk

val blk_clear : blk -> blk

val item_count : blk -> n

val blk_full : blk -> bool

val blk_set_bp : blk -> bparams -> n -> blk * bool

val ts_of_val : val0 -> ts option

val upd_earliest : blk -> val0 option -> ts

val with_stats : val0 option -> val0 option -> val0 option

val rr_name : val0 -> val0 option

val rr_ct : val0 -> val0 option

val rr_ttl : val0 -> val0 option

val rr_rdata : val0 -> val0 option

val oval : val0 option -> val0

val add_questions : tables -> val0 list -> val0 list -> tables * val0 list

val add_generic_qlist : tables -> val0 list -> tables * n

val add_rrs : n -> tables -> val0 list -> val0 list -> tables * val0 list

val add_generic_rrlist : n -> tables -> val0 list -> tables * n

val section : val0 option -> val0 list option

val via_qlist : tables -> n -> n -> val0 option -> tables * val0 option

val via_rrlist : n -> tables -> n -> n -> val0 option -> tables * val0 option

val build_qr :
  bparams -> val0 option list -> tables -> tables * val0 option list

val add_qr : val0 option list -> val0 option -> blk -> blk * bool

val aec_bump : (val0 * n) list -> val0 -> (val0 * n) list

val add_aec : val0 option list -> val0 option -> blk -> blk * bool

val build_mm : val0 option list -> tables -> tables * val0 option list

val add_mm : val0 option list -> val0 option -> blk -> blk * bool

val add_qr_item : val0 option list -> val0 option -> blk -> blk * bool

val add_mm_item : val0 option list -> val0 option -> blk -> blk * bool

val add_aec_item : val0 option list -> val0 option -> blk -> blk * bool

val to_u64 : z -> n

val offset_val : ts -> n -> val0 -> val0

val conv_item : ts -> n -> val0 -> val0

val aec_val : (val0 * n) -> val0

val ne_list : val0 list -> val0 option

val tables_val : tables -> val0 option

val ts_val : ts -> val0

val blk_val : blk -> val0

type exporter = { x_major : val0 option; x_minor : val0 option;
                  x_private : val0 option; x_params : val0 list; x_blk : 
                  blk; x_active : n; x_written : n; x_enc : enc;
                  x_closed : n list list; x_done : blk list }

val preamble_val : exporter -> val0

val nth_bp : val0 list -> n -> bparams

val x_new : val0 -> exporter

val enc_run : enc -> eop list -> enc * n

val cdns_text : n list

val header_ops : exporter -> eop list

val with_enc : exporter -> enc -> n -> exporter

val with_blk : exporter -> blk -> exporter

val write_block_ext : exporter -> blk -> exporter * n

val write_block : exporter -> exporter * n

val buffer : (blk -> blk * bool) -> exporter -> exporter * n

val buffer_qr : val0 option list -> val0 option -> exporter -> exporter * n

val buffer_aec : val0 option list -> val0 option -> exporter -> exporter * n

val buffer_mm : val0 option list -> val0 option -> exporter -> exporter * n

val rotate : bool -> exporter -> exporter * n

val destroy : exporter -> n list

val add_block_parameters : val0 -> exporter -> exporter * n

val set_active : n -> exporter -> exporter * bool

val upper : n -> n

val read_file_header : nat -> (val0 * (n * bool)) prog

type rblock = { r_earliest : val0; r_bpi : val0 option; r_bp : bparams;
                r_stats : val0 option; r_tables : val0 option list;
                r_qrs : val0 list; r_aecs : (val0 * n) list; r_mms : 
                val0 list }

val params_of : val0 -> val0 list

val resolve_time : ts -> n -> val0 -> val0 option

val resolve_all : ts -> n -> val0 list -> val0 list option

val aec_merge : (val0 * n) list -> val0 -> n -> (val0 * n) list

val aec_key : val0 -> val0 * n

val lst : val0 option -> val0 list

val block_of_val : val0 list -> val0 -> rblock prog

val read_block_body : nat -> val0 list -> rblock prog

type rstate = { rs_pre : val0; rs_count : n; rs_read : n; rs_indef : bool }

val reader_open : nat -> rstate prog

val reader_next : nat -> rstate -> (rblock option * rstate) prog

val read_blocks : nat -> nat -> rstate -> rblock list -> rblock list prog

val read_file : nat -> (val0 * rblock list) prog

val tl_get : val0 option list -> nat -> val0 option -> val0 option option

val obind : 'a1 option -> ('a1 -> 'a2 option) -> 'a2 option

val fields_of : val0 option -> val0 option list

val gen_qs : val0 option list -> val0 list -> val0 list option

val gen_rrs : val0 option list -> val0 list -> val0 list option

val gen_qlist : val0 option list -> val0 option -> val0 option option

val gen_rrlist : val0 option list -> val0 option -> val0 option option

val gen_qr : val0 option list -> val0 -> val0 option

val gen_aec : val0 option list -> (val0 * n) -> val0 option

val gen_mm : val0 option list -> val0 -> val0 option

type xop =
| XQr of val0 option list * val0 option
| XAec of val0 option list * val0 option
| XMm of val0 option list * val0 option
| XWb
| XRot of bool
| XAddBp of val0
| XSetBp of n

val xstep : exporter -> xop -> exporter * n

val xrun : exporter -> xop list -> exporter

val tbs_of_tables : tables -> val0 option list

val tables_of_tbs : val0 option list -> tables

val blk_of_rb : rblock -> blk

type path =
| Part of n
| Final of n
| Fd of n

type event =
| EOpen of path
| EWrite of path * n list
| EClose of path
| ERename of n

type wop =
| WWrite of n list
| WRotate of n

val named_step : n -> wop -> n * event list

val named_destroy : n -> event list

val fd_step : n -> wop -> n * event list

val fd_destroy : n -> event list

val run_steps :
  (n -> wop -> n * event list) -> (n -> event list) -> n -> wop list -> bool
  -> event list

val named_trace : n -> wop list -> bool -> event list

val fd_trace : n -> wop list -> bool -> event list

val outputs_of : n -> n list -> wop list -> bool -> (n * n list) list

val czip :
  'a1 -> ('a1 -> n list -> 'a1 * n list) -> ('a1 -> n list) -> 'a1 -> wop
  list -> bool -> wop list

type wcall =
| CWrite of n list
| CRotate of n

type outcome =
| Done
| Threw

type fout = { stored0 : n list; intended : n list; room : n }

val fout_new : n -> fout

val fd_write : fout -> n list -> fout * outcome

type nout = { n_out : fout; n_bad : bool }

val named_write : nout -> n list -> nout * outcome

val fd_calls : fout -> wcall list -> (fout list * fout) * outcome list

val named_calls : nout -> wcall list -> (fout list * fout) * outcome list

val lost : fout -> bool

val enc_rotate_fd : fout -> n list -> n -> (fout * n list) * outcome

type minput =
| MBad of n
| MFile of n * val0 * rblock list

val oval_eqb : val0 option -> val0 option -> bool

val version_of : val0 -> (val0 option * val0 option) * val0 option

val same_version : val0 -> val0 -> bool

type pass1 = { p_pre : val0 option; p_params : val0 list; p_off : (n * n) list }

val p1_step : pass1 -> minput -> pass1

val run_pass1 : minput list -> pass1

val lookup_off : (n * n) list -> n -> n option

val default_preamble : val0

val merged_preamble : pass1 -> val0

val remap : n -> rblock -> blk

val p2_step : (n * n) list -> exporter -> minput -> exporter

val merge_run : minput list -> exporter

val merge_bytes : minput list -> n list

val count_triple : rblock -> (n * n) * n

val itemcount_blocks : rblock list -> ((n * n) * n) list

val itemcount_total : rblock list -> (n * n) * n

val exp_q : val0 -> val0

val exp_rr : n -> val0 -> val0

val exp_qsec : n -> n -> val0 option -> val0 option

val exp_rrsec : n -> n -> n -> val0 option -> val0 option

val sigb : bparams -> n -> val0 option -> val0 option

val exp_qr : bparams -> val0 option list -> val0 option list

val exp_mm : val0 option list -> val0 option list

val exp_aec : val0 option list -> n -> val0

val tps_of : blk -> z

val new_qr : bparams -> val0 option list -> val0 list

val new_mm : bparams -> val0 option list -> val0 list

val log_qr : exporter -> xop list -> val0 list

val log_mm : exporter -> xop list -> val0 list

val has_tyb : ty -> val0 -> bool

val fields_tyb : bool -> fields -> val0 option list -> bool

val typed_blkb : blk -> bool

val typed_xb : exporter -> bool

val good_timeb : z -> val0 option -> bool

val hn_next : exporter -> n -> n

val adm1b : exporter -> n -> xop -> bool

val admb : exporter -> n -> xop list -> bool

val dkey : val0 option list -> val0 option list

val oval_eqb0 : val0 option -> val0 option -> bool

val okey_eqb : val0 option list -> val0 option list -> bool

val dec_count : val0 option list -> val0 option -> n

val dec_total : val0 option list -> val0 option list -> n

val new_aec : bparams -> val0 option list -> val0 option list -> n

val log_aec : exporter -> xop list -> val0 option list -> n

val log_aec_keys : exporter -> xop list -> val0 option list list

val count_key : val0 option list -> val0 option list list -> n

val qr_guard : bparams -> nat -> bool

val nonempty : blk -> bool

val pass2_blocks : (n * n) list -> minput list -> blk list

val rate_okb : z -> bool

val instantz : ts -> z -> z

val normalisedb : ts -> z -> bool

val ts_okb : ts -> z -> bool

val item_time_okb : ts -> z -> val0 -> bool

val time_invb : blk -> bool

val aec_shapeb : val0 -> bool

val nodup_valb : val0 list -> bool

val aec_invb : (val0 * n) list -> bool

val good_blkb : blk -> bool

val bparams_eqb : bparams -> bparams -> bool

val blk_params_okb : val0 list -> blk -> bool

val merge_okb : minput list -> bool
