(* Properties_C09.v — C09: file preamble and block parameters survive write -> read unchanged.
   [FilePreamble] (Schema.v) describes FilePreamble / BlockParameters / StorageParameters / StorageHints /
   CollectionParameters; [has_ty FilePreamble v] ranges over every preamble an application can construct:
   versions 0..255, private version present or absent, one or more parameter sets, every optional subset,
   integers over the whole range of their declared width, arbitrary opcode / RR-type lists and strings,
   collection parameters absent, present-but-empty, partial or full.  Only statements live here. *)
Require Import Base Cbor EncoderModel DecoderModel DecoderProofs Schema SchemaProofs.
Local Open Scope N_scope.

Definition all_descriptors : list ty :=
  [StorageHints; StorageParameters; CollectionParameters; BlockParameters; FilePreamble; ClassType;
   QueryResponseSignature; Question; RR; MalformedMessageData; ResponseProcessingData; QueryResponseExtended;
   BlockPreamble; BlockStatistics; QueryResponse; AddressEventCount; MalformedMessage; BlockTables; Block; TTime; TIdx].

(* the side conditions of the generic lemmas hold for the concrete descriptors: keys pairwise distinct within
   every map, at every nesting level *)
Theorem C09_descriptors_ok : forallb desc_ok all_descriptors = true.
Proof. vm_compute. reflexivity. Qed.
Print Assumptions C09_descriptors_ok.

(* what the library writes for a preamble (through the real encoder model: staging buffer, flushes) is read
   back member for member equal, absent members absent, present-but-empty members present, same indices;
   whatever follows the preamble in the file is left untouched *)
Theorem C09_roundtrip : forall v g rest, has_ty FilePreamble v ->
  (length (fst (write_struct FilePreamble v)) <= g)%nat ->
  run (read_val g FilePreamble) (fst (write_struct FilePreamble v) ++ rest) = (inl v, rest).
Proof.
  intros v g rest Ht Hg.
  assert (Hd : desc_ok FilePreamble = true) by (vm_compute; reflexivity).
  rewrite (write_struct_spec _ _ Hd Ht) in *. cbn [fst] in *. apply (proj1 read_roundtrip); auto.
Qed.
Print Assumptions C09_roundtrip.

(* the same for every structure of the format *)
Theorem C09_roundtrip_any : forall t, In t all_descriptors -> forall v g rest, has_ty t v ->
  (length (fst (write_struct t v)) <= g)%nat ->
  run (read_val g t) (fst (write_struct t v) ++ rest) = (inl v, rest).
Proof.
  intros t Hin v g rest Ht Hg.
  assert (Hd : desc_ok t = true).
  { pose proof C09_descriptors_ok as H. rewrite forallb_forall in H. apply H. exact Hin. }
  rewrite (write_struct_spec _ _ Hd Ht) in *. cbn [fst] in *. apply (proj1 read_roundtrip); auto.
Qed.
Print Assumptions C09_roundtrip_any.

(* and through the physical decoder, wherever the preamble lies relative to the window *)
Theorem C09_roundtrip_phys : forall B v g s rest, 0 < B -> has_ty FilePreamble v -> phys_inv B s ->
  logical s = fst (write_struct FilePreamble v) ++ rest ->
  (length (fst (write_struct FilePreamble v)) <= g)%nat ->
  fst (run_phys B (read_val g FilePreamble) s) = inl v /\ logical (snd (run_phys B (read_val g FilePreamble) s)) = rest.
Proof.
  intros B v g s rest HB Ht Hi Hl Hg.
  pose proof (phys_refines B HB (read_val g FilePreamble) s Hi) as H.
  destruct (run_phys B (read_val g FilePreamble) s) as [res s']. destruct H as [H _].
  rewrite Hl, C09_roundtrip in H by auto. inversion H; subst. split; reflexivity.
Qed.
Print Assumptions C09_roundtrip_phys.

(* non-vacuity: a preamble without private version whose second parameter set has present-but-empty collection
   parameters is well typed, and the round trip computes *)
Definition ex_sp : val :=
  VR [Some (VN 1000000); Some (VN 10000); Some (VR [Some (VN 5); Some (VN 4294967295); Some (VN 3); Some (VN 0)]);
      Some (VL [VN 0; VN 255]); Some (VL [VN 1; VN 65535]); None; Some (VN 24); None; None; None; Some (VS [104; 105]); None].
Definition ex_preamble : val :=
  VR [Some (VN 1); Some (VN 0); None;
      Some (VL [VR [Some ex_sp; None];
                VR [Some ex_sp; Some (VR [None; None; None; None; Some (VL []); Some (VL []); Some (VL []); None; None; None])]])].
Example C09_nonvacuous :
  has_ty FilePreamble ex_preamble /\
  run (read_val 200 FilePreamble) (fst (write_struct FilePreamble ex_preamble) ++ [159]) = (inl ex_preamble, [159]).
Proof.
  split.
  - cbn. unfold bytes_ok, two64. repeat split; try lia; try discriminate; repeat constructor; unfold byte_ok; lia.
  - vm_compute. reflexivity.
Qed.
