(* EncoderModel.v — executable model of src/cdns_encoder.{h,cpp} (class CDNS::CdnsEncoder).
   State: the staging buffer (BUFFER_SIZE bytes, [buf] = bytes m_buffer[0 .. m_p)) and the chunks
   already handed to the output writer (newest first).  Every public write operation is modelled
   with the same control flow as the C++: the "flush when fewer than N bytes are free" guard,
   write_int's size ladder with its "does it fit" tests (returning 0 bytes when it does not),
   update_buffer, and write_string's copy-across-flushes loop.  No proofs here. *)
Require Import Base.
Local Open Scope N_scope.

Definition BUFFER_SIZE : N := 2048.          (* CdnsEncoder::BUFFER_SIZE; value re-checked against the source by the translator *)

(* CborType enumerators (format_specification.h) *)
Definition T_UNSIGNED : N := 0.
Definition T_NEGATIVE : N := 32.
Definition T_BYTES    : N := 64.
Definition T_TEXT     : N := 96.
Definition T_ARRAY    : N := 128.
Definition T_MAP      : N := 160.
Definition T_TAG      : N := 192.
Definition T_SIMPLE   : N := 224.
Definition T_BREAK    : N := 255.

Record enc := mkEnc { buf : list N; chunks : list (list N) }.

Definition enc_init : enc := mkEnc [] [].
Definition avail (e : enc) : N := BUFFER_SIZE - N.of_nat (length (buf e)).
Definition stream (e : enc) : list N := concat (rev (chunks e)) ++ buf e.

(* flush_buffer(): if (m_p != m_buffer) { m_cos->write(m_buffer, m_p - m_buffer); reset } *)
Definition flush (e : enc) : enc :=
  match buf e with
  | [] => e
  | _ => mkEnc [] (buf e :: chunks e)
  end.

Definition byte (v : N) : N := v mod 256.     (* store into unsigned char *)

(* write_int(value, major): bytes stored at m_p, [] when the encoding does not fit (return 0) *)
Definition write_int (av : N) (value major : N) : list N :=
  if value <=? 23 then
    (if 1 <=? av then [N.lor major value] else [])
  else if value <=? 255 then
    (if 2 <=? av then [N.lor major 24; byte value] else [])
  else if value <=? 65535 then
    (if 3 <=? av then [N.lor major 25; byte (N.shiftr value 8); byte value] else [])
  else if value <=? 4294967295 then
    (if 5 <=? av then [N.lor major 26; byte (N.shiftr value 24); byte (N.shiftr value 16);
                       byte (N.shiftr value 8); byte value] else [])
  else
    (if 9 <=? av then [N.lor major 27; byte (N.shiftr value 56); byte (N.shiftr value 48);
                       byte (N.shiftr value 40); byte (N.shiftr value 32); byte (N.shiftr value 24);
                       byte (N.shiftr value 16); byte (N.shiftr value 8); byte value] else []).

(* update_buffer after storing [bs] at m_p *)
Definition put (e : enc) (bs : list N) : enc := mkEnc (buf e ++ bs) (chunks e).

(* common shape: if (m_avail < need) flush_buffer(); written = write_int(v, major); update_buffer(written) *)
Definition op_int (need : N) (major v : N) (e : enc) : enc * N :=
  let e1 := if avail e <? need then flush e else e in
  let bs := write_int (avail e1) v major in
  (put e1 bs, N.of_nat (length bs)).

(* write_indef_array_start / write_indef_map_start / write_break *)
Definition op_fixed (b : N) (e : enc) : enc * N :=
  let e1 := if avail e <? 1 then flush e else e in
  if avail e1 <? 1 then (e1, 0) else (put e1 [b], 1).

Definition write_array_start (n : N) := op_int 9 T_ARRAY n.
Definition write_map_start (n : N) := op_int 9 T_MAP n.
Definition write_indef_array_start := op_fixed (N.lor T_ARRAY 31).
Definition write_indef_map_start := op_fixed (N.lor T_MAP 31).
Definition write_break := op_fixed (N.lor T_SIMPLE 31).
Definition write_bool (b : bool) := op_int 1 T_SIMPLE (if b then 21 else 20).
Definition write_u8 (v : N) := op_int 2 T_UNSIGNED v.
Definition write_u16 (v : N) := op_int 3 T_UNSIGNED v.
Definition write_u32 (v : N) := op_int 5 T_UNSIGNED v.
Definition write_u64 (v : N) := op_int 9 T_UNSIGNED v.

(* signed overloads: if (value < 0) write_int(~value, NEGATIVE) else write_int(value, UNSIGNED) *)
Definition op_sint (need : N) (z : Z) (e : enc) : enc * N :=
  if (z <? 0)%Z then op_int need T_NEGATIVE (Z.to_N (Z.lnot z)) e
  else op_int need T_UNSIGNED (Z.to_N z) e.
Definition write_i8 := op_sint 2.
Definition write_i16 := op_sint 3.
Definition write_i32 := op_sint 5.
Definition write_i64 := op_sint 9.

(* write_string(str, size): while (m_avail < size_left) { memcpy m_avail bytes; flush } memcpy rest *)
Fixpoint write_string (fuel : nat) (e : enc) (bs : list N) : enc :=
  match fuel with
  | O => e                                                  (* unreachable for fuel > |bs| + 1 *)
  | S f =>
    let av := N.to_nat (avail e) in
    if (N.of_nat (length bs) <=? avail e) then put e bs
    else write_string f (flush (put e (firstn av bs))) (skipn av bs)
  end.

Definition op_string (major : N) (bs : list N) (e : enc) : enc * N :=
  let e1 := if avail e <? 9 then flush e else e in
  let hd := write_int (avail e1) (N.of_nat (length bs)) major in
  let e2 := put e1 hd in
  (write_string (S (S (length bs))) e2 bs, N.of_nat (length hd) + N.of_nat (length bs)).

Definition write_bytestring := op_string T_BYTES.
Definition write_textstring := op_string T_TEXT.

(* ---- the 18 public write operations as one alphabet (overloads counted):
   array_start, indef_array_start, map_start, indef_map_start, bytestring(ptr,len), bytestring(string),
   textstring(ptr,len), textstring(string), break, bool, u8, u16, u32, u64, i8, i16, i32, i64.
   The two std::string overloads forward to the pointer ones, so they share a constructor. ---- *)
Inductive eop :=
| OArr (n : N) | OIndefArr | OMap (n : N) | OIndefMap
| OBytes (bs : list N) | OText (bs : list N) | OBreak | OBool (b : bool)
| OU8 (v : N) | OU16 (v : N) | OU32 (v : N) | OU64 (v : N)
| OI8 (z : Z) | OI16 (z : Z) | OI32 (z : Z) | OI64 (z : Z).

Definition estep (e : enc) (o : eop) : enc * N :=
  match o with
  | OArr n => write_array_start n e
  | OIndefArr => write_indef_array_start e
  | OMap n => write_map_start n e
  | OIndefMap => write_indef_map_start e
  | OBytes bs => write_bytestring bs e
  | OText bs => write_textstring bs e
  | OBreak => write_break e
  | OBool b => write_bool b e
  | OU8 v => write_u8 v e
  | OU16 v => write_u16 v e
  | OU32 v => write_u32 v e
  | OU64 v => write_u64 v e
  | OI8 z => write_i8 z e
  | OI16 z => write_i16 z e
  | OI32 z => write_i32 z e
  | OI64 z => write_i64 z e
  end.

(* run a call sequence, collecting the return values *)
Fixpoint eruns (e : enc) (ops : list eop) : enc * list N :=
  match ops with
  | [] => (e, [])
  | o :: os => let '(e1, r) := estep e o in
               let '(e2, rs) := eruns e1 os in (e2, r :: rs)
  end.
