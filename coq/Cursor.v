(* Cursor.v — a CdnsBlockRead object as its accessors see it: three containers (query/responses, malformed messages: vectors; address
   event counts: a node-based hash map) and three reading cursors (two indices, one iterator into the map). Executable, no proofs.

   An index is always checked against the vector's size before use (read_generic_qr / _mm), so only the ITERATOR can dangle: it refers to
   a node of the map, and clear() / assignment of the block destroy all nodes. The model numbers the map's generations: `gen` is bumped by
   everything that destroys the nodes, and the iterator remembers the generation it was taken from (`c_gen`). read_generic_aec() compares
   the iterator with end() and dereferences it: defined behaviour exactly when c_gen = gen.
   (Modelling choice, stated in DESIGN.md: insertions do not invalidate the iterator - true of the node-based maps of libstdc++ / libc++,
   where an iterator is a node pointer; the standard is stricter about rehashing. The sanitizer runs see the real library.)

   The statements of read() and of operator= are not written here: they are regenerated from the code on every run (Gen_cursors.v,
   translator/cursors.py) as lists of step names, and `exec` below gives each step its meaning. *)
Require Import String List Arith Bool. Import ListNotations.

Inductive step := Work | Local | Destroy | RwQr | RwAec | RwMm.
Definition step_of (s : string) : option step :=
  if String.eqb s "work" then Some Work else if String.eqb s "local" then Some Local else if String.eqb s "destroy" then Some Destroy
  else if String.eqb s "rw_qr" then Some RwQr else if String.eqb s "rw_aec" then Some RwAec else if String.eqb s "rw_mm" then Some RwMm else None.
(* an unknown step name is the most hostile step there is: it destroys the nodes *)
Definition steps_of (l : list string) : list step := map (fun s => match step_of s with Some x => x | None => Destroy end) l.

Record obj := mkObj { n_qr : nat; n_aec : nat; n_mm : nat; gen : nat; c_qr : nat; c_aec : nat; c_gen : nat; c_mm : nat }.
(* a default-constructed object: empty containers, a value-initialised iterator (= end() of the empty map in the libraries above) *)
Definition obj0 : obj := mkObj 0 0 0 0 0 0 0 0.

(* what a `work` statement did before it finished or threw: items added to the three containers *)
Record effect := mkEff { e_qr : nat; e_aec : nat; e_mm : nat; e_throws : bool }.

Definition do_step (o : obj) (s : step) (e : effect) : obj :=
  match s with
  | Work => mkObj (n_qr o + e_qr e) (n_aec o + e_aec e) (n_mm o + e_mm e) (gen o) (c_qr o) (c_aec o) (c_gen o) (c_mm o)
  | Local => o
  | Destroy => mkObj 0 0 0 (S (gen o)) (c_qr o) (c_aec o) (c_gen o) (c_mm o)
  | RwQr => mkObj (n_qr o) (n_aec o) (n_mm o) (gen o) 0 (c_aec o) (c_gen o) (c_mm o)
  | RwAec => mkObj (n_qr o) (n_aec o) (n_mm o) (gen o) (c_qr o) 0 (gen o) (c_mm o)
  | RwMm => mkObj (n_qr o) (n_aec o) (n_mm o) (gen o) (c_qr o) (c_aec o) (c_gen o) 0
  end.

(* run a statement list; each `work` statement consumes one effect (none left: it does nothing and completes); a throw ends the run.
   Result: the object and whether the run completed. *)
Fixpoint exec (l : list step) (es : list effect) (o : obj) : obj * bool :=
  match l with
  | [] => (o, true)
  | Work :: r => match es with
                 | [] => exec r [] o
                 | e :: es' => if e_throws e then (do_step o Work e, false) else exec r es' (do_step o Work e)
                 end
  | s :: r => exec r es (do_step o s (mkEff 0 0 0 false))
  end.

(* the accessors: an index is compared with the size first; the iterator is compared with end() and dereferenced *)
Definition next_qr (o : obj) : obj := if c_qr o <? n_qr o then mkObj (n_qr o) (n_aec o) (n_mm o) (gen o) (S (c_qr o)) (c_aec o) (c_gen o) (c_mm o) else o.
Definition next_mm (o : obj) : obj := if c_mm o <? n_mm o then mkObj (n_qr o) (n_aec o) (n_mm o) (gen o) (c_qr o) (c_aec o) (c_gen o) (S (c_mm o)) else o.
Definition next_aec (o : obj) : obj := if c_aec o <? n_aec o then mkObj (n_qr o) (n_aec o) (n_mm o) (gen o) (c_qr o) (S (c_aec o)) (c_gen o) (c_mm o) else o.
(* read_generic_aec() is defined behaviour on o exactly when the iterator belongs to the map as it is now *)
Definition aec_defined (o : obj) : bool := (c_gen o =? gen o) && (c_aec o <=? n_aec o).

Inductive oop := ORead (es : list effect) | OAssign (es : list effect) | ONextQr | ONextAec | ONextMm.
Section Object.
  Variables rd asg : list step.
  Definition ostep (o : obj) (p : oop) : obj :=
    match p with
    | ORead es => fst (exec rd es o)
    | OAssign es => fst (exec asg es o)
    | ONextQr => next_qr o | ONextAec => next_aec o | ONextMm => next_mm o
    end.
  Definition orun (ps : list oop) : obj := fold_left ostep ps obj0.
End Object.

(* the decidable condition on a statement list: whenever the nodes have been destroyed, the iterator is rewound before the next statement
   that can throw and before the end *)
Fixpoint steps_ok (dirty : bool) (l : list step) : bool :=
  match l with
  | [] => negb dirty
  | Destroy :: r => steps_ok true r
  | RwAec :: r => steps_ok false r
  | Work :: r => negb dirty && steps_ok dirty r
  | _ :: r => steps_ok dirty r
  end.
(* ... and a run that completes leaves all three cursors at the beginning: every cursor is rewound after the last `work` *)
Fixpoint rewound_after (q a m : bool) (l : list step) : bool :=
  match l with
  | [] => q && a && m
  | Work :: r => rewound_after false false false r
  | RwQr :: r => rewound_after true a m r
  | RwAec :: r => rewound_after q true m r
  | RwMm :: r => rewound_after q a true r
  | Destroy :: r => rewound_after q false m r
  | Local :: r => rewound_after q a m r
  end.
