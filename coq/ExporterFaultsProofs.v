(* ExporterFaultsProofs.v — C16 at the level of exporter histories: failures are reported, the failed block stays buffered, and after a
   transient failure rotation + write_block produce a complete file holding it; the known finding (persistent failure) as a theorem. *)
Require Import Base Cbor SpecEnc EncoderModel EncoderProofs DecoderModel Schema SchemaProofs Timestamp Block Exporter ExporterProofs Writer
               BlockRead FileProofs ExporterIO ExporterIOProofs ExporterFaults.
Local Open Scope N_scope.

(* ------------------------------------------------------------------------------------------------ reported *)
Definition reported (s : fx) : Prop :=
  (d_lost (f_cur s) = true -> f_threw s = true) /\ Forall (fun ot => d_lost (fst ot) = true -> snd ot = true) (f_closed s).

Lemma d_lost_app st it bs : d_lost (mkDout st it) = false -> d_lost (mkDout (st ++ bs) (it ++ bs)) = false.
Proof. unfold d_lost. cbn [d_stored d_intended]. rewrite !app_length. intros H. apply negb_false_iff in H. apply negb_false_iff. apply N.eqb_eq in H. apply N.eqb_eq. lia. Qed.

Lemma d_write_done os o bs os' o' : d_write os o bs = (os', o', Done) ->
  d_stored o' = d_stored o ++ bs /\ d_intended o' = d_intended o ++ bs.
Proof.
  unfold d_write. destruct (os_next os) as [a s']. destruct a as [n|].
  - destruct (N.of_nat (length bs) <=? n); intros H; inversion H; subst; split; reflexivity.
  - intros H; inversion H; subst; split; reflexivity.
Qed.

Lemma feed_done : forall cs os o j os' o', feed os o cs j = (os', o', None) ->
  d_stored o' = d_stored o ++ concat cs /\ d_intended o' = d_intended o ++ concat cs.
Proof.
  induction cs as [|c cs IH]; intros os o j os' o' H; cbn [feed concat] in *.
  - inversion H; subst. rewrite !app_nil_r. split; reflexivity.
  - destruct (d_write os o c) as [[s1 o1] oc] eqn:E. destruct oc; [|discriminate].
    apply d_write_done in E. destruct E as [E1 E2]. apply IH in H. destruct H as [H1 H2].
    rewrite H1, H2, E1, E2, <- !app_assoc. split; reflexivity.
Qed.

Lemma feed_keeps : forall cs os o j os' o', feed os o cs j = (os', o', None) -> d_lost o = false -> d_lost o' = false.
Proof.
  intros cs os o j os' o' H L. apply feed_done in H. destruct H as [H1 H2]. destruct o as [st it], o' as [st' it']. cbn [d_stored d_intended] in *. subst.
  apply d_lost_app. exact L.
Qed.

Lemma feed_flag cs os o os' o' r (t : bool) : feed os o cs 0 = (os', o', r) -> (d_lost o = true -> t = true) ->
  d_lost o' = true -> (match r with Some _ => true | None => t end) = true.
Proof.
  intros E Ht L. destruct r as [j|]; [reflexivity|]. destruct (d_lost o) eqn:L0; [auto|].
  rewrite (feed_keeps cs os o 0%nat os' o' E L0) in L. discriminate.
Qed.

Theorem fstep_reported s o : reported s -> reported (fst (fst (fstep s o))).
Proof.
  intros [Hc Hcl]. unfold fstep.
  assert (Hgen : forall x' r, reported (fst (fst (
      let cs := new_chunks (x_enc (f_x s)) (x_enc x') in
      match feed (f_os s) (f_cur s) cs 0 with
      | (os1, cur1, Some j) => (mkFx (set_enc (pre_write (f_x s) o) (enc_fail (x_enc (f_x s)) cs j)) os1 cur1 true (f_closed s), Threw, 0)
      | (os1, cur1, None) => (mkFx x' os1 cur1 (f_threw s) (f_closed s), Done, r)
      end)))).
  { intros x' r. cbv zeta. destruct (feed (f_os s) (f_cur s) (new_chunks (x_enc (f_x s)) (x_enc x')) 0) as [[os1 cur1] rr] eqn:E.
    pose proof (feed_flag _ _ _ _ _ _ (f_threw s) E Hc) as Hf.
    destruct rr as [j|]; cbn [fst f_cur f_threw f_closed]; split; auto. }
  destruct o as [gr st|ga st|gm st| |e|bp|i]; try (destruct (xstep (f_x s) _) as [x' r]; apply Hgen).
  cbv zeta. destruct (feed (f_os s) (f_cur s) _ 0) as [[os1 cur1] [j|]] eqn:E1; cbn [fst f_cur f_threw f_closed]; [split; auto|].
  destruct (feed os1 cur1 _ 0) as [[os2 cur2] [j|]] eqn:E2; cbn [fst f_cur f_threw f_closed]; [split; auto|].
  split; [intros L; discriminate|]. constructor; [|exact Hcl]. cbn [fst snd]. intros L.
  destruct (d_lost (f_cur s)) eqn:L0; [auto|]. rewrite (feed_keeps _ _ _ _ _ _ E2 (feed_keeps _ _ _ _ _ _ E1 L0)) in L. discriminate.
Qed.

Lemma frun_reported : forall ops s, reported s -> reported (fst (frun s ops)).
Proof.
  induction ops as [|o ops IH]; intros s R; cbn [frun fst]; [exact R|].
  pose proof (fstep_reported s o R) as R1. destruct (fstep s o) as [[s1 oc] n]. cbn [fst] in R1.
  specialize (IH s1 R1). destruct (frun s1 ops) as [s2 l]. exact IH.
Qed.

(* over every history and every behaviour of the operating system: an output that a rotation closed (returning normally) and that lost bytes
   had an API call that threw while it was open; and the open output likewise *)
Theorem faults_reported pre plan ops : reported (fst (frun (fx_new pre plan) ops)).
Proof. apply frun_reported. split; [discriminate|constructor]. Qed.

(* ------------------------------------------------------------------------------------------------ retained *)
Lemma new_chunks_same e : new_chunks e e = [].
Proof. unfold new_chunks. rewrite Nat.sub_diag. reflexivity. Qed.

(* an exception out of a buffering call or write_block(): everything but the staging buffer is as at the moment the call started to write -
   the block (with the record just submitted) is still buffered, nothing counts as written *)
Theorem fault_retains s o s1 n : (forall e, o <> XRot e) -> fstep s o = (s1, Threw, n) ->
  exists ef, f_x s1 = set_enc (pre_write (f_x s) o) ef /\ f_threw s1 = true /\ f_closed s1 = f_closed s.
Proof.
  intros Hn H. unfold fstep in H. destruct o as [gr st|ga st|gm st| |e|bp|i]; try (exfalso; eapply Hn; reflexivity);
    destruct (xstep (f_x s) _) as [x' r]; cbv zeta in H; destruct (feed _ _ _ _) as [[os1 cur1] [j|]]; inversion H; subst; eexists; repeat split; reflexivity.
Qed.

(* an exception out of rotate_output: the old output stays in place; either the buffered block is untouched (the exception came out of its
   write_block), or that write_block had completed and the exception came from the closing break / flush *)
Theorem fault_retains_rotation s e s1 n : fstep s (XRot e) = (s1, Threw, n) ->
  f_closed s1 = f_closed s /\ f_threw s1 = true /\
  exists ef, f_x s1 = set_enc (f_x s) ef \/ (e = true /\ f_x s1 = set_enc (fst (write_block (f_x s))) ef).
Proof.
  intros H. unfold fstep in H. cbv zeta in H.
  destruct (feed (f_os s) (f_cur s) _ 0) as [[os1 cur1] [j|]]; [inversion H; subst; repeat split; eexists; left; reflexivity|].
  destruct (feed os1 cur1 _ 0) as [[os2 cur2] [j|]]; [|inversion H].
  inversion H; subst. repeat split. destruct e; eexists; [right; split; reflexivity|left; reflexivity].
Qed.

(* ------------------------------------------------------------------------------------------------ recovery *)
(* the operating system accepts everything from now on *)
Definition healthy (s : os) : Prop := os_plan s = [] /\ os_rest s = None.

Lemma feed_healthy : forall cs os o j, healthy os -> feed os o cs j = (os, mkDout (d_stored o ++ concat cs) (d_intended o ++ concat cs), None).
Proof.
  induction cs as [|c cs IH]; intros os o j H; cbn [feed concat].
  - rewrite !app_nil_r. destruct o; reflexivity.
  - destruct H as [H1 H2]. unfold d_write, os_next. rewrite H1, H2. destruct os as [pl rs]. cbn [os_plan os_rest] in *. subst.
    rewrite IH by (split; reflexivity). cbn [d_stored d_intended]. rewrite <- !app_assoc. reflexivity.
Qed.

(* a call that threw was writing a block: the buffered block is not empty *)
Lemma threw_nonempty s o s1 n : (forall e, o <> XRot e) -> fstep s o = (s1, Threw, n) -> item_count (x_blk (pre_write (f_x s) o)) <> 0.
Proof.
  intros Hn H Hz. unfold fstep in H.
  assert (Hwb : forall y, item_count (x_blk y) = 0 -> x_enc (fst (write_block y)) = x_enc y).
  { intros y Hy. unfold write_block, write_block_ext. rewrite Hy. cbn [N.eqb]. destruct (blk_set_bp _ _ _). reflexivity. }
  assert (Hbuf : forall add, item_count (fst (add (x_blk (f_x s)))) = 0 -> x_enc (fst (buffer add (f_x s))) = x_enc (f_x s)).
  { intros add Hy. unfold buffer. destruct (add (x_blk (f_x s))) as [b' full]. cbn [fst] in Hy. destruct full; [|reflexivity].
    rewrite Hwb; [reflexivity|exact Hy]. }
  destruct o as [gr st|ga st|gm st| |e|bp|i]; try (exfalso; eapply Hn; reflexivity); cbn [pre_write with_blk x_blk] in Hz.
  - pose proof (Hbuf (add_qr gr st) Hz) as He. cbn [xstep] in H. unfold buffer_qr in H. destruct (buffer (add_qr gr st) (f_x s)) as [x' r]. cbn [fst] in He.
    rewrite He, new_chunks_same in H. cbn [feed] in H. inversion H.
  - pose proof (Hbuf (add_aec ga st) Hz) as He. cbn [xstep] in H. unfold buffer_aec in H. destruct (buffer (add_aec ga st) (f_x s)) as [x' r]. cbn [fst] in He.
    rewrite He, new_chunks_same in H. cbn [feed] in H. inversion H.
  - pose proof (Hbuf (add_mm gm st) Hz) as He. cbn [xstep] in H. unfold buffer_mm in H. destruct (buffer (add_mm gm st) (f_x s)) as [x' r]. cbn [fst] in He.
    rewrite He, new_chunks_same in H. cbn [feed] in H. inversion H.
  - pose proof (Hwb (f_x s) Hz) as He. cbn [xstep] in H. destruct (write_block (f_x s)) as [x' r]. cbn [fst] in He.
    rewrite He, new_chunks_same in H. cbn [feed] in H. inversion H.
  - cbn [xstep] in H. unfold add_block_parameters in H. cbn [x_enc] in H. rewrite new_chunks_same in H. cbn [feed] in H. inversion H.
  - cbn [xstep] in H. unfold set_active in H. destruct (N.of_nat (length (x_params (f_x s))) <=? i); cbn [x_enc] in H; rewrite new_chunks_same in H; cbn [feed] in H; inversion H.
Qed.

(* what a healthy operating system receives for one output = what the encoder handed over *)
Lemma cext_set_enc_rotate x : cext (x_enc x) (closing_enc x).
Proof. apply cext_closing. Qed.

(* the bytes of header + one block + break, from a fresh encoder *)
Lemma fresh_file_bytes x b : x_written x = 0 -> x_enc x = enc_init -> item_count b <> 0 -> typed_pre (preamble_val x) -> typed_blk b ->
  destroy (fst (write_block_ext x b)) = file_bytes (preamble_val x) [b].
Proof.
  intros W E Nz Tp Tb. unfold write_block_ext. apply N.eqb_neq in Nz. rewrite Nz, W, E. cbn [N.eqb].
  destruct (header_spec x Tp) as [Hb Hr]. destruct (block_spec b Tb) as [Bb Br].
  pose proof (enc_run_spec enc_init (header_ops x ++ write_val Schema.Block (blk_val b)) inv_init) as H.
  destruct H as (Hs & _ & Hi); [apply Forall_app; split; assumption|].
  destruct (enc_run enc_init (header_ops x ++ write_val Schema.Block (blk_val b))) as [e' r]. cbn [fst snd] in *.
  unfold destroy. cbn [with_enc x_written x_enc]. replace (0 <? 0 + 1) with true by reflexivity.
  pose proof (enc_run_spec e' [OBreak] Hi) as H2. destruct H2 as (Hs2 & _); [repeat constructor|].
  destruct (enc_run e' [OBreak]) as [e2 r2]. cbn [fst] in *. rewrite stream_flush, Hs2, Hs. unfold stream at 1. cbn [enc_init chunks buf rev concat app].
  rewrite bytes_of_app, Hb, Bb. unfold file_bytes. cbn [flat_map]. rewrite app_nil_r, <- !app_assoc. reflexivity.
Qed.

(* RECOVERY after a transient failure.  A buffering call or write_block() threw; the operating system accepts everything from then on.
   Then rotate_output(healthy destination, false) returns normally, the following write_block() returns normally, and the new output -
   closed by destruction - holds, with nothing lost, exactly the complete C-DNS file of the failed block (records of the failed call
   included); under the usual conditions on the block the reader reads it back *)
Theorem recovery_after_fault s o s1 n : (forall e, o <> XRot e) -> fstep s o = (s1, Threw, n) -> healthy (f_os s1) ->
  let b := x_blk (pre_write (f_x s) o) in
  let pre := preamble_val (f_x s) in
  typed_pre pre -> typed_blk b ->
  exists s2 r2 s3 r3,
    fstep s1 (XRot false) = (s2, Done, r2) /\ x_blk (f_x s2) = b /\ f_cur s2 = dout_new /\
    fstep s2 XWb = (s3, Done, r3) /\
    fdestroy s3 = mkDout (file_bytes pre [b]) (file_bytes pre [b]).
Proof.
  intros Hn H Hh b pre Tp Tb.
  destruct (fault_retains s o s1 n Hn H) as (ef & Hx & _ & _).
  pose proof (threw_nonempty s o s1 n Hn H) as Nz. fold b in Nz.
  set (x1 := f_x s1) in *.
  assert (Hb1 : x_blk x1 = b) by (rewrite Hx; reflexivity).
  assert (Hp1 : preamble_val x1 = pre).
  { rewrite Hx. unfold pre, preamble_val, set_enc. cbn [x_major x_minor x_private x_params]. destruct o; reflexivity. }
  (* the rotation *)
  set (x2 := fst (rotate false x1)).
  assert (H2 : x_blk x2 = b /\ x_written x2 = 0 /\ x_enc x2 = enc_init /\ preamble_val x2 = pre).
  { unfold x2, rotate. cbn [fst]. destruct (if 0 <? x_written x1 then _ else _) as [e2 r2]. cbn [fst x_blk x_written x_enc]. repeat split; auto. }
  destruct H2 as (Hb2 & Hw2 & He2 & Hp2).
  set (s2 := mkFx x2 (f_os s1) dout_new false
               ((mkDout (d_stored (f_cur s1) ++ concat (new_chunks (x_enc x1) (closing_enc x1)))
                        (d_intended (f_cur s1) ++ concat (new_chunks (x_enc x1) (closing_enc x1))), f_threw s1) :: f_closed s1)).
  assert (Hrot : fstep s1 (XRot false) = (s2, Done, snd (rotate false x1))).
  { unfold fstep at 1. fold x1. cbn [fst]. rewrite new_chunks_same. cbn [feed]. rewrite (feed_healthy _ _ _ _ Hh). reflexivity. }
  (* the block write on the new output, then destruction *)
  assert (H3 : exists s3 r3, fstep s2 XWb = (s3, Done, r3) /\ fdestroy s3 = mkDout (file_bytes pre [b]) (file_bytes pre [b])).
  { assert (Hwb : x_enc (fst (write_block x2)) = x_enc (fst (write_block_ext x2 b)) /\ x_written (fst (write_block x2)) = x_written (fst (write_block_ext x2 b))).
    { unfold write_block. rewrite Hb2. destruct (write_block_ext x2 b) as [y r]. destruct (blk_set_bp _ _ _). split; reflexivity. }
    unfold fstep. cbn [f_x f_os f_cur f_threw f_closed s2]. cbn [xstep].
    destruct (write_block x2) as [x3 r3] eqn:Ewb. cbn [fst] in Hwb.
    rewrite (feed_healthy _ _ _ _ Hh). eexists _, _. split; [reflexivity|].
    unfold fdestroy. cbn [f_x f_os f_cur].
    assert (Hd : destroy x3 = file_bytes pre [b]).
    { pose proof (fresh_file_bytes x2 b Hw2 He2 Nz) as Hf. rewrite Hp2 in Hf. specialize (Hf Tp Tb).
      unfold destroy in *. destruct Hwb as [-> ->]. exact Hf. }
    set (e2 := fst (if 0 <? x_written x3 then enc_run (x_enc x3) [OBreak] else (x_enc x3, 0))) in *.
    assert (Hc : cext (x_enc x3) e2). { unfold e2. destruct (0 <? x_written x3); [apply cext_enc_run|apply cext_refl]. }
    rewrite (feed_healthy _ _ _ _ Hh). cbn [d_stored d_intended dout_new app].
    assert (Hc2 : cext (x_enc x2) (x_enc x3)). { replace x3 with (fst (write_block x2)) by (rewrite Ewb; reflexivity). apply cext_write_block. }
    assert (Hhand : handed (x_enc x3) ++ concat (new_chunks (x_enc x3) e2) = handed e2) by (symmetry; apply new_chunks_spec; exact Hc).
    assert (Hh3 : handed (x_enc x3) = concat (new_chunks (x_enc x2) (x_enc x3))).
    { rewrite (new_chunks_spec _ _ Hc2), He2. reflexivity. }
    assert (Hfin : concat (new_chunks (x_enc x2) (x_enc x3)) ++ concat (new_chunks (x_enc x3) e2) ++ buf e2 = file_bytes pre [b]).
    { rewrite app_assoc, <- Hh3, Hhand. rewrite <- Hd. unfold destroy. fold e2.
      destruct (if 0 <? x_written x3 then enc_run (x_enc x3) [OBreak] else (x_enc x3, 0)) as [ee rr] eqn:Eee. unfold e2. cbn [fst].
      rewrite stream_flush. reflexivity. }
    destruct (buf e2) as [|b0 bl] eqn:Eb.
    - rewrite app_nil_r in Hfin. rewrite Hfin. reflexivity.
    - unfold d_write, os_next. destruct Hh as [Hh1 Hh2]. rewrite Hh1, Hh2. cbn [d_stored d_intended]. rewrite <- !app_assoc, Hfin. reflexivity. }
  destruct H3 as (s3 & r3 & Hs3 & Hd3).
  exists s2, (snd (rotate false x1)), s3, r3. split; [exact Hrot|]. split; [exact Hb2|]. split; [reflexivity|]. split; [exact Hs3|exact Hd3].
Qed.

Lemma new_chunks_ext e e' new : chunks e' = new ++ chunks e -> new_chunks e e' = rev new.
Proof.
  intros H. unfold new_chunks. rewrite H, app_length.
  replace (length new + length (chunks e) - length (chunks e))%nat with (length new) by lia.
  rewrite firstn_app, firstn_all, Nat.sub_diag. cbn [firstn]. rewrite app_nil_r. reflexivity.
Qed.

(* write_break: either it fits (nothing is flushed, the buffer is not empty afterwards) or the full buffer is flushed first *)
Lemma break_enc e : let e2 := fst (enc_run e [OBreak]) in
  (chunks e2 = chunks e /\ buf e2 <> []) \/ (chunks e2 = buf e :: chunks e /\ buf e <> [] /\ buf e2 <> []).
Proof.
  unfold enc_run. cbn [eruns estep]. unfold write_break, op_fixed.
  destruct (avail e <? 1) eqn:Ea.
  - right. unfold flush. destruct (buf e) as [|b0 bl] eqn:Eb.
    + exfalso. unfold avail in Ea. rewrite Eb in Ea. cbn in Ea. discriminate.
    + unfold avail at 1. cbn [buf length]. replace (BUFFER_SIZE - N.of_nat 0 <? 1) with false by reflexivity.
      cbn [fst put chunks buf]. repeat split; try discriminate.
  - rewrite Ea. left. cbn [fst put chunks buf]. split; [reflexivity|]. destruct (buf e); discriminate.
Qed.

Lemma closing_first_chunk x : buf (x_enc x) <> [] -> exists c cs, new_chunks (x_enc x) (closing_enc x) = c :: cs /\ c <> [].
Proof.
  intros Hb. unfold closing_enc. destruct (0 <? x_written x).
  - pose proof (break_enc (x_enc x)) as H. cbv zeta in H. set (e2 := fst (enc_run (x_enc x) [OBreak])) in *.
    unfold flush. destruct (buf e2) as [|b0 bl] eqn:Eb; [destruct H as [[_ H]|(_ & _ & H)]; congruence|].
    destruct H as [[Hc _]|(Hc & Hne & _)].
    + rewrite (new_chunks_ext _ _ [b0 :: bl]) by (cbn [chunks app]; rewrite Hc; reflexivity). cbn [rev app]. eexists _, _. split; [reflexivity|discriminate].
    + rewrite (new_chunks_ext _ _ [b0 :: bl; buf (x_enc x)]) by (cbn [chunks app]; rewrite Hc; reflexivity). cbn [rev app]. eexists _, _. split; [reflexivity|exact Hne].
  - cbn [fst]. unfold flush. destruct (buf (x_enc x)) as [|b0 bl] eqn:Eb; [congruence|].
    rewrite (new_chunks_ext _ _ [b0 :: bl]) by reflexivity. cbn [rev app]. eexists _, _. split; [reflexivity|discriminate].
Qed.

(* KNOWN FINDING at the level of the exporter (persistent failure): while the operating system rejects every write and something is staged,
   rotate_output(destination, false) - to whatever destination - throws, because the staged bytes are flushed into the OLD output first;
   nothing is rotated and the situation after the call is the one before it *)
Theorem persistent_failure_no_recovery s : os_plan (f_os s) = [] -> os_rest (f_os s) = Some 0 -> buf (x_enc (f_x s)) <> [] ->
  exists s1, fstep s (XRot false) = (s1, Threw, 0) /\ f_closed s1 = f_closed s /\ os_plan (f_os s1) = [] /\ os_rest (f_os s1) = Some 0 /\
             buf (x_enc (f_x s1)) <> [] /\ x_blk (f_x s1) = x_blk (f_x s).
Proof.
  intros Hp Hr Hb. unfold fstep. cbn [fst]. rewrite new_chunks_same. cbn [feed].
  destruct (closing_first_chunk (f_x s) Hb) as (c & cs & Hcs & Hne). rewrite Hcs. cbn [feed]. unfold d_write, os_next. rewrite Hp, Hr.
  assert (N.of_nat (length c) <=? 0 = false) as ->. { destruct c; [congruence|cbn [length]; lia]. }
  eexists. split; [reflexivity|]. cbn [f_closed f_os f_x os_plan os_rest]. repeat split; auto.
Qed.

(* ------------------------------------------------------------------------------------------------ consistency with the fault-free model *)
(* when the operating system accepts everything, the model under faults IS the fault-free model: every call returns normally with the
   count [xstep] returns, the exporter state is [xstep]'s, nothing is flagged *)
Theorem fstep_healthy s o : healthy (f_os s) ->
  exists cur' closed', fstep s o = (mkFx (fst (xstep (f_x s) o)) (f_os s) cur' (match o with XRot _ => false | _ => f_threw s end) closed', Done, snd (xstep (f_x s) o)).
Proof.
  intros Hh. unfold fstep. destruct o as [gr st|ga st|gm st| |e|bp|i];
    try (destruct (xstep (f_x s) _) as [x' r] eqn:E; cbv zeta; rewrite (feed_healthy _ _ _ _ Hh); eexists _, _; reflexivity).
  cbv zeta. rewrite (feed_healthy _ _ _ _ Hh), (feed_healthy _ _ _ _ Hh). cbn [xstep]. eexists _, _. reflexivity.
Qed.

(* what a descriptor holds under a healthy operating system is what the encoder handed over: [d_ok] *)
Definition d_ok (x : exporter) (cur : dout) : Prop := d_stored cur = handed (x_enc x) /\ d_intended cur = handed (x_enc x).

Theorem fstep_healthy_outputs s o : healthy (f_os s) -> d_ok (f_x s) (f_cur s) ->
  let s' := fst (fst (fstep s o)) in
  d_ok (f_x s') (f_cur s') /\
  map (fun ot => d_stored (fst ot)) (f_closed s') =
    firstn (length (x_closed (f_x s')) - length (x_closed (f_x s))) (x_closed (f_x s')) ++ map (fun ot => d_stored (fst ot)) (f_closed s).
Proof.
  intros Hh [Hs Hi]. unfold fstep.
  assert (Hnr : forall x' r, (forall e, o <> XRot e) -> xstep (f_x s) o = (x', r) ->
     d_ok x' (mkDout (d_stored (f_cur s) ++ concat (new_chunks (x_enc (f_x s)) (x_enc x'))) (d_intended (f_cur s) ++ concat (new_chunks (x_enc (f_x s)) (x_enc x')))) /\
     x_closed x' = x_closed (f_x s)).
  { intros x' r Hn E. destruct (nonrot_step (f_x s) o Hn) as [Hc Hcl]. rewrite E in Hc, Hcl. cbn [fst] in *.
    split; [|exact Hcl]. unfold d_ok. cbn [d_stored d_intended]. rewrite Hs, Hi, <- (new_chunks_spec _ _ Hc). split; reflexivity. }
  destruct o as [gr st|ga st|gm st| |e|bp|i];
    try (destruct (xstep (f_x s) _) as [x' r] eqn:E; cbv zeta; rewrite (feed_healthy _ _ _ _ Hh); cbn [fst f_x f_cur f_closed];
         destruct (Hnr x' r) as [Hd Hcl]; [intros e0; discriminate|reflexivity|]; split; [exact Hd|rewrite Hcl, Nat.sub_diag; reflexivity]).
  cbv zeta. rewrite (feed_healthy _ _ _ _ Hh), (feed_healthy _ _ _ _ Hh). cbn [fst f_x f_cur f_closed map].
  destruct (rotate_closed e (f_x s)) as [Hcl He]. split.
  - unfold d_ok. rewrite He. split; reflexivity.
  - rewrite Hcl. cbn [length]. replace (S (length (x_closed (f_x s))) - length (x_closed (f_x s)))%nat with 1%nat by lia. cbn [firstn app]. f_equal.
    cbn [d_stored fst]. rewrite Hs, <- app_assoc, <- concat_app.
    set (x1 := fst (if e then write_block (f_x s) else (f_x s, 0))).
    assert (Hc1 : cext (x_enc (f_x s)) (x_enc x1)). { unfold x1. destruct e; [apply cext_write_block|apply cext_refl]. }
    rewrite concat_app, app_assoc, <- (new_chunks_spec _ _ Hc1), <- (new_chunks_spec _ _ (cext_closing x1)). reflexivity.
Qed.
