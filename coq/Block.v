(* Block.v — executable model of CDNS::CdnsBlock (src/block.{h,cpp}): the nine de-duplicating block tables at
   the value level, the generic record -> table indices + item conversion under the storage hints
   (add_question_response_record / add_address_event_count / add_malformed_message), the statistics and
   earliest-time bookkeeping, full(), clear(), and the [val] of a block as CdnsBlock::write serialises it.
   Generic records are positional [VR] values (member order of src/interface.h).  No proofs here. *)
Require Import Base Cbor EncoderModel DecoderModel Schema Timestamp.
Local Open Scope N_scope.

(* ---------- structural equality on values (operator== of the table key types) ---------- *)
Fixpoint list_eqb {A} (eq : A -> A -> bool) (a b : list A) : bool :=
  match a, b with
  | [], [] => true
  | x :: a', y :: b' => eq x y && list_eqb eq a' b'
  | _, _ => false
  end.
Fixpoint val_eqb (a b : val) {struct a} : bool :=
  match a, b with
  | VN x, VN y => x =? y
  | VZ x, VZ y => (x =? y)%Z
  | VB x, VB y => Bool.eqb x y
  | VS x, VS y => list_eqb N.eqb x y
  | VL xs, VL ys =>
      (fix go (l1 l2 : list val) : bool :=
         match l1, l2 with
         | [], [] => true
         | x :: l1', y :: l2' => val_eqb x y && go l1' l2'
         | _, _ => false
         end) xs ys
  | VR xs, VR ys =>
      (fix go (l1 l2 : list (option val)) : bool :=
         match l1, l2 with
         | [], [] => true
         | None :: l1', None :: l2' => go l1' l2'
         | Some x :: l1', Some y :: l2' => val_eqb x y && go l1' l2'
         | _, _ => false
         end) xs ys
  | _, _ => false
  end.

(* ---------- one block table: items in insertion order; add = index of the equal entry, else append ---------- *)
Fixpoint tfind_from (i : N) (t : list val) (v : val) : option N :=
  match t with
  | [] => None
  | x :: t' => if val_eqb x v then Some i else tfind_from (i + 1) t' v
  end.
Definition tfind (t : list val) (v : val) : option N := tfind_from 0 t v.
Definition tadd (t : list val) (v : val) : list val * N :=
  match tfind t v with
  | Some i => (t, i)
  | None => (t ++ [v], N.of_nat (length t))
  end.

Inductive tid := T_ip | T_ct | T_nr | T_sig | T_qlist | T_qrr | T_rrlist | T_rr | T_mmd.
Record tables := mkTables { t_ip : list val; t_ct : list val; t_nr : list val; t_sig : list val; t_qlist : list val;
                            t_qrr : list val; t_rrlist : list val; t_rr : list val; t_mmd : list val }.
Definition tables_empty : tables := mkTables [] [] [] [] [] [] [] [] [].
Definition tget (tb : tables) (i : tid) : list val :=
  match i with T_ip => t_ip tb | T_ct => t_ct tb | T_nr => t_nr tb | T_sig => t_sig tb | T_qlist => t_qlist tb
             | T_qrr => t_qrr tb | T_rrlist => t_rrlist tb | T_rr => t_rr tb | T_mmd => t_mmd tb end.
Definition tset (tb : tables) (i : tid) (l : list val) : tables :=
  match i with
  | T_ip => mkTables l (t_ct tb) (t_nr tb) (t_sig tb) (t_qlist tb) (t_qrr tb) (t_rrlist tb) (t_rr tb) (t_mmd tb)
  | T_ct => mkTables (t_ip tb) l (t_nr tb) (t_sig tb) (t_qlist tb) (t_qrr tb) (t_rrlist tb) (t_rr tb) (t_mmd tb)
  | T_nr => mkTables (t_ip tb) (t_ct tb) l (t_sig tb) (t_qlist tb) (t_qrr tb) (t_rrlist tb) (t_rr tb) (t_mmd tb)
  | T_sig => mkTables (t_ip tb) (t_ct tb) (t_nr tb) l (t_qlist tb) (t_qrr tb) (t_rrlist tb) (t_rr tb) (t_mmd tb)
  | T_qlist => mkTables (t_ip tb) (t_ct tb) (t_nr tb) (t_sig tb) l (t_qrr tb) (t_rrlist tb) (t_rr tb) (t_mmd tb)
  | T_qrr => mkTables (t_ip tb) (t_ct tb) (t_nr tb) (t_sig tb) (t_qlist tb) l (t_rrlist tb) (t_rr tb) (t_mmd tb)
  | T_rrlist => mkTables (t_ip tb) (t_ct tb) (t_nr tb) (t_sig tb) (t_qlist tb) (t_qrr tb) l (t_rr tb) (t_mmd tb)
  | T_rr => mkTables (t_ip tb) (t_ct tb) (t_nr tb) (t_sig tb) (t_qlist tb) (t_qrr tb) (t_rrlist tb) l (t_mmd tb)
  | T_mmd => mkTables (t_ip tb) (t_ct tb) (t_nr tb) (t_sig tb) (t_qlist tb) (t_qrr tb) (t_rrlist tb) (t_rr tb) l
  end.
(* add a value to table i, return its index *)
Definition add_to (tb : tables) (i : tid) (v : val) : tables * N :=
  let '(l, ix) := tadd (tget tb i) v in (tset tb i l, ix).
(* an optional member stored through a table: the index of its value *)
Definition via (tb : tables) (i : tid) (ov : option val) : tables * option val :=
  match ov with
  | Some v => let '(tb', ix) := add_to tb i v in (tb', Some (VN ix))
  | None => (tb, None)
  end.

(* ---------- block parameters in force (decoded view of a BlockParameters value) ---------- *)
Record bparams := mkBp { bp_tps : N; bp_max : N; h_qr : N; h_sig : N; h_rr : N; h_other : N }.
Definition nth_o (l : list (option val)) (i : nat) : option val := nth i l None.
(* GenericQueryResponse::query_ancount is a uint16_t while QueryResponseSignature::query_ancount is a uint32_t: what read_generic_qr hands
   out is the stored count narrowed to 16 bits (the identity on everything the exporter can be given) *)
Definition narrow16 (o : option val) : option val := match o with Some (VN n) => Some (VN (n mod 65536)) | _ => o end.
Definition vn (ov : option val) : N := match ov with Some (VN n) => n | _ => 0 end.
Definition bp_of_val (bp : val) : bparams :=
  match bp with
  | VR (Some (VR sp) :: _) =>
      let hints := match nth_o sp 2 with Some (VR h) => h | _ => [] end in
      mkBp (vn (nth_o sp 0)) (vn (nth_o sp 1)) (vn (nth_o hints 0)) (vn (nth_o hints 1)) (vn (nth_o hints 2)) (vn (nth_o hints 3))
  | _ => mkBp 0 0 0 0 0 0
  end.
Definition bit (h : N) (i : N) (ov : option val) : option val := if N.testbit h i then ov else None.
Definition filled (l : list (option val)) : bool := existsb (fun o => match o with Some _ => true | None => false end) l.

(* ---------- the block ---------- *)
Record blk := mkBlk {
  b_earliest : ts;                       (* m_block_preamble.earliest_time *)
  b_bpi : N;                             (* m_block_preamble.block_parameters_index *)
  b_bp : bparams;                        (* m_block_parameters *)
  b_stats : option val;                  (* m_block_statistics *)
  b_tb : tables;
  b_qrs : list val;                      (* QueryResponse items, newest LAST; slot 0 holds the absolute time (VL [secs; ticks]) *)
  b_aecs : list (val * N);               (* key (AddressEventCount with count 0) -> count, first-insertion order *)
  b_mms : list val }.

Definition ts0 : ts := mkTs 0 0.
Definition blk_new (bp : bparams) (bpi : N) : blk := mkBlk ts0 bpi bp None tables_empty [] [] [].
Definition blk_clear (b : blk) : blk := mkBlk ts0 (b_bpi b) (b_bp b) None tables_empty [] [] [].
Definition item_count (b : blk) : N := N.of_nat (length (b_qrs b) + length (b_aecs b) + length (b_mms b)).
Definition blk_full (b : blk) : bool :=
  (bp_max (b_bp b) <=? N.of_nat (length (b_qrs b))) || (bp_max (b_bp b) <=? N.of_nat (length (b_aecs b)))
  || (bp_max (b_bp b) <=? N.of_nat (length (b_mms b))).
(* set_block_parameters: only on an empty block *)
Definition blk_set_bp (b : blk) (bp : bparams) (bpi : N) : blk * bool :=
  if 0 <? item_count b then (b, false)
  else (mkBlk (b_earliest b) bpi bp (b_stats b) (b_tb b) (b_qrs b) (b_aecs b) (b_mms b), true).

Definition ts_of_val (v : val) : option ts :=
  match v with VL [VN s; VN k] => Some (mkTs (Z.of_N s) (Z.of_N k)) | _ => None end.
(* the earliest-time rule shared by the three add functions *)
Definition upd_earliest (b : blk) (ot : option val) : ts :=
  match ot with
  | Some tv =>
      match ts_of_val tv with
      | Some t => if (match b_qrs b, b_mms b with [], [] => true | _, _ => false end) || ts_lt t (b_earliest b)
                  then t else b_earliest b
      | None => b_earliest b
      end
  | None => b_earliest b
  end.
Definition with_stats (old new : option val) : option val := match new with Some _ => new | None => old end.

(* ---------- question / RR lists ---------- *)
Definition rr_name (g : val) : option val := match g with VR l => nth_o l 0 | _ => None end.
Definition rr_ct (g : val) : option val := match g with VR l => nth_o l 1 | _ => None end.
Definition rr_ttl (g : val) : option val := match g with VR l => nth_o l 2 | _ => None end.
Definition rr_rdata (g : val) : option val := match g with VR l => nth_o l 3 | _ => None end.
Definition oval (o : option val) : val := match o with Some v => v | None => VN 0 end.

Fixpoint add_questions (tb : tables) (gl : list val) (racc : list val) : tables * list val :=
  match gl with
  | [] => (tb, frev racc)
  | g :: gl' =>
      let '(tb1, ni) := add_to tb T_nr (oval (rr_name g)) in
      let '(tb2, ci) := add_to tb1 T_ct (oval (rr_ct g)) in
      let '(tb3, qi) := add_to tb2 T_qrr (VR [Some (VN ni); Some (VN ci)]) in
      add_questions tb3 gl' (VN qi :: racc)
  end.
Definition add_generic_qlist (tb : tables) (gl : list val) : tables * N :=
  let '(tb1, ixs) := add_questions tb gl [] in add_to tb1 T_qlist (VL ixs).

Fixpoint add_rrs (hrr : N) (tb : tables) (gl : list val) (racc : list val) : tables * list val :=
  match gl with
  | [] => (tb, frev racc)
  | g :: gl' =>
      let '(tb1, ni) := add_to tb T_nr (oval (rr_name g)) in
      let '(tb2, ci) := add_to tb1 T_ct (oval (rr_ct g)) in
      let ttl := bit hrr 0 (rr_ttl g) in
      let '(tb3, rd) := via tb2 T_nr (bit hrr 1 (rr_rdata g)) in
      let '(tb4, ri) := add_to tb3 T_rr (VR [Some (VN ni); Some (VN ci); ttl; rd]) in
      add_rrs hrr tb4 gl' (VN ri :: racc)
  end.
Definition add_generic_rrlist (hrr : N) (tb : tables) (gl : list val) : tables * N :=
  let '(tb1, ixs) := add_rrs hrr tb gl [] in add_to tb1 T_rrlist (VL ixs).

(* a section member: present and non-empty *)
Definition section (ov : option val) : option (list val) :=
  match ov with Some (VL (x :: l)) => Some (x :: l) | _ => None end.
Definition via_qlist (tb : tables) (h : N) (b : N) (ov : option val) : tables * option val :=
  if N.testbit h b then
    match section ov with Some gl => let '(tb', ix) := add_generic_qlist tb gl in (tb', Some (VN ix)) | None => (tb, None) end
  else (tb, None).
Definition via_rrlist (hrr : N) (tb : tables) (h : N) (b : N) (ov : option val) : tables * option val :=
  if N.testbit h b then
    match section ov with Some gl => let '(tb', ix) := add_generic_rrlist hrr tb gl in (tb', Some (VN ix)) | None => (tb, None) end
  else (tb, None).

(* ---------- add_question_response_record(GenericQueryResponse) ----------
   generic members: 0 ts 1 client_ip 2 client_port 3 transaction_id 4 server_ip 5 server_port 6 qr_transport_flags
   7 qr_type 8 qr_sig_flags 9 query_opcode 10 qr_dns_flags 11 query_rcode 12 query_classtype 13 query_qdcount
   14 query_ancount 15 query_nscount 16 query_arcount 17 query_edns_version 18 query_udp_size 19 query_opt_rdata
   20 response_rcode 21 client_hoplimit 22 response_delay 23 query_name 24 query_size 25 response_size 26 bailiwick
   27 processing_flags 28..31 query questions/answers/authority/additional 32..35 response ... 36 asn 37 country_code
   38 round_trip_time *)
(* the item and the table insertions of one generic query/response under block parameters bp *)
Definition build_qr (bp : bparams) (gr : list (option val)) (tb : tables) : tables * list (option val) :=
  let g := nth_o gr in
  let hq := h_qr bp in let hs := h_sig bp in let hr := h_rr bp in
  let s0 := bit hq 0 (g 0%nat) in
  let '(tb, s1) := via tb T_ip (bit hq 1 (g 1%nat)) in
  let s2 := bit hq 2 (g 2%nat) in
  let s3 := bit hq 3 (g 3%nat) in
  let '(tb, s4) :=
    if N.testbit hq 4 then
      let '(tb, q0) := via tb T_ip (bit hs 0 (g 4%nat)) in
      let '(tb, q8) := via tb T_ct (bit hs 8 (g 12%nat)) in
      let '(tb, q15) := via tb T_nr (bit hs 15 (g 19%nat)) in
      let sig := [q0; bit hs 1 (g 5%nat); bit hs 2 (g 6%nat); bit hs 3 (g 7%nat); bit hs 4 (g 8%nat); bit hs 5 (g 9%nat);
                  bit hs 6 (g 10%nat); bit hs 7 (g 11%nat); q8; bit hs 9 (g 13%nat); bit hs 10 (g 14%nat);
                  bit hs 11 (g 15%nat); bit hs 12 (g 16%nat); bit hs 13 (g 17%nat); bit hs 14 (g 18%nat); q15;
                  bit hs 16 (g 20%nat)] in
      if filled sig then let '(tb, ix) := add_to tb T_sig (VR sig) in (tb, Some (VN ix)) else (tb, None)
    else (tb, None) in
  let s5 := bit hq 5 (g 21%nat) in
  let s6 := bit hq 6 (g 22%nat) in
  let '(tb, s7) := via tb T_nr (bit hq 7 (g 23%nat)) in
  let s8 := bit hq 8 (g 24%nat) in
  let s9 := bit hq 9 (g 25%nat) in
  let '(tb, s10) :=
    if N.testbit hq 10 then
      let '(tb, bw) := via tb T_nr (g 26%nat) in
      let rpd := [bw; g 27%nat] in
      if filled rpd then (tb, Some (VR rpd)) else (tb, None)
    else (tb, None) in
  let '(tb, e0) := via_qlist tb hq 11 (g 28%nat) in
  let '(tb, e1) := via_rrlist hr tb hq 12 (g 29%nat) in
  let '(tb, e2) := via_rrlist hr tb hq 13 (g 30%nat) in
  let '(tb, e3) := via_rrlist hr tb hq 14 (g 31%nat) in
  let qe := [e0; e1; e2; e3] in
  let s11 := if filled qe then Some (VR qe) else None in
  let '(tb, r0) := via_qlist tb hq 11 (g 32%nat) in
  let '(tb, r1) := via_rrlist hr tb hq 15 (g 33%nat) in
  let '(tb, r2) := via_rrlist hr tb hq 16 (g 34%nat) in
  let '(tb, r3) := via_rrlist hr tb hq 17 (g 35%nat) in
  let re := [r0; r1; r2; r3] in
  let s12 := if filled re then Some (VR re) else None in
  (tb, [s0; s1; s2; s3; s4; s5; s6; s7; s8; s9; s10; s11; s12; g 36%nat; g 37%nat; g 38%nat]).

Definition add_qr (gr : list (option val)) (st : option val) (b : blk) : blk * bool :=
  let earliest := upd_earliest b (nth_o gr 0%nat) in
  let '(tb, item) := build_qr (b_bp b) gr (b_tb b) in
  let qrs := if filled item then b_qrs b ++ [VR item] else b_qrs b in
  let b' := mkBlk earliest (b_bpi b) (b_bp b) (with_stats (b_stats b) st) tb qrs (b_aecs b) (b_mms b) in
  (b', blk_full b').

(* ---------- add_address_event_count(GenericAddressEventCount): members 0 ae_type 1 ae_code 2 ae_transport_flags
   3 ip_address 4 ae_count (ignored) ---------- *)
Fixpoint aec_bump (l : list (val * N)) (k : val) : list (val * N) :=
  match l with
  | [] => [(k, 1)]
  | (k', c) :: l' => if val_eqb k' k then (k', c + 1) :: l' else (k', c) :: aec_bump l' k
  end.
Definition add_aec (ga : list (option val)) (st : option val) (b : blk) : blk * bool :=
  if negb (N.testbit (h_other (b_bp b)) 1) then (b, false) else
  let g := nth_o ga in
  let '(tb, ix) := add_to (b_tb b) T_ip (oval (g 3%nat)) in
  let key := VR [g 0%nat; g 1%nat; Some (VN ix); g 2%nat; Some (VN 0)] in
  let b' := mkBlk (b_earliest b) (b_bpi b) (b_bp b) (with_stats (b_stats b) st) tb (b_qrs b) (aec_bump (b_aecs b) key) (b_mms b) in
  (b', blk_full b').

(* ---------- add_malformed_message(GenericMalformedMessage): members 0 ts 1 client_ip 2 client_port 3 server_ip
   4 server_port 5 mm_transport_flags 6 mm_payload ---------- *)
Definition build_mm (gm : list (option val)) (tb : tables) : tables * list (option val) :=
  let g := nth_o gm in
  let '(tb, c1) := via tb T_ip (g 1%nat) in
  let '(tb, d0) := via tb T_ip (g 3%nat) in
  let mmd := [d0; g 4%nat; g 5%nat; g 6%nat] in
  let '(tb, m3) := if filled mmd then let '(tb, ix) := add_to tb T_mmd (VR mmd) in (tb, Some (VN ix)) else (tb, None) in
  (tb, [g 0%nat; c1; g 2%nat; m3]).
Definition add_mm (gm : list (option val)) (st : option val) (b : blk) : blk * bool :=
  if negb (N.testbit (h_other (b_bp b)) 0) then (b, false) else
  let earliest := upd_earliest b (nth_o gm 0%nat) in
  let '(tb, item) := build_mm gm (b_tb b) in
  let mms := if filled item then b_mms b ++ [VR item] else b_mms b in
  let b' := mkBlk earliest (b_bpi b) (b_bp b) (with_stats (b_stats b) st) tb (b_qrs b) (b_aecs b) mms in
  (b', blk_full b').

(* ---------- the application's direct interface (C02: "blocks the application builds directly"): table entries through the nine
   add_* functions ([add_to]), items whose indices the application obtained from those calls ----------
   add_question_response_record(const QueryResponse&) / add_malformed_message(const MalformedMessage&): nothing happens to an item
   with no member set; otherwise the earliest-time rule, push, statistics; a malformed message is refused when the malformed-messages
   bit of the other-data hints in force is cleared (as the address events below: defect F19, repaired in /repo) *)
Definition add_qr_item (item : list (option val)) (st : option val) (b : blk) : blk * bool :=
  if filled item then
    let b' := mkBlk (upd_earliest b (nth_o item 0%nat)) (b_bpi b) (b_bp b) (with_stats (b_stats b) st) (b_tb b)
                    (b_qrs b ++ [VR item]) (b_aecs b) (b_mms b) in (b', blk_full b')
  else (b, blk_full b).
Definition add_mm_item (item : list (option val)) (st : option val) (b : blk) : blk * bool :=
  if negb (N.testbit (h_other (b_bp b)) 0) then (b, false) else
  if filled item then
    let b' := mkBlk (upd_earliest b (nth_o item 0%nat)) (b_bpi b) (b_bp b) (with_stats (b_stats b) st) (b_tb b)
                    (b_qrs b) (b_aecs b) (b_mms b ++ [VR item]) in (b', blk_full b')
  else (b, blk_full b).
(* add_address_event_count(const AddressEventCount&): the map key is the whole object [type; code; address index; transport flags;
   ae_count as the application set it] (operator== compares ae_count too); the count that is serialised is the map's *)
Definition add_aec_item (key : list (option val)) (st : option val) (b : blk) : blk * bool :=
  if negb (N.testbit (h_other (b_bp b)) 1) then (b, false) else
  let k := VR [nth_o key 0%nat; nth_o key 1%nat; nth_o key 2%nat; nth_o key 3%nat; nth_o key 4%nat] in
  let b' := mkBlk (b_earliest b) (b_bpi b) (b_bp b) (with_stats (b_stats b) st) (b_tb b) (b_qrs b) (aec_bump (b_aecs b) k) (b_mms b) in
  (b', blk_full b').

(* ---------- the value CdnsBlock::write serialises ---------- *)
Definition to_u64 (z : Z) : N := Z.to_N (z mod Z.of_N two64).
(* time offset of a stored record time from the block's earliest time, as enc.write(static_cast<uint64_t>(..)) sees it *)
Definition offset_val (earliest : ts) (tps : N) (tv : val) : val :=
  match ts_of_val tv with
  | Some t => match get_time_offset t earliest (Z.of_N tps) with TOk z => VN (to_u64 z) | _ => VN 0 end
  | None => VN 0
  end.
Definition conv_item (earliest : ts) (tps : N) (it : val) : val :=
  match it with
  | VR (Some tv :: rest) => VR (Some (offset_val earliest tps tv) :: rest)
  | _ => it
  end.
Definition aec_val (kc : val * N) : val :=
  match fst kc with
  | VR [a; b; c; d; _] => VR [a; b; c; d; Some (VN (snd kc))]
  | v => v
  end.
Definition ne_list (l : list val) : option val := Some (VL l).
Definition tables_val (tb : tables) : option val :=
  match t_ip tb, t_ct tb, t_nr tb, t_sig tb, t_qlist tb, t_qrr tb, t_rrlist tb, t_rr tb, t_mmd tb with
  | [], [], [], [], [], [], [], [], [] => None
  | _, _, _, _, _, _, _, _, _ =>
      Some (VR [ne_list (t_ip tb); ne_list (t_ct tb); ne_list (t_nr tb); ne_list (t_sig tb); ne_list (t_qlist tb);
                ne_list (t_qrr tb); ne_list (t_rrlist tb); ne_list (t_rr tb); ne_list (t_mmd tb)])
  end.
Definition ts_val (t : ts) : val := VL [VN (Z.to_N (secs t)); VN (Z.to_N (ticks t))].
Definition blk_val (b : blk) : val :=
  let tps := bp_tps (b_bp b) in
  VR [Some (VR [Some (ts_val (b_earliest b)); Some (VN (b_bpi b))]);
      b_stats b;
      tables_val (b_tb b);
      ne_list (map (conv_item (b_earliest b) tps) (b_qrs b));
      ne_list (map aec_val (b_aecs b));
      ne_list (map (conv_item (b_earliest b) tps) (b_mms b))].
