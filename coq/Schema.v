(* Schema.v — the RFC 8618 structures of CZ-NIC/c-dns as data: a small descriptor language ([ty]), a value
   universe ([val]), and two interpreters that follow the shape every X::write / X::read of
   src/file_preamble.cpp, src/block.cpp and src/timestamp.cpp has:

     write:  fields = <constant> + !!opt1 + ...;  enc.write_map_start(fields);
             for each member in declaration order: if present { enc.write(key); enc.write(value) | nested.write(enc)
                                                                | enc.write_array_start(n); for (...) elem }
     read:   reset(); length = dec.read_map_start(indef);
             while (length > 0 || indef) { if (indef && peek == BREAK) { read_break(); break; }
                 switch (dec.read_integer()) { case key: member = dec.read_xxx() | nested.read(dec) | read_array(cb);
                                               default: dec.skip_item(); }  length--; }
             if (!mandatory flags) throw

   The descriptors of the twenty structures are at the end.  No proofs here. *)
Require Import Base Cbor EncoderModel DecoderModel.
Local Open Scope N_scope.

Inductive presence :=
| Mand       (* always written; reading throws when it is missing *)
| MandNE     (* as Mand, and reading also throws when the array read is empty (FilePreamble block parameters) *)
| Always     (* always written; reading does not insist (BlockPreamble earliest time) *)
| Opt        (* boost::optional: written iff it holds a value *)
| NonEmpty.  (* std::vector: written iff non-empty; absent reads as empty *)

Inductive ty :=
| TU (bits : N)          (* uint8/16/32/64 member: enc.write(uintN_t) / (uintN_t) dec.read_unsigned() *)
| TI                     (* int64 member: enc.write(int64_t) / dec.read_integer() *)
| TBool                  (* enc.write(bool) / dec.read_bool() *)
| TText                  (* write_textstring / read_textstring *)
| TBytes                 (* write_bytestring / read_bytestring *)
| TTime                  (* Timestamp: array [secs, ticks] *)
| TArr (e : ty)          (* write_array_start(size) + elements / dec.read_array(callback) *)
| TIdx                   (* IndexListItem: array of index_t with its own read loop *)
| TMap (signed_keys : bool) (accs : list bool) (fs : fields)   (* accs: the members read() never resets - a repeated key APPENDS to them (empty list: none) *)
with fields :=
| FNil
| FCons (key : Z) (p : presence) (t : ty) (rest : fields).

Inductive val :=
| VN (n : N) | VZ (z : Z) | VB (b : bool) | VS (bs : list N)
| VL (xs : list val)                  (* vectors; a Timestamp is VL [VN secs; VN ticks] *)
| VR (fs : list (option val)).        (* a structure: one slot per member, in descriptor order *)

Fixpoint flen (fs : fields) : nat := match fs with FNil => O | FCons _ _ _ r => S (flen r) end.

(* ------------------------------------------------------------------------------------------------ write *)
Definition op_uint (bits : N) (n : N) : eop :=
  if bits =? 8 then OU8 n else if bits =? 16 then OU16 n else if bits =? 32 then OU32 n else OU64 n.
Definition op_key (signed_keys : bool) (k : Z) : eop := if signed_keys then OI8 k else OU8 (Z.to_N k).

(* is a member written? *)
Definition present (p : presence) (v : option val) : bool :=
  match v with
  | None => false
  | Some x => match p, x with NonEmpty, VL [] => false | _, _ => true end
  end.

Fixpoint count_present (fs : fields) (vs : list (option val)) : N :=
  match fs, vs with
  | FCons _ p _ r, v :: vs' => (if present p v then 1 else 0) + count_present r vs'
  | _, _ => 0
  end.

Fixpoint write_val (t : ty) (v : val) {struct t} : list eop :=
  match t, v with
  | TU bits, VN n => [op_uint bits n]
  | TI, VZ z => [OI64 z]
  | TBool, VB b => [OBool b]
  | TText, VS bs => [OText bs]
  | TBytes, VS bs => [OBytes bs]
  | TTime, VL [VN s; VN k] => [OArr 2; OU64 s; OU64 k]
  | TArr e, VL xs => OArr (N.of_nat (length xs)) :: flat_map (write_val e) xs
  | TIdx, VL xs => OArr (N.of_nat (length xs)) :: flat_map (fun x => match x with VN n => [OU32 n] | _ => [] end) xs
  | TMap sk _ fs, VR vs => OMap (count_present fs vs) :: write_fields sk fs vs
  | _, _ => []            (* ill-typed value: excluded by [has_ty] *)
  end
with write_fields (sk : bool) (fs : fields) (vs : list (option val)) {struct fs} : list eop :=
  match fs, vs with
  | FCons k p t r, v :: vs' =>
      (match v with
       | Some x => if present p v then op_key sk k :: write_val t x else []
       | None => []
       end) ++ write_fields sk r vs'
  | _, _ => []
  end.

(* well-typed values *)
Definition u_ok (bits n : N) : Prop := n < 2 ^ bits.
Fixpoint has_ty (t : ty) (v : val) {struct t} : Prop :=
  match t, v with
  | TU bits, VN n => n < 2 ^ bits /\ (bits = 8 \/ bits = 16 \/ bits = 32 \/ bits = 64)
  | TI, VZ z => (- Z.of_N two63 <= z < Z.of_N two63)%Z
  | TBool, VB _ => True
  | TText, VS bs => N.of_nat (length bs) < two64 /\ bytes_ok bs
  | TBytes, VS bs => N.of_nat (length bs) < two64 /\ bytes_ok bs
  | TTime, VL [VN s; VN k] => s < two64 /\ k < two64
  | TArr e, VL xs => N.of_nat (length xs) < two64 /\ (fix all l := match l with [] => True | x :: l' => has_ty e x /\ all l' end) xs
  | TIdx, VL xs => N.of_nat (length xs) < two64 /\ (fix all l := match l with [] => True | x :: l' => (match x with VN n => n < 2 ^ 32 | _ => False end) /\ all l' end) xs
  | TMap sk _ fs, VR vs => fields_ty sk fs vs
  | _, _ => False
  end
with fields_ty (sk : bool) (fs : fields) (vs : list (option val)) {struct fs} : Prop :=
  match fs, vs with
  | FNil, [] => True
  | FCons k p t r, v :: vs' =>
      (if sk then (-128 <= k < 128)%Z else (0 <= k < 256)%Z) /\
      match p, v with
      | (Mand | Always), Some x => has_ty t x
      | MandNE, Some x => has_ty t x /\ x <> VL []
      | (Mand | MandNE | Always), None => False
      | Opt, Some x => has_ty t x
      | Opt, None => True
      | NonEmpty, Some (VL xs) => has_ty t (VL xs)
      | NonEmpty, _ => False
      end /\ fields_ty sk r vs'
  | _, _ => False
  end.

(* ------------------------------------------------------------------------------------------------ read *)
(* Timestamp::read *)
Definition read_time : prog val :=
  st <- read_array_start ;;
  let '(n, indef) := st in
  if indef then
    pk <- peek_type ;;
    match pk with
    | None => read_break ;;; Throw EDec
    | Some _ =>
      s <- read_unsigned ;;
      pk <- peek_type ;;
      match pk with
      | None => read_break ;;; Throw EDec
      | Some _ =>
        k <- read_unsigned ;;
        pk <- peek_type ;;
        match pk with
        | None => read_break ;;; Ret (VL [VN s; VN k])
        | Some _ => Throw EDec
        end
      end
    end
  else if n =? 0 then Throw EDec
  else s <- read_unsigned ;;
       if n =? 1 then Throw EDec
       else k <- read_unsigned ;;
            if n =? 2 then Ret (VL [VN s; VN k]) else Throw EDec.

Section ArrLoop.
  Variable rd : prog val.
  (* while (length > 0 || indef) { if (indef && peek == BREAK) { read_break(); break; } cb(); length--; } *)
  Fixpoint arr_loop (g : nat) (n : N) (indef : bool) (racc : list val) : prog (list val) :=
    if (n =? 0) && negb indef then Ret (frev racc) else
    match g with
    | O => Throw EFuel
    | S g' =>
      if indef then
        pk <- peek_type ;;
        match pk with
        | None => read_break ;;; Ret (frev racc)
        | Some _ => v <- rd ;; arr_loop g' (n - 1) indef (v :: racc)
        end
      else v <- rd ;; arr_loop g' (n - 1) indef (v :: racc)
    end.
  Definition read_arr (g : nat) : prog val :=
    st <- read_array_start ;; xs <- arr_loop g (fst st) (snd st) [] ;; Ret (VL xs).
End ArrLoop.

(* IndexListItem::read: reserve(min(length, BUFFER_SIZE)); same loop with read_unsigned *)
Definition read_idx (g : nat) : prog val :=
  st <- read_array_start ;;
  Reserve (reserve_req (fst st))
    (xs <- arr_loop (v <- read_unsigned ;; Ret (VN (v mod 2 ^ 32))) g (fst st) (snd st) [] ;; Ret (VL xs)).

Fixpoint set_nth {A} (i : nat) (x : A) (l : list A) : list A :=
  match i, l with
  | O, _ :: l' => x :: l'
  | S i', a :: l' => a :: set_nth i' x l'
  | _, [] => []
  end.

(* the record after reset(): optional members none, vectors empty, mandatory members unset *)
Fixpoint init_rec (fs : fields) : list (option val) :=
  match fs with
  | FNil => []
  | FCons _ p _ r => (match p with NonEmpty => Some (VL []) | _ => None end) :: init_rec r
  end.

(* the mandatory-member check after the loop *)
Fixpoint mand_ok (fs : fields) (vs : list (option val)) : bool :=
  match fs, vs with
  | FCons _ p _ r, v :: vs' =>
      (match p, v with
       | Mand, None => false
       | MandNE, None => false
       | MandNE, Some (VL []) => false
       | _, _ => true
       end) && mand_ok r vs'
  | _, _ => true
  end.

(* members a reader leaves unset keep their reset() value; the model only exposes them when the check passed,
   except for [Always] members (never checked), whose reset value is the zero of their type *)
Definition zero_of (t : ty) : val :=
  match t with
  | TU _ => VN 0 | TI => VZ 0 | TBool => VB false | TText | TBytes => VS []
  | TTime => VL [VN 0; VN 0] | TArr _ | TIdx => VL [] | TMap _ _ _ => VR []
  end.
Fixpoint fill_always (fs : fields) (vs : list (option val)) : list (option val) :=
  match fs, vs with
  | FCons _ p t r, v :: vs' =>
      (match p, v with Always, None => Some (zero_of t) | _, _ => v end) :: fill_always r vs'
  | _, _ => vs
  end.

(* what a member holds after its key has been read (again): the value just read, except for the members the C++ never resets before
   reading - CdnsBlockRead's three item vectors and nine tables (push_back / add_value onto what is there), and the block tables as a whole
   (read_blocktables fills the same tables again): there a repeated key appends *)
Definition merge_list (old new : val) : val := match old, new with VL a, VL b => VL (a ++ b) | _, _ => new end.
Definition merge_opt (x y : option val) : option val :=
  match x, y with Some a, Some b => Some (merge_list a b) | Some a, None => Some a | None, _ => y end.
Fixpoint map2o (f : option val -> option val -> option val) (a b : list (option val)) : list (option val) :=
  match a, b with x :: a', y :: b' => f x y :: map2o f a' b' | _, _ => b end.
Definition merge_val (old : option val) (v : val) : val :=
  match old, v with
  | Some (VR fa), VR fb => VR (map2o merge_opt fa fb)
  | Some o, _ => merge_list o v
  | None, _ => v
  end.
Definition upd_slot (accs : list bool) (i : nat) (old : option val) (v : val) : val :=
  if nth i accs false then merge_val old v else v.

Section MapLoop.
  Variable accs : list bool.
  (* [rdk key] = the reader of the member with that key and its slot, None for an unknown key *)
  Variable rdk : Z -> option (nat * prog val).
  Variable sk : prog unit.
  Fixpoint map_loop (g : nat) (n : N) (indef : bool) (rec : list (option val)) : prog (list (option val)) :=
    if (n =? 0) && negb indef then Ret rec else
    match g with
    | O => Throw EFuel
    | S g' =>
      let body :=
        key <- read_integer ;;
        match rdk key with
        | Some (i, rd) => v <- rd ;; map_loop g' (n - 1) indef (set_nth i (Some (upd_slot accs i (nth i rec None) v)) rec)
        | None => sk ;;; map_loop g' (n - 1) indef rec
        end in
      if indef then
        pk <- peek_type ;;
        match pk with
        | None => read_break ;;; Ret rec
        | Some _ => body
        end
      else body
    end.
End MapLoop.

Fixpoint read_val (g : nat) (t : ty) {struct t} : prog val :=
  match t with
  | TU bits => v <- read_unsigned ;; Ret (VN (v mod 2 ^ bits))
  | TI => z <- read_integer ;; Ret (VZ z)
  | TBool => b <- read_bool ;; Ret (VB b)
  | TText => s <- read_textstring g ;; Ret (VS s)
  | TBytes => s <- read_bytestring g ;; Ret (VS s)
  | TTime => read_time
  | TArr e => read_arr (read_val g e) g
  | TIdx => read_idx g
  | TMap _ accs fs =>
      st <- read_map_start ;;
      rec <- map_loop accs (find_field g fs O) (skip_item g) g (fst st) (snd st) (init_rec fs) ;;
      if mand_ok fs rec then Ret (VR (fill_always fs rec)) else Throw EDec
  end
with find_field (g : nat) (fs : fields) (i : nat) {struct fs} : Z -> option (nat * prog val) :=
  match fs with
  | FNil => fun _ => None
  | FCons k _ t r => fun key => if (key =? k)%Z then Some (i, read_val g t) else find_field g r (S i) key
  end.

(* ------------------------------------------------------------------------------------------------ the structures *)
Definition U8 := TU 8. Definition U16 := TU 16. Definition U32 := TU 32. Definition U64 := TU 64.
Fixpoint mk_fields (l : list (Z * presence * ty)) : fields :=
  match l with [] => FNil | (k, p, t) :: r => FCons k p t (mk_fields r) end.
Definition S_ (l : list (Z * presence * ty)) : ty := TMap false [] (mk_fields l).
(* a structure whose listed members accumulate over repeated keys *)
Definition SA_ (accs : list bool) (l : list (Z * presence * ty)) : ty := TMap false accs (mk_fields l).

Local Open Scope Z_scope.
Definition StorageHints : ty := S_ [(0, Mand, U32); (1, Mand, U32); (2, Mand, U8); (3, Mand, U8)].
Definition StorageParameters : ty :=
  S_ [(0, Mand, U64); (1, Mand, U64); (2, Mand, StorageHints); (3, Mand, TArr U8); (4, Mand, TArr U16);
      (5, Opt, U8); (6, Opt, U8); (7, Opt, U8); (8, Opt, U8); (9, Opt, U8); (10, Opt, TText); (11, Opt, TText)].
Definition CollectionParameters : ty :=
  S_ [(0, Opt, U64); (1, Opt, U64); (2, Opt, U64); (3, Opt, TBool); (4, NonEmpty, TArr TText);
      (5, NonEmpty, TArr TBytes); (6, NonEmpty, TArr U16); (7, Opt, TText); (8, Opt, TText); (9, Opt, TText)].
Definition BlockParameters : ty := S_ [(0, Mand, StorageParameters); (1, Opt, CollectionParameters)].
Definition FilePreamble : ty := S_ [(0, Mand, U8); (1, Mand, U8); (2, Opt, U8); (3, MandNE, TArr BlockParameters)].

Definition ClassType : ty := S_ [(0, Mand, U16); (1, Mand, U16)].
Definition QueryResponseSignature : ty :=
  S_ [(0, Opt, U32); (1, Opt, U16); (2, Opt, U8); (3, Opt, U8); (4, Opt, U8); (5, Opt, U8); (6, Opt, U16);
      (7, Opt, U16); (8, Opt, U32); (9, Opt, U16); (10, Opt, U32); (11, Opt, U16); (12, Opt, U16);
      (13, Opt, U8); (14, Opt, U16); (15, Opt, U32); (16, Opt, U16)].
Definition Question : ty := S_ [(0, Mand, U32); (1, Mand, U32)].
Definition RR : ty := S_ [(0, Mand, U32); (1, Mand, U32); (2, Opt, U32); (3, Opt, U32)].
Definition MalformedMessageData : ty := S_ [(0, Opt, U32); (1, Opt, U16); (2, Opt, U8); (3, Opt, TBytes)].
Definition ResponseProcessingData : ty := S_ [(0, Opt, U32); (1, Opt, U8)].
Definition QueryResponseExtended : ty := S_ [(0, Opt, U32); (1, Opt, U32); (2, Opt, U32); (3, Opt, U32)].
Definition BlockPreamble : ty := S_ [(0, Always, TTime); (1, Opt, U32)].
Definition BlockStatistics : ty := S_ [(0, Opt, U32); (1, Opt, U32); (2, Opt, U32); (3, Opt, U32); (4, Opt, U32); (5, Opt, U32)].
(* QueryResponse: member 0 is the time offset already expressed in ticks from the block's earliest time *)
Definition QueryResponse : ty :=
  TMap true [] (mk_fields
     [(0, Opt, U64); (1, Opt, U32); (2, Opt, U16); (3, Opt, U16); (4, Opt, U32); (5, Opt, U8); (6, Opt, TI);
      (7, Opt, U32); (8, Opt, U64); (9, Opt, U64); (10, Opt, ResponseProcessingData);
      (11, Opt, QueryResponseExtended); (12, Opt, QueryResponseExtended);
      (-1, Opt, TText); (-2, Opt, TText); (-3, Opt, TI)]).
Definition AddressEventCount : ty := S_ [(0, Mand, U8); (1, Opt, U8); (2, Mand, U32); (3, Opt, U8); (4, Mand, U64)].
Definition MalformedMessage : ty := S_ [(0, Opt, U64); (1, Opt, U32); (2, Opt, U16); (3, Opt, U32)].
Definition BlockTables : ty :=
  SA_ [true; true; true; true; true; true; true; true; true] [(0, NonEmpty, TArr TBytes); (1, NonEmpty, TArr ClassType); (2, NonEmpty, TArr TBytes);
      (3, NonEmpty, TArr QueryResponseSignature); (4, NonEmpty, TArr TIdx); (5, NonEmpty, TArr Question);
      (6, NonEmpty, TArr TIdx); (7, NonEmpty, TArr RR); (8, NonEmpty, TArr MalformedMessageData)].
Definition Block : ty :=
  SA_ [false; false; true; true; true; true] [(0, Mand, BlockPreamble); (1, Opt, BlockStatistics); (2, Opt, BlockTables);
      (3, NonEmpty, TArr QueryResponse); (4, NonEmpty, TArr AddressEventCount); (5, NonEmpty, TArr MalformedMessage)].
Local Close Scope Z_scope.

Definition struct_by_name : list (list N * ty) := [].   (* names are resolved in the drivers *)

(* one structure written through a fresh encoder and flushed: (bytes, return value) *)
Definition write_struct (t : ty) (v : val) : list N * N :=
  let '(e, rs) := eruns enc_init (write_val t v) in
  (stream (flush e), fold_left N.add rs 0).
